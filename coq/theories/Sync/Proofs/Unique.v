(* Property C01, clause "every connected peer holds EXACTLY ONE live entity for each surviving uuid", its
   "at most one" half, on the frame-level model:

     uuid_unique pr : no two live entities of a peer carry SyncEntity with the same uuid.

   Who creates a holder of a uuid (a live SyncEntity, or a pending command that will write one):
     - the HOST handler of MSpawn u: always (no duplicate check), a fresh replica id;
     - the CLIENT handler of MSpawn u: unless u is in despawned_locally (t_tomb) or uuid_to_entity names an entity
       for u that is alive or reserved (the duplicate guard);
     - entity_created_on_server / _on_client for an entity e with a new SyncMark: uuid e (the model's fresh uuid of a
       script entity is its id), whatever else carries uuid e.
   Nothing else does (deferred commands, application operations and the other systems only remove holders or turn
   a pending one into a live one), provided application systems queue no CSpawnSync / CInsertSync.

   Results.
   1. uuid_unique is NOT an invariant of the runs allowed by uuid_conforming (= marks_script_only + no naming
      command), nor by hier_conforming: two peers may mark script entities with the same id, hence the same uuid
      (uuid_unique_refuted: on the host; uuid_unique_refuted_on_client; remark_effect: SyncMark inserted twice).
      It is not an invariant under Panic.conforming either (script ids globally fresh, marked once):
      uuid_unique_refuted_conforming (Panic.self_client, three_hosts: oracles not tied to the set-ups) and
      uuid_unique_refuted_conforming_client (stale_inbox: an executable order Bevy does not build + an inbox that
      survives a re-connect).  So no premise on APPLICATION OPERATIONS alone is enough on this model: what is needed is
      what the event-level theorem C01_host_never_receives_duplicate provides, a statement on the announcements a
      peer receives.
   2. The link `tracked_ents` (every live synchronised entity is the one uuid_to_entity names for its uuid) is not an
      invariant, not even of conforming runs (tracked_refuted); it is not needed.
   3. Premise spawns_fresh (decidable, evaluated on the state a frame starts from, one check per StFrame):
        - no marked entity's id is the uuid of another holder (mkfb);
        - a peer whose ServerState is Connected in this frame (strictb): every MSpawn u waiting in an inbox has no
          holder on the peer, u is not the id of a marked entity nor named by a pending CInsertSync, and u is announced
          once among all waiting messages;
        - a peer that is only a connected client (guardedb): for every waiting MSpawn u, every holder e of u is
          protected by the duplicate guard (uuid_to_entity !! u = e, or u in despawned_locally), u is not the id of a
          marked entity, and no MDelete u waits before it (or in another inbox);
        - a peer in neither state: nothing (no handler runs).
      Theorem grun_uuid_unique: uuid_conforming n tr -> spawns_fresh n tr -> uuid_unique in every reachable state of
      every peer, for all orders, oracles, interleavings, reorderings.  Of uuid_conforming only "no naming command" is
      used (grun_uuid_unique_names); uuid_inv, tracker_inv, u2e_ok are not needed.
      One frame: frame_unique_inv (invariant K = unique_inv: uniqueness counting pending holders + bookkeeping of the
      replica allocator); one application operation: app_step_unique_inv.
      The premise holds of Hierarchy.whole, where the client receives every announcement twice (live + snapshot),
      of Panic.demo, Panic.odd_order and of a three-peer hand-over (`handover`: promotion, the old host re-joins and
      gets its own entities back in the snapshot); every counterexample violates it, clause by clause (section 9).
      Known slack: a peer that is host and connected client at once (hand-over) is checked strictly; an MDelete u
      waiting before an MSpawn u is refused although harmless at frame ends (reuse_not_fresh). *)
From stdpp Require Import gmap list.
From Coq Require Import NArith Lia.
From RecordUpdate Require Import RecordSet.
From BS Require Import Sync.Types Sync.Model Sync.Observe Sync.UniquePremise.
From BS Require Import Sync.Proofs.PanicLemmas Sync.Proofs.Hierarchy Sync.Proofs.Panic Sync.Proofs.Tracker
  Sync.Proofs.UuidStable.
Import RecordSetNotations.
Local Open Scope N_scope.



(* ================================================================================================ *)
(* 1. Lists of waiting commands / messages                                                           *)
(* ================================================================================================ *)

Definition allq (q : gmap N (list cmd)) (extra : list cmd) : list cmd := extra ++ cmds_l q.

Lemma sid_names c : names_uuid c = false -> sid c = None.
Proof. destruct c; simpl; intros H; try discriminate; reflexivity. Qed.

Lemma elem_of_cmds_l q c : c ∈ cmds_l q <-> exists k cs, q !! k = Some cs /\ c ∈ cs.
Proof.
  unfold cmds_l. rewrite elem_of_list_bind. split.
  - intros ([k cs] & Hin & Hl). apply elem_of_map_to_list in Hl. exists k, cs. split; [exact Hl|exact Hin].
  - intros (k & cs & Hl & Hin). exists (k, cs). split; [exact Hin|apply elem_of_map_to_list; exact Hl].
Qed.
Lemma elem_of_allq q extra c : c ∈ allq q extra <-> queued_ q extra c.
Proof. unfold allq, queued_. rewrite elem_of_app, elem_of_cmds_l. reflexivity. Qed.

Lemma bind_delete_perm {A B} (m : gmap N A) (f : N * A -> list B) k x :
  m !! k = Some x -> map_to_list m ≫= f ≡ₚ f (k, x) ++ (map_to_list (delete k m) ≫= f).
Proof. intros H. rewrite <- (map_to_list_delete m k x H). reflexivity. Qed.
Lemma bind_insert_perm {A B} (m : gmap N A) (f : N * A -> list B) k x :
  map_to_list (<[k := x]> m) ≫= f ≡ₚ f (k, x) ++ (map_to_list (delete k m) ≫= f).
Proof. rewrite <- insert_delete_insert. rewrite map_to_list_insert by apply lookup_delete. reflexivity. Qed.

Lemma cmds_l_push q k c : cmds_l (<[k := default [] (q !! k) ++ [c]]> q) ≡ₚ c :: cmds_l q.
Proof.
  unfold cmds_l. rewrite bind_insert_perm. destruct (q !! k) as [l|] eqn:E; simpl.
  - rewrite (bind_delete_perm q snd k l E). simpl. rewrite <- app_assoc. simpl. symmetry. apply Permutation_middle.
  - rewrite delete_notin by exact E. reflexivity.
Qed.
Lemma cmds_l_take q k cs : q !! k = Some cs -> cs ++ cmds_l (delete k q) ≡ₚ cmds_l q.
Proof. intros H. unfold cmds_l. rewrite (bind_delete_perm q snd k cs H). reflexivity. Qed.

Lemma NoDup_submseteq_inv {A} (l k : list A) : l ⊆+ k -> NoDup k -> NoDup l.
Proof.
  intros H Hk. apply submseteq_Permutation in H as [k' Hp]. rewrite Hp in Hk.
  apply NoDup_app in Hk as [Hk _]. exact Hk.
Qed.

Lemma elem_of_inbox_spawns a u : u ∈ inbox_spawns a <-> exists s l, n_inbox a !! s = Some l /\ MSpawn u ∈ l.
Proof.
  unfold inbox_spawns. rewrite elem_of_list_bind. split.
  - intros ([s l] & Hin & Hl). apply elem_of_map_to_list in Hl. exists s, l. split; [exact Hl|].
    simpl in Hin. unfold spawns_of in Hin. apply elem_of_list_omap in Hin as (m & Hm & Hu).
    destruct m; try discriminate. simpl in Hu. injection Hu as ->. exact Hm.
  - intros (s & l & Hl & Hin). exists (s, l). split; [|apply elem_of_map_to_list; exact Hl].
    simpl. unfold spawns_of. apply elem_of_list_omap. exists (MSpawn u). split; [exact Hin|reflexivity].
Qed.

(* ================================================================================================ *)
(* 2. The invariant                                                                                  *)
(* ================================================================================================ *)

Definition has_uuid (a : peer_state) (e : ent) (u : uuid) : Prop :=
  exists en, p_ents a !! e = Some en /\ en_sync en = Some u.
(* what makes id e stand for uuid u now or after the pending commands *)
Definition holder (a : peer_state) (extra : list cmd) (e : ent) (u : uuid) : Prop :=
  has_uuid a e u \/ queued a extra (CSpawnSync e u) \/ queued a extra (CInsertSync e u).
Definition marked_live (a : peer_state) (e : ent) : Prop :=
  exists en, p_ents a !! e = Some en /\ en_mark en <> None.

Definition UQ (a : peer_state) (extra : list cmd) : Prop :=
  forall e1 e2 u, holder a extra e1 u -> holder a extra e2 u -> e1 = e2.
Definition MKF (a : peer_state) (extra : list cmd) : Prop :=
  forall e e', marked_live a e -> holder a extra e' e -> e' = e.
Definition NI (a : peer_state) (extra : list cmd) (u : uuid) : Prop :=
  ~ marked_live a u /\ forall e, ~ queued a extra (CInsertSync e u).
Definition in_spawn (a : peer_state) (u : uuid) : Prop :=
  exists s l, n_inbox a !! s = Some l /\ MSpawn u ∈ l.
Definition STR (a : peer_state) (extra : list cmd) : Prop :=
  NoDup (inbox_spawns a) /\ forall u, in_spawn a u -> NI a extra u /\ forall e, ~ holder a extra e u.
Definition DCL (a : peer_state) : Prop :=
  (forall s l, n_inbox a !! s = Some l -> del_okb l = true) /\
  (forall s s' l l' u, s <> s' -> n_inbox a !! s = Some l -> n_inbox a !! s' = Some l' ->
                       MDelete u ∈ l -> MSpawn u ∈ l' -> False).
Definition G (a : peer_state) (extra : list cmd) (u : uuid) : Prop :=
  forall e, holder a extra e u -> memN u (t_tomb a) = true \/ t_u2e a !! u = Some e.
Definition GRD (a : peer_state) (extra : list cmd) : Prop :=
  DCL a /\ forall u, in_spawn a u -> NI a extra u /\ G a extra u.
Definition INB (ss : sstate) (sc : cstate) (a : peer_state) (extra : list cmd) : Prop :=
  if is_srv_connected ss then STR a extra else if is_cli_connected sc then GRD a extra else True.

Record W (ss : sstate) (sc : cstate) (a : peer_state) (extra : list cmd) : Prop := {
  w_ss : s_server a = ss;
  w_sc : s_client a = sc;
  w_app : forall x, x ∈ p_app_cmds a -> names_uuid x.2 = false;
  w_old : forall e u, queued a extra (CSpawnSync e u) -> e < p_next_ent a;
  w_nodup : NoDup (omap sid (allq (p_cmdq a) extra));
  w_res : forall e u, queued a extra (CSpawnSync e u) -> memN e (p_reserved a) = true;
  w_uq : UQ a extra;
  w_mkf : MKF a extra;
  w_inb : INB ss sc a extra;
}.

Lemma uq_unique a extra : UQ a extra -> uuid_unique a.
Proof.
  intros H e1 e2 en1 en2 u H1 H2 H3 H4. apply (H e1 e2 u); left; eexists; split; eassumption.
Qed.

(* ---------- the generic step: nothing new ----------------------------------------------------------- *)

Lemma W_shrink0 ss sc a extra b extra' :
  s_server b = s_server a -> s_client b = s_client a ->
  (forall x, x ∈ p_app_cmds b -> x ∈ p_app_cmds a) ->
  p_next_ent a <= p_next_ent b ->
  (forall c, names_uuid c = true -> queued b extra' c -> queued a extra c) ->
  omap sid (allq (p_cmdq b) extra') ⊆+ omap sid (allq (p_cmdq a) extra) ->
  (forall e u, queued b extra' (CSpawnSync e u) -> memN e (p_reserved b) = true) ->
  (forall e u, has_uuid b e u -> holder a extra e u) ->
  (forall e, marked_live b e -> marked_live a e) ->
  W ss sc a extra -> INB ss sc b extra' -> W ss sc b extra'.
Proof.
  intros Hss Hsc Happ Hnext Hq Hsub Hres Hlive Hmk HW HI.
  assert (Hh : forall e u, holder b extra' e u -> holder a extra e u).
  { intros e u [H|[H|H]]; [apply Hlive; exact H|right; left|right; right]; apply Hq; try exact H; reflexivity. }
  constructor.
  - rewrite Hss. apply (w_ss _ _ _ _ HW).
  - rewrite Hsc. apply (w_sc _ _ _ _ HW).
  - intros x Hx. apply (w_app _ _ _ _ HW). apply Happ. exact Hx.
  - intros e u H. pose proof (w_old _ _ _ _ HW e u (Hq (CSpawnSync e u) eq_refl H)). lia.
  - eapply NoDup_submseteq_inv; [exact Hsub|apply (w_nodup _ _ _ _ HW)].
  - exact Hres.
  - intros e1 e2 u H1 H2. apply (w_uq _ _ _ _ HW e1 e2 u); apply Hh; assumption.
  - intros e e' H1 H2. apply (w_mkf _ _ _ _ HW e e'); [apply Hmk; exact H1|apply Hh; exact H2].
  - exact HI.
Qed.

Lemma holder_shrink a extra b extra' :
  (forall c, names_uuid c = true -> queued b extra' c -> queued a extra c) ->
  (forall e u, has_uuid b e u -> holder a extra e u) ->
  forall e u, holder b extra' e u -> holder a extra e u.
Proof.
  intros Hq Hlive e u [H|[H|H]]; [apply Hlive; exact H|right; left|right; right]; apply Hq; try exact H; reflexivity.
Qed.
Lemma NI_shrink a extra b extra' u :
  (forall c, names_uuid c = true -> queued b extra' c -> queued a extra c) ->
  (forall e, marked_live b e -> marked_live a e) ->
  NI a extra u -> NI b extra' u.
Proof.
  intros Hq Hmk [H1 H2]. split; [intros H; apply H1, Hmk, H|].
  intros e H. apply (H2 e). apply Hq; [reflexivity|exact H].
Qed.

Lemma INB_shrink ss sc a extra b extra' :
  n_inbox b = n_inbox a -> t_u2e b = t_u2e a -> t_tomb b = t_tomb a ->
  (forall c, names_uuid c = true -> queued b extra' c -> queued a extra c) ->
  (forall e u, has_uuid b e u -> holder a extra e u) ->
  (forall e, marked_live b e -> marked_live a e) ->
  INB ss sc a extra -> INB ss sc b extra'.
Proof.
  intros Hib Hu2e Htomb Hq Hlive Hmk HI.
  pose proof (holder_shrink a extra b extra' Hq Hlive) as Hh.
  assert (Hin : forall u, in_spawn b u -> in_spawn a u).
  { intros u (s & l & Hl & Hm). exists s, l. rewrite <- Hib. split; assumption. }
  unfold INB in *.
  destruct (is_srv_connected ss); [|destruct (is_cli_connected sc); [|exact I]].
  - destruct HI as [Hnd HI]. split; [unfold inbox_spawns in *; rewrite Hib; exact Hnd|].
    intros u Hu. destruct (HI u (Hin u Hu)) as [H1 H2]. split; [eapply NI_shrink; eassumption|].
    intros e He. apply (H2 e). apply Hh. exact He.
  - destruct HI as [Hd HI]. split; [unfold DCL in *; rewrite Hib; exact Hd|].
    intros u Hu. destruct (HI u (Hin u Hu)) as [H1 H2]. split; [eapply NI_shrink; eassumption|].
    intros e He. rewrite Htomb, Hu2e. apply H2. apply Hh. exact He.
Qed.

Lemma W_shrink ss sc a extra b extra' :
  s_server b = s_server a -> s_client b = s_client a -> n_inbox b = n_inbox a ->
  t_u2e b = t_u2e a -> t_tomb b = t_tomb a ->
  (forall x, x ∈ p_app_cmds b -> x ∈ p_app_cmds a) ->
  p_next_ent a <= p_next_ent b ->
  (forall c, names_uuid c = true -> queued b extra' c -> queued a extra c) ->
  omap sid (allq (p_cmdq b) extra') ⊆+ omap sid (allq (p_cmdq a) extra) ->
  (forall e u, queued b extra' (CSpawnSync e u) -> memN e (p_reserved b) = true) ->
  (forall e u, has_uuid b e u -> holder a extra e u) ->
  (forall e, marked_live b e -> marked_live a e) ->
  W ss sc a extra -> W ss sc b extra'.
Proof.
  intros Hss Hsc Hib Hu2e Htomb Happ Hnext Hq Hsub Hres Hlive Hmk HW.
  apply (W_shrink0 ss sc a extra b extra'); try assumption.
  apply (INB_shrink ss sc a extra b extra'); try assumption. apply (w_inb _ _ _ _ HW).
Qed.

Lemma live_ext a b e u : p_ents b = p_ents a -> has_uuid b e u -> has_uuid a e u.
Proof. unfold has_uuid. intros ->. auto. Qed.
Lemma marked_live_ext a b e : p_ents b = p_ents a -> marked_live b e -> marked_live a e.
Proof. unfold marked_live. intros ->. auto. Qed.
Lemma queued_ext a b extra c : p_cmdq b = p_cmdq a -> queued b extra c -> queued a extra c.
Proof. unfold queued. intros ->. auto. Qed.

(* the fields the invariant reads *)
Definition rd (a : peer_state) :=
  (p_app_cmds a, p_ents a, p_cmdq a, p_next_ent a, p_reserved a, n_inbox a, t_u2e a, t_tomb a, s_server a, s_client a).
Lemma rd_inv a b : rd b = rd a ->
  p_app_cmds b = p_app_cmds a /\ p_ents b = p_ents a /\ p_cmdq b = p_cmdq a /\ p_next_ent b = p_next_ent a /\
  p_reserved b = p_reserved a /\ n_inbox b = n_inbox a /\ t_u2e b = t_u2e a /\ t_tomb b = t_tomb a /\
  s_server b = s_server a /\ s_client b = s_client a.
Proof. unfold rd. intros H. injection H as -> -> -> -> -> -> -> -> -> ->. repeat split. Qed.

Lemma W_ext ss sc a b extra : rd b = rd a -> W ss sc a extra -> W ss sc b extra.
Proof.
  intros H. apply rd_inv in H as (H1 & H2 & H3 & H4 & H5 & H6 & H7 & H8 & H9 & H10).
  intros HW. apply (W_shrink ss sc a extra b extra); try assumption.
  - rewrite H1. auto.
  - rewrite H4. lia.
  - intros c _. apply queued_ext. exact H3.
  - rewrite H3. reflexivity.
  - intros e u Hq. rewrite H5. apply (w_res _ _ _ _ HW e u). eapply queued_ext; eassumption.
  - intros e u Hl. left. eapply live_ext; eassumption.
  - intros e. apply marked_live_ext. exact H2.
Qed.

(* one more command in a buffer, not a naming one *)
Lemma W_push ss sc a b extra k c :
  names_uuid c = false ->
  p_app_cmds b = p_app_cmds a -> p_ents b = p_ents a -> p_next_ent b = p_next_ent a ->
  p_reserved b = p_reserved a -> n_inbox b = n_inbox a -> t_u2e b = t_u2e a -> t_tomb b = t_tomb a ->
  s_server b = s_server a -> s_client b = s_client a ->
  p_cmdq b = <[k := default [] (p_cmdq a !! k) ++ [c]]> (p_cmdq a) ->
  W ss sc a extra -> W ss sc b extra.
Proof.
  intros Hc H1 H2 H4 H5 H6 H7 H8 H9 H10 Hq HW.
  assert (Hqq : forall x, names_uuid x = true -> queued b extra x -> queued a extra x).
  { intros x Hx H. unfold queued in *. rewrite Hq in H. apply queued_push_ in H as [H| ->]; [exact H|congruence]. }
  apply (W_shrink ss sc a extra b extra); try assumption.
  - rewrite H1. auto.
  - rewrite H4. lia.
  - rewrite Hq. unfold allq. rewrite cmds_l_push.
    rewrite <- Permutation_middle. simpl. rewrite (sid_names c Hc). reflexivity.
  - intros e u H. rewrite H5. apply (w_res _ _ _ _ HW e u). apply Hqq; [reflexivity|exact H].
  - intros e u Hl. left. eapply live_ext; eassumption.
  - intros e. apply marked_live_ext. exact H2.
Qed.

Lemma W_push_cmd ss sc a extra k c : names_uuid c = false -> W ss sc a extra -> W ss sc (push_cmd a k c) extra.
Proof. intros Hc. apply (W_push ss sc a _ extra k c Hc); reflexivity. Qed.

(* ---------- only the tracker maps change --------------------------------------------------------------- *)

Lemma W_u2e ss sc a b extra :
  p_app_cmds b = p_app_cmds a -> p_ents b = p_ents a -> p_cmdq b = p_cmdq a -> p_next_ent b = p_next_ent a ->
  p_reserved b = p_reserved a -> n_inbox b = n_inbox a -> s_server b = s_server a -> s_client b = s_client a ->
  (is_srv_connected ss = false -> is_cli_connected sc = true -> forall u, in_spawn a u ->
     (memN u (t_tomb a) = true -> memN u (t_tomb b) = true) /\
     (forall e, t_u2e a !! u = Some e -> memN u (t_tomb b) = true \/ t_u2e b !! u = Some e)) ->
  W ss sc a extra -> W ss sc b extra.
Proof.
  intros H1 H2 H3 H4 H5 H6 H9 H10 Hprot HW.
  assert (Hq : forall c, names_uuid c = true -> queued b extra c -> queued a extra c).
  { intros c _. apply queued_ext. exact H3. }
  assert (Hlive : forall e u, has_uuid b e u -> holder a extra e u).
  { intros e u Hl. left. eapply live_ext; eassumption. }
  assert (Hmk : forall e, marked_live b e -> marked_live a e).
  { intros e. apply marked_live_ext. exact H2. }
  apply (W_shrink0 ss sc a extra b extra); try assumption.
  - rewrite H1. auto.
  - rewrite H4. lia.
  - rewrite H3. reflexivity.
  - intros e u Hqq. rewrite H5. apply (w_res _ _ _ _ HW e u). apply Hq; [reflexivity|exact Hqq].
  - pose proof (w_inb _ _ _ _ HW) as HI. unfold INB in *.
    pose proof (holder_shrink a extra b extra Hq Hlive) as Hh.
    assert (Hin : forall u, in_spawn b u -> in_spawn a u).
    { intros u (s & l & Hl & Hm). exists s, l. rewrite <- H6. split; assumption. }
    destruct (is_srv_connected ss) eqn:Es; [|destruct (is_cli_connected sc) eqn:Ec; [|exact I]].
    + destruct HI as [Hnd HI]. split; [unfold inbox_spawns in *; rewrite H6; exact Hnd|].
      intros u Hu. destruct (HI u (Hin u Hu)) as [G1 G2]. split; [eapply NI_shrink; eassumption|].
      intros e He. apply (G2 e). apply Hh. exact He.
    + destruct HI as [Hd HI]. split; [unfold DCL in *; rewrite H6; exact Hd|].
      intros u Hu. destruct (HI u (Hin u Hu)) as [G1 G2]. split; [eapply NI_shrink; eassumption|].
      destruct (Hprot eq_refl eq_refl u (Hin u Hu)) as [P1 P2].
      intros e He. destruct (G2 e (Hh e u He)) as [Ht|Ht]; [left; apply P1; exact Ht|apply P2; exact Ht].
Qed.

(* ---------- a message leaves an inbox ------------------------------------------------------------------- *)

Lemma spawns_of_cons m l :
  spawns_of (m :: l) = match m with MSpawn u => u :: spawns_of l | _ => spawns_of l end.
Proof. destruct m; reflexivity. Qed.

Lemma elem_of_spawns_of u l : u ∈ spawns_of l <-> MSpawn u ∈ l.
Proof.
  unfold spawns_of. rewrite elem_of_list_omap. split.
  - intros (m & Hm & Hu). destruct m; try discriminate. simpl in Hu. injection Hu as ->. exact Hm.
  - intros H. exists (MSpawn u). split; [exact H|reflexivity].
Qed.

Lemma del_okb_tail m l : del_okb (m :: l) = true -> del_okb l = true.
Proof. destruct m; simpl; try (intros H; exact H). intros H. apply andb_true_iff in H as [_ H]. exact H. Qed.

Definition popped_facts (ss : sstate) (sc : cstate) (a : peer_state) (extra : list cmd) (m : msg) : Prop :=
  match m with
  | MSpawn u =>
      (is_srv_connected ss = true -> NI a extra u /\ (forall e, ~ holder a extra e u) /\ ~ in_spawn a u) /\
      (is_srv_connected ss = false -> is_cli_connected sc = true -> NI a extra u /\ G a extra u)
  | MDelete u => is_srv_connected ss = false -> is_cli_connected sc = true -> ~ in_spawn a u
  | _ => True
  end.

Lemma W_pop ss sc a extra from m rest_ :
  n_inbox a !! from = Some (m :: rest_) -> W ss sc a extra ->
  W ss sc (a <| n_inbox := <[from := rest_]> (n_inbox a) |>) extra /\
  popped_facts ss sc (a <| n_inbox := <[from := rest_]> (n_inbox a) |>) extra m.
Proof.
  intros Hl HW. set (a' := a <| n_inbox := <[from := rest_]> (n_inbox a) |>).
  assert (Hin : forall u, in_spawn a' u -> in_spawn a u).
  { intros u (s & l & Hs & Hm). simpl in Hs. destruct (decide (s = from)) as [->|Hne].
    - rewrite lookup_insert in Hs. injection Hs as <-. exists from, (m :: rest_). split; [exact Hl|right; exact Hm].
    - rewrite lookup_insert_ne in Hs by congruence. exists s, l. split; assumption. }
  assert (Hperm : exists R, inbox_spawns a ≡ₚ spawns_of (m :: rest_) ++ R /\ inbox_spawns a' ≡ₚ spawns_of rest_ ++ R).
  { exists (map_to_list (delete from (n_inbox a)) ≫= (fun x => spawns_of x.2)). split.
    - unfold inbox_spawns. rewrite (bind_delete_perm _ _ from _ Hl). reflexivity.
    - unfold inbox_spawns, a'. simpl. rewrite bind_insert_perm. reflexivity. }
  destruct Hperm as (R & HpA & HpB).
  pose proof (w_inb _ _ _ _ HW) as HI.
  assert (HI' : INB ss sc a' extra).
  { unfold INB in *. destruct (is_srv_connected ss); [|destruct (is_cli_connected sc); [|exact I]].
    - destruct HI as [Hnd HI]. split.
      + rewrite HpB. rewrite HpA in Hnd. rewrite spawns_of_cons in Hnd.
        destruct m; try exact Hnd. simpl in Hnd. apply NoDup_cons in Hnd as [_ Hnd]. exact Hnd.
      + intros u Hu. apply (HI u (Hin u Hu)).
    - destruct HI as [[Hd1 Hd2] HI]. split; [split|].
      + intros s l Hs. simpl in Hs. destruct (decide (s = from)) as [->|Hne].
        * rewrite lookup_insert in Hs. injection Hs as <-. eapply del_okb_tail. apply (Hd1 from _ Hl).
        * rewrite lookup_insert_ne in Hs by congruence. apply (Hd1 s l Hs).
      + intros s s' l l' u Hne Hs Hs' Hdel Hsp. simpl in Hs, Hs'.
        assert (Hs0 : exists l0, n_inbox a !! s = Some l0 /\ MDelete u ∈ l0).
        { destruct (decide (s = from)) as [->|Hn].
          - rewrite lookup_insert in Hs. injection Hs as <-. exists (m :: rest_). split; [exact Hl|right; exact Hdel].
          - rewrite lookup_insert_ne in Hs by congruence. exists l. split; assumption. }
        assert (Hs0' : exists l0, n_inbox a !! s' = Some l0 /\ MSpawn u ∈ l0).
        { destruct (decide (s' = from)) as [->|Hn].
          - rewrite lookup_insert in Hs'. injection Hs' as <-. exists (m :: rest_). split; [exact Hl|right; exact Hsp].
          - rewrite lookup_insert_ne in Hs' by congruence. exists l'. split; assumption. }
        destruct Hs0 as (l0 & A1 & A2). destruct Hs0' as (l0' & B1 & B2).
        apply (Hd2 s s' l0 l0' u Hne A1 B1 A2 B2).
      + intros u Hu. apply (HI u (Hin u Hu)). }
  split.
  - apply (W_shrink0 ss sc a extra a' extra); [reflexivity|reflexivity|auto|simpl; lia|auto| | | | |exact HW|exact HI'].
    + change (p_cmdq a') with (p_cmdq a). reflexivity.
    + intros e u Hq. apply (w_res _ _ _ _ HW e u Hq).
    + intros e u H. left. exact H.
    + auto.
  - unfold popped_facts. destruct m as [u|c p|u|u t v|x v|c x owner| |h| |]; try exact I.
    + (* MSpawn u *)
      assert (Hu : in_spawn a u) by (exists from, (MSpawn u :: rest_); split; [exact Hl|left]).
      unfold INB in HI. split.
      * intros Es. rewrite Es in HI. destruct HI as [Hnd HI]. destruct (HI u Hu) as [G1 G2].
        split; [exact G1|split; [exact G2|]].
        intros Hu'. rewrite HpA in Hnd. rewrite spawns_of_cons in Hnd. apply NoDup_cons in Hnd as [Hnd _].
        apply Hnd. rewrite <- HpB. apply elem_of_inbox_spawns. exact Hu'.
      * intros Es Ec. rewrite Es, Ec in HI. apply (proj2 HI u Hu).
    + (* MDelete u *)
      intros Es Ec. unfold INB in HI. rewrite Es, Ec in HI. destruct HI as [[Hd1 Hd2] _].
      intros (s & l & Hs & Hm). simpl in Hs. destruct (decide (s = from)) as [->|Hne].
      * rewrite lookup_insert in Hs. injection Hs as <-.
        pose proof (Hd1 from _ Hl) as Hd. simpl in Hd. apply andb_true_iff in Hd as [Hd _].
        apply negb_true_iff in Hd. apply elem_of_spawns_of in Hm. apply memN_elem in Hm. congruence.
      * rewrite lookup_insert_ne in Hs by congruence.
        apply (Hd2 from s (MDelete u :: rest_) l u); [congruence|exact Hl|exact Hs|left|exact Hm].
Qed.

(* ---------- a marked entity is registered: entity_created_on_server / entity_created_on_client ---------- *)

Lemma allq_push_perm q extra k c :
  allq (<[k := default [] (q !! k) ++ [c]]> q) extra ≡ₚ c :: allq q extra.
Proof. unfold allq. rewrite cmds_l_push. symmetry. apply Permutation_middle. Qed.

Lemma W_created ss sc a b extra k e :
  p_app_cmds b = p_app_cmds a -> p_ents b = p_ents a -> p_next_ent b = p_next_ent a ->
  p_reserved b = p_reserved a -> n_inbox b = n_inbox a -> t_tomb b = t_tomb a ->
  s_server b = s_server a -> s_client b = s_client a ->
  t_u2e b = <[e := e]> (t_u2e a) ->
  p_cmdq b = <[k := default [] (p_cmdq a !! k) ++ [CInsertSync e e]]> (p_cmdq a) ->
  marked_live a e ->
  W ss sc a extra -> W ss sc b extra.
Proof.
  intros H1 H2 H4 H5 H6 H8 H9 H10 Hu2e Hq Hm HW.
  assert (Hqb : forall x, queued b extra x -> queued a extra x \/ x = CInsertSync e e).
  { intros x H. unfold queued in *. rewrite Hq in H. apply queued_push_ in H. exact H. }
  assert (Hhb : forall e' u, holder b extra e' u -> holder a extra e' u \/ (e' = e /\ u = e)).
  { intros e' u [H|[H|H]].
    - left. left. eapply live_ext; eassumption.
    - destruct (Hqb _ H) as [H'|H']; [left; right; left; exact H'|discriminate].
    - destruct (Hqb _ H) as [H'|H']; [left; right; right; exact H'|]. injection H' as -> ->. right. split; reflexivity. }
  assert (Hin : forall u, in_spawn b u -> in_spawn a u).
  { intros u (s & l & Hl & Hx). exists s, l. rewrite <- H6. split; assumption. }
  assert (Hmk : forall x, marked_live b x -> marked_live a x) by (intros x; apply marked_live_ext; exact H2).
  assert (Hne : forall u, NI a extra u -> u <> e).
  { intros u [Hn _] ->. apply Hn. exact Hm. }
  assert (Hni : forall u, NI a extra u -> NI b extra u).
  { intros u Hn. pose proof (Hne u Hn) as Hue. destruct Hn as [N1 N2]. split; [intros H; apply N1, Hmk, H|].
    intros e' H. destruct (Hqb _ H) as [H'|H']; [apply (N2 e' H')|]. injection H' as _ ->. congruence. }
  constructor.
  - rewrite H9. apply (w_ss _ _ _ _ HW).
  - rewrite H10. apply (w_sc _ _ _ _ HW).
  - rewrite H1. apply (w_app _ _ _ _ HW).
  - intros e' u H. rewrite H4. destruct (Hqb _ H) as [H'|H']; [apply (w_old _ _ _ _ HW e' u H')|discriminate].
  - rewrite Hq, allq_push_perm. simpl. apply (w_nodup _ _ _ _ HW).
  - intros e' u H. rewrite H5. destruct (Hqb _ H) as [H'|H']; [apply (w_res _ _ _ _ HW e' u H')|discriminate].
  - intros e1 e2 u A B. destruct (Hhb _ _ A) as [A'|[-> ->]]; destruct (Hhb _ _ B) as [B'|[-> Hu]].
    + apply (w_uq _ _ _ _ HW e1 e2 u A' B').
    + subst u. apply (w_mkf _ _ _ _ HW e e1 Hm A').
    + symmetry. apply (w_mkf _ _ _ _ HW e e2 Hm B').
    + reflexivity.
  - intros x e' A B. destruct (Hhb _ _ B) as [B'|[-> ->]]; [|reflexivity].
    apply (w_mkf _ _ _ _ HW x e' (Hmk x A) B').
  - pose proof (w_inb _ _ _ _ HW) as HI. unfold INB in *.
    destruct (is_srv_connected ss); [|destruct (is_cli_connected sc); [|exact I]].
    + destruct HI as [Hnd HI]. split; [unfold inbox_spawns in *; rewrite H6; exact Hnd|].
      intros u Hu. destruct (HI u (Hin u Hu)) as [G1 G2]. split; [apply Hni; exact G1|].
      intros e' He. destruct (Hhb _ _ He) as [He'|[_ ->]]; [apply (G2 e' He')|]. apply (Hne e G1). reflexivity.
    + destruct HI as [Hd HI]. split; [unfold DCL in *; rewrite H6; exact Hd|].
      intros u Hu. destruct (HI u (Hin u Hu)) as [G1 G2]. split; [apply Hni; exact G1|].
      intros e' He. destruct (Hhb _ _ He) as [He'|[_ ->]]; [|exfalso; apply (Hne e G1); reflexivity].
      rewrite H8, Hu2e. rewrite lookup_insert_ne by (intros Hx; apply (Hne u G1); congruence).
      apply (G2 e' He').
Qed.

(* ---------- a replica id is handed out (MSpawn accepted) ---------------------------------------------------- *)

Lemma W_alloc ss sc a b extra k u :
  p_app_cmds b = p_app_cmds a -> p_ents b = p_ents a -> n_inbox b = n_inbox a -> t_tomb b = t_tomb a ->
  s_server b = s_server a -> s_client b = s_client a ->
  p_next_ent b = p_next_ent a + 1 -> p_reserved b = p_next_ent a :: p_reserved a ->
  t_u2e b = <[u := p_next_ent a]> (t_u2e a) ->
  p_cmdq b = <[k := default [] (p_cmdq a !! k) ++ [CSpawnSync (p_next_ent a) u]]> (p_cmdq a) ->
  (forall e, ~ holder a extra e u) -> ~ marked_live a u ->
  (is_srv_connected ss = true -> ~ in_spawn a u) ->
  W ss sc a extra -> W ss sc b extra.
Proof.
  intros H1 H2 H6 H8 H9 H10 Hn Hr Hu2e Hq Hnh Hnm Hns HW.
  set (n := p_next_ent a) in *.
  assert (Hqb : forall x, queued b extra x -> queued a extra x \/ x = CSpawnSync n u).
  { intros x H. unfold queued in *. rewrite Hq in H. apply queued_push_ in H. exact H. }
  assert (Hhb : forall e' u', holder b extra e' u' -> holder a extra e' u' \/ (e' = n /\ u' = u)).
  { intros e' u' [H|[H|H]].
    - left. left. eapply live_ext; eassumption.
    - destruct (Hqb _ H) as [H'|H']; [left; right; left; exact H'|]. injection H' as -> ->. right. split; reflexivity.
    - destruct (Hqb _ H) as [H'|H']; [left; right; right; exact H'|discriminate]. }
  assert (Hin : forall x, in_spawn b x -> in_spawn a x).
  { intros x (s & l & Hl & Hx). exists s, l. rewrite <- H6. split; assumption. }
  assert (Hmk : forall x, marked_live b x -> marked_live a x) by (intros x; apply marked_live_ext; exact H2).
  assert (Hni : forall x, NI a extra x -> NI b extra x).
  { intros x [N1 N2]. split; [intros H; apply N1, Hmk, H|].
    intros e' H. destruct (Hqb _ H) as [H'|H']; [apply (N2 e' H')|discriminate]. }
  constructor.
  - rewrite H9. apply (w_ss _ _ _ _ HW).
  - rewrite H10. apply (w_sc _ _ _ _ HW).
  - rewrite H1. apply (w_app _ _ _ _ HW).
  - intros e' u' H. rewrite Hn. destruct (Hqb _ H) as [H'|H'].
    + pose proof (w_old _ _ _ _ HW e' u' H'). fold n in H0. lia.
    + injection H' as -> _. lia.
  - rewrite Hq, allq_push_perm. simpl. apply NoDup_cons. split; [|apply (w_nodup _ _ _ _ HW)].
    intros Hx. apply elem_of_list_omap in Hx as (c & Hc & Hs). destruct c; try discriminate.
    simpl in Hs. injection Hs as ->. apply elem_of_allq in Hc.
    pose proof (w_old _ _ _ _ HW n u0 Hc) as Hlt. fold n in Hlt. lia.
  - intros e' u' H. rewrite Hr. simpl. destruct (Hqb _ H) as [H'|H'].
    + rewrite (w_res _ _ _ _ HW e' u' H'). apply orb_true_r.
    + injection H' as -> _. rewrite N.eqb_refl. reflexivity.
  - intros e1 e2 u' A B. destruct (Hhb _ _ A) as [A'|[-> ->]]; destruct (Hhb _ _ B) as [B'|[-> Hu]].
    + apply (w_uq _ _ _ _ HW e1 e2 u' A' B').
    + subst u'. destruct (Hnh e1 A').
    + destruct (Hnh e2 B').
    + reflexivity.
  - intros x e' A B. destruct (Hhb _ _ B) as [B'|[-> ->]]; [apply (w_mkf _ _ _ _ HW x e' (Hmk x A) B')|].
    destruct (Hnm (Hmk u A)).
  - pose proof (w_inb _ _ _ _ HW) as HI. unfold INB in *.
    destruct (is_srv_connected ss) eqn:Es; [|destruct (is_cli_connected sc); [|exact I]].
    + destruct HI as [Hnd HI]. split; [unfold inbox_spawns in *; rewrite H6; exact Hnd|].
      intros x Hx. destruct (HI x (Hin x Hx)) as [G1 G2]. split; [apply Hni; exact G1|].
      intros e' He. destruct (Hhb _ _ He) as [He'|[_ ->]]; [apply (G2 e' He')|]. apply (Hns eq_refl). apply Hin. exact Hx.
    + destruct HI as [Hd HI]. split; [unfold DCL in *; rewrite H6; exact Hd|].
      intros x Hx. destruct (HI x (Hin x Hx)) as [G1 G2]. split; [apply Hni; exact G1|].
      intros e' He. rewrite H8, Hu2e. destruct (Hhb _ _ He) as [He'|[-> ->]].
      * destruct (decide (x = u)) as [->|Hxu]; [destruct (Hnh e' He')|].
        rewrite lookup_insert_ne by congruence. apply (G2 e' He').
      * right. apply lookup_insert.
Qed.

(* ================================================================================================ *)
(* 3. The four fields outside `core` the invariant reads                                             *)
(* ================================================================================================ *)

Definition xv (a : peer_state) := (t_tomb a, p_reserved a, s_server a, s_client a).
Lemma xv_inv a b : xv b = xv a ->
  t_tomb b = t_tomb a /\ p_reserved b = p_reserved a /\ s_server b = s_server a /\ s_client b = s_client a.
Proof. unfold xv. intros H. injection H as -> -> -> ->. repeat split. Qed.

Lemma core_xv_rd a b : core b = core a -> xv b = xv a -> rd b = rd a.
Proof.
  intros Hc Hx. apply xv_inv in Hx as (X1 & X2 & X3 & X4). unfold rd.
  rewrite (core_app _ _ Hc), (core_ents _ _ Hc), (core_cmdq _ _ Hc), (core_next _ _ Hc), (core_inbox _ _ Hc),
    (core_u2e _ _ Hc), X1, X2, X3, X4. reflexivity.
Qed.
Lemma W_core ss sc a b extra : core b = core a -> xv b = xv a -> W ss sc a extra -> W ss sc b extra.
Proof. intros Hc Hx. apply W_ext. apply core_xv_rd; assumption. Qed.

Lemma foldl_xv {B} (f : peer_state -> B -> peer_state) l a :
  (forall b x, xv (f b x) = xv b) -> xv (foldl f a l) = xv a.
Proof. intros Hf. apply (foldl_inv (fun b => xv b = xv a)); [reflexivity|]. intros b x _ Hb. rewrite Hf. exact Hb. Qed.

Lemma xv_send a d m : xv (send a d m) = xv a.
Proof. reflexivity. Qed.
Lemma xv_send_all a ds m : xv (send_all a ds m) = xv a.
Proof. unfold send_all. apply foldl_xv. intros b x. apply xv_send. Qed.
Lemma xv_broadcast a m : xv (broadcast a m) = xv a.
Proof. apply xv_send_all. Qed.
Lemma xv_relay a from m : xv (relay_except a from m) = xv a.
Proof. apply xv_send_all. Qed.
Lemma xv_send_up a m : xv (send_up a m) = xv a.
Proof. unfold send_up. destruct (n_cli_transport a) as [[h t]|]; reflexivity. Qed.
Lemma xv_set_panic a s : xv (set_panic a s) = xv a.
Proof. unfold set_panic. destruct (p_panic a); reflexivity. Qed.
Lemma xv_upd_ent a e f : xv (upd_ent a e f) = xv a.
Proof. unfold upd_ent. destruct (p_ents a !! e); reflexivity. Qed.
Lemma xv_push_cmd a k c : xv (push_cmd a k c) = xv a.
Proof. reflexivity. Qed.
Lemma xv_add_child_ok a p c prev : xv (add_child_ok a p c prev) = xv a.
Proof.
  unfold add_child_ok. cbv zeta. rewrite xv_upd_ent.
  destruct prev as [q|]; [destruct (q =? p); [|rewrite xv_upd_ent]|]; apply xv_upd_ent.
Qed.
Lemma xv_add_child a p c : xv (add_child a p c) = xv a.
Proof.
  rewrite add_child_eq.
  destruct (negb (alive a p)); [apply xv_set_panic|].
  destruct (p =? c); [apply xv_set_panic|]. apply xv_add_child_ok.
Qed.
Lemma xv_set_parent_twice a c p : xv (set_parent_twice a c p) = xv a.
Proof.
  unfold set_parent_twice. destruct (p_panic (add_child a p c)).
  - apply xv_add_child.
  - rewrite xv_add_child. apply xv_add_child.
Qed.
Lemma xv_acc a e t v : xv (apply_component_change a e t v).1 = xv a.
Proof.
  unfold apply_component_change.
  repeat case_match; simpl; try reflexivity; rewrite xv_upd_ent; reflexivity.
Qed.
Lemma xv_serve_all a c : xv (serve_all a c).1 = xv a.
Proof. unfold serve_all. destruct (class_enabled a (KClass c)); reflexivity. Qed.
Lemma xv_bfs a : xv (build_full_sync a).1 = xv a.
Proof.
  unfold build_full_sync.
  destruct (serve_all a AImage) as [pr1 mi] eqn:E1.
  destruct (serve_all pr1 AMesh) as [pr2 me] eqn:E2.
  destruct (serve_all pr2 AAudio) as [pr3 ma] eqn:E3.
  simpl.
  rewrite <- (xv_serve_all a AImage), E1. simpl.
  rewrite <- (xv_serve_all pr1 AMesh), E2. simpl.
  rewrite <- (xv_serve_all pr2 AAudio), E3. reflexivity.
Qed.
Lemma xv_react_components b a : xv (react_on_changed_components b a) = xv a.
Proof.
  unfold react_on_changed_components. cbv zeta. rewrite foldl_xv; [reflexivity|].
  intros a0 [[u t] v]. destruct b; [apply xv_broadcast|apply xv_send_up].
Qed.
Lemma xv_signal a u t v ch : xv (signal_component_changed a u t v ch) = xv a.
Proof.
  unfold signal_component_changed. destruct (tok_find _ _) as [at_|]; [|reflexivity].
  cbv zeta. destruct (at_ =? ch); reflexivity.
Qed.

Ltac xv_step :=
  first [ reflexivity
        | rewrite xv_broadcast | rewrite xv_send_up | rewrite xv_relay
        | rewrite xv_send ].

Lemma xv_parented_server a last : xv (entity_parented_server a last) = xv a.
Proof.
  unfold entity_parented_server. apply foldl_xv. intros b [e en]. cbv beta iota.
  repeat case_match; repeat xv_step.
Qed.
Lemma xv_parented_client a last : xv (entity_parented_client a last) = xv a.
Proof.
  unfold entity_parented_client. apply foldl_xv. intros b [e en]. cbv beta iota.
  repeat case_match; repeat xv_step.
Qed.
Lemma xv_react_assets b k a : xv (react_on_changed_assets b k a) = xv a.
Proof.
  unfold react_on_changed_assets. cbv zeta. rewrite foldl_xv; [reflexivity|].
  intros a0 [k' x]. cbv beta iota.
  destruct (a_store a0 !! akey k x); [|reflexivity].
  destruct (memN x (t_htok a0)); [reflexivity|].
  destruct k; destruct b; repeat xv_step.
Qed.
Lemma xv_promote_reader a : xv (promote_reader a) = xv a.
Proof. unfold promote_reader. cbv zeta. rewrite foldl_xv; [reflexivity|]. intros b c. apply xv_send. Qed.
Lemma xv_process_assets a c done : xv (process_assets a c done) = xv a.
Proof.
  unfold process_assets. apply foldl_xv. intros b [[[c' x] v] lst]. cbv beta iota.
  destruct (_ =? _); [|reflexivity]. destruct v; reflexivity.
Qed.
Lemma xv_sync_detect a t last : xv (sync_detect a t last) = xv a.
Proof.
  unfold sync_detect. apply foldl_xv. intros b [e en]. cbv beta iota.
  repeat case_match; try reflexivity; apply xv_signal.
Qed.

(* deferred commands: only CSpawnSync touches p_reserved *)
Lemma apply_cmd_xv a c :
  xv (apply_cmd a c) =
  match c with CSpawnSync e _ => (t_tomb a, removeN e (p_reserved a), s_server a, s_client a) | _ => xv a end.
Proof.
  destruct c; simpl; try reflexivity.
  - apply xv_upd_ent.
  - destruct (apply_component_change a e t v) as [pr' ch] eqn:E.
    pose proof (xv_acc a e t v) as H. rewrite E in H. simpl in H.
    destruct from as [c|]; [destruct ch|]; rewrite ?xv_relay; exact H.
  - destruct (t_u2e a !! c) as [ce|]; [|reflexivity].
    destruct (t_u2e a !! p) as [pe|]; [|reflexivity].
    destruct (negb (alive a pe) || negb (alive a ce)); [reflexivity|].
    destruct (parent_differs a ce pe).
    + set (sp := set_parent_twice a ce pe <| t_ptok ::= <[c := p]> |>).
      change (xv (match p_panic sp with Some _ => sp | None => relay_except sp from (MParented c p) end) = xv a).
      destruct (p_panic sp); rewrite ?xv_relay; exact (xv_set_parent_twice a ce pe).
    + destruct (p_panic a); rewrite ?xv_relay; reflexivity.
  - destruct (negb (alive a p) || negb (alive a c)); [reflexivity|].
    destruct (parent_differs a c p); [exact (xv_set_parent_twice a c p)|reflexivity].
  - destruct from as [c|]; [rewrite xv_relay|]; reflexivity.
  - apply xv_relay.
  - pose proof (xv_react_components true a) as H0.
    set (pr0 := react_on_changed_components true a) in *.
    destruct (build_full_sync pr0) as [pr1 ms] eqn:E.
    pose proof (xv_bfs pr0) as H. rewrite E in H. simpl in H.
    change (xv (foldl (fun pr0 m => send pr0 to m) pr1 ms) = xv a).
    rewrite (foldl_xv _ ms pr1 (fun b x => xv_send b to x)). congruence.
  - destruct (build_full_sync a) as [pr1 ms] eqn:E.
    pose proof (xv_bfs a) as H. rewrite E in H. simpl in H.
    rewrite xv_send_up. exact H.
  - apply foldl_xv. intros b x. apply xv_upd_ent.
  - destruct set_flag; reflexivity.
  - destruct (filter _ _) as [|[e en] l]; reflexivity.
  - destruct (negb (alive a e)); [apply xv_set_panic|apply xv_upd_ent].
Qed.

(* ================================================================================================ *)
(* 4. Deferred commands                                                                              *)
(* ================================================================================================ *)

Lemma memN_removeN x y l : x <> y -> memN x (removeN y l) = memN x l.
Proof.
  intros Hne. destruct (memN x l) eqn:E.
  - apply memN_elem. apply memN_elem in E. unfold removeN. apply elem_of_list_filter. split; [|exact E].
    simpl. destruct (y =? x) eqn:E1; [apply N.eqb_eq in E1; congruence|exact I].
  - destruct (memN x (removeN y l)) eqn:E'; [|reflexivity].
    apply memN_elem in E'. unfold removeN in E'. apply elem_of_list_filter in E' as [_ E'].
    apply memN_elem in E'. congruence.
Qed.

Lemma apply_cmd_live a c cs e u : has_uuid (apply_cmd a c) e u -> holder a (c :: cs) e u.
Proof.
  intros (en' & Hl & Hs).
  destruct (names_uuid c) eqn:Ec.
  - destruct c; try discriminate.
    + (* CSpawnSync *) simpl in Hl. destruct (decide (e = e0)) as [->|Hne].
      * rewrite lookup_insert in Hl. injection Hl as <-. simpl in Hs. injection Hs as <-.
        right. left. apply queued_head_.
      * rewrite lookup_insert_ne in Hl by congruence. left. exists en'. split; assumption.
    + (* CInsertSync *) unfold apply_cmd in Hl. rewrite upd_ent_lookup in Hl.
      destruct (p_ents a !! e) as [en|] eqn:E; [|discriminate]. simpl in Hl. injection Hl as <-.
      destruct (decide (e = e0)) as [->|Hne].
      * simpl in Hs. injection Hs as <-. right. right. apply queued_head_.
      * left. exists en. split; [exact E|exact Hs].
  - destruct (apply_cmd_kept a c Ec e en' Hl) as (en & H1 & H2 & _).
    left. exists en. split; [exact H1|congruence].
Qed.

Lemma apply_cmd_marked a c e : marked_live (apply_cmd a c) e -> marked_live a e.
Proof.
  intros (en' & Hl & Hm).
  destruct (names_uuid c) eqn:Ec.
  - destruct c; try discriminate.
    + simpl in Hl. destruct (decide (e = e0)) as [->|Hne].
      * rewrite lookup_insert in Hl. injection Hl as <-. simpl in Hm. contradiction.
      * rewrite lookup_insert_ne in Hl by congruence. exists en'. split; assumption.
    + unfold apply_cmd in Hl. rewrite upd_ent_lookup in Hl.
      destruct (p_ents a !! e) as [en|] eqn:E; [|discriminate]. simpl in Hl. injection Hl as <-.
      destruct (decide (e = e0)) as [->|Hne]; [simpl in Hm; contradiction|].
      exists en. split; [exact E|exact Hm].
  - destruct (apply_cmd_kept a c Ec e en' Hl) as (en & H1 & _ & H3).
    exists en. split; [exact H1|auto].
Qed.

Lemma apply_cmd_W ss sc a c cs : W ss sc a (c :: cs) -> W ss sc (apply_cmd a c) cs.
Proof.
  intros HW.
  pose proof (rest_inv _ _ (apply_cmd_rest a c)) as (Ha & Hu & Hi & Hn & Hq).
  pose proof (apply_cmd_xv a c) as Hx.
  assert (Hx3 : t_tomb (apply_cmd a c) = t_tomb a /\ s_server (apply_cmd a c) = s_server a /\
                s_client (apply_cmd a c) = s_client a).
  { destruct c; try (apply xv_inv in Hx as (X1 & _ & X3 & X4); repeat split; assumption).
    repeat split; reflexivity. }
  destruct Hx3 as (X1 & X3 & X4).
  assert (Hqq : forall x, queued (apply_cmd a c) cs x -> queued a (c :: cs) x).
  { intros x H. unfold queued in *. rewrite Hq in H. apply queued_tail_. exact H. }
  apply (W_shrink ss sc a (c :: cs) (apply_cmd a c) cs); try assumption.
  - rewrite Ha. auto.
  - rewrite Hn. lia.
  - intros x _. apply Hqq.
  - rewrite Hq. unfold allq. simpl. destruct (sid c); [apply submseteq_cons|]; reflexivity.
  - intros e u H. pose proof (w_res _ _ _ _ HW e u (Hqq _ H)) as Hr.
    destruct c; try (apply xv_inv in Hx as (_ & X2 & _); rewrite X2; exact Hr).
    change (memN e (removeN e0 (p_reserved a)) = true). rewrite memN_removeN; [exact Hr|].
    intros ->. pose proof (w_nodup _ _ _ _ HW) as Hnd. unfold allq in Hnd. simpl in Hnd.
    apply NoDup_cons in Hnd as [Hnd _]. apply Hnd.
    apply elem_of_list_omap. exists (CSpawnSync e0 u). split; [|reflexivity].
    unfold queued in H. rewrite Hq in H. apply elem_of_allq in H. exact H.
  - intros e u. apply apply_cmd_live.
  - intros e. apply apply_cmd_marked.
Qed.

Lemma W_take ss sc a k cs :
  W ss sc a [] -> p_cmdq a !! k = Some cs -> W ss sc (a <| p_cmdq := delete k (p_cmdq a) |>) cs.
Proof.
  intros HW Hk.
  assert (Hqq : forall x, queued (a <| p_cmdq := delete k (p_cmdq a) |>) cs x -> queued a [] x).
  { intros x H. unfold queued in *. simpl in H. apply (queued_take_ _ _ _ _ Hk). exact H. }
  apply (W_shrink ss sc a [] _ cs);
    [reflexivity|reflexivity|reflexivity|reflexivity|reflexivity|auto|simpl; lia| | | | |auto|exact HW].
  - intros x _. apply Hqq.
  - simpl. unfold allq. simpl. rewrite (cmds_l_take _ _ _ Hk). reflexivity.
  - intros e u H. apply (w_res _ _ _ _ HW e u (Hqq _ H)).
  - intros e u H. left. exact H.
Qed.

Lemma W_drop ss sc a extra : W ss sc a extra -> W ss sc a [].
Proof.
  intros HW.
  assert (Hqq : forall x, queued a [] x -> queued a extra x).
  { intros x [H|H]; [inversion H|right; exact H]. }
  apply (W_shrink ss sc a extra a []);
    [reflexivity|reflexivity|reflexivity|reflexivity|reflexivity|auto|lia| | | | |auto|exact HW].
  - intros x _. apply Hqq.
  - unfold allq. simpl. rewrite omap_app. apply submseteq_inserts_l. reflexivity.
  - intros e u H. apply (w_res _ _ _ _ HW e u (Hqq _ H)).
  - intros e u H. left. exact H.
Qed.

Lemma apply_cmds_W ss sc cs : forall a, W ss sc a cs -> W ss sc (apply_cmds a cs) [].
Proof.
  induction cs as [|c cs IH]; intros a H; simpl; [exact H|].
  destruct (p_panic a); [eapply W_drop; exact H|].
  apply IH. apply apply_cmd_W. exact H.
Qed.

Lemma flush_W ss sc a : W ss sc a [] -> W ss sc (flush a) [].
Proof.
  intros H. rewrite flush_eq. unfold flush_with.
  apply (foldl_inv (fun b => W ss sc b [])); [exact H|].
  intros b s _ Hb. cbv zeta.
  destruct (p_cmdq b !! sys_key s) as [cs|] eqn:E; [|exact Hb].
  apply apply_cmds_W. apply W_take; assumption.
Qed.

(* ================================================================================================ *)
(* 5. Systems                                                                                        *)
(* ================================================================================================ *)

Definition srv_sys (s : sysid) : bool :=
  match s with
  | SSrvRemoved | SSrvCreated | SSrvParented | SSrvReact | SSrvMat | SSrvImg | SSrvMesh | SSrvAudio
  | SSrvPromote | SSrvClientConnected | SSrvPoll => true
  | _ => false
  end.
Definition cli_sys (s : sysid) : bool :=
  match s with
  | SCliRemoved | SCliCreated | SCliParented | SCliReact | SCliMat | SCliImg | SCliMesh | SCliAudio
  | SCliPoll => true
  | _ => false
  end.
(* what is known when the body of system s runs *)
Definition gates (ss : sstate) (sc : cstate) (s : sysid) : Prop :=
  (srv_sys s = true -> is_srv_connected ss = true) /\
  (cli_sys s = true -> is_cli_connected sc = true) /\
  (s = SCliVerify -> is_cli_connecting sc = true).

Lemma fix_system_W ss sc a k last trig wo comps :
  W ss sc a [] -> W ss sc (fix_system a k last trig wo comps) [].
Proof.
  intros H. unfold fix_system. apply (foldl_inv (fun b => W ss sc b [])); [exact H|].
  intros b [e en] _ Hb. cbv beta iota.
  repeat case_match; try exact Hb. apply W_push_cmd; [reflexivity|exact Hb].
Qed.

Lemma xv_created_body server k a e : xv (created_body server k a e) = xv a.
Proof.
  unfold created_body. cbv zeta. destruct server.
  - change (xv (broadcast a (MSpawn e)) = xv a). apply xv_broadcast.
  - rewrite xv_push_cmd, xv_send_up. reflexivity.
Qed.

Lemma entity_created_W ss sc a server k last :
  W ss sc a [] -> W ss sc (entity_created server a k last) [].
Proof.
  intros H. rewrite entity_created_eq.
  refine (proj2 (foldl_inv (fun b => p_ents b = p_ents a /\ W ss sc b []) _ _ _ _ _));
    [split; [reflexivity|exact H]|].
  intros b [e en] Hin [Hb HWb]. cbv beta iota. destruct (newly_marked last en) eqn:Enm; [|split; assumption].
  pose proof (fixed_inv _ _ (created_body_fixed server k b e)) as (_ & He & Hap & Hib & Hn).
  pose proof (xv_inv _ _ (xv_created_body server k b e)) as (X1 & X2 & X3 & X4).
  split; [rewrite He; exact Hb|].
  apply (W_created ss sc b _ [] k e); try assumption.
  - apply created_body_u2e.
  - apply created_body_cmdq_eq.
  - unfold ents_list in Hin. apply elem_of_map_to_list in Hin. exists en. rewrite Hb. split; [exact Hin|].
    unfold newly_marked in Enm. destruct (en_mark en); discriminate.
Qed.

Lemma xv_removed_server a : xv (entity_removed_server a) = xv a.
Proof.
  unfold entity_removed_server. cbv zeta.
  apply (foldl_inv (fun b => xv b = xv a)); [reflexivity|].
  intros b u _ Hb. rewrite xv_broadcast. exact Hb.
Qed.

Lemma removed_server_W ss sc a :
  is_srv_connected ss = true -> W ss sc a [] -> W ss sc (entity_removed_server a) [].
Proof.
  intros Es H.
  pose proof (nou2e_inv _ _ (entity_removed_server_nou2e a)) as (_ & He & Ha & Hib & Hn & Hq).
  pose proof (xv_inv _ _ (xv_removed_server a)) as (X1 & X2 & X3 & X4).
  apply (W_u2e ss sc a); try assumption. intros Es'. congruence.
Qed.

Lemma removed_client_fields a :
  let gone := filter (fun '(u, e) => negb (has_sync a e)) (map_to_list (t_u2e a)) in
  t_u2e (entity_removed_client a) = foldl (fun m '(u, _) => delete u m) (t_u2e a) gone /\
  xv (entity_removed_client a) = (gone.*1 ++ t_tomb a, p_reserved a, s_server a, s_client a).
Proof.
  unfold entity_removed_client. cbv zeta.
  set (gone := filter (fun '(u, e) => negb (has_sync a e)) (map_to_list (t_u2e a))).
  match goal with |- t_u2e (foldl ?f ?b0 _) = ?m /\ xv _ = ?x =>
    apply (foldl_inv (fun b => t_u2e b = m /\ xv b = x)) end.
  - split; reflexivity.
  - intros b [u e] _ [Hb1 Hb2]. cbv beta iota. rewrite (core_u2e _ _ (send_up_core _ _)), xv_send_up.
    split; assumption.
Qed.

Lemma removed_client_W ss sc a : W ss sc a [] -> W ss sc (entity_removed_client a) [].
Proof.
  intros H.
  pose proof (nou2e_inv _ _ (entity_removed_client_nou2e a)) as (_ & He & Ha & Hib & Hn & Hq).
  destruct (removed_client_fields a) as [Hu Hx]. cbv zeta in Hu, Hx.
  set (gone := filter (fun '(u, e) => negb (has_sync a e)) (map_to_list (t_u2e a))) in *.
  unfold xv in Hx. injection Hx as X1 X2 X3 X4.
  apply (W_u2e ss sc a); try assumption.
  intros _ _ u _. split.
  - intros Ht. rewrite X1. apply memN_elem. apply elem_of_app. right. apply memN_elem. exact Ht.
  - intros e Hl. destruct (decide (u ∈ gone.*1)) as [Hin|Hnin].
    + left. rewrite X1. apply memN_elem. apply elem_of_app. left. exact Hin.
    + right. rewrite Hu. rewrite foldl_delete_fst_notin by exact Hnin. exact Hl.
Qed.

Lemma client_connected_W ss sc a k : W ss sc a [] -> W ss sc (client_connected a k) [].
Proof.
  intros H. unfold client_connected. cbv zeta.
  apply (foldl_inv (fun b => W ss sc b [])); [eapply W_ext; [|exact H]; reflexivity|].
  intros b [conn c] _ Hb. cbv beta iota.
  repeat case_match; try exact Hb.
  - eapply (W_push ss sc b _ [] k CRemoveClientTransport); [reflexivity| | | | | | | | | | |exact Hb]; reflexivity.
  - eapply (W_push ss sc b _ [] k CRemoveServerTransport); [reflexivity| | | | | | | | | | |exact Hb]; reflexivity.
Qed.

Lemma cli_connecting_not_connected sc : is_cli_connecting sc = true -> is_cli_connected sc = false.
Proof. destruct sc; simpl; intros H; try discriminate; reflexivity. Qed.

Lemma verify_W ss sc a k :
  is_cli_connecting sc = true -> W ss sc a [] -> W ss sc (verify_client_connected a k) [].
Proof.
  intros Ec H. unfold verify_client_connected.
  destruct (n_status a); try exact H. cbv zeta.
  destruct (negb _).
  - eapply (W_push ss sc (a <| s_next_client := Some CliConnected |> <| t_tomb := [] |>) _ [] k CRequestInitialSync);
      [reflexivity| | | | | | | | | | |]; try reflexivity.
    apply (W_u2e ss sc a); try reflexivity; [|exact H].
    intros _ Ec'. rewrite (cli_connecting_not_connected sc Ec) in Ec'. discriminate.
  - eapply W_ext; [|exact H]; reflexivity.
Qed.

(* ---------- receivers ---------------------------------------------------------------------------------------- *)

Lemma server_received_W ss sc a k from m :
  is_srv_connected ss = true -> W ss sc a [] -> popped_facts ss sc a [] m ->
  W ss sc (server_received a k from m) [].
Proof.
  intros Es H Hf.
  assert (Hnocli : forall b : peer_state, W ss sc b [] -> forall b', p_app_cmds b' = p_app_cmds b -> p_ents b' = p_ents b ->
            p_cmdq b' = p_cmdq b -> p_next_ent b' = p_next_ent b -> p_reserved b' = p_reserved b ->
            n_inbox b' = n_inbox b -> s_server b' = s_server b -> s_client b' = s_client b -> W ss sc b' []).
  { intros b Hb b' ? ? ? ? ? ? ? ?. apply (W_u2e ss sc b); try assumption. intros Es'. congruence. }
  destruct m as [u|c p|u|u t v|x v|c x owner| |h| |]; simpl; try exact H.
  - (* MSpawn *)
    eapply W_core; [apply relay_except_core|apply xv_relay|].
    destruct Hf as [Hf _]. destruct (Hf Es) as ([Hnm _] & Hnh & Hns).
    eapply (W_alloc ss sc a _ [] k u); [| | | | | | | | | | | | |exact H]; try reflexivity; try assumption.
    intros _. exact Hns.
  - apply W_push_cmd; [reflexivity|exact H].
  - (* MDelete *)
    eapply W_core; [apply relay_except_core|apply xv_relay|].
    destruct (t_u2e a !! u) as [e|]; [|exact H].
    destruct (cmd_get_entity a e); [|exact H].
    apply (Hnocli (push_cmd a k (CDespawn e))); try reflexivity.
    apply W_push_cmd; [reflexivity|exact H].
  - case_match; [|exact H]. apply W_push_cmd; [reflexivity|exact H].
  - apply W_push_cmd; [reflexivity|exact H].
  - apply W_push_cmd; [reflexivity|]. eapply W_core; [apply request_asset_core|reflexivity|exact H].
  - (* MNewHost *)
    apply W_push_cmd; [reflexivity|].
    eapply W_core; [apply relay_except_core|apply xv_relay|].
    eapply W_ext; [|exact H]; reflexivity.
  - apply W_push_cmd; [reflexivity|exact H].
Qed.

Lemma client_received_W ss sc a k m :
  is_cli_connected sc = true -> W ss sc a [] -> popped_facts ss sc a [] m ->
  W ss sc (client_received a k m) [].
Proof.
  intros Ec H Hf.
  destruct m as [u|c p|u|u t v|x v|c x owner| |h| |]; simpl; try exact H.
  - (* MSpawn *)
    destruct (memN u (t_tomb a) || _) eqn:Eg; [exact H|].
    apply orb_false_iff in Eg as [Etomb Edup].
    destruct Hf as [Hf1 Hf2].
    assert (Hpre : NI a [] u /\ (forall e, ~ holder a [] e u) /\ (is_srv_connected ss = true -> ~ in_spawn a u)).
    { destruct (is_srv_connected ss) eqn:Es.
      - destruct (Hf1 eq_refl) as (A & B & C). split; [exact A|split; [exact B|intros _; exact C]].
      - destruct (Hf2 eq_refl Ec) as [A HG]. split; [exact A|split; [|intros Hx; discriminate]].
        intros e He. destruct (HG e He) as [Ht|Ht]; [congruence|]. rewrite Ht in Edup.
        destruct He as [(en & Hl & _)|[Hq|Hq]].
        + unfold cmd_get_entity, alive in Edup. rewrite Hl in Edup. discriminate.
        + unfold cmd_get_entity in Edup. rewrite (w_res _ _ _ _ H e u Hq), orb_true_r in Edup. discriminate.
        + apply (proj2 A e Hq). }
    destruct Hpre as ([Hnm _] & Hnh & Hns).
    eapply (W_alloc ss sc a _ [] k u); [| | | | | | | | | | | | |exact H]; try reflexivity; assumption.
  - (* MParented *) repeat case_match; try exact H. apply W_push_cmd; [reflexivity|exact H].
  - (* MDelete *)
    destruct (t_u2e a !! u) as [e|] eqn:Eu; [|exact H].
    destruct (cmd_get_entity a e); [|exact H].
    apply W_push_cmd; [reflexivity|].
    apply (W_u2e ss sc a); try reflexivity; [|exact H].
    intros Es _ u' Hu'. simpl. split; [auto|]. intros e' Hl. right.
    rewrite lookup_delete_ne; [exact Hl|]. intros ->. apply (Hf Es Ec). exact Hu'.
  - (* MComp *) case_match; [|exact H]. apply W_push_cmd; [reflexivity|exact H].
  - apply W_push_cmd; [reflexivity|exact H].
  - eapply W_core; [apply request_asset_core|reflexivity|exact H].
  - apply W_push_cmd; [reflexivity|exact H].
  - (* MNewHost *)
    apply W_push_cmd; [reflexivity|]. apply W_push_cmd; [reflexivity|].
    eapply W_ext; [|exact H]; reflexivity.
  - eapply W_ext; [|exact H]; reflexivity.
Qed.

Lemma server_poll_W ss sc a k froms :
  is_srv_connected ss = true -> W ss sc a [] -> W ss sc (server_poll a k froms) [].
Proof.
  intros Es H. unfold server_poll. apply (foldl_inv (fun b => W ss sc b [])); [exact H|].
  intros b from _ Hb. destruct (pop_inbox b from) as [[m b']|] eqn:E; [|exact Hb].
  apply pop_inbox_spec in E as [rest_ [Hl ->]].
  destruct (W_pop ss sc b [] from m rest_ Hl Hb) as [H1 H2].
  apply server_received_W; assumption.
Qed.

Lemma client_poll_W ss sc a k host n :
  is_cli_connected sc = true -> W ss sc a [] -> W ss sc (client_poll a k host n) [].
Proof.
  intros Ec H. unfold client_poll. apply (foldl_inv (fun b => W ss sc b [])); [exact H|].
  intros b x _ Hb. destruct (pop_inbox b host) as [[m b']|] eqn:E; [|exact Hb].
  apply pop_inbox_spec in E as [rest_ [Hl ->]].
  destruct (W_pop ss sc b [] host m rest_ Hl Hb) as [H1 H2].
  apply client_received_W; assumption.
Qed.

Lemma app_system_W ss sc a k n :
  W ss sc a [] ->
  W ss sc (foldl (fun b x => push_cmd b k x.2)
            (a <| p_app_cmds := filter (fun x : N * cmd => negb (x.1 =? n)) (p_app_cmds a) |>)
            (filter (fun x : N * cmd => x.1 =? n) (p_app_cmds a))) [].
Proof.
  intros H.
  apply (foldl_inv (fun b => W ss sc b [])).
  - apply (W_shrink ss sc a [] _ []);
      [reflexivity|reflexivity|reflexivity|reflexivity|reflexivity| |simpl; lia|auto|reflexivity| | |auto|exact H].
    + intros x Hx. simpl in Hx. apply elem_of_list_filter in Hx as [_ Hx]. exact Hx.
    + intros e u Hq. apply (w_res _ _ _ _ H e u Hq).
    + intros e u Hl. left. exact Hl.
  - intros b x Hx Hb. apply W_push_cmd; [|exact Hb].
    apply elem_of_list_filter in Hx as [_ Hx]. apply (w_app _ _ _ _ H). exact Hx.
Qed.

Lemma sys_body_W ss sc a s o k last :
  W ss sc a [] -> gates ss sc s -> W ss sc (sys_body a s o k last) [].
Proof.
  intros H (Gs & Gc & Gv).
  destruct s; simpl; try apply fix_system_W; try exact H;
    try (eapply W_ext; [|exact H]; reflexivity).
  - apply removed_server_W; [apply Gs; reflexivity|exact H].
  - apply entity_created_W. exact H.
  - eapply W_core; [apply entity_parented_server_core|apply xv_parented_server|exact H].
  - eapply W_core; [apply react_components_core|apply xv_react_components|exact H].
  - eapply W_core; [apply react_assets_core|apply xv_react_assets|exact H].
  - eapply W_core; [apply react_assets_core|apply xv_react_assets|exact H].
  - eapply W_core; [apply react_assets_core|apply xv_react_assets|exact H].
  - eapply W_core; [apply react_assets_core|apply xv_react_assets|exact H].
  - eapply W_core; [apply promote_reader_core|apply xv_promote_reader|exact H].
  - apply client_connected_W. exact H.
  - apply server_poll_W; [apply Gs; reflexivity|exact H].
  - apply verify_W; [apply Gv; reflexivity|exact H].
  - apply removed_client_W. exact H.
  - apply entity_created_W. exact H.
  - eapply W_core; [apply entity_parented_client_core|apply xv_parented_client|exact H].
  - eapply W_core; [apply react_components_core|apply xv_react_components|exact H].
  - eapply W_core; [apply react_assets_core|apply xv_react_assets|exact H].
  - eapply W_core; [apply react_assets_core|apply xv_react_assets|exact H].
  - eapply W_core; [apply react_assets_core|apply xv_react_assets|exact H].
  - eapply W_core; [apply react_assets_core|apply xv_react_assets|exact H].
  - destruct (n_cli_transport a) as [[h t]|]; [|exact H].
    apply client_poll_W; [apply Gc; reflexivity|exact H].
  - eapply W_core; [apply process_assets_core|apply xv_process_assets|exact H].
  - eapply W_core; [apply process_assets_core|apply xv_process_assets|exact H].
  - eapply W_core; [apply process_assets_core|apply xv_process_assets|exact H].
  - eapply W_core; [apply sync_detect_core|apply xv_sync_detect|exact H].
  - apply app_system_W. exact H.
Qed.

Lemma run_body_W ss sc a s o : W ss sc a [] -> gates ss sc s -> W ss sc (run_body a s o) [].
Proof.
  intros H G. rewrite run_body_eq. cbv zeta. unfold end_run.
  set (a1 := a <| p_tick := p_tick a + 1 |>).
  assert (H1 : W ss sc a1 []) by (apply (W_ext ss sc a a1 []); [reflexivity|exact H]).
  pose proof (sys_body_W ss sc a1 s o (sys_key s) (last_run a1 (sys_key s)) H1 G) as H2.
  eapply W_ext; [|exact H2]. reflexivity.
Qed.

Lemma sg_true a : server_gate a = true -> is_srv_connected (s_server a) = true.
Proof. unfold server_gate. intros H. apply andb_true_iff in H as [_ H]. exact H. Qed.
Lemma cg_true a : client_gate a = true -> is_cli_connected (s_client a) = true.
Proof. unfold client_gate. intros H. apply andb_true_iff in H as [_ H]. exact H. Qed.

Lemma gates_plain ss sc s : srv_sys s = false -> cli_sys s = false -> s <> SCliVerify -> gates ss sc s.
Proof. intros H1 H2 H3. split; [|split]; intros Hx; [congruence|congruence|contradiction]. Qed.
Lemma gates_srv ss sc a s : W ss sc a [] -> server_gate a = true -> cli_sys s = false -> s <> SCliVerify -> gates ss sc s.
Proof.
  intros H Hg H2 H3. split; [|split]; intros Hx; [|congruence|contradiction].
  rewrite <- (w_ss _ _ _ _ H). apply sg_true. exact Hg.
Qed.
Lemma gates_cli ss sc a s : W ss sc a [] -> client_gate a = true -> srv_sys s = false -> s <> SCliVerify -> gates ss sc s.
Proof.
  intros H Hg H2 H3. split; [|split]; intros Hx; [congruence| |contradiction].
  rewrite <- (w_sc _ _ _ _ H). apply cg_true. exact Hg.
Qed.

Lemma run_system_W ss sc a s o : W ss sc a [] -> W ss sc (run_system a s o) [].
Proof.
  intros H. unfold run_system.
  destruct (p_panic a) eqn:Ep; [exact H|]. cbv zeta.
  assert (Hadd : forall k x (b : peer_state -> bool), gates ss sc s ->
             W ss sc (let '(pr0, added) := cond_resource_added a k x in
                      if b pr0 && added then run_body pr0 s o else pr0) []).
  { intros k x b G. destruct (cond_resource_added a k x) as [pr0 added] eqn:E.
    assert (H0 : W ss sc pr0 []).
    { eapply W_ext; [|exact H]. change pr0 with (pr0, added).1. rewrite <- E. reflexivity. }
    destruct (b pr0 && added); [apply run_body_W; assumption|exact H0]. }
  assert (Hrem : forall k x (b : peer_state -> bool), gates ss sc s ->
             W ss sc (let '(pr0, removed) := cond_resource_removed a k x in
                      if b pr0 && removed then run_body pr0 s o else pr0) []).
  { intros k x b G. destruct (cond_resource_removed a k x) as [pr0 removed] eqn:E.
    assert (H0 : W ss sc pr0 []).
    { eapply W_ext; [|exact H]. change pr0 with (pr0, removed).1. rewrite <- E.
      unfold cond_resource_removed. destruct x; [reflexivity|]. destruct (default false _); reflexivity. }
    destruct (b pr0 && removed); [apply run_body_W; assumption|exact H0]. }
  destruct s;
    try (apply run_body_W; [exact H|apply gates_plain; [reflexivity|reflexivity|discriminate]]);
    try (match goal with |- W _ _ (if ?b then _ else _) _ => destruct b eqn:Eb; [|exact H] end;
         apply run_body_W; [exact H|];
         first [ apply gates_plain; [reflexivity|reflexivity|discriminate]
               | eapply gates_srv; [exact H| |reflexivity|discriminate];
                 first [exact Eb|apply andb_true_iff in Eb as [Eb _]; exact Eb]
               | eapply gates_cli; [exact H| |reflexivity|discriminate];
                 first [exact Eb|apply andb_true_iff in Eb as [Eb _]; exact Eb] ]).
  - apply (Hadd _ _ (fun pr0 => n_setup pr0 && negb (is_srv_connected (s_server pr0)))).
    apply gates_plain; [reflexivity|reflexivity|discriminate].
  - apply (Hrem _ _ (fun pr0 => n_setup pr0 && is_srv_connected (s_server pr0))).
    apply gates_plain; [reflexivity|reflexivity|discriminate].
  - apply (Hadd _ _ (fun pr0 => n_setup pr0 && is_cli_disconnected (s_client pr0))).
    apply gates_plain; [reflexivity|reflexivity|discriminate].
  - (* SCliVerify *)
    destruct (_ && _) eqn:Eb; [|exact H]. apply run_body_W; [exact H|].
    apply andb_true_iff in Eb as [_ Eb].
    split; [|split]; intros Hx; [discriminate|discriminate|]. rewrite <- (w_sc _ _ _ _ H). exact Eb.
  - apply (Hrem _ _ (fun pr0 => n_setup pr0 && negb (is_cli_disconnected (s_client pr0)))).
    apply gates_plain; [reflexivity|reflexivity|discriminate].
  - apply flush_W. exact H.
Qed.

(* ================================================================================================ *)
(* 6. One frame, one application operation                                                           *)
(* ================================================================================================ *)

(* what is kept from one step of the run to the next *)
Record K (a : peer_state) : Prop := {
  k_app : forall x, x ∈ p_app_cmds a -> names_uuid x.2 = false;
  k_old : forall e u, queued a [] (CSpawnSync e u) -> e < p_next_ent a;
  k_nodup : NoDup (omap sid (allq (p_cmdq a) []));
  k_res : forall e u, queued a [] (CSpawnSync e u) -> memN e (p_reserved a) = true;
  k_uq : UQ a [];
}.
Definition unique_inv := K.

Lemma W_K ss sc a : W ss sc a [] -> K a.
Proof. intros H. constructor; apply H. Qed.

Lemma K_W a : K a -> MKF a [] -> INB (s_server a) (s_client a) a [] -> W (s_server a) (s_client a) a [].
Proof. intros HK H1 H2. constructor; try reflexivity; try apply HK; assumption. Qed.

Lemma K_ext a b :
  p_app_cmds b = p_app_cmds a -> p_ents b = p_ents a -> p_cmdq b = p_cmdq a -> p_next_ent b = p_next_ent a ->
  p_reserved b = p_reserved a -> K a -> K b.
Proof.
  intros H1 H2 H3 H4 H5 HK. constructor.
  - rewrite H1. apply HK.
  - intros e u H. rewrite H4. apply (k_old _ HK e u). eapply queued_ext; eassumption.
  - rewrite H3. apply HK.
  - intros e u H. rewrite H5. apply (k_res _ HK e u). eapply queued_ext; eassumption.
  - intros e1 e2 u A B. apply (k_uq _ HK e1 e2 u).
    + destruct A as [A|[A|A]]; [left; eapply live_ext; eassumption|right; left|right; right]; eapply queued_ext; eassumption.
    + destruct B as [B|[B|B]]; [left; eapply live_ext; eassumption|right; left|right; right]; eapply queued_ext; eassumption.
Qed.

Theorem K_unique a : K a -> uuid_unique a.
Proof. intros H. apply (uq_unique a []). apply H. Qed.

Definition rd8 (a : peer_state) :=
  (p_app_cmds a, p_ents a, p_cmdq a, p_next_ent a, p_reserved a, n_inbox a, t_u2e a, t_tomb a).
Lemma fstart_rd8 pr o : rd8 (fstart pr o) = rd8 pr.
Proof.
  unfold fstart, state_transition, pre_update, send_up. simpl.
  repeat case_match; reflexivity.
Qed.
Lemma rd8_inv a b : rd8 b = rd8 a ->
  p_app_cmds b = p_app_cmds a /\ p_ents b = p_ents a /\ p_cmdq b = p_cmdq a /\ p_next_ent b = p_next_ent a /\
  p_reserved b = p_reserved a /\ n_inbox b = n_inbox a /\ t_u2e b = t_u2e a /\ t_tomb b = t_tomb a.
Proof. unfold rd8. intros H. injection H as -> -> -> -> -> -> -> ->. repeat split. Qed.

(* ---------- the decidable premise gives the propositional one ------------------------------------------------ *)

Lemma forallb_elem {A} (f : A -> bool) (l : list A) : forallb f l = true -> forall x, x ∈ l -> f x = true.
Proof. intros H x Hx. rewrite forallb_forall in H. apply H. apply elem_of_list_In. exact Hx. Qed.

Lemma elem_of_live_l a e u : (e, u) ∈ live_l a <-> has_uuid a e u.
Proof.
  unfold live_l, has_uuid. rewrite elem_of_list_omap. split.
  - intros ([e' en] & Hin & Hf). unfold ents_list in Hin. apply elem_of_map_to_list in Hin. simpl in Hf.
    destruct (en_sync en) as [v|] eqn:E; [|discriminate]. injection Hf as -> ->. exists en. split; assumption.
  - intros (en & Hl & Hs). exists (e, en). split; [unfold ents_list; apply elem_of_map_to_list; exact Hl|].
    simpl. rewrite Hs. reflexivity.
Qed.

Lemma queued_nil_cmds a c : queued a [] c <-> c ∈ cmds_l (p_cmdq a).
Proof.
  unfold queued. rewrite <- elem_of_allq. unfold allq. simpl. reflexivity.
Qed.

Lemma elem_of_holders_l a e u : holder a [] e u -> (e, u) ∈ holders_l a.
Proof.
  unfold holders_l. rewrite elem_of_app. intros [H|[H|H]].
  - left. apply elem_of_live_l. exact H.
  - right. apply elem_of_list_omap. exists (CSpawnSync e u). split; [apply queued_nil_cmds; exact H|reflexivity].
  - right. apply elem_of_list_omap. exists (CInsertSync e u). split; [apply queued_nil_cmds; exact H|reflexivity].
Qed.

Lemma marked_liveb_spec a e : marked_live a e -> marked_liveb a e = true.
Proof.
  intros (en & Hl & Hm). unfold marked_liveb. rewrite Hl. destruct (en_mark en); [reflexivity|contradiction].
Qed.
Lemma elem_of_marked_l a e : marked_live a e -> e ∈ marked_l a.
Proof.
  intros (en & Hl & Hm). unfold marked_l. apply elem_of_list_omap. exists (e, en).
  split; [unfold ents_list; apply elem_of_map_to_list; exact Hl|]. simpl.
  destruct (en_mark en); [reflexivity|contradiction].
Qed.

Lemma mkfb_spec a : mkfb a = true -> MKF a [].
Proof.
  intros H e e' Hm Hh. unfold mkfb in H.
  pose proof (forallb_elem _ _ H e (elem_of_marked_l a e Hm)) as H1. simpl in H1.
  pose proof (forallb_elem _ _ H1 (e', e) (elem_of_holders_l a e' e Hh)) as H2. simpl in H2.
  rewrite N.eqb_refl in H2. simpl in H2. apply N.eqb_eq in H2. exact H2.
Qed.

Lemma nib_spec a u : nib a u = true -> NI a [] u.
Proof.
  unfold nib. intros H. apply andb_true_iff in H as [H1 H2]. split.
  - intros Hm. rewrite (marked_liveb_spec a u Hm) in H1. discriminate.
  - intros e Hq. apply queued_nil_cmds in Hq. pose proof (forallb_elem _ _ H2 _ Hq) as H3. simpl in H3.
    rewrite N.eqb_refl in H3. discriminate.
Qed.

Lemma in_spawn_elem a u : in_spawn a u -> u ∈ inbox_spawns a.
Proof. intros H. apply elem_of_inbox_spawns. exact H. Qed.

Lemma strictb_spec a : strictb a = true -> STR a [].
Proof.
  unfold strictb. intros H. apply andb_true_iff in H as [H1 H2]. apply bool_decide_eq_true in H1.
  split; [exact H1|]. intros u Hu.
  pose proof (forallb_elem _ _ H2 u (in_spawn_elem a u Hu)) as H3. simpl in H3.
  apply andb_true_iff in H3 as [H3 H4]. split; [apply nib_spec; exact H3|].
  intros e He. pose proof (forallb_elem _ _ H4 (e, u) (elem_of_holders_l a e u He)) as H5. simpl in H5.
  rewrite N.eqb_refl in H5. discriminate.
Qed.

Lemma elem_of_deletes_of u l : MDelete u ∈ l -> u ∈ deletes_of l.
Proof. intros H. unfold deletes_of. apply elem_of_list_omap. exists (MDelete u). split; [exact H|reflexivity]. Qed.

Lemma dclb_spec a : dclb a = true -> DCL a.
Proof.
  unfold dclb. intros H. split.
  - intros s l Hl. apply elem_of_map_to_list in Hl.
    pose proof (forallb_elem _ _ H (s, l) Hl) as H1. simpl in H1. apply andb_true_iff in H1 as [H1 _]. exact H1.
  - intros s s' l l' u Hne Hl Hl' Hd Hs. apply elem_of_map_to_list in Hl. apply elem_of_map_to_list in Hl'.
    pose proof (forallb_elem _ _ H (s, l) Hl) as H1. simpl in H1. apply andb_true_iff in H1 as [_ H1].
    pose proof (forallb_elem _ _ H1 (s', l') Hl') as H2. simpl in H2.
    apply orb_true_iff in H2 as [H2|H2]; [apply N.eqb_eq in H2; congruence|].
    pose proof (forallb_elem _ _ H2 u (elem_of_deletes_of u l Hd)) as H3. simpl in H3.
    apply negb_true_iff in H3. apply elem_of_spawns_of in Hs. apply memN_elem in Hs. congruence.
Qed.

Lemma guardedb_spec a : guardedb a = true -> GRD a [].
Proof.
  unfold guardedb. intros H. apply andb_true_iff in H as [H1 H2]. split; [apply dclb_spec; exact H1|].
  intros u Hu. pose proof (forallb_elem _ _ H2 u (in_spawn_elem a u Hu)) as H3. simpl in H3.
  apply andb_true_iff in H3 as [H3 H4]. split; [apply nib_spec; exact H3|].
  intros e He. pose proof (forallb_elem _ _ H4 (e, u) (elem_of_holders_l a e u He)) as H5. simpl in H5.
  rewrite N.eqb_refl in H5. simpl in H5. apply orb_true_iff in H5 as [H5|H5]; [left; exact H5|].
  apply andb_true_iff in H5 as [H5 _]. apply bool_decide_eq_true in H5. right. exact H5.
Qed.

Lemma startb_spec a : startb a = true -> MKF a [] /\ INB (s_server a) (s_client a) a [].
Proof.
  unfold startb, INB. intros H. apply andb_true_iff in H as [H1 H2]. split; [apply mkfb_spec; exact H1|].
  destruct (is_srv_connected (s_server a)); [apply strictb_spec; exact H2|].
  destruct (is_cli_connected (s_client a)); [apply guardedb_spec; exact H2|exact I].
Qed.

(* ---------- one frame --------------------------------------------------------------------------------------------- *)

Theorem frame_unique_inv pr o : K pr -> frame_freshb pr o = true -> K (frame pr o).
Proof.
  intros HK Hf. unfold frame_freshb in Hf. unfold frame.
  destruct (p_panic pr) eqn:Ep; [exact HK|]. cbv zeta.
  change (state_transition (pre_update (pr <| p_out := [] |>) o)) with (fstart pr o).
  set (a1 := fstart pr o) in *.
  pose proof (rd8_inv _ _ (fstart_rd8 pr o)) as (R1 & R2 & R3 & R4 & R5 & _).
  assert (HK1 : K a1) by (apply (K_ext pr a1); assumption).
  destruct (startb_spec a1 Hf) as [Hm Hi].
  pose proof (K_W a1 HK1 Hm Hi) as HW1.
  set (ss := s_server a1) in *. set (sc := s_client a1) in *.
  assert (HW2 : W ss sc (foldl (fun pr0 s => run_system pr0 s o) a1 (p_order a1)) []).
  { apply (foldl_inv (fun b => W ss sc b [])); [exact HW1|]. intros b s _ Hb. apply run_system_W. exact Hb. }
  set (a2 := foldl (fun pr0 s => run_system pr0 s o) a1 (p_order a1)) in *.
  assert (HW3 : W ss sc (match p_panic a2 with Some _ => a2 | None => flush a2 end) []).
  { destruct (p_panic a2); [exact HW2|]. apply flush_W. exact HW2. }
  eapply W_K. eapply W_ext; [|exact HW3]. reflexivity.
Qed.

Theorem frame_uuid_unique pr o : K pr -> frame_freshb pr o = true -> uuid_unique (frame pr o).
Proof. intros H1 H2. apply K_unique. apply frame_unique_inv; assumption. Qed.

(* ---------- one application operation -------------------------------------------------------------------------- *)

Lemma app_step_reserved pr op : p_reserved (app_step pr op) = p_reserved pr.
Proof.
  destruct op as [e marked comps|e|e|e t v|e t on|c p|ak x v|c|k c|host target|m1 m2 m3| |t|ts|ord];
    simpl; try reflexivity; try (apply (xv_inv _ _ (xv_upd_ent _ _ _))).
  - destruct (alive pr c); [apply (xv_inv _ _ (xv_add_child _ _ _))|reflexivity].
  - destruct host; reflexivity.
Qed.

Definition op_names_ok (op : app_op) : bool :=
  match op with OAppCmd _ c => negb (names_uuid c) | _ => true end.

Lemma op_uuid_ok_names op : op_uuid_ok op = true -> op_names_ok op = true.
Proof. unfold op_uuid_ok. intros H. apply andb_true_iff in H as [_ H]. exact H. Qed.

Theorem app_step_unique_inv pr op : K pr -> op_names_ok op = true -> K (app_step pr op).
Proof.
  intros HK Hop. destruct (app_step_rest_q pr op) as [Hn Hq].
  pose proof (app_step_reserved pr op) as Hr.
  assert (Hqq : forall x, queued (app_step pr op) [] x -> queued pr [] x) by (intros x; apply queued_ext; exact Hq).
  constructor.
  - intros x Hx. apply app_step_app_cmds in Hx as [Hx|[n ->]]; [apply (k_app _ HK); exact Hx|].
    simpl in Hop. apply negb_true_iff in Hop. exact Hop.
  - intros e u H. rewrite Hn. apply (k_old _ HK e u). apply Hqq. exact H.
  - rewrite Hq. apply HK.
  - intros e u H. rewrite Hr. apply (k_res _ HK e u). apply Hqq. exact H.
  - assert (Hh : forall e u, holder (app_step pr op) [] e u -> holder pr [] e u).
    { intros e u [(en' & Hl & Hs)|[H|H]]; [|right; left; apply Hqq; exact H|right; right; apply Hqq; exact H].
      destruct (app_step_ent pr op e en' Hl) as [(en & H1 & H2 & _)|(m & cs & _ & H2 & _)]; [|congruence].
      left. exists en. split; [exact H1|congruence]. }
    intros e1 e2 u A B. apply (k_uq _ HK e1 e2 u); apply Hh; assumption.
Qed.

Lemma K_init id sync_types registry order : K (init_peer id sync_types registry order).
Proof.
  assert (Hq : forall c, ~ queued (init_peer id sync_types registry order) [] c).
  { intros c [H|(k & cs & H & _)]; [inversion H|]. simpl in H. rewrite lookup_empty in H. discriminate. }
  constructor.
  - intros x Hx. simpl in Hx. inversion Hx.
  - intros e u H. destruct (Hq _ H).
  - unfold allq, cmds_l. simpl. rewrite map_to_list_empty. simpl. constructor.
  - intros e u H. destruct (Hq _ H).
  - intros e1 e2 u [(en & H & _)|[H|H]]; [simpl in H; rewrite lookup_empty in H; discriminate|destruct (Hq _ H)|destruct (Hq _ H)].
Qed.

(* ================================================================================================ *)
(* 7. Runs                                                                                           *)
(* ================================================================================================ *)

Definition step_fresh (g : global) (s : step) : bool :=
  match s with
  | StFrame p o => match g !! p with Some pr => frame_freshb pr o | None => true end
  | _ => true
  end.

Lemma spawns_fresh_from_cons g s tr :
  spawns_fresh_from g (s :: tr) = step_fresh g s && spawns_fresh_from (gstep g s) tr.
Proof. destruct s; reflexivity. Qed.

Lemma K_inbox pd (ib : gmap peer (list msg)) : K pd -> K (pd <| n_inbox := ib |>).
Proof. apply K_ext; reflexivity. Qed.

Lemma gstep_K (g : global) s :
  all_peers K g ->
  (forall p op, s = StApp p op -> g !! p <> None -> op_names_ok op = true) ->
  step_fresh g s = true -> all_peers K (gstep g s).
Proof.
  intros Hg Hop Hf. destruct s as [p op|p o|dst src i j]; simpl in *; unfold global in *.
  - destruct (g !! p) as [pr|] eqn:E; [|exact Hg].
    apply all_peers_insert; [exact Hg|]. apply app_step_unique_inv; [eapply Hg; exact E|].
    apply (Hop p op eq_refl). congruence.
  - destruct (g !! p) as [pr|] eqn:E; [|exact Hg].
    apply (Panic.deliver_out_inv K (fun _ => True)).
    + intros pd m Hpd _. apply K_inbox. exact Hpd.
    + intros d m _. exact I.
    + apply all_peers_insert; [exact Hg|]. apply frame_unique_inv; [eapply Hg; exact E|exact Hf].
  - destruct (g !! dst) as [pd|] eqn:E; [|exact Hg].
    destruct (n_inbox pd !! src) as [l|]; [|exact Hg].
    apply all_peers_insert; [exact Hg|]. apply K_inbox. eapply Hg. exact E.
Qed.

Lemma step_uuid_ok_names (g : global) s :
  step_uuid_ok g s = true -> forall p op, s = StApp p op -> g !! p <> None -> op_names_ok op = true.
Proof.
  intros H p op -> Hp. simpl in H. unfold global in *. destruct (g !! p); [|contradiction].
  apply op_uuid_ok_names. exact H.
Qed.

Lemma grun_K_from tr : forall g : global,
  all_peers K g -> uuid_conforming_from g tr = true -> spawns_fresh_from g tr = true -> all_peers K (grun g tr).
Proof.
  induction tr as [|s tr IH]; intros g Hg Hc Hf; [exact Hg|].
  rewrite spawns_fresh_from_cons in Hf. simpl in Hc.
  apply andb_true_iff in Hc as [H1 H2]. apply andb_true_iff in Hf as [F1 F2].
  simpl. apply IH; [|exact H2|exact F2].
  apply gstep_K; [exact Hg|apply step_uuid_ok_names; exact H1|exact F1].
Qed.

Lemma K_init_global n : all_peers K (init_global n).
Proof. intros p pr H. apply init_global_lookup in H as ->. apply K_init. Qed.

(* The invariant holds in every reachable state.  Premises:
   - uuid_conforming (UuidStable.v); only its half "application systems queue no CSpawnSync / CInsertSync" is
     used (grun_uuid_unique_names below needs no condition on SyncMark);
   - spawns_fresh: at the start of every frame the spawn announcements waiting in the peer's inboxes are
     new to the peer (a peer in ServerState::Connected: no holder of the uuid, the uuid is not the id of a
     marked entity, announced once) or, on a peer that is only a connected client, are covered by the
     duplicate guard (every holder of the uuid is the entity uuid_to_entity names or the uuid is in
     despawned_locally; no EntityDelete of the uuid precedes the announcement). *)
Theorem grun_unique_inv n tr :
  uuid_conforming n tr -> spawns_fresh n tr ->
  forall p pr, grun (init_global n) tr !! p = Some pr -> K pr.
Proof. intros Hc Hf. apply grun_K_from; [apply K_init_global|exact Hc|exact Hf]. Qed.

Theorem grun_uuid_unique n tr :
  uuid_conforming n tr -> spawns_fresh n tr ->
  forall p pr, grun (init_global n) tr !! p = Some pr -> uuid_unique pr.
Proof. intros Hc Hf p pr H. apply K_unique. eapply grun_unique_inv; eassumption. Qed.

(* the same with the part of uuid_conforming that is used *)
Fixpoint names_ok_from (g : global) (tr : list step) : bool :=
  match tr with
  | [] => true
  | s :: tr' =>
      match s with
      | StApp p op => match g !! p with Some _ => op_names_ok op | None => true end
      | _ => true
      end && names_ok_from (gstep g s) tr'
  end.
Definition names_ok (n : nat) (tr : list step) : Prop := names_ok_from (init_global n) tr = true.

Lemma uuid_conforming_names_from tr : forall g, uuid_conforming_from g tr = true -> names_ok_from g tr = true.
Proof.
  induction tr as [|s tr IH]; intros g Hc; simpl in *; [reflexivity|].
  apply andb_true_iff in Hc as [H1 H2]. rewrite (IH _ H2), andb_true_r.
  destruct s as [p op|p o|dst src i j]; simpl in *; try reflexivity.
  destruct (g !! p); [|reflexivity]. apply op_uuid_ok_names. exact H1.
Qed.
Lemma uuid_conforming_names n tr : uuid_conforming n tr -> names_ok n tr.
Proof. apply uuid_conforming_names_from. Qed.

Lemma grun_K_from_names tr : forall g : global,
  all_peers K g -> names_ok_from g tr = true -> spawns_fresh_from g tr = true -> all_peers K (grun g tr).
Proof.
  induction tr as [|s tr IH]; intros g Hg Hc Hf; [exact Hg|].
  rewrite spawns_fresh_from_cons in Hf. simpl in Hc.
  apply andb_true_iff in Hc as [H1 H2]. apply andb_true_iff in Hf as [F1 F2].
  simpl. apply IH; [|exact H2|exact F2].
  apply gstep_K; [exact Hg| |exact F1].
  intros p op -> Hp. unfold global in *. destruct (g !! p); [exact H1|contradiction].
Qed.

Theorem grun_uuid_unique_names n tr :
  names_ok n tr -> spawns_fresh n tr ->
  forall p pr, grun (init_global n) tr !! p = Some pr -> uuid_unique pr.
Proof.
  intros Hc Hf p pr H. apply K_unique.
  apply (grun_K_from_names tr (init_global n) (K_init_global n) Hc Hf p pr H).
Qed.

(* under the premise of the no-panic theorems *)
Corollary grun_uuid_unique_conforming n tr :
  conforming n tr -> spawns_fresh n tr ->
  forall p pr, grun (init_global n) tr !! p = Some pr -> uuid_unique pr.
Proof. intros Hc. apply grun_uuid_unique. apply conforming_uuid. exact Hc. Qed.

(* every frame taken in a reachable state whose waiting announcements are fresh keeps uniqueness *)
Corollary grun_frame_uuid_unique n tr :
  uuid_conforming n tr -> spawns_fresh n tr ->
  forall p pr o, grun (init_global n) tr !! p = Some pr -> frame_freshb pr o = true -> uuid_unique (frame pr o).
Proof. intros Hc Hf p pr o H Ho. apply frame_uuid_unique; [|exact Ho]. eapply grun_unique_inv; eassumption. Qed.

(* ================================================================================================ *)
(* 8. Decidable form of the property                                                                 *)
(* ================================================================================================ *)

Lemma uuid_uniqueb_spec pr : uuid_uniqueb pr = true <-> uuid_unique pr.
Proof.
  unfold uuid_uniqueb, uuid_unique. split.
  - intros H e1 e2 en1 en2 u H1 H2 H3 H4.
    assert (A : (e1, u) ∈ live_l pr) by (apply elem_of_live_l; exists en1; split; assumption).
    assert (B : (e2, u) ∈ live_l pr) by (apply elem_of_live_l; exists en2; split; assumption).
    pose proof (forallb_elem _ _ (forallb_elem _ _ H _ A) _ B) as Hb. simpl in Hb.
    rewrite N.eqb_refl in Hb. simpl in Hb. apply N.eqb_eq in Hb. exact Hb.
  - intros H. apply forallb_forall. intros [e1 u1] A. apply forallb_forall. intros [e2 u2] B. simpl.
    apply elem_of_list_In, elem_of_live_l in A as (en1 & A1 & A2).
    apply elem_of_list_In, elem_of_live_l in B as (en2 & B1 & B2).
    destruct (u1 =? u2) eqn:E; [|reflexivity]. apply N.eqb_eq in E as ->. simpl.
    apply N.eqb_eq. apply (H e1 e2 en1 en2 u2 A1 A2 B1 B2).
Qed.

(* ================================================================================================ *)
(* 9. Counterexamples                                                                                *)
(* ================================================================================================ *)

Definition live_all (g : global) : list (peer * bool * list (ent * uuid)) :=
  (fun x : peer * peer_state => (x.1, uuid_uniqueb x.2, live_l x.2)) <$> map_to_list g.

Definition prefix_setup : list step :=
  [StApp 0 (OSetup true 0); StApp 1 (OSetup false 0);
   StApp 0 (OSetOrder host_order); StApp 1 (OSetOrder cli_order);
   StFrame 0 (fh []); StFrame 0 (fh []);
   StFrame 1 (fc 0); StFrame 1 (fc 0); StFrame 1 (fc 0)].

(* (a) Script ids are chosen by the application: host 0 and client 1 both spawn a marked script entity 5.  The
   model's "fresh uuid" of a script entity is its id, so both announce uuid 5; the host handler of MSpawn has no
   duplicate check and creates a replica of uuid 5 beside the host's own entity 5. *)
Definition same_id : list step :=
  prefix_setup ++
  [StApp 0 (OSpawn 5 true []); StFrame 0 (fh [1]);
   StApp 1 (OSpawn 5 true []); StFrame 1 (fc 0);
   StFrame 0 (fh [1])].

(* (b) the same on the client: it replicates the host's 5 first, then its application marks its own 5; the
   duplicate guard looks at uuid_to_entity only when a spawn ARRIVES *)
Definition same_id_cli : list step :=
  prefix_setup ++
  [StApp 0 (OSpawn 5 true []); StFrame 0 (fh [1]);
   StFrame 1 (fc 20);
   StApp 1 (OSpawn 5 true []); StFrame 1 (fc 0)].

Example same_id_effect :
  live_all (grun (init_global 2) same_id) = [(0, false, [(5, 5); (E0, 5)]); (1, true, [(5, 5)])] /\
  live_all (grun (init_global 2) same_id_cli) = [(0, true, [(5, 5)]); (1, false, [(5, 5); (E0, 5)])].
Proof. vm_compute. split; reflexivity. Qed.

Lemma not_unique_of_b (g : global) p pr :
  g !! p = Some pr -> uuid_uniqueb <$> (g !! p) = Some false -> ~ uuid_unique pr.
Proof. intros E Hb H. apply uuid_uniqueb_spec in H. rewrite E in Hb. simpl in Hb. congruence. Qed.

(* uuid_unique is NOT an invariant of the runs allowed by uuid_conforming (nor by marks_script_only, hier_conforming) *)
Theorem uuid_unique_refuted :
  exists n tr p pr, uuid_conforming n tr /\ hier_conforming n tr /\
                    grun (init_global n) tr !! p = Some pr /\ ~ uuid_unique pr.
Proof.
  exists 2%nat, same_id, 0.
  destruct (grun (init_global 2) same_id !! 0) as [pr|] eqn:E; [|vm_compute in E; discriminate].
  exists pr. split; [vm_compute; reflexivity|]. split; [vm_compute; reflexivity|]. split; [exact E|].
  apply (not_unique_of_b _ 0 pr E). vm_compute. reflexivity.
Qed.

Theorem uuid_unique_refuted_on_client :
  exists n tr p pr, uuid_conforming n tr /\ hier_conforming n tr /\
                    grun (init_global n) tr !! p = Some pr /\ ~ uuid_unique pr.
Proof.
  exists 2%nat, same_id_cli, 1.
  destruct (grun (init_global 2) same_id_cli !! 1) as [pr|] eqn:E; [|vm_compute in E; discriminate].
  exists pr. split; [vm_compute; reflexivity|]. split; [vm_compute; reflexivity|]. split; [exact E|].
  apply (not_unique_of_b _ 1 pr E). vm_compute. reflexivity.
Qed.

(* (c) Not even under Panic.conforming ("every script id is spawned once, on one peer, and marked once"): the
   oracles of the frame-level model are not tied to the set-ups.  Panic.self_client: a host whose renet oracle lists
   the host itself as its client receives its own announcement.  Panic.three_hosts: three hosts that are each other's
   clients; a spawn reaches peer 2 directly and relayed. *)
Theorem uuid_unique_refuted_conforming :
  exists n tr p pr, conforming n tr /\ grun (init_global n) tr !! p = Some pr /\ ~ uuid_unique pr.
Proof.
  exists 1%nat, (take 7 self_client), 0.
  destruct (grun (init_global 1) (take 7 self_client) !! 0) as [pr|] eqn:E; [|vm_compute in E; discriminate].
  exists pr. split; [vm_compute; reflexivity|]. split; [exact E|].
  apply (not_unique_of_b _ 0 pr E). vm_compute. reflexivity.
Qed.

Example three_hosts_effect :
  conforming 3 three_hosts /\
  live_all (grun (init_global 3) three_hosts)
  = [(0, false, [(5, 5); (E0, 5)]); (1, true, [(E0, 5)]); (2, false, [(E0 + 1, 5); (E0, 5)])].
Proof. split; vm_compute; reflexivity. Qed.

(* (d) SyncMark inserted a second time on a synchronised script entity of a client (allowed by uuid_conforming,
   excluded by Panic.conforming): the entity is announced again, the host holds two replicas *)
Example remark_effect :
  uuid_conforming 2 Panic.remark /\
  live_all (grun (init_global 2) Panic.remark) = [(0, false, [(E0 + 1, 5); (E0, 5)]); (1, true, [(5, 5)])].
Proof. split; vm_compute; reflexivity. Qed.

(* every one of these traces violates spawns_fresh: in the frame that creates the second holder, a spawn
   announcement is waiting for a uuid the receiving peer already holds (a, c, d) or the application marked an
   entity whose id is the uuid of a replica the peer holds (b) *)
Example counterexamples_not_fresh :
  spawns_fresh_from (init_global 2) same_id = false /\
  spawns_fresh_from (init_global 2) same_id_cli = false /\
  spawns_fresh_from (init_global 1) (take 7 self_client) = false /\
  spawns_fresh_from (init_global 3) three_hosts = false /\
  spawns_fresh_from (init_global 2) Panic.remark = false.
Proof. vm_compute. repeat split; reflexivity. Qed.

(* the clauses of the premise one by one *)

(* "the uuid is not the id of a marked entity": the client's announcement of uuid 5 waits at the host while the
   host's application marks ITS entity 5; nothing holds uuid 5 yet when the frame starts; entity_created_on_server
   registers 5, then the poll accepts the announcement *)
Definition marked_race : list step :=
  prefix_setup ++ [StApp 1 (OSpawn 5 true []); StFrame 1 (fc 0); StApp 0 (OSpawn 5 true []); StFrame 0 (fh [1; 1])].
Example marked_race_effect :
  uuid_conforming 2 marked_race /\ spawns_fresh_from (init_global 2) marked_race = false /\
  (fun pr => (inbox_spawns pr, holders_l pr, marked_l pr)) <$> (grun (init_global 2) (take 12 marked_race) !! 0)
    = Some ([5], [], [5]) /\
  live_all (grun (init_global 2) marked_race) = [(0, false, [(5, 5); (E0, 5)]); (1, true, [(5, 5)])].
Proof. vm_compute. repeat split; reflexivity. Qed.

(* "announced once": Panic.three_hosts, peer 2 polls MSpawn 5 from peer 0 and from peer 1 in one frame, holding
   nothing (three_hosts_effect above) *)

(* the guarded clause (every holder of the uuid is the entity uuid_to_entity names, or the uuid is in
   despawned_locally): a CONFORMING trace.  The client runs poll, entity_removed_from_client, sync point in that
   order (an order Bevy does not build) and takes one of the two announcements of uuid 5 (live + snapshot): the
   replica E0 is forgotten by uuid_to_entity and remembered by despawned_locally (Panic.odd_order).  Then it leaves
   and joins again: verify_client_connected clears despawned_locally; the model keeps the inbox of the old
   connection, the second announcement is still there and is accepted: two replicas of uuid 5.  The premise fails
   in the frames of the new session only (the first of them polls nothing, the second one accepts). *)
Definition order_c : list sysid := [SCliConnecting; SCliVerify; SCliDisconnected; SCliPoll; SCliRemoved; SSync].
Definition stale_inbox : list step :=
  [StApp 0 (OSetup true 0); StApp 1 (OSetup false 0);
   StApp 0 (OSetOrder host_order); StApp 1 (OSetOrder order_c);
   StFrame 0 (fh []); StFrame 0 (fh []);
   StFrame 1 (fc 0); StFrame 1 (fc 0); StFrame 1 (fc 0);
   StApp 0 (OSpawn 5 true []); StFrame 0 (fh [1]);
   StFrame 1 (fc 1);
   StApp 1 ORemoveTransports; StFrame 1 (fc 0); StFrame 1 (fc 0);
   StApp 1 (OSetup false 0); StFrame 1 (fc 0); StFrame 1 (fc 0); StFrame 1 (fc 0);
   StFrame 1 (fc 5)].

Example stale_inbox_effect :
  conforming 2 stale_inbox /\
  spawns_fresh 2 (take 18 stale_inbox) /\ spawns_fresh_from (init_global 2) (take 19 stale_inbox) = false /\
  (fun pr => (live_l pr, u2e_list pr, t_tomb pr, inbox_spawns pr)) <$> (grun (init_global 2) (take 19 stale_inbox) !! 1)
    = Some ([(E0, 5)], [], [], [5]) /\
  live_all (grun (init_global 2) stale_inbox) = [(0, true, [(5, 5)]); (1, false, [(E0 + 1, 5); (E0, 5)])].
Proof. vm_compute. repeat split; reflexivity. Qed.

Theorem uuid_unique_refuted_conforming_client :
  exists n tr p pr, conforming n tr /\ grun (init_global n) tr !! p = Some pr /\ ~ uuid_unique pr.
Proof.
  exists 2%nat, stale_inbox, 1.
  destruct (grun (init_global 2) stale_inbox !! 1) as [pr|] eqn:E; [|vm_compute in E; discriminate].
  exists pr. split; [vm_compute; reflexivity|]. split; [exact E|].
  apply (not_unique_of_b _ 1 pr E). vm_compute. reflexivity.
Qed.

(* A limitation of the premise (not of the property): "no EntityDelete of the uuid precedes the announcement" is
   there because between the handler of EntityDelete u (uuid_to_entity forgets u, the despawn is deferred) and
   the sync point a new announcement of u is accepted while the old replica is still alive; the invariant counts
   pending spawns as holders.  UuidStable.reuse (the host despawns entity 1 and spawns id 1 again, marked: uuid 1 is
   announced again, which real uuids never are: not conforming) is such a trace; uniqueness holds at the end. *)
Example reuse_not_fresh :
  uuid_conforming 2 (session ++ reuse) /\ ~ conforming 2 (session ++ reuse) /\
  spawns_fresh_from (init_global 2) (session ++ reuse) = false /\
  live_all (grun (init_global 2) (session ++ reuse))
  = [(0, true, [(1, 1); (3, 3); (2, 2); (4, 4)]); (1, true, [(E0 + 3, 4); (E0 + 1, 3); (E0 + 4, 1); (E0 + 2, 2)])].
Proof.
  split; [vm_compute; reflexivity|]. split; [intros H; vm_compute in H; discriminate|].
  split; vm_compute; reflexivity.
Qed.

(* The suggested link between the entities and uuid_to_entity,
     tracked_ents pr : every live synchronised entity is the one its uuid maps to,
   is not an invariant, not even of conforming runs with truthful oracles: Panic.odd_order (the client runs
   poll_for_messages, entity_removed_from_client, sync point in that order: the replica is forgotten by
   uuid_to_entity, remembered by despawned_locally).  uuid_unique holds there, and by the theorem. *)
Definition tracked_ents (pr : peer_state) : Prop :=
  forall e en u, p_ents pr !! e = Some en -> en_sync en = Some u -> t_u2e pr !! u = Some e.
Definition tracked_entsb (pr : peer_state) : bool :=
  forallb (fun x : ent * uuid => bool_decide (t_u2e pr !! x.2 = Some x.1)) (live_l pr).
Lemma tracked_entsb_spec pr : tracked_ents pr -> tracked_entsb pr = true.
Proof.
  intros H. apply forallb_forall. intros [e u] Hin. apply elem_of_list_In, elem_of_live_l in Hin as (en & H1 & H2).
  apply bool_decide_eq_true. simpl. apply (H e en u H1 H2).
Qed.
Lemma tracked_unique pr : tracked_ents pr -> uuid_unique pr.
Proof.
  intros H e1 e2 en1 en2 u A1 A2 B1 B2. pose proof (H e1 en1 u A1 A2). pose proof (H e2 en2 u B1 B2). congruence.
Qed.

Theorem tracked_refuted :
  exists n tr p pr, conforming n tr /\ spawns_fresh n tr /\ grun (init_global n) tr !! p = Some pr /\
                    ~ tracked_ents pr /\ uuid_unique pr.
Proof.
  exists 2%nat, odd_order, 1.
  destruct (grun (init_global 2) odd_order !! 1) as [pr|] eqn:E; [|vm_compute in E; discriminate].
  exists pr. split; [vm_compute; reflexivity|]. split; [vm_compute; reflexivity|]. split; [exact E|]. split.
  - intros H. apply tracked_entsb_spec in H.
    assert (Hb : tracked_entsb <$> (grun (init_global 2) odd_order !! 1) = Some false) by (vm_compute; reflexivity).
    rewrite E in Hb. simpl in Hb. congruence.
  - apply (grun_uuid_unique_conforming 2 odd_order) with (p := 1); [vm_compute; reflexivity|vm_compute; reflexivity|exact E].
Qed.

(* ================================================================================================ *)
(* 10. Non-vacuity                                                                                   *)
(* ================================================================================================ *)

(* Hierarchy.whole (two peers, four synchronised entities, re-parentings on both sides): both premises hold;
   the client's inbox carries every spawn TWICE (announced live and again in the snapshot), which the guarded
   clause of spawns_fresh accepts *)
Example whole_premises : uuid_conforming 2 whole /\ spawns_fresh 2 whole.
Proof. split; vm_compute; reflexivity. Qed.

Example whole_duplicate_announcements :
  (fun pr => (inbox_spawns pr, live_l pr)) <$> (grun (init_global 2) (take 18 session) !! 1)
  = Some ([1; 3; 2; 4; 1; 3; 2; 4], []).
Proof. vm_compute. reflexivity. Qed.

Example whole_unique_all_peers :
  live_all (grun (init_global 2) whole)
  = [(0, true, [(1, 1); (3, 3); (2, 2); (4, 4)]);
     (1, true, [(E0 + 3, 4); (E0 + 1, 3); (E0, 1); (E0 + 2, 2)])].
Proof. vm_compute. reflexivity. Qed.

Example whole_by_theorem p pr : grun (init_global 2) whole !! p = Some pr -> uuid_unique pr.
Proof. apply grun_uuid_unique; apply whole_premises. Qed.

(* every prefix of it as well (the invariant in states with pending work) *)
Example whole_prefix_by_theorem k p pr : grun (init_global 2) (take k whole) !! p = Some pr -> K pr.
Proof.
  assert (H : forall k, (k <= length whole)%nat ->
            uuid_conforming_from (init_global 2) (take k whole) && spawns_fresh_from (init_global 2) (take k whole) = true).
  { intros j Hj. do 32 (destruct j as [|j]; [vm_compute; reflexivity|]). simpl in Hj. lia. }
  destruct (le_lt_dec k (length whole)) as [Hk|Hk].
  - specialize (H k Hk). apply andb_true_iff in H as [H1 H2]. apply grun_unique_inv; assumption.
  - rewrite take_ge by lia. apply grun_unique_inv; apply whole_premises.
Qed.

(* Panic.demo (despawns on both sides, messages about a despawned replica, an application command) *)
Example demo_premises : conforming 2 Panic.demo /\ spawns_fresh 2 Panic.demo.
Proof. split; vm_compute; reflexivity. Qed.
Example demo_by_theorem p pr : grun (init_global 2) Panic.demo !! p = Some pr -> uuid_unique pr.
Proof. apply grun_uuid_unique_conforming; apply demo_premises. Qed.

(* A hand-over, three peers: host 0 (script entities 1, 2), clients 1 and 2; PromoteToHost 1: peer 1 starts a server
   and announces NewHost, the old host kicks it, relays, and becomes a client of peer 1; client 2 swaps its transport;
   the old host joins the new one (its own entities come back in the snapshot: MSpawn 1, MSpawn 2 for uuids it
   holds, absorbed by the guard); then the new host spawns 7, the old host spawns 8.  Every peer ends with the four
   uuids once. *)
Definition full_order : list sysid :=
  [SSrvConnected; SSrvDisconnected; SCliConnecting; SCliVerify; SCliDisconnected;
   SSrvRemoved; SSrvCreated; SSrvParented; SSrvReact; SSrvPromote; SSrvClientConnected; SSrvPoll;
   SCliRemoved; SCliCreated; SCliParented; SCliReact; SCliPoll; SSync].
Definition fo (ev : list (bool * peer)) (cl : list peer) (st : option renet_status) (sp : list peer) (cp : nat)
  : frame_oracle := Build_frame_oracle ev cl st sp cp [].
Definition handover : list step :=
  [StApp 0 (OSetup true 0); StApp 1 (OSetup false 0); StApp 2 (OSetup false 0);
   StApp 0 (OSetOrder full_order); StApp 1 (OSetOrder full_order); StApp 2 (OSetOrder full_order);
   StFrame 0 (fo [] [] None [] 0); StFrame 0 (fo [] [] None [] 0);
   StFrame 1 (fo [] [] (Some RConnected) [] 0); StFrame 1 (fo [] [] (Some RConnected) [] 0);
   StFrame 1 (fo [] [] (Some RConnected) [] 0);
   StFrame 2 (fo [] [] (Some RConnected) [] 0); StFrame 2 (fo [] [] (Some RConnected) [] 0);
   StFrame 2 (fo [] [] (Some RConnected) [] 0);
   StApp 0 (OSpawn 1 true []); StApp 0 (OSpawn 2 true []);
   StFrame 0 (fo [(true, 1); (true, 2)] [1; 2] None [1; 2] 0);
   StFrame 1 (fo [] [] None [] 20); StFrame 2 (fo [] [] None [] 20);
   StApp 0 (OPromote 1);
   StFrame 0 (fo [] [1; 2] None [] 0);
   StFrame 1 (fo [] [] None [] 20);      (* MPromote: a server transport is inserted *)
   StFrame 1 (fo [] [] None [] 0);       (* server_connected *)
   StFrame 1 (fo [] [] None [] 0);       (* ServerState::Connected entered: NewHost 1 to the old host *)
   StFrame 0 (fo [] [1; 2] None [1] 0);  (* the old host kicks 1, relays NewHost, starts a client towards 1 *)
   StFrame 2 (fo [] [] None [] 20);      (* client 2 swaps its transport *)
   StFrame 0 (fo [(false, 1); (false, 2)] [] (Some RConnected) [] 0);
   StFrame 0 (fo [] [] (Some RConnected) [] 0);
   StFrame 0 (fo [] [] (Some RConnected) [] 0);
   StFrame 1 (fo [(true, 0); (true, 2)] [0; 2] None [] 0);
   StFrame 1 (fo [] [0; 2] None [] 0);
   StFrame 1 (fo [] [0; 2] None [] 0);
   StApp 1 (OSpawn 7 true []); StFrame 1 (fo [] [0; 2] None [] 0);
   StFrame 0 (fo [] [] (Some RConnected) [] 20); StFrame 2 (fo [] [] (Some RConnected) [] 20);
   StApp 0 (OSpawn 8 true []); StFrame 0 (fo [] [] (Some RConnected) [] 0);
   StFrame 1 (fo [] [0; 2] None [0; 0] 0);   (* the old host's join request and its MSpawn 8 *)
   StFrame 2 (fo [] [] (Some RConnected) [] 20); StFrame 0 (fo [] [] (Some RConnected) [] 20)].

Example handover_premises : conforming 3 handover /\ spawns_fresh 3 handover.
Proof. split; vm_compute; reflexivity. Qed.

Example handover_roles_and_snapshot :
  (fun pr => (s_server pr, s_client pr, live_l pr, inbox_of pr 1)) <$> (grun (init_global 3) (take 39 handover) !! 0)
  = Some (SrvDisconnected, CliConnected, [(1, 1); (2, 2); (8, 8); (E0, 7)], [MSpawn 7; MSpawn 2; MSpawn 1; MFinInit]) /\
  (fun pr => (s_server pr, s_client pr)) <$> (grun (init_global 3) (take 39 handover) !! 1)
  = Some (SrvConnected, CliDisconnected).
Proof. vm_compute. split; reflexivity. Qed.

Example handover_unique_all_peers :
  live_all (grun (init_global 3) handover)
  = [(0, true, [(1, 1); (2, 2); (8, 8); (E0, 7)]);
     (1, true, [(7, 7); (E0 + 1, 2); (E0, 1); (E0 + 2, 8)]);
     (2, true, [(E0 + 3, 8); (E0 + 1, 2); (E0, 1); (E0 + 2, 7)])].
Proof. vm_compute. reflexivity. Qed.

Example handover_by_theorem p pr : grun (init_global 3) handover !! p = Some pr -> uuid_unique pr.
Proof. apply grun_uuid_unique_conforming; apply handover_premises. Qed.

Print Assumptions frame_unique_inv.
Print Assumptions frame_uuid_unique.
Print Assumptions app_step_unique_inv.
Print Assumptions K_init.
Print Assumptions grun_unique_inv.
Print Assumptions grun_uuid_unique.
Print Assumptions grun_uuid_unique_names.
Print Assumptions grun_uuid_unique_conforming.
Print Assumptions grun_frame_uuid_unique.
Print Assumptions uuid_uniqueb_spec.
Print Assumptions uuid_unique_refuted.
Print Assumptions uuid_unique_refuted_on_client.
Print Assumptions uuid_unique_refuted_conforming.
Print Assumptions uuid_unique_refuted_conforming_client.
Print Assumptions tracked_refuted.
Print Assumptions whole_by_theorem.
Print Assumptions whole_prefix_by_theorem.
Print Assumptions demo_by_theorem.
Print Assumptions handover_by_theorem.
