(* Lemmas for property C17 (bundle_fix): what systems and deferred commands can change, seen from
   one entity and one fix system.  The theorems are in Fix.v. *)
From stdpp Require Import gmap list pmap.
From Coq Require Import NArith Lia.
From RecordUpdate Require Import RecordSet.
From BS Require Import Sync.Types Sync.Model.
Import RecordSetNotations.
Local Open Scope N_scope.

(* ---------- the key order of map_to_list depends on the domain only ---------------------------- *)
Lemma Pto_list_raw_app {A} (t : Pmap_raw A) j acc :
  Pto_list_raw j t acc = Pto_list_raw j t [] ++ acc.
Proof.
  revert j acc. induction t as [|o l IHl r IHr]; intros j acc; simpl; [done|].
  rewrite (IHl _ (Pto_list_raw _ r acc)), (IHl _ (Pto_list_raw _ r [])), (IHr _ acc).
  by rewrite <- !app_assoc.
Qed.

Lemma Pto_list_raw_keys {A B} (t1 : Pmap_raw A) (t2 : Pmap_raw B) j acc1 acc2 :
  Pmap_wf t1 -> Pmap_wf t2 ->
  (forall i, is_Some (t1 !! i) <-> is_Some (t2 !! i)) ->
  acc1.*1 = acc2.*1 ->
  (Pto_list_raw j t1 acc1).*1 = (Pto_list_raw j t2 acc2).*1.
Proof.
  revert t2 j acc1 acc2.
  induction t1 as [|o1 l1 IHl r1 IHr]; intros [|o2 l2 r2] j acc1 acc2 W1 W2 Hd Hacc; simpl; auto.
  - exfalso. assert (PNode o2 l2 r2 = PLeaf) as E; [|discriminate E].
    apply Pmap_wf_canon; [|done]. intros i. specialize (Hd i).
    destruct (PNode o2 l2 r2 !! i) eqn:E; [|done].
    destruct Hd as [_ Hd]. destruct Hd as [? Hd]; [eauto|]. by destruct i.
  - exfalso. assert (PNode o1 l1 r1 = PLeaf) as E; [|discriminate E].
    apply Pmap_wf_canon; [|done]. intros i. specialize (Hd i).
    destruct (PNode o1 l1 r1 !! i) eqn:E; [|done].
    destruct Hd as [Hd _]. destruct Hd as [? Hd]; [eauto|]. by destruct i.
  - rewrite !fmap_app. f_equal.
    + pose proof (Hd 1%positive) as H1; simpl in H1.
      destruct o1, o2; simpl; auto.
      * destruct H1 as [H1 _]. destruct H1; eauto; done.
      * destruct H1 as [_ H1]. destruct H1; eauto; done.
    + apply IHl; eauto using Pmap_wf_l, Pmap_wf_r.
      * intros i. apply (Hd (i~0)%positive).
      * apply IHr; eauto using Pmap_wf_l, Pmap_wf_r. intros i. apply (Hd (i~1)%positive).
Qed.

Lemma gmap_to_list_keys `{Countable K} {A B} (m1 : gmap K A) (m2 : gmap K B) :
  (forall i, is_Some (m1 !! i) <-> is_Some (m2 !! i)) ->
  (map_to_list m1).*1 = (map_to_list m2).*1.
Proof.
  destruct m1 as [[t1 W1] P1], m2 as [[t2 W2] P2]. intros Hd.
  unfold map_to_list, gmap_to_list, map_to_list, Pto_list.
  assert ((Pto_list_raw 1 t1 []).*1 = (Pto_list_raw 1 t2 []).*1) as Hk.
  { apply Pto_list_raw_keys; auto. intros i.
    pose proof (bool_decide_unpack _ P1) as Q1. pose proof (bool_decide_unpack _ P2) as Q2.
    split; intros [x Hx].
    - pose proof (Q1 i x Hx) as Hi. simpl in Hi.
      destruct (decode i) as [k|] eqn:E; simplify_eq/=.
      apply (Hd k). exists x. done.
    - pose proof (Q2 i x Hx) as Hi. simpl in Hi.
      destruct (decode i) as [k|] eqn:E; simplify_eq/=.
      apply (Hd k). exists x. done. }
  revert Hk. generalize (Pto_list_raw 1 t1 []) (Pto_list_raw 1 t2 []).
  induction l as [|[i x] l IH]; intros [|[i' y] l'] Hk; simplify_eq/=; auto.
  destruct (decode i'); simpl; [f_equal|]; auto.
Qed.

(* ---------- what a system other than the sync point can change ----------------------------------- *)
Lemma foldl_rel {A B} (R : A -> A -> Prop) (f : A -> B -> A) (l : list B) :
  (forall a, R a a) -> (forall a b c, R a b -> R b c -> R a c) ->
  (forall a x, x ∈ l -> R a (f a x)) -> forall a, R a (foldl f a l).
Proof.
  intros Hr Ht. induction l as [|x l IH]; intros Hs a; simpl; [apply Hr|].
  eapply Ht; [apply Hs; left|]. apply IH. intros; apply Hs; by right.
Qed.

Definition model_fix_lists : list (list tyid) :=
  [[T_VIEWVIS; T_INHERITEDVIS]; [T_GLOBALTRANSFORM]; [T_CUBEMAPFRUSTA]; [T_CUBEMAPVISIBLE]; [T_FRUSTUM];
   [T_CASCADESFRUSTA]; [T_CASCADESVISIBLE]; [T_CASCADES]; [T_CASCADESHADOWCFG]].

(* what the systems of the crate (everything except application systems) can queue when the entity allocator stands at b or later *)
Definition model_cmd (b : N) (c : cmd) : bool :=
  match c with
  | CSpawnSync e _ => b <=? e
  | CFixInsert _ cs => bool_decide (cs ∈ model_fix_lists)
  | CAppDespawnUuid _ | CAppDespawn _ | CAppInsert _ _ _ => false
  | _ => true
  end.

Definition gen (pr : peer_state) (c : cmd) : Prop :=
  model_cmd (p_next_ent pr) c = true \/ exists n, (n, c) ∈ p_app_cmds pr.

Definition queue (pr : peer_state) (k : N) : list cmd := default [] (p_cmdq pr !! k).

Record sys_step (k0 : N) (pr pr' : peer_state) : Prop := {
  ss_ents : p_ents pr' = p_ents pr;
  ss_order : p_order pr' = p_order pr;
  ss_panic : p_panic pr' = p_panic pr;
  ss_registry : p_registry pr' = p_registry pr;
  ss_tick : p_tick pr <= p_tick pr';
  ss_next : p_next_ent pr <= p_next_ent pr';
  ss_lastrun : forall k, k <> k0 -> k <> ckey k0 -> p_last_run pr' !! k = p_last_run pr !! k;
  ss_lastrun_lt : forall k v, p_last_run pr' !! k = Some v -> p_last_run pr !! k = Some v \/ v < p_tick pr';
  ss_cmdq_other : forall k, k <> k0 -> p_cmdq pr' !! k = p_cmdq pr !! k;
  ss_cmdq_keep : forall c, c ∈ queue pr k0 -> c ∈ queue pr' k0;
  ss_cmdq_new : forall c, c ∈ queue pr' k0 -> c ∈ queue pr k0 \/ gen pr c;
  ss_app : forall x, x ∈ p_app_cmds pr' -> x ∈ p_app_cmds pr;
}.

Lemma model_cmd_mono b b' c : b <= b' -> model_cmd b' c = true -> model_cmd b c = true.
Proof. destruct c; simpl; auto. rewrite !N.leb_le. lia. Qed.

Lemma ss_refl k0 pr : sys_step k0 pr pr.
Proof. split; auto; try lia. Qed.

Lemma ss_trans k0 a b c : sys_step k0 a b -> sys_step k0 b c -> sys_step k0 a c.
Proof.
  intros [] []. split; try congruence; try lia; eauto.
  - intros k ? ?. rewrite ss_lastrun1, ss_lastrun0; auto.
  - intros k v Hv. destruct (ss_lastrun_lt1 k v Hv) as [H|H]; auto.
    destruct (ss_lastrun_lt0 k v H); auto. right; lia.
  - intros k ?. rewrite ss_cmdq_other1, ss_cmdq_other0; auto.
  - intros x Hx. destruct (ss_cmdq_new1 x Hx) as [H|H]; auto.
    right. destruct H as [H|[n H]]; [left; eapply model_cmd_mono; eauto|right; eauto].
Qed.

(* equality of the fields the relation looks at *)
Definition core_eq (pr pr' : peer_state) : Prop :=
  p_ents pr' = p_ents pr /\ p_order pr' = p_order pr /\ p_panic pr' = p_panic pr /\ p_tick pr' = p_tick pr /\
  p_next_ent pr' = p_next_ent pr /\ p_last_run pr' = p_last_run pr /\ p_cmdq pr' = p_cmdq pr /\
  p_app_cmds pr' = p_app_cmds pr /\ p_registry pr' = p_registry pr.

Lemma ss_core k0 pr pr' : core_eq pr pr' -> sys_step k0 pr pr'.
Proof.
  intros (?&?&?&?&?&?&?&?&?). split; auto; try lia; unfold queue; try congruence.
  all: intros; left; congruence.
Qed.

Ltac core_tac := repeat split; reflexivity.

Lemma ss_push k0 pr c : gen pr c -> sys_step k0 pr (push_cmd pr k0 c).
Proof.
  intros Hg. split; try reflexivity; auto; try lia; unfold queue, push_cmd; cbn.
  - intros k ?. by rewrite lookup_insert_ne.
  - intros c' Hc. rewrite lookup_insert. cbn. apply elem_of_app; auto.
  - intros c'. rewrite lookup_insert. cbn. rewrite elem_of_app, elem_of_list_singleton.
    intros [?| ->]; auto.
Qed.

Lemma ss_reserve_push k0 pr u r :
  sys_step k0 pr (push_cmd (pr <| p_next_ent := p_next_ent pr + 1 |> <| p_reserved := r |>) k0 (CSpawnSync (p_next_ent pr) u)).
Proof.
  split; try reflexivity; auto; try (cbn; lia); unfold queue, push_cmd; cbn.
  - intros k ?. by rewrite lookup_insert_ne.
  - intros c' Hc. rewrite lookup_insert. cbn. apply elem_of_app; auto.
  - intros c'. rewrite lookup_insert. cbn. rewrite elem_of_app, elem_of_list_singleton.
    intros [?| ->]; auto. right; left. cbn. apply N.leb_le. lia.
Qed.

Lemma ss_send k0 pr d m : sys_step k0 pr (send pr d m).
Proof. apply ss_core. core_tac. Qed.
Lemma ss_send_all k0 pr ds m : sys_step k0 pr (send_all pr ds m).
Proof. unfold send_all. apply (foldl_rel (sys_step k0)); eauto using ss_refl, ss_trans, ss_send. Qed.
Lemma ss_broadcast k0 pr m : sys_step k0 pr (broadcast pr m).
Proof. apply ss_send_all. Qed.
Lemma ss_relay k0 pr f m : sys_step k0 pr (relay_except pr f m).
Proof. apply ss_send_all. Qed.
Lemma ss_send_up k0 pr m : sys_step k0 pr (send_up pr m).
Proof. unfold send_up. destruct (n_cli_transport pr) as [[]|]; auto using ss_send, ss_refl. Qed.

Lemma ss_begin k0 pr : sys_step k0 pr (pr <| p_tick := p_tick pr + 1 |>).
Proof. split; try reflexivity; auto; cbn; try lia. Qed.
Lemma ss_end k0 pr this : this < p_tick pr -> sys_step k0 pr (end_run pr k0 this).
Proof.
  intros Hl. split; try reflexivity; auto; cbn; try lia.
  - intros k ? _. by rewrite lookup_insert_ne.
  - intros k v. destruct (decide (k = k0)) as [->|].
    + rewrite lookup_insert. intros [= <-]. auto.
    + rewrite lookup_insert_ne by done. auto.
Qed.
Lemma ss_end_c k0 pr this : this < p_tick pr -> sys_step k0 pr (end_run pr (ckey k0) this).
Proof.
  intros Hl. split; try reflexivity; auto; cbn; try lia.
  - intros k _ ?. by rewrite lookup_insert_ne.
  - intros k v. destruct (decide (k = ckey k0)) as [->|].
    + rewrite lookup_insert. intros [= <-]. auto.
    + rewrite lookup_insert_ne by done. auto.
Qed.

Ltac gen_tac := first [ left; reflexivity | assumption ].

Ltac ss_go :=
  lazymatch goal with
  | |- sys_step _ ?a ?a => apply ss_refl
  | |- sys_step ?k ?a (push_cmd (set p_reserved _ (set p_next_ent _ ?x)) ?k (CSpawnSync _ _)) =>
      apply (ss_trans k a x); [ss_go | apply ss_reserve_push]
  | |- sys_step ?k ?a (push_cmd ?x ?k ?c) => apply (ss_trans k a x); [ss_go | apply ss_push; gen_tac]
  | |- sys_step ?k ?a (send ?x _ _) => apply (ss_trans k a x); [ss_go | apply ss_send]
  | |- sys_step ?k ?a (send_up ?x _) => apply (ss_trans k a x); [ss_go | apply ss_send_up]
  | |- sys_step ?k ?a (broadcast ?x _) => apply (ss_trans k a x); [ss_go | apply ss_broadcast]
  | |- sys_step ?k ?a (relay_except ?x _ _) => apply (ss_trans k a x); [ss_go | apply ss_relay]
  | |- sys_step ?k ?a (request_asset ?x _ _ _) =>
      apply (ss_trans k a x); [ss_go | unfold request_asset; ss_go]
  | |- sys_step ?k ?a (insert_asset ?x _ _ _) =>
      apply (ss_trans k a x); [ss_go | unfold insert_asset; ss_go]
  | |- sys_step ?k ?a (signal_component_changed ?x _ _ _ _) =>
      apply (ss_trans k a x); [ss_go | unfold signal_component_changed; cbv zeta; ss_go]
  | |- sys_step ?k ?a (set _ _ ?x) => apply (ss_trans k a x); [ss_go | generalize x; intros ?; apply ss_core; core_tac]
  | |- sys_step ?k ?a (foldl _ ?x _) =>
      apply (ss_trans k a x); [ss_go | apply (foldl_rel (sys_step k)); [apply ss_refl | apply ss_trans | intros ? ? _; ss_go] ]
  | |- sys_step _ _ (let '(_, _) := ?x in _) => destruct x; ss_go
  | |- sys_step _ _ (match ?b with _ => _ end) => destruct b eqn:?; ss_go
  end.

Lemma ss_fix_system k pr last T W C :
  C ∈ model_fix_lists -> sys_step k pr (fix_system pr k last T W C).
Proof.
  intros HC. unfold fix_system.
  apply (foldl_rel (sys_step k)); [apply ss_refl | apply ss_trans |]. intros a [e en] _.
  destruct (en_comps en !! T); [|apply ss_refl].
  destruct (_ && _); [|apply ss_refl].
  apply ss_push. left. cbn. by apply bool_decide_eq_true.
Qed.

Lemma ss_entity_created b k pr last : sys_step k pr (entity_created b pr k last).
Proof. unfold entity_created. ss_go. Qed.
Lemma ss_entity_removed_server k pr : sys_step k pr (entity_removed_server pr).
Proof. unfold entity_removed_server. cbv zeta. ss_go. Qed.
Lemma ss_entity_removed_client k pr : sys_step k pr (entity_removed_client pr).
Proof. unfold entity_removed_client. cbv zeta. ss_go. Qed.
Lemma ss_entity_parented_server k pr last : sys_step k pr (entity_parented_server pr last).
Proof. unfold entity_parented_server. ss_go. Qed.
Lemma ss_entity_parented_client k pr last : sys_step k pr (entity_parented_client pr last).
Proof. unfold entity_parented_client. ss_go. Qed.
Lemma ss_sync_detect k pr t last : sys_step k pr (sync_detect pr t last).
Proof. unfold sync_detect. ss_go. Qed.
Lemma ss_react_comp b k pr : sys_step k pr (react_on_changed_components b pr).
Proof. unfold react_on_changed_components. cbv zeta. ss_go. Qed.
Lemma ss_react_assets b a k pr : sys_step k pr (react_on_changed_assets b a pr).
Proof. unfold react_on_changed_assets. cbv zeta. ss_go. Qed.
Lemma ss_process_assets k pr c d : sys_step k pr (process_assets pr c d).
Proof. unfold process_assets. cbv zeta. ss_go. Qed.
Lemma ss_promote_reader k pr : sys_step k pr (promote_reader pr).
Proof. unfold promote_reader. cbv zeta. ss_go. Qed.
Lemma ss_client_connected k pr : sys_step k pr (client_connected pr k).
Proof. unfold client_connected. cbv zeta. ss_go. Qed.
Lemma ss_verify k pr : sys_step k pr (verify_client_connected pr k).
Proof. unfold verify_client_connected. cbv zeta. ss_go. Qed.
Lemma ss_server_received k pr f m : sys_step k pr (server_received pr k f m).
Proof. unfold server_received. cbv zeta. destruct m; ss_go. Qed.
Lemma ss_client_received k pr m : sys_step k pr (client_received pr k m).
Proof. unfold client_received. cbv zeta. destruct m; ss_go. Qed.

Lemma pop_inbox_core pr f m pr' : pop_inbox pr f = Some (m, pr') -> core_eq pr pr'.
Proof.
  unfold pop_inbox. destruct (n_inbox pr !! f) as [[|m' r]|]; intros [= <- <-]. core_tac.
Qed.
Lemma ss_server_poll k pr fr : sys_step k pr (server_poll pr k fr).
Proof.
  unfold server_poll. apply (foldl_rel (sys_step k)); [apply ss_refl | apply ss_trans |].
  intros a f _. destruct (pop_inbox a f) as [[m a']|] eqn:E; [|apply ss_refl].
  eapply ss_trans; [apply ss_core; eapply pop_inbox_core; eauto | apply ss_server_received].
Qed.
Lemma ss_client_poll k pr h n : sys_step k pr (client_poll pr k h n).
Proof.
  unfold client_poll. apply (foldl_rel (sys_step k)); [apply ss_refl | apply ss_trans |].
  intros a f _. destruct (pop_inbox a h) as [[m a']|] eqn:E; [|apply ss_refl].
  eapply ss_trans; [apply ss_core; eapply pop_inbox_core; eauto | apply ss_client_received].
Qed.

Lemma push_all_spec k (l : list (N * cmd)) : forall pr,
  let pr' := foldl (fun pr x => push_cmd pr k x.2) pr l in
  pr' = pr <| p_cmdq := p_cmdq pr' |> /\
  (forall k', k' <> k -> p_cmdq pr' !! k' = p_cmdq pr !! k') /\
  queue pr' k = queue pr k ++ l.*2.
Proof.
  induction l as [|x l IH]; intros pr; simpl.
  - split; [by destruct pr|]. split; auto. by rewrite app_nil_r.
  - destruct (IH (push_cmd pr k x.2)) as (E & Ho & Hq). split; [|split].
    + rewrite E at 1. reflexivity.
    + intros k' Hk. rewrite Ho by done. unfold push_cmd; cbn. by rewrite lookup_insert_ne.
    + rewrite Hq. unfold queue at 1, push_cmd; cbn. rewrite lookup_insert; cbn.
      unfold queue. by rewrite <- app_assoc.
Qed.

Lemma ss_app_sys k pr n :
  sys_step k pr
    (foldl (fun pr x => push_cmd pr k x.2)
       (pr <| p_app_cmds := filter (fun x : N * cmd => negb (x.1 =? n)) (p_app_cmds pr) |>)
       (filter (fun x : N * cmd => x.1 =? n) (p_app_cmds pr))).
Proof.
  match goal with |- sys_step _ _ (foldl _ ?a ?l) => destruct (push_all_spec k l a) as (E & Ho & Hq) end.
  cbv zeta in *. set (pr' := foldl _ _ _) in *. clearbody pr'.
  split; try (rewrite E; reflexivity); try (rewrite E; cbn; lia).
  - intros kk v Hv. rewrite E in Hv. auto.
  - intros kk Hk. rewrite Ho by done. reflexivity.
  - intros c Hc. rewrite Hq. apply elem_of_app; left. exact Hc.
  - intros c. rewrite Hq, elem_of_app. intros [Hc|Hc]; [left; exact Hc|right; right].
    apply elem_of_list_fmap in Hc as ([n' c'] & -> & Hc). apply elem_of_list_filter in Hc as [_ Hc].
    exists n'. exact Hc.
  - intros x. rewrite E. cbn. intros Hx. apply elem_of_list_filter in Hx as [_ Hx]. exact Hx.
Qed.

Lemma ss_run_body pr s o : s <> SSync -> sys_step (sys_key s) pr (run_body pr s o).
Proof.
  intros Hs. unfold run_body, begin_run. cbv zeta.
  set (k := sys_key s). set (pr1 := pr <| p_tick := p_tick pr + 1 |>).
  assert (sys_step k pr pr1) as H1 by apply ss_begin.
  eapply ss_trans; [exact H1|].
  assert (forall x, sys_step k pr1 x -> sys_step k pr1 (end_run x k (p_tick pr))) as Hend.
  { intros x Hx. eapply ss_trans; [exact Hx|]. apply ss_end.
    pose proof (ss_tick _ _ _ Hx) as Ht. subst pr1. cbn in Ht. lia. }
  apply Hend. clear Hend H1. generalize (last_run pr1 k). intros last. clearbody pr1. subst k.
  destruct s; try (apply ss_fix_system; cbn; set_solver);
    auto using ss_entity_created, ss_entity_removed_server, ss_entity_removed_client,
      ss_entity_parented_server, ss_entity_parented_client, ss_sync_detect, ss_react_comp,
      ss_react_assets, ss_process_assets, ss_promote_reader, ss_client_connected, ss_verify,
      ss_server_poll, ss_client_poll, ss_refl, ss_app_sys.
  all: try (ss_go; fail).
  destruct (n_cli_transport pr1) as [[h ?]|]; [apply ss_client_poll|apply ss_refl].
Qed.

Lemma ss_cond_added k pr a : sys_step k pr (cond_resource_added pr k a).1.
Proof.
  unfold cond_resource_added, begin_run. cbn.
  eapply ss_trans; [apply ss_begin|]. apply ss_end_c. cbn. lia.
Qed.
Lemma ss_cond_removed k pr b : sys_step k pr (cond_resource_removed pr k b).1.
Proof.
  unfold cond_resource_removed. destruct b; cbn; [apply ss_core; core_tac|].
  destruct (default false _); cbn; [apply ss_core; core_tac|apply ss_refl].
Qed.

Lemma ss_run_system pr s o : s <> SSync -> sys_step (sys_key s) pr (run_system pr s o).
Proof.
  intros Hs. unfold run_system. destruct (p_panic pr); [apply ss_refl|].
  pose proof (fun x => ss_run_body x s o Hs) as Hb.
  destruct s; try done; try apply Hb;
    try (destruct (_ : bool); [apply Hb|apply ss_refl]).
  - pose proof (ss_cond_added (sys_key SSrvConnected) pr (n_srv_transport pr)) as Hc.
    destruct (cond_resource_added _ _ _) as [pr1 b]; cbn in Hc.
    destruct (_ && _); [eapply ss_trans; [exact Hc|apply Hb]|exact Hc].
  - pose proof (ss_cond_removed (sys_key SSrvDisconnected) pr (is_some (n_srv_transport pr))) as Hc.
    destruct (cond_resource_removed _ _ _) as [pr1 b]; cbn in Hc.
    destruct (_ && _); [eapply ss_trans; [exact Hc|apply Hb]|exact Hc].
  - pose proof (ss_cond_added (sys_key SCliConnecting) pr (snd <$> n_cli_transport pr)) as Hc.
    destruct (cond_resource_added _ _ _) as [pr1 b]; cbn in Hc.
    destruct (_ && _); [eapply ss_trans; [exact Hc|apply Hb]|exact Hc].
  - pose proof (ss_cond_removed (sys_key SCliDisconnected) pr (is_some (n_cli_transport pr))) as Hc.
    destruct (cond_resource_removed _ _ _) as [pr1 b]; cbn in Hc.
    destruct (_ && _); [eapply ss_trans; [exact Hc|apply Hb]|exact Hc].
Qed.

(* ---------- what a deferred command can do to one entity ------------------------------------------ *)
Definition comps_ext (now : tick) (m m' : gmap tyid comp) : Prop :=
  forall t, match m !! t with
            | Some c => exists c', m' !! t = Some c' /\ c_added c' = c_added c
            | None => forall c', m' !! t = Some c' -> c_added c' = now
            end.
Definition ent_rel (now : tick) (oe oe' : option entity) : Prop :=
  match oe with
  | None => oe' = None
  | Some en => forall en', oe' = Some en' -> comps_ext now (en_comps en) (en_comps en')
  end.

Lemma comps_ext_refl now m : comps_ext now m m.
Proof. intros t. destruct (m !! t) eqn:E; eauto. intros ? [=]. Qed.
Lemma comps_ext_trans now a b c : comps_ext now a b -> comps_ext now b c -> comps_ext now a c.
Proof.
  intros H1 H2 t. specialize (H1 t). specialize (H2 t).
  destruct (a !! t) as [x|].
  - destruct H1 as (y & Ey & Hy). rewrite Ey in H2. destruct H2 as (z & Ez & Hz).
    exists z. split; auto. congruence.
  - intros z Ez. destruct (b !! t) as [y|].
    + destruct H2 as (z' & Ez' & Hz'). rewrite (H1 y eq_refl) in Hz'. congruence.
    + auto.
Qed.
Lemma ent_rel_refl now oe : ent_rel now oe oe.
Proof. destruct oe; cbn; auto. intros ? [= <-]. apply comps_ext_refl. Qed.
Lemma ent_rel_trans now a b c : ent_rel now a b -> ent_rel now b c -> ent_rel now a c.
Proof.
  destruct a as [x|]; cbn.
  - intros H1 H2 z ->. destruct b as [y|]; cbn in H2; [|done].
    eapply comps_ext_trans; eauto.
  - intros -> H. exact H.
Qed.

Definition has_all (C : list tyid) (en : entity) : Prop := forall t, t ∈ C -> has_comp en t = true.
Definition has_some (C : list tyid) (en : entity) : Prop := exists t, t ∈ C /\ has_comp en t = true.
(* all companions of the list or none of them *)
Definition all_or_none (C : list tyid) (oe : option entity) : Prop :=
  match oe with None => True | Some en => has_some C en -> has_all C en end.
Definition registry_ok (C : list tyid) (pr : peer_state) : Prop :=
  forall t, t ∈ C -> memN t (p_registry pr) = false.

Lemma memN_elem x l : memN x l = true <-> x ∈ l.
Proof.
  unfold memN. rewrite existsb_exists. split.
  - intros (y & Hy & E). apply N.eqb_eq in E. subst. by apply elem_of_list_In.
  - intros H. exists x. split; [by apply elem_of_list_In|apply N.eqb_refl].
Qed.

Lemma all_or_none_same C en en' :
  (forall t, t ∈ C -> has_comp en' t = has_comp en t) -> all_or_none C (Some en) -> all_or_none C (Some en').
Proof.
  intros Hs H (t & Ht & Hh). rewrite Hs in Hh by done.
  intros t' Ht'. rewrite Hs by done. apply H; [|done]. exists t. done.
Qed.
Lemma put_comp_has_other now t v en t' : t' <> t -> has_comp (put_comp now t v en) t' = has_comp en t'.
Proof.
  intros Hne. unfold has_comp, put_comp. destruct (en_comps en !! t); cbn; by rewrite lookup_insert_ne.
Qed.

Section cmd_rel.
  Context (vs : bool) (C : list tyid) (e : ent).

  Record cmd_step (pr pr' : peer_state) : Prop := {
    cs_order : p_order pr' = p_order pr;
    cs_tick : p_tick pr' = p_tick pr;
    cs_lastrun : p_last_run pr' = p_last_run pr;
    cs_next : p_next_ent pr' = p_next_ent pr;
    cs_app : p_app_cmds pr' = p_app_cmds pr;
    cs_cmdq : p_cmdq pr' = p_cmdq pr;
    cs_registry : p_registry pr' = p_registry pr;
    cs_ent : ent_rel (p_tick pr) (p_ents pr !! e) (p_ents pr' !! e);
    cs_pair : vs = true -> all_or_none C (p_ents pr !! e) -> all_or_none C (p_ents pr' !! e);
  }.

  Lemma cs_refl pr : cmd_step pr pr.
  Proof. split; auto. apply ent_rel_refl. Qed.
  Lemma cs_trans a b c : cmd_step a b -> cmd_step b c -> cmd_step a c.
  Proof.
    intros [] []. split; try congruence; auto.
    eapply ent_rel_trans; eauto. rewrite <- cs_tick0. done.
  Qed.

  Definition core2_eq (pr pr' : peer_state) : Prop :=
    p_ents pr' = p_ents pr /\ p_order pr' = p_order pr /\ p_tick pr' = p_tick pr /\
    p_next_ent pr' = p_next_ent pr /\ p_last_run pr' = p_last_run pr /\ p_cmdq pr' = p_cmdq pr /\
    p_app_cmds pr' = p_app_cmds pr /\ p_registry pr' = p_registry pr.
  Lemma cs_core pr pr' : core2_eq pr pr' -> cmd_step pr pr'.
  Proof. intros (E&?&?&?&?&?&?&?). split; auto; rewrite E; [apply ent_rel_refl|auto]. Qed.

  Lemma put_comp_ext now t v en : comps_ext now (en_comps en) (en_comps (put_comp now t v en)).
  Proof.
    intros t'. unfold put_comp. destruct (en_comps en !! t) as [c|] eqn:E; cbn.
    - destruct (decide (t' = t)) as [->|].
      + rewrite E, lookup_insert. eexists; split; eauto.
      + rewrite lookup_insert_ne by done. destruct (en_comps en !! t'); eauto. intros ? [=].
    - destruct (decide (t' = t)) as [->|].
      + rewrite E, lookup_insert. intros ? [= <-]. done.
      + rewrite lookup_insert_ne by done. destruct (en_comps en !! t'); eauto. intros ? [=].
  Qed.

  Lemma cs_upd_ent pr e' f :
    (forall en, comps_ext (p_tick pr) (en_comps en) (en_comps (f en))) ->
    (vs = true -> e' = e -> forall en t, t ∈ C -> has_comp (f en) t = has_comp en t) ->
    cmd_step pr (upd_ent pr e' f).
  Proof.
    intros Hf Hv. unfold upd_ent. destruct (p_ents pr !! e') as [en|] eqn:E; [|apply cs_refl].
    split; try reflexivity; cbn.
    - destruct (decide (e = e')) as [->|].
      + rewrite E, lookup_insert. cbn. intros ? [= <-]. apply Hf.
      + rewrite lookup_insert_ne by done. apply ent_rel_refl.
    - intros Hvs. destruct (decide (e = e')) as [->|].
      + rewrite E, lookup_insert. apply all_or_none_same. apply Hv; auto.
      + rewrite lookup_insert_ne by done. auto.
  Qed.
  Lemma cs_upd_put pr e' now t v :
    now = p_tick pr -> (vs = true -> e' = e -> t ∉ C) -> cmd_step pr (upd_ent pr e' (put_comp now t v)).
  Proof.
    intros -> Hv. apply cs_upd_ent; [intros; apply put_comp_ext|].
    intros Hvs He en t' Ht'. apply put_comp_has_other. intros ->. by apply Hv.
  Qed.
  Lemma cs_upd_nocomp pr e' f :
    (forall en, en_comps (f en) = en_comps en) -> cmd_step pr (upd_ent pr e' f).
  Proof.
    intros Hf. apply cs_upd_ent.
    - intros en. rewrite Hf. apply comps_ext_refl.
    - intros _ _ en t _. unfold has_comp. by rewrite Hf.
  Qed.
  Lemma cs_delete pr e' : cmd_step pr (pr <| p_ents := delete e' (p_ents pr) |>).
  Proof.
    split; try reflexivity; cbn.
    - destruct (decide (e = e')) as [->|].
      + rewrite lookup_delete. destruct (p_ents pr !! e'); cbn; auto. intros ? [=].
      + rewrite lookup_delete_ne by done. apply ent_rel_refl.
    - intros _. destruct (decide (e = e')) as [->|].
      + by rewrite lookup_delete.
      + by rewrite lookup_delete_ne.
  Qed.
  Lemma cs_insert_other pr e' x : e' <> e -> cmd_step pr (pr <| p_ents := <[e' := x]> (p_ents pr) |>).
  Proof.
    intros. split; try reflexivity; cbn; rewrite lookup_insert_ne by done; [apply ent_rel_refl|auto].
  Qed.

  Ltac core2_tac := repeat split; reflexivity.

  Lemma cs_send pr d m : cmd_step pr (send pr d m).
  Proof. apply cs_core. core2_tac. Qed.
  Lemma cs_send_all pr ds m : cmd_step pr (send_all pr ds m).
  Proof. unfold send_all. apply (foldl_rel cmd_step); eauto using cs_refl, cs_trans, cs_send. Qed.
  Lemma cs_send_up pr m : cmd_step pr (send_up pr m).
  Proof. unfold send_up. destruct (n_cli_transport pr) as [[]|]; auto using cs_send, cs_refl. Qed.
  Lemma cs_set_panic pr s : cmd_step pr (set_panic pr s).
  Proof. unfold set_panic. destruct (p_panic pr); [apply cs_refl|apply cs_core; core2_tac]. Qed.

  Ltac cs_go :=
    lazymatch goal with
    | |- cmd_step ?a ?a => apply cs_refl
    | |- cmd_step ?a (send ?x _ _) => apply (cs_trans a x); [cs_go | apply cs_send]
    | |- cmd_step ?a (send_up ?x _) => apply (cs_trans a x); [cs_go | apply cs_send_up]
    | |- cmd_step ?a (broadcast ?x _) => apply (cs_trans a x); [cs_go | apply cs_send_all]
    | |- cmd_step ?a (relay_except ?x _ _) => apply (cs_trans a x); [cs_go | apply cs_send_all]
    | |- cmd_step ?a (set_panic ?x _) => apply (cs_trans a x); [cs_go | apply cs_set_panic]
    | |- cmd_step ?a (insert_asset ?x _ _ _) =>
        apply (cs_trans a x); [cs_go | unfold insert_asset; cs_go]
    | |- cmd_step ?a (upd_ent ?x _ _) =>
        apply (cs_trans a x); [cs_go | apply cs_upd_nocomp; intros; reflexivity]
    | |- cmd_step ?a (set p_ents (fun _ => delete _ (p_ents ?x)) ?x) =>
        apply (cs_trans a x); [cs_go | apply cs_delete]
    | |- cmd_step ?a (set _ _ ?x) => apply (cs_trans a x); [cs_go | generalize x; intros ?; apply cs_core; core2_tac]
    | |- cmd_step ?a (foldl _ ?x _) =>
        apply (cs_trans a x); [cs_go | apply (foldl_rel cmd_step); [apply cs_refl | apply cs_trans | intros ? ? _; cs_go] ]
    | |- cmd_step _ (let '(_, _) := ?x in _) => destruct x; cs_go
    | |- cmd_step _ (match ?b with _ => _ end) => destruct b eqn:?; cs_go
    end.

  Lemma cs_add_child pr p c : cmd_step pr (add_child pr p c).
  Proof. unfold add_child. cbv zeta. cs_go. Qed.
  Lemma cs_set_parent_twice pr c p : cmd_step pr (set_parent_twice pr c p).
  Proof.
    unfold set_parent_twice. cbv zeta. destruct (p_panic _); [apply cs_add_child|].
    eapply cs_trans; apply cs_add_child.
  Qed.

  Lemma cs_apply_component_change pr e' t v :
    (vs = true -> registry_ok C pr) -> cmd_step pr (apply_component_change pr e' t v).1.
  Proof.
    intros Hreg. unfold apply_component_change. cbv zeta.
    destruct (negb _); [apply cs_refl|].
    assert (forall t0 v0,
      cmd_step pr (if negb (memN t0 (p_registry pr)) then (pr, false)
        else match p_ents pr !! e' with
             | Some en =>
                 match en_sync en with
                 | Some u =>
                     if match en_comps en !! t0 with
                        | Some c => negb (value_eqb (c_val c) v0)
                        | None => true
                        end
                     then (upd_ent (pr <| t_ctok := (u, wire_type t v, p_tick pr) :: tok_remove (u, wire_type t v) (t_ctok pr) |>) e'
                             (put_comp (p_tick (pr <| t_ctok := (u, wire_type t v, p_tick pr) :: tok_remove (u, wire_type t v) (t_ctok pr) |>)) t0 v0), true)
                     else (pr, false)
                 | None => (pr, false)
                 end
             | None => (pr, false)
             end).1) as H.
    { intros t0 v0. destruct (negb (memN t0 (p_registry pr))) eqn:Em; [apply cs_refl|].
      destruct (p_ents pr !! e'); [|apply cs_refl]. destruct (en_sync _); [|apply cs_refl].
      destruct (match en_comps e0 !! t0 with Some _ => _ | None => _ end); [|apply cs_refl].
      cbn [fst]. match goal with |- cmd_step _ (upd_ent ?x _ _) => apply (cs_trans pr x); [apply cs_core; core2_tac|] end.
      apply cs_upd_put; [reflexivity|]. intros Hv _ Hin.
      apply negb_false_iff in Em. rewrite (Hreg Hv _ Hin) in Em. discriminate. }
    destruct v; apply H.
  Qed.

  Lemma serve_all_core pr c : core2_eq pr (serve_all pr c).1.
  Proof. unfold serve_all. destruct (class_enabled _ _); cbn; core2_tac. Qed.
  Lemma cs_build_full_sync pr : cmd_step pr (build_full_sync pr).1.
  Proof.
    unfold build_full_sync. cbv zeta.
    pose proof (serve_all_core pr AImage) as H1. destruct (serve_all pr AImage) as [pr1 ?]; cbn in H1.
    pose proof (serve_all_core pr1 AMesh) as H2. destruct (serve_all pr1 AMesh) as [pr2 ?]; cbn in H2.
    pose proof (serve_all_core pr2 AAudio) as H3. destruct (serve_all pr2 AAudio) as [pr3 ?]; cbn in H3.
    cbn. eapply cs_trans; [apply cs_core, H1|]. eapply cs_trans; [apply cs_core, H2|]. apply cs_core, H3.
  Qed.

  (* the queue of detected changes goes out (first step of the host's CSendInitialSync since the
     repair of S21) *)
  Lemma cs_react_comp b pr : cmd_step pr (react_on_changed_components b pr).
  Proof. unfold react_on_changed_components. cbv zeta. cs_go. Qed.

  (* the fold of a fix command *)
  Lemma fix_fold_alive (now : tick) (e0 : ent) (cs : list tyid) : forall (a : peer_state) (en0 : entity),
    p_ents a !! e0 = Some en0 ->
    exists en' : entity,
      p_ents (foldl (fun (pr : peer_state) (t : tyid) => upd_ent pr e0 (put_comp now t (VN 0))) a cs) !! e0 = Some en' /\
      (forall t, has_comp en0 t = true -> has_comp en' t = true) /\ has_all cs en'.
  Proof.
    induction cs as [|t cs IH]; intros a en0 Ea; cbn.
    - exists en0. split; auto. split; auto. intros t Ht. by apply elem_of_nil in Ht.
    - destruct (IH (upd_ent a e0 (put_comp now t (VN 0))) (put_comp now t (VN 0) en0)) as (en' & E' & Hm & Hall).
      { unfold upd_ent. rewrite Ea. cbn. by rewrite lookup_insert. }
      assert (forall t', has_comp en0 t' = true -> has_comp (put_comp now t (VN 0) en0) t' = true) as Hmono.
      { intros t' Ht'. destruct (decide (t' = t)) as [->|].
        - unfold has_comp, put_comp. destruct (en_comps en0 !! t); cbn; by rewrite lookup_insert.
        - by rewrite put_comp_has_other. }
      exists en'. split; auto. split.
      + intros t' Ht'. apply Hm. by apply Hmono.
      + intros t' Ht'. apply elem_of_cons in Ht' as [->|]; auto. apply Hm.
        unfold has_comp, put_comp. destruct (en_comps en0 !! t); cbn; by rewrite lookup_insert.
  Qed.
  Lemma fix_fold_dead (now : tick) (e0 : ent) (cs : list tyid) : forall a : peer_state, p_ents a !! e0 = None ->
    p_ents (foldl (fun (pr : peer_state) (t : tyid) => upd_ent pr e0 (put_comp now t (VN 0))) a cs) !! e0 = None.
  Proof. induction cs as [|t cs IH]; intros a Ha; cbn; auto. apply IH. unfold upd_ent. by rewrite Ha. Qed.
  Lemma fix_insert_effect pr e0 cs :
    match p_ents pr !! e0 with
    | None => p_ents (apply_cmd pr (CFixInsert e0 cs)) !! e0 = None
    | Some _ => exists en', p_ents (apply_cmd pr (CFixInsert e0 cs)) !! e0 = Some en' /\ has_all cs en'
    end.
  Proof.
    cbn [apply_cmd]. cbv zeta. destruct (p_ents pr !! e0) as [en|] eqn:E.
    - destruct (fix_fold_alive (p_tick pr) e0 cs pr en E) as (en' & ? & _ & ?). eauto.
    - by apply fix_fold_dead.
  Qed.

  Definition not_spawn_of (c : cmd) : Prop := forall u, c <> CSpawnSync e u.
  (* commands that insert components on e and avoid the companions C *)
  Definition pair_safe0 (c : cmd) : Prop :=
    match c with
    | CAppInsert e' t _ => e' = e -> t ∉ C
    | CFixInsert e' cs => e' = e -> forall t, t ∈ cs -> t ∉ C
    | _ => True
    end.

  Lemma cs_fix_fold pr e' cs now :
    now = p_tick pr -> (vs = true -> e' = e -> forall t, t ∈ cs -> t ∉ C) ->
    cmd_step pr (foldl (fun pr t => upd_ent pr e' (put_comp now t (VN 0))) pr cs).
  Proof.
    revert pr. induction cs as [|t cs IH]; intros a Ha Hv; cbn; [apply cs_refl|].
    eapply cs_trans; [|apply IH].
    - apply cs_upd_put; auto. intros ? ?. apply Hv; auto. by left.
    - unfold upd_ent. destruct (p_ents a !! e'); exact Ha.
    - intros ? ? t' Ht'. apply Hv; auto. by right.
  Qed.

  Lemma cs_apply_cmd0 pr c :
    not_spawn_of c -> (vs = true -> pair_safe0 c /\ registry_ok C pr) -> cmd_step pr (apply_cmd pr c).
  Proof.
    intros Hc Hv. destruct c; cbn [apply_cmd].
    - assert (e0 <> e) by (intros ->; eapply Hc; eauto).
      eapply cs_trans; [apply cs_insert_other; eauto|]. generalize (pr <| p_ents := <[e0:=new_entity <| en_sync := Some u |> <| en_sync_added := p_tick pr |>]> (p_ents pr) |>). intros. apply cs_core; core2_tac.
    - cs_go.
    - cs_go.
    - pose proof (cs_apply_component_change pr e0 t v (fun H => proj2 (Hv H))) as H.
      destruct (apply_component_change pr e0 t v) as [pr1 ch]; cbn in H.
      destruct from; [destruct ch|]; auto. eapply cs_trans; [exact H|cs_go].
    - destruct (t_u2e pr !! c), (t_u2e pr !! p); try apply cs_refl.
      destruct (_ || _); [apply cs_refl|]. cbv zeta.
      destruct (parent_differs pr e0 e1).
      + assert (Hsp : cmd_step pr (set_parent_twice pr e0 e1 <| t_ptok ::= <[c := p]> |>)).
        { eapply cs_trans; [apply cs_set_parent_twice|]. apply cs_core; core2_tac. }
        destruct (p_panic _); [exact Hsp|].
        eapply cs_trans; [exact Hsp|]. cs_go.
      + destruct (p_panic pr); [apply cs_refl|cs_go].
    - destruct (_ || _); [apply cs_refl|]. destruct (parent_differs _ _ _); [|apply cs_refl].
      eapply cs_trans; [apply cs_set_parent_twice|]. apply cs_core; core2_tac.
    - cbv zeta. destruct from; cs_go.
    - cs_go.
    - cbv zeta. eapply cs_trans; [apply (cs_react_comp true)|].
      set (pr0 := react_on_changed_components true pr).
      pose proof (cs_build_full_sync pr0) as H. destruct (build_full_sync pr0) as [pr1 ms]; cbn in H.
      eapply cs_trans; [exact H|]. cs_go.
    - pose proof (cs_build_full_sync pr) as H. destruct (build_full_sync pr) as [pr1 ms]; cbn in H.
      eapply cs_trans; [exact H|]. cs_go.
    - cbv zeta. apply cs_fix_fold; [reflexivity|].
      intros Hvs He. destruct (Hv Hvs) as [Hs _]. cbn in Hs. auto.
    - cs_go.
    - cs_go.
    - cs_go.
    - cs_go.
    - cs_go.
    - cs_go.
    - destruct (negb (alive pr e0)); [cs_go|].
      apply cs_upd_put; [reflexivity|]. intros Hvs He. destruct (Hv Hvs) as [Hs _]. cbn in Hs. auto.
  Qed.
End cmd_rel.

(* commands that insert components on e either avoid the companions C or insert them all *)
Definition pair_safe (C : list tyid) (e : ent) (c : cmd) : Prop :=
  match c with
  | CAppInsert e' t _ => e' = e -> t ∉ C
  | CFixInsert e' cs => e' = e -> cs = C \/ (forall t, t ∈ cs -> t ∉ C)
  | _ => True
  end.

Lemma cs_fix_whole vs C e pr : cmd_step vs C e pr (apply_cmd pr (CFixInsert e C)).
Proof.
  assert (cmd_step false C e pr (apply_cmd pr (CFixInsert e C))) as [].
  { apply cs_apply_cmd0; [intros u [=]|intros [=]]. }
  split; auto. intros _ _.
  pose proof (fix_insert_effect pr e C) as H. destruct (p_ents pr !! e).
  - destruct H as (en' & -> & Hall). intros _. exact Hall.
  - by rewrite H.
Qed.

Lemma cs_apply_cmd vs C e pr c :
  not_spawn_of e c -> (vs = true -> pair_safe C e c /\ registry_ok C pr) ->
  cmd_step vs C e pr (apply_cmd pr c).
Proof.
  intros Hc Hv.
  assert (forall c', c' = c -> (vs = true -> pair_safe0 C e c') -> cmd_step vs C e pr (apply_cmd pr c)) as H0.
  { intros c' -> Hs. apply cs_apply_cmd0; [exact Hc|]. intros Hvs. split; [auto|]. by destruct (Hv Hvs). }
  destruct c; try (apply (H0 _ eq_refl); intros Hvs; destruct (Hv Hvs) as [Hs _]; exact Hs).
  destruct vs eqn:Evs; [|apply (H0 _ eq_refl); intros [=]].
  destruct (Hv eq_refl) as [Hs _]. cbn in Hs.
  destruct (decide (e0 = e)) as [->|Hne]; [|apply (H0 _ eq_refl); intros _ ?; done].
  destruct (Hs eq_refl) as [->|Hd]; [apply cs_fix_whole|].
  apply (H0 _ eq_refl). intros _ _. exact Hd.
Qed.

(* ---------- ticks, command lists ------------------------------------------------------------------ *)
#[export] Instance sysid_eq_dec : EqDecision sysid.
Proof. solve_decision. Defined.

Definition ticks_ok (pr : peer_state) : Prop :=
  0 < p_tick pr /\ forall k v, p_last_run pr !! k = Some v -> v < p_tick pr.
Lemma ticks_ok_last_run pr k : ticks_ok pr -> last_run pr k < p_tick pr.
Proof. intros [H0 H]. unfold last_run. destruct (p_last_run pr !! k) eqn:E; cbn; eauto. Qed.
Lemma ticks_ok_sys_step k0 a b : sys_step k0 a b -> ticks_ok a -> ticks_ok b.
Proof.
  intros S [H0 H]. pose proof (ss_tick _ _ _ S). split; [lia|].
  intros k v Hv. destruct (ss_lastrun_lt _ _ _ S k v Hv) as [Hv'|]; auto. specialize (H _ _ Hv'). lia.
Qed.
Lemma ticks_ok_cmd_step vs C e a b : cmd_step vs C e a b -> ticks_ok a -> ticks_ok b.
Proof. intros S [H0 H]. unfold ticks_ok. rewrite (cs_tick _ _ _ _ _ S), (cs_lastrun _ _ _ _ _ S). auto. Qed.

Lemma apply_cmds_panicked pr cs x : p_panic pr = Some x -> apply_cmds pr cs = pr.
Proof. intros H. destruct cs; cbn; [done|]. by rewrite H. Qed.
Lemma apply_cmds_app pr l1 l2 : apply_cmds pr (l1 ++ l2) = apply_cmds (apply_cmds pr l1) l2.
Proof.
  revert pr. induction l1 as [|c l1 IH]; intros pr; cbn; [done|].
  destruct (p_panic pr) eqn:E; [|apply IH]. symmetry. eapply apply_cmds_panicked; eauto.
Qed.
Definition cmd_ok (vs : bool) (C : list tyid) (e : ent) (c : cmd) : Prop :=
  not_spawn_of e c /\ (vs = true -> pair_safe C e c).
Lemma registry_ok_eq C a b : p_registry b = p_registry a -> registry_ok C a -> registry_ok C b.
Proof. unfold registry_ok. intros ->. auto. Qed.
Lemma cs_apply_cmds vs C e cs : forall pr, Forall (cmd_ok vs C e) cs -> (vs = true -> registry_ok C pr) ->
  cmd_step vs C e pr (apply_cmds pr cs).
Proof.
  induction cs as [|c cs IH]; intros pr Hf Hr; cbn; [apply cs_refl|].
  destruct (p_panic pr); [apply cs_refl|]. inversion Hf as [|? ? [Hn Hs] Hf']; subst.
  assert (cmd_step vs C e pr (apply_cmd pr c)) as S by (apply cs_apply_cmd; auto).
  apply (cs_trans vs C e pr (apply_cmd pr c)); [exact S|apply IH; auto].
  intros Hv. eapply registry_ok_eq; [apply (cs_registry _ _ _ _ _ S)|auto].
Qed.

(* ---------- phases of one entity with respect to one fix system ----------------------------------- *)
(* the nine systems of bundle_fix.rs: trigger component and companions (the Without<..> filter
   lists exactly the companions in every one of them) *)
Definition fix_spec (s : sysid) : option (tyid * list tyid) :=
  match s with
  | SFixVisibility => Some (T_VISIBILITY, [T_VIEWVIS; T_INHERITEDVIS])
  | SFixGlobalTransform => Some (T_TRANSFORM, [T_GLOBALTRANSFORM])
  | SFixCubemapFrusta => Some (T_POINTLIGHT, [T_CUBEMAPFRUSTA])
  | SFixCubemapVisible => Some (T_POINTLIGHT, [T_CUBEMAPVISIBLE])
  | SFixSpotFrustum => Some (T_SPOTLIGHT, [T_FRUSTUM])
  | SFixCascadesFrusta => Some (T_DIRLIGHT, [T_CASCADESFRUSTA])
  | SFixCascadesVisible => Some (T_DIRLIGHT, [T_CASCADESVISIBLE])
  | SFixCascades => Some (T_DIRLIGHT, [T_CASCADES])
  | SFixCascadeShadowCfg => Some (T_DIRLIGHT, [T_CASCADESHADOWCFG])
  | _ => None
  end.

Lemma fix_spec_body s T C pr o : fix_spec s = Some (T, C) ->
  run_system pr s o =
    match p_panic pr with
    | Some _ => pr
    | None =>
        end_run (fix_system (pr <| p_tick := p_tick pr + 1 |>) (sys_key s) (last_run pr (sys_key s)) T C C)
          (sys_key s) (p_tick pr)
    end.
Proof. destruct s; intros [= <- <-]; reflexivity. Qed.

Lemma fix_spec_key s T C : fix_spec s = Some (T, C) -> 1 <= sys_key s <= 9.
Proof. destruct s; intros [=]; cbn; lia. Qed.
Lemma fix_key_inj s s' T C : fix_spec s = Some (T, C) -> sys_key s' = sys_key s -> s' = s.
Proof. destruct s; intros [=]; destruct s'; cbn; intros; try reflexivity; lia. Qed.
Lemma fix_spec_lists s T C : fix_spec s = Some (T, C) -> C ∈ model_fix_lists.
Proof. destruct s; intros [= <- <-]; cbn; set_solver. Qed.
Lemma fix_spec_nonempty s T C : fix_spec s = Some (T, C) -> exists t C', C = t :: C'.
Proof. destruct s; intros [= <- <-]; eauto. Qed.

Definition sat (C : list tyid) (en : entity) : Prop := existsb (has_comp en) C = true.

Lemma sat_or_lacks C en : sat C en \/ forallb (fun t => negb (has_comp en t)) C = true.
Proof.
  unfold sat. induction C as [|t C IH]; cbn; auto.
  destruct (has_comp en t); cbn; auto.
Qed.
Lemma comps_ext_has now en en' t :
  comps_ext now (en_comps en) (en_comps en') -> has_comp en t = true -> has_comp en' t = true.
Proof.
  intros H. specialize (H t). unfold has_comp. destruct (en_comps en !! t); [|done].
  destruct H as (c' & -> & _). done.
Qed.
Lemma sat_ext now C en en' : comps_ext now (en_comps en) (en_comps en') -> sat C en -> sat C en'.
Proof.
  unfold sat. intros H. rewrite !existsb_exists. intros (t & ? & ?). exists t. eauto using comps_ext_has.
Qed.
Lemma has_all_sat t C en : has_all (t :: C) en -> sat (t :: C) en.
Proof. intros H. unfold sat. cbn. rewrite H; [done|left]. Qed.

Lemma foldl_hit {A B} (G : A -> Prop) (f : A -> B -> A) x (l : list B) :
  x ∈ l -> (forall a, G (f a x)) -> (forall a y, G a -> G (f a y)) -> forall a, G (foldl f a l).
Proof.
  intros Hx H1 H2. induction l as [|y l IH]; [by apply elem_of_nil in Hx|].
  intros a. cbn. apply elem_of_cons in Hx as [<-|Hx].
  - generalize (f a x) (H1 a). clear -H2. induction l; cbn; auto.
  - apply IH. exact Hx.
Qed.

Lemma fix_system_queues pr k last T C e en c :
  p_ents pr !! e = Some en -> en_comps en !! T = Some c -> last < c_added c ->
  forallb (fun t => negb (has_comp en t)) C = true ->
  CFixInsert e C ∈ queue (fix_system pr k last T C C) k.
Proof.
  intros He Hc Hl Hw. unfold fix_system.
  apply (foldl_hit (fun a => CFixInsert e C ∈ queue a k) _ (e, en)).
  - apply elem_of_map_to_list. exact He.
  - intros a. rewrite Hc. apply N.ltb_lt in Hl. rewrite Hl, Hw. cbn.
    unfold queue, push_cmd; cbn. rewrite lookup_insert. cbn. apply elem_of_app. right. by left.
  - intros a [e' en'] Ha. destruct (en_comps en' !! T); [|done]. destruct (_ && _); [|done].
    unfold queue, push_cmd; cbn. rewrite lookup_insert. cbn. apply elem_of_app. left. exact Ha.
Qed.

Section phases.
  Context (sfix : sysid) (T : tyid) (C : list tyid) (e : ent).
  Context (Hspec : fix_spec sfix = Some (T, C)).
  Context (vs : bool) (P : cmd -> Prop) (b : N).
  Context (HP : forall c, P c -> cmd_ok vs C e c).
  Context (Hgen : forall c, model_cmd b c = true -> P c).
  Definition cmds_ok (st : peer_state) : Prop :=
    b <= p_next_ent st /\
    (forall k' cs, p_cmdq st !! k' = Some cs -> Forall P cs) /\
    (forall n c, (n, c) ∈ p_app_cmds st -> P c).

  Lemma cmds_ok_queue st k' c : cmds_ok st -> c ∈ queue st k' -> P c.
  Proof.
    intros (_ & H & _). unfold queue. destruct (p_cmdq st !! k') eqn:E; cbn.
    - intros Hc. exact (proj1 (Forall_forall P l) (H _ _ E) c Hc).
    - intros Hc. by apply elem_of_nil in Hc.
  Qed.
  Lemma cmds_ok_sys_step k0 a a' : sys_step k0 a a' -> cmds_ok a -> cmds_ok a'.
  Proof.
    intros S Hok. pose proof Hok as (Hb & Hq & Ha). split; [|split].
    - pose proof (ss_next _ _ _ S). lia.
    - intros k' cs E. destruct (decide (k' = k0)) as [->|Hne].
      + apply Forall_forall. intros c Hc.
        assert (c ∈ queue a' k0) as Hc' by (unfold queue; rewrite E; exact Hc).
        destruct (ss_cmdq_new _ _ _ S c Hc') as [Ho|[Hm|[n Hn]]].
        * eapply cmds_ok_queue; eauto.
        * apply Hgen. eapply model_cmd_mono; eauto.
        * eauto.
      + rewrite (ss_cmdq_other _ _ _ S) in E by done. eauto.
    - intros n c Hc. eapply Ha. eapply (ss_app _ _ _ S). exact Hc.
  Qed.
  Lemma cmds_ok_cmd_step a a' : cmd_step vs C e a a' -> cmds_ok a -> cmds_ok a'.
  Proof.
    intros S (Hb & Hq & Ha). unfold cmds_ok.
    rewrite (cs_next _ _ _ _ _ S), (cs_cmdq _ _ _ _ _ S), (cs_app _ _ _ _ _ S). auto.
  Qed.
  Lemma cmds_ok_delete st k' : cmds_ok st -> cmds_ok (st <| p_cmdq := delete k' (p_cmdq st) |>).
  Proof.
    intros (Hb & Hq & Ha). split; [exact Hb|split; [|exact Ha]]. cbn.
    intros k'' cs E. apply lookup_delete_Some in E as [_ E]. eauto.
  Qed.

  Let k := sys_key sfix.

  (* a phase: what is known about entity e, as a predicate of its record and of the last run of the system *)
  Context (needtk : bool) (phi : option entity -> tick -> Prop).
  Definition closed : Prop :=
    forall now oe oe' lr, (needtk = true -> lr < now) -> ent_rel now oe oe' ->
      (vs = true -> all_or_none C oe -> all_or_none C oe') -> phi oe lr -> phi oe' lr.
  Definition done_in : Prop :=
    forall oe lr, match oe with None => True | Some en => has_all C en end -> phi oe lr.
  Context (Hclosed : closed) (Hdone : done_in).

  Definition Phi (st : peer_state) : Prop := phi (p_ents st !! e) (last_run st k).
  Definition Queued (st : peer_state) : Prop := CFixInsert e C ∈ queue st k.

  Lemma Phi_cmd_step a a' : (needtk = true -> ticks_ok a) -> cmd_step vs C e a a' -> Phi a -> Phi a'.
  Proof.
    intros Ht S. unfold Phi, last_run. rewrite (cs_lastrun _ _ _ _ _ S).
    apply (Hclosed (p_tick a)); [|apply (cs_ent _ _ _ _ _ S)|apply (cs_pair _ _ _ _ _ S)].
    intros Hn. apply (ticks_ok_last_run _ k (Ht Hn)).
  Qed.

  Lemma apply_cmds_hit st cs :
    CFixInsert e C ∈ cs -> Forall P cs -> (needtk = true -> ticks_ok st) -> (vs = true -> registry_ok C st) ->
    p_panic (apply_cmds st cs) = None -> Phi (apply_cmds st cs).
  Proof.
    intros Hin Hf Ht Hreg Hp. apply elem_of_list_split in Hin as (l1 & l2 & ->).
    rewrite apply_cmds_app in *. apply Forall_app in Hf as [Hf1 Hf2]. inversion Hf2 as [|? ? _ Hf3]; subst.
    set (s1 := apply_cmds st l1) in *.
    assert (cmd_step vs C e st s1) as S1.
    { apply cs_apply_cmds; [eapply Forall_impl; eauto|exact Hreg]. }
    assert (vs = true -> registry_ok C s1) as Hreg1.
    { intros Hv. eapply registry_ok_eq; [apply (cs_registry _ _ _ _ _ S1)|auto]. }
    cbn [apply_cmds] in *. destruct (p_panic s1) eqn:E1; [congruence|].
    set (s2 := apply_cmd s1 (CFixInsert e C)) in *.
    assert (Phi s2) as H2.
    { unfold Phi. apply Hdone. pose proof (fix_insert_effect s1 e C) as H. fold s2 in H.
      destruct (p_ents s1 !! e).
      - destruct H as (en' & -> & Hall). exact Hall.
      - by rewrite H. }
    assert (cmd_step vs C e s1 s2) as S2 by apply cs_fix_whole.
    eapply Phi_cmd_step; [| |exact H2].
    - intros Hn. eapply ticks_ok_cmd_step; [exact S2|]. eapply ticks_ok_cmd_step; [exact S1|]. auto.
    - apply cs_apply_cmds; [eapply Forall_impl; eauto|].
      intros Hv. eapply registry_ok_eq; [apply (cs_registry _ _ _ _ _ S2)|auto].
  Qed.

  Definition flush_step (st : peer_state) (s : sysid) : peer_state :=
    match p_cmdq st !! sys_key s with
    | Some cs => apply_cmds (st <| p_cmdq := delete (sys_key s) (p_cmdq st) |>) cs
    | None => st
    end.
  Lemma flush_unfold st : flush st = foldl flush_step st (p_order st).
  Proof. reflexivity. Qed.

  Definition FInv (ord : list sysid) (l : list sysid) (st : peer_state) : Prop :=
    (needtk = true -> ticks_ok st) /\ (vs = true -> registry_ok C st) /\ cmds_ok st /\ p_order st = ord /\
    (p_panic st <> None \/ Phi st \/ (Queued st /\ exists s, s ∈ l /\ sys_key s = k)).

  Lemma flush_step_inv ord s l st : FInv ord (s :: l) st -> FInv ord l (flush_step st s).
  Proof.
    intros (Ht & Hreg & Hok & Ho & H). unfold flush_step.
    destruct (p_cmdq st !! sys_key s) as [cs|] eqn:E.
    - set (st1 := st <| p_cmdq := delete (sys_key s) (p_cmdq st) |>).
      assert (Forall P cs) as Hf by (destruct Hok as (_ & Hq & _); eauto).
      assert (vs = true -> registry_ok C st1) as Hreg1 by exact Hreg.
      assert (cmd_step vs C e st1 (apply_cmds st1 cs)) as S.
      { apply cs_apply_cmds; [eapply Forall_impl; eauto|exact Hreg1]. }
      assert (needtk = true -> ticks_ok st1) as Ht1 by exact Ht.
      assert (cmds_ok st1) as Hok1 by (apply cmds_ok_delete; exact Hok).
      split; [|split; [|split; [|split]]].
      + intros Hn. eapply ticks_ok_cmd_step; eauto.
      + intros Hv. eapply registry_ok_eq; [apply (cs_registry _ _ _ _ _ S)|auto].
      + eapply cmds_ok_cmd_step; eauto.
      + rewrite (cs_order _ _ _ _ _ S). exact Ho.
      + destruct H as [Hp|[Hphi|(Hq & s' & Hs' & Hk)]].
        * left. destruct (p_panic st) eqn:Ep; [|done].
          erewrite apply_cmds_panicked; [|exact Ep]. cbn. rewrite Ep. done.
        * right; left. eapply Phi_cmd_step; eauto.
        * destruct (decide (sys_key s = k)) as [Hsk|Hsk].
          -- destruct (p_panic (apply_cmds st1 cs)) eqn:Ep; [left; done|]. right; left.
             apply apply_cmds_hit; auto. unfold Queued, queue in Hq. rewrite <- Hsk, E in Hq. exact Hq.
          -- right; right. split.
             ++ unfold Queued, queue. rewrite (cs_cmdq _ _ _ _ _ S). cbn. rewrite lookup_delete_ne by done. exact Hq.
             ++ exists s'. split; [|done]. apply elem_of_cons in Hs' as [->|]; [done|auto].
    - split; [exact Ht|split; [exact Hreg|split; [exact Hok|split; [exact Ho|]]]].
      destruct H as [Hp|[Hphi|(Hq & s' & Hs' & Hk)]]; auto.
      right; right. split; [exact Hq|]. exists s'. split; [|done].
      apply elem_of_cons in Hs' as [->|]; [|auto].
      unfold Queued, queue in Hq. rewrite <- Hk, E in Hq. by apply elem_of_nil in Hq.
  Qed.

  Lemma flush_fold_inv ord l : forall st, FInv ord l st -> FInv ord [] (foldl flush_step st l).
  Proof.
    induction l as [|s l IH]; intros st H; cbn; [exact H|]. apply IH. by apply flush_step_inv.
  Qed.

  (* the invariant carried along the systems of a frame *)
  Definition OInv (ord : list sysid) (q : bool) (st : peer_state) : Prop :=
    (needtk = true -> ticks_ok st) /\ (vs = true -> registry_ok C st) /\ cmds_ok st /\ p_order st = ord /\
    (p_panic st <> None \/ Phi st \/ (q = true /\ Queued st)).

  Lemma flush_inv ord q st : sfix ∈ ord -> OInv ord q st -> OInv ord false (flush st).
  Proof.
    intros Hin (Ht & Hreg & Hok & Ho & H). rewrite flush_unfold, Ho.
    destruct (flush_fold_inv ord ord st) as (Ht' & Hreg' & Hok' & Ho' & H').
    - split; [exact Ht|split; [exact Hreg|split; [exact Hok|split; [exact Ho|]]]].
      destruct H as [?|[?|[_ ?]]]; auto. right; right. split; [done|]. exists sfix. split; done.
    - split; [exact Ht'|split; [exact Hreg'|split; [exact Hok'|split; [exact Ho'|]]]].
      destruct H' as [?|[?|(_ & s & Hs & _)]]; auto. by apply elem_of_nil in Hs.
  Qed.

  Lemma OInv_weaken ord q st : OInv ord false st -> OInv ord q st.
  Proof. intros (?&?&?&?&H). split; [done|split; [done|split; [done|split; [done|]]]]. destruct H as [?|[?|[? _]]]; auto; done. Qed.

  Lemma step_other ord q st s o :
    sfix ∈ ord -> s <> sfix -> OInv ord q st -> OInv ord q (run_system st s o).
  Proof.
    intros Hin Hs H. destruct (decide (s = SSync)) as [->|Hss].
    - unfold run_system. destruct (p_panic st) eqn:Ep; [exact H|].
      apply OInv_weaken. eapply flush_inv; eauto.
    - pose proof (ss_run_system st s o Hss) as S.
      assert (sys_key s <> k) as Hk.
      { intros Hk. apply Hs. eapply fix_key_inj; eauto. }
      pose proof (fix_spec_key _ _ _ Hspec) as Hk9. fold k in Hk9.
      destruct H as (Ht & Hreg & Hok & Ho & H). split; [|split; [|split; [|split]]].
      + intros Hn. eapply ticks_ok_sys_step; eauto.
      + intros Hv. eapply registry_ok_eq; [apply (ss_registry _ _ _ S)|auto].
      + eapply cmds_ok_sys_step; eauto.
      + rewrite (ss_order _ _ _ S). exact Ho.
      + rewrite (ss_panic _ _ _ S). destruct H as [?|[Hphi|[? Hq]]]; auto.
        * right; left. unfold Phi, last_run in *. rewrite (ss_ents _ _ _ S).
          rewrite (ss_lastrun _ _ _ S); [exact Hphi|auto|unfold ckey; lia].
        * right; right. split; [done|]. unfold Queued, queue in *.
          rewrite (ss_cmdq_other _ _ _ S); auto.
  Qed.

  (* the fix system itself runs *)
  Lemma fix_run_facts st o :
    p_panic st = None ->
    let st' := run_system st sfix o in
    p_ents st' = p_ents st /\ sys_step k st st' /\
    (forall en c, p_ents st !! e = Some en -> en_comps en !! T = Some c -> last_run st k < c_added c ->
                  sat C en \/ Queued st').
  Proof.
    intros Hp st'. assert (sfix <> SSync) as Hss by (intros E; rewrite E in Hspec; discriminate).
    pose proof (ss_run_system st sfix o Hss) as S. fold st' in S. fold k in S.
    split; [apply (ss_ents _ _ _ S)|split; [exact S|]].
    intros en c He Hc Hl. destruct (sat_or_lacks C en) as [?|Hw]; [by left|right].
    unfold st'. rewrite (fix_spec_body _ _ _ _ _ Hspec), Hp. fold k.
    unfold Queued, queue, end_run; cbn.
    apply (fix_system_queues _ k _ T C e en c); auto.
  Qed.
End phases.

(* ---------- the frame ----------------------------------------------------------------------------- *)
(* the three phases of entity e with respect to one fix system *)
Definition phiD (C : list tyid) (oe : option entity) (lr : tick) : Prop :=
  match oe with None => True | Some en => sat C en end.
Definition phiA (T : tyid) (C : list tyid) (oe : option entity) (lr : tick) : Prop :=
  match oe with
  | None => True
  | Some en => sat C en \/ exists c, en_comps en !! T = Some c /\ lr < c_added c
  end.
Definition phiFI (T : tyid) (C : list tyid) (oe : option entity) (lr : tick) : Prop :=
  match oe with
  | None => True
  | Some en => sat C en \/ match en_comps en !! T with None => True | Some c => lr < c_added c end
  end.

Definition nonempty (C : list tyid) : Prop := exists t C', C = t :: C'.
Lemma has_all_sat' C en : nonempty C -> has_all C en -> sat C en.
Proof. intros (t & C' & ->). apply has_all_sat. Qed.
Lemma sat_has_some C en : sat C en <-> has_some C en.
Proof.
  unfold sat, has_some. rewrite existsb_exists. split; intros (t & ? & ?); exists t; split; auto;
    by apply elem_of_list_In.
Qed.

Lemma phiD_closed vs C : closed C vs false (phiD C).
Proof.
  intros now oe oe' lr _ H _. unfold phiD. destruct oe as [en|]; cbn in H; [|by rewrite H].
  destruct oe' as [en'|]; [|done]. intros Hs. eapply sat_ext; eauto.
Qed.
Lemma phiD_done C : nonempty C -> done_in C (phiD C).
Proof. intros Hn [en|] lr H; cbn; auto. by apply has_all_sat'. Qed.
Lemma phiA_closed vs T C : closed C vs false (phiA T C).
Proof.
  intros now oe oe' lr _ H _. unfold phiA. destruct oe as [en|]; cbn in H; [|by rewrite H].
  destruct oe' as [en'|]; [|done]. specialize (H en' eq_refl).
  intros [Hs|(c & Hc & Hl)]; [left; eapply sat_ext; eauto|right].
  specialize (H T). rewrite Hc in H. destruct H as (c' & Hc' & Ha). exists c'. split; [done|]. by rewrite Ha.
Qed.
Lemma phiA_done T C : nonempty C -> done_in C (phiA T C).
Proof. intros Hn [en|] lr H; cbn; auto. left. by apply has_all_sat'. Qed.
Lemma phiFI_closed vs T C : closed C vs true (phiFI T C).
Proof.
  intros now oe oe' lr Hl H _. unfold phiFI. destruct oe as [en|]; cbn in H; [|by rewrite H].
  destruct oe' as [en'|]; [|done]. specialize (H en' eq_refl).
  intros [Hs|Hc]; [left; eapply sat_ext; eauto|right].
  specialize (H T). destruct (en_comps en !! T) as [c|].
  - destruct H as (c' & -> & Ha). by rewrite Ha.
  - destruct (en_comps en' !! T) as [c'|]; [|done]. rewrite (H c' eq_refl). auto.
Qed.
Lemma phiFI_done T C : nonempty C -> done_in C (phiFI T C).
Proof. intros Hn [en|] lr H; cbn; auto. left. by apply has_all_sat'. Qed.

(* the same phases, with "all companions or none" carried along (needs commands that respect it) *)
Definition withP (C : list tyid) (phi : option entity -> tick -> Prop) (oe : option entity) (lr : tick) : Prop :=
  phi oe lr /\ all_or_none C oe.
Lemma withP_closed C nt phi : closed C true nt phi -> closed C true nt (withP C phi).
Proof. intros Hc now oe oe' lr Hl H Hp [H1 H2]. split; [eapply Hc; eauto|auto]. Qed.
Lemma withP_done C phi : done_in C phi -> done_in C (withP C phi).
Proof. intros Hd oe lr H. split; [by apply Hd|]. destruct oe; cbn; auto. Qed.
Lemma withP_full C phi oe lr :
  withP C phi oe lr -> (phi oe lr -> match oe with None => True | Some en => sat C en end) ->
  match oe with None => True | Some en => has_all C en end.
Proof. intros [H1 H2] H. specialize (H H1). destruct oe; auto. apply H2. by apply sat_has_some. Qed.

Section frame_level.
  Context (sfix : sysid) (T : tyid) (C : list tyid) (e : ent).
  Context (Hspec : fix_spec sfix = Some (T, C)).
  Context (vs : bool) (P : cmd -> Prop) (b : N).
  Context (HP : forall c, P c -> cmd_ok vs C e c).
  Context (Hgen : forall c, model_cmd b c = true -> P c).
  Notation k := (sys_key sfix).
  Notation OI := (OInv sfix C e vs P b).
  Let HneC : nonempty C := fix_spec_nonempty _ _ _ Hspec.

  Lemma step_fix_common needtk phi phi' ord q st o :
    OI needtk phi ord q st ->
    (forall st', p_panic st = None -> p_ents st' = p_ents st ->
        (forall en c, p_ents st !! e = Some en -> en_comps en !! T = Some c -> last_run st k < c_added c ->
                      sat C en \/ Queued sfix C e st') ->
        Phi sfix e phi st -> Phi sfix e phi' st' \/ Queued sfix C e st') ->
    OI needtk phi' ord true (run_system st sfix o).
  Proof.
    intros (Ht & Hreg & Hok & Ho & H) Hstep.
    destruct (p_panic st) eqn:Ep.
    { unfold run_system. rewrite Ep. split; [done|split; [done|split; [done|split; [done|]]]]. left. by rewrite Ep. }
    destruct (fix_run_facts sfix T C e Hspec st o Ep) as (He & S & Hq). cbv zeta in *.
    split; [|split; [|split; [|split]]].
    - intros Hn. eapply ticks_ok_sys_step; eauto.
    - intros Hv. eapply registry_ok_eq; [apply (ss_registry _ _ _ S)|auto].
    - eapply cmds_ok_sys_step; eauto.
    - rewrite (ss_order _ _ _ S). exact Ho.
    - rewrite (ss_panic _ _ _ S). destruct H as [?|[Hphi|[_ Hqd]]]; auto.
      + right. destruct (Hstep _ eq_refl He Hq Hphi); auto.
      + right; right. split; [done|]. apply (ss_cmdq_keep _ _ _ S). exact Hqd.
  Qed.

  (* what a run of the fix system does to each phase: entities untouched, a pending unsatisfied entity gets queued *)
  Definition fix_step (phi phi' : option entity -> tick -> Prop) : Prop :=
    forall st st' : peer_state, p_ents st' = p_ents st ->
      (forall en c, p_ents st !! e = Some en -> en_comps en !! T = Some c -> last_run st k < c_added c ->
                    sat C en \/ Queued sfix C e st') ->
      Phi sfix e phi st -> Phi sfix e phi' st' \/ Queued sfix C e st'.
  Lemma fix_step_AB : fix_step (phiA T C) (phiD C).
  Proof.
    intros st st' He Hq. unfold Phi. rewrite He. destruct (p_ents st !! e) as [en|]; cbn; auto.
    intros [?|(c & Hc & Hl)]; auto. eapply Hq; eauto.
  Qed.
  Lemma fix_step_BB : fix_step (phiD C) (phiD C).
  Proof. intros st st' He Hq. unfold Phi. rewrite He. auto. Qed.
  Lemma fix_step_FI : fix_step (phiFI T C) (phiFI T C).
  Proof.
    intros st st' He Hq. unfold Phi. rewrite He. destruct (p_ents st !! e) as [en|] eqn:Een; cbn; auto.
    intros [?|Hc]; auto. destruct (en_comps en !! T) as [c|] eqn:Ec; [|auto].
    destruct (Hq en c eq_refl Ec Hc); auto.
  Qed.
  Lemma fix_step_withP phi phi' : fix_step phi phi' -> fix_step (withP C phi) (withP C phi').
  Proof.
    intros H st st' He Hq [H1 H2]. destruct (H st st' He Hq H1) as [H3|]; auto.
    left. split; [exact H3|]. rewrite He. exact H2.
  Qed.
  Lemma step_fix needtk phi phi' ord q st o :
    fix_step phi phi' -> OI needtk phi ord q st -> OI needtk phi' ord true (run_system st sfix o).
  Proof. intros Hs H. eapply step_fix_common; [exact H|]. intros st' _ He Hq. by apply Hs. Qed.

  Lemma OI_true needtk phi ord q st : OI needtk phi ord q st -> OI needtk phi ord true st.
  Proof.
    intros (?&?&?&?&H). split; [done|split; [done|split; [done|split; [done|]]]]. destruct H as [?|[?|[_ ?]]]; auto.
  Qed.

  (* any list of systems, once the flag "possibly queued" is allowed *)
  Lemma fold_any needtk phi ord l o :
    closed C vs needtk phi -> done_in C phi -> sfix ∈ ord ->
    (forall q st, OI needtk phi ord q st -> OI needtk phi ord true (run_system st sfix o)) ->
    forall st, OI needtk phi ord true st -> OI needtk phi ord true (foldl (fun pr s => run_system pr s o) st l).
  Proof.
    intros Hc Hd Hin Hfix. induction l as [|s l IH]; intros st H; cbn; [exact H|].
    apply IH. destruct (decide (s = sfix)) as [->|Hne]; [eapply Hfix; eauto|].
    eapply step_other; eauto.
  Qed.
  Lemma fold_before needtk phi ord l o :
    closed C vs needtk phi -> done_in C phi -> sfix ∈ ord -> sfix ∉ l ->
    forall st, OI needtk phi ord false st -> OI needtk phi ord false (foldl (fun pr s => run_system pr s o) st l).
  Proof.
    intros Hc Hd Hin. induction l as [|s l IH]; intros Hnl st H; cbn; [exact H|].
    apply not_elem_of_cons in Hnl as [Hne Hnl]. apply IH; [exact Hnl|].
    eapply step_other; eauto.
  Qed.

  (* the parts of a frame outside the systems *)
  Lemma OI_core needtk phi ord q st st' : core_eq st st' -> OI needtk phi ord q st -> OI needtk phi ord q st'.
  Proof.
    intros (Ee & Eo & Ep & Et & En & El & Eq & Ea & Er) (Ht & Hreg & (Hb & Hq & Ha) & Ho & H).
    unfold OInv, ticks_ok, cmds_ok, Phi, Queued, queue, last_run, registry_ok.
    rewrite Ee, Eo, Ep, Et, En, El, Eq, Ea, Er.
    split; [exact Ht|split; [exact Hreg|split; [auto|split; [exact Ho|exact H]]]].
  Qed.

  (* the tick counter may advance (last_schedule): nothing in the invariant is an upper bound on it *)
  Lemma OI_tick needtk phi ord q st :
    OI needtk phi ord q st -> OI needtk phi ord q (st <| p_tick := p_tick st + 1 |>).
  Proof.
    intros (Ht & Hreg & Hok & Ho & H).
    split; [|split; [exact Hreg|split; [exact Hok|split; [exact Ho|exact H]]]].
    intros Hn. destruct (Ht Hn) as [H0 Hl]. split; cbn; [lia|].
    intros kk v Hv. specialize (Hl kk v Hv). lia.
  Qed.

  Lemma prelude_core st o : core_eq st (state_transition (pre_update (st <| p_out := [] |>) o)).
  Proof.
    unfold pre_update. cbv zeta.
    set (st1 := match fo_status o with Some _ => _ | None => _ end).
    assert (core_eq st st1) as H1 by (unfold st1; destruct (fo_status o); core_tac).
    clearbody st1. unfold state_transition. cbv zeta.
    set (st2 := match s_next_client st1 with Some _ => _ | None => _ end).
    assert (core_eq st st2) as H2.
    { unfold st2. destruct (s_next_client st1); [|exact H1].
      destruct H1 as (?&?&?&?&?&?&?&?&?). repeat split; cbn; assumption. }
    clearbody st2. destruct (s_next_server st2); [|exact H2].
    destruct H2 as (?&?&?&?&?&?&?&?&?).
    destruct (_ && _); [|repeat split; cbn; assumption].
    unfold send_up. cbn. destruct (n_cli_transport st2) as [[h ?]|]; repeat split; cbn; assumption.
  Qed.

  Lemma frame_unfold st o : p_panic st = None ->
    frame st o =
      let st2 := state_transition (pre_update (st <| p_out := [] |>) o) in
      let st3 := foldl (fun pr s => run_system pr s o) st2 (p_order st2) in
      last_schedule (match p_panic st3 with Some _ => st3 | None => flush st3 end).
  Proof. intros H. unfold frame. rewrite H. reflexivity. Qed.

  Lemma frame_tail needtk phi ord q st3 :
    closed C vs needtk phi -> done_in C phi -> sfix ∈ ord ->
    OI needtk phi ord q st3 ->
    OI needtk phi ord false (last_schedule (match p_panic st3 with Some _ => st3 | None => flush st3 end)).
  Proof.
    intros Hc Hd Hin H.
    assert (OI needtk phi ord false (match p_panic st3 with Some _ => st3 | None => flush st3 end)) as H'.
    { destruct (p_panic st3) eqn:Ep.
      - destruct H as (?&?&?&?&_). split; [done|split; [done|split; [done|split; [done|]]]]. left. by rewrite Ep.
      - eapply flush_inv; eauto. }
    unfold last_schedule.
    set (st4 := match p_panic st3 with Some _ => st3 | None => flush st3 end) in *.
    change (OI needtk phi ord false
              ((st4 <| a_ready := a_ready st4 ++ a_events st4 |> <| a_events := [] |>)
                 <| p_tick := p_tick (st4 <| a_ready := a_ready st4 ++ a_events st4 |> <| a_events := [] |>) + 1 |>)).
    apply OI_tick. eapply OI_core; [|exact H']. core_tac.
  Qed.

  (* phases of a whole frame *)
  Lemma frame_phase_any needtk phi st o :
    closed C vs needtk phi -> done_in C phi ->
    (forall ord q st, OI needtk phi ord q st -> OI needtk phi ord true (run_system st sfix o)) ->
    sfix ∈ p_order st ->
    OI needtk phi (p_order st) false st -> OI needtk phi (p_order st) false (frame st o).
  Proof.
    intros Hc Hd Hfix Hin H. destruct (p_panic st) eqn:Ep.
    { unfold frame. rewrite Ep. exact H. }
    rewrite (frame_unfold _ _ Ep). cbv zeta.
    pose proof (prelude_core st o) as Hcore.
    set (st2 := state_transition _) in *.
    assert (p_order st2 = p_order st) as Eo by (destruct Hcore as (_ & ? & _); done).
    rewrite Eo. eapply frame_tail; eauto.
    apply fold_any; eauto. apply (OI_true _ _ _ false). eapply OI_core; eauto.
  Qed.

  Lemma frame_phase_split phia phid st o :
    closed C vs false phia -> done_in C phia -> closed C vs false phid -> done_in C phid ->
    fix_step phia phid -> fix_step phid phid ->
    sfix ∈ p_order st ->
    OI false phia (p_order st) false st -> OI false phid (p_order st) false (frame st o).
  Proof.
    intros Hca Hda Hcd Hdd Hab Hbb Hin H. destruct (p_panic st) eqn:Ep.
    { unfold frame. rewrite Ep. destruct H as (?&?&?&?&_). split; [done|split; [done|split; [done|split; [done|]]]]. left. by rewrite Ep. }
    rewrite (frame_unfold _ _ Ep). cbv zeta.
    pose proof (prelude_core st o) as Hcore.
    set (st2 := state_transition _) in *.
    assert (p_order st2 = p_order st) as Eo by (destruct Hcore as (_ & ? & _); done).
    rewrite Eo. destruct (elem_of_list_split_l _ _ Hin) as (l1 & l2 & El & Hnl).
    eapply frame_tail; eauto.
    rewrite El at 2. rewrite foldl_app. cbn [foldl].
    apply fold_any; eauto.
    - intros q st0 H0. eapply step_fix; eauto.
    - eapply step_fix; [exact Hab|]. apply fold_before; eauto.
      eapply OI_core; eauto.
  Qed.
End frame_level.

(* ---------- fix commands and the rest of the world ------------------------------------------------- *)
(* ---------- what a fix command can change ------------------------------------------------ *)

(* entity en' is en up to components whose type satisfies S (inserted, or overwritten with the
   default value; an overwritten one keeps its added tick) *)
Definition fix_ent_rel (S : tyid -> Prop) (en en' : entity) : Prop :=
  en_mark en' = en_mark en /\ en_sync en' = en_sync en /\ en_sync_added en' = en_sync_added en /\
  en_excl en' = en_excl en /\ en_parent en' = en_parent en /\ en_children en' = en_children en /\
  (forall t, ~ S t -> en_comps en' !! t = en_comps en !! t) /\
  (forall t c, en_comps en !! t = Some c -> exists c', en_comps en' !! t = Some c' /\ c_added c' = c_added c).
Definition fix_ents_rel (S : tyid -> Prop) (m m' : gmap ent entity) : Prop :=
  forall e, option_Forall2 (fix_ent_rel S) (m !! e) (m' !! e).
(* every field except the entity table and the command queues is the same *)
Definition others_eq (pr pr' : peer_state) : Prop :=
  pr' = pr <| p_ents := p_ents pr' |> <| p_cmdq := p_cmdq pr' |>.

Lemma fix_ent_rel_refl S en : fix_ent_rel S en en.
Proof. repeat split; eauto. Qed.
Lemma fix_ent_rel_trans S a b c : fix_ent_rel S a b -> fix_ent_rel S b c -> fix_ent_rel S a c.
Proof.
  intros (?&?&?&?&?&?&Ha1&Ha2) (?&?&?&?&?&?&Ha3&Ha4). repeat split; try congruence.
  - intros t Ht. rewrite Ha3, Ha1; auto.
  - intros t x Hx. destruct (Ha2 t x Hx) as (y & Hy & ?). destruct (Ha4 t y Hy) as (z & Hz & ?).
    exists z. split; [done|congruence].
Qed.
Lemma fix_ents_rel_refl S m : fix_ents_rel S m m.
Proof. intros e. destruct (m !! e); constructor. apply fix_ent_rel_refl. Qed.
Lemma fix_ents_rel_trans S a b c : fix_ents_rel S a b -> fix_ents_rel S b c -> fix_ents_rel S a c.
Proof.
  intros H1 H2 e. specialize (H1 e). specialize (H2 e).
  destruct H1; inversion H2; subst; constructor. eapply fix_ent_rel_trans; eauto.
Qed.
Lemma others_eq_refl pr : others_eq pr pr.
Proof. unfold others_eq. by destruct pr. Qed.
Lemma others_eq_trans a b c : others_eq a b -> others_eq b c -> others_eq a c.
Proof. unfold others_eq. intros -> ->. by destruct a. Qed.

Lemma put_comp_fix_rel (S : tyid -> Prop) now t v en : S t -> fix_ent_rel S en (put_comp now t v en).
Proof.
  intros HS. unfold put_comp. destruct (en_comps en !! t) as [c|] eqn:E; repeat split; cbn.
  - intros t' Ht'. rewrite lookup_insert_ne; [done|]. intros <-. done.
  - intros t' c' Hc'. destruct (decide (t' = t)) as [->|].
    + rewrite lookup_insert. eexists; split; [done|]. cbn. congruence.
    + rewrite lookup_insert_ne by done. eauto.
  - intros t' Ht'. rewrite lookup_insert_ne; [done|]. intros <-. done.
  - intros t' c' Hc'. destruct (decide (t' = t)) as [->|]; [congruence|].
    rewrite lookup_insert_ne by done. eauto.
Qed.
Lemma upd_ent_fix_rel S pr e f :
  (forall en, fix_ent_rel S en (f en)) ->
  others_eq pr (upd_ent pr e f) /\ fix_ents_rel S (p_ents pr) (p_ents (upd_ent pr e f)).
Proof.
  intros Hf. unfold upd_ent. destruct (p_ents pr !! e) as [en|] eqn:E.
  - split; [unfold others_eq; by destruct pr|]. cbn. intros e'. destruct (decide (e' = e)) as [->|].
    + rewrite E, lookup_insert. constructor. apply Hf.
    + rewrite lookup_insert_ne by done. destruct (p_ents pr !! e'); constructor. apply fix_ent_rel_refl.
  - split; [apply others_eq_refl|apply fix_ents_rel_refl].
Qed.

Lemma fix_insert_rel (S : tyid -> Prop) pr e cs :
  (forall t, t ∈ cs -> S t) ->
  others_eq pr (apply_cmd pr (CFixInsert e cs)) /\
  p_cmdq (apply_cmd pr (CFixInsert e cs)) = p_cmdq pr /\
  fix_ents_rel S (p_ents pr) (p_ents (apply_cmd pr (CFixInsert e cs))).
Proof.
  cbn [apply_cmd]. cbv zeta. generalize (p_tick pr). intros now. revert pr.
  induction cs as [|t cs IH]; intros pr HS; cbn.
  - split; [apply others_eq_refl|split; [done|apply fix_ents_rel_refl]].
  - destruct (upd_ent_fix_rel S pr e (put_comp now t (VN 0))) as (H1 & H2).
    { intros en. apply put_comp_fix_rel. apply HS. by left. }
    destruct (IH (upd_ent pr e (put_comp now t (VN 0)))) as (H3 & H4 & H5).
    { intros t' Ht'. apply HS. by right. }
    split; [eapply others_eq_trans; eauto|split; [|eapply fix_ents_rel_trans; eauto]].
    rewrite H4. unfold upd_ent. by destruct (p_ents pr !! e).
Qed.

(* commands of bundle_fix: companions only (type ids >= 100) *)
Definition is_companion (t : tyid) : Prop := 100 <= t.
Definition is_fix_cmd (c : cmd) : Prop :=
  match c with CFixInsert _ cs => forall t, t ∈ cs -> is_companion t | _ => False end.
Definition fix_only (pr : peer_state) : Prop :=
  forall k cs, p_cmdq pr !! k = Some cs -> Forall is_fix_cmd cs.

Lemma apply_fix_cmds_rel cs : forall pr, Forall is_fix_cmd cs ->
  others_eq pr (apply_cmds pr cs) /\ p_cmdq (apply_cmds pr cs) = p_cmdq pr /\
  fix_ents_rel is_companion (p_ents pr) (p_ents (apply_cmds pr cs)).
Proof.
  induction cs as [|c cs IH]; intros pr Hf; cbn.
  - split; [apply others_eq_refl|split; [done|apply fix_ents_rel_refl]].
  - destruct (p_panic pr); [split; [apply others_eq_refl|split; [done|apply fix_ents_rel_refl]]|].
    inversion Hf as [|? ? Hc Hf']; subst. destruct c; try done.
    destruct (fix_insert_rel is_companion pr e companions Hc) as (H1 & H2 & H3).
    destruct (IH (apply_cmd pr (CFixInsert e companions)) Hf') as (H4 & H5 & H6).
    split; [eapply others_eq_trans; eauto|split; [congruence|eapply fix_ents_rel_trans; eauto]].
Qed.

Lemma flush_fix_only_rel pr : fix_only pr ->
  others_eq pr (flush pr) /\ fix_ents_rel is_companion (p_ents pr) (p_ents (flush pr)).
Proof.
  intros Hfo. unfold flush. generalize (p_order pr). intros l.
  assert (forall a, fix_only a ->
    let a' := foldl (fun pr s => match p_cmdq pr !! sys_key s with
                                 | Some cs => apply_cmds (pr <| p_cmdq := delete (sys_key s) (p_cmdq pr) |>) cs
                                 | None => pr end) a l in
    others_eq a a' /\ fix_ents_rel is_companion (p_ents a) (p_ents a')) as H; [|apply H; exact Hfo].
  induction l as [|s l IH]; intros a Ha; cbn.
  - split; [apply others_eq_refl|apply fix_ents_rel_refl].
  - destruct (p_cmdq a !! sys_key s) as [cs|] eqn:E; [|apply IH; exact Ha].
    set (a1 := a <| p_cmdq := delete (sys_key s) (p_cmdq a) |>).
    destruct (apply_fix_cmds_rel cs a1 (Ha _ _ E)) as (H1 & H2 & H3).
    destruct (IH (apply_cmds a1 cs)) as (H4 & H5).
    { intros k' cs' E'. rewrite H2 in E'. cbn in E'. apply lookup_delete_Some in E' as [_ E']. eauto. }
    split.
    + eapply others_eq_trans; [|exact H4]. eapply others_eq_trans; [|exact H1].
      unfold others_eq, a1. by destruct a.
    + eapply fix_ents_rel_trans; [exact H3|exact H5].
Qed.

(* the fix systems themselves only queue commands *)
Lemma fix_system_others pr k last T W C : others_eq pr (fix_system pr k last T W C) /\
  p_ents (fix_system pr k last T W C) = p_ents pr.
Proof.
  unfold fix_system. apply (foldl_rel (fun a b => others_eq a b /\ p_ents b = p_ents a)).
  - intros a. split; [apply others_eq_refl|done].
  - intros a b c [? ?] [? ?]. split; [eapply others_eq_trans; eauto|congruence].
  - intros a [e en] _. destruct (en_comps en !! T); [|split; [apply others_eq_refl|done]].
    destruct (_ && _); [|split; [apply others_eq_refl|done]].
    split; [|done]. unfold others_eq, push_cmd. by destruct a.
Qed.

(* ---------- the detector does not see fix commands ---------------------------------------- *)

Lemma ents_list_rel S (m m' : gmap ent entity) : fix_ents_rel S m m' ->
  Forall2 (fun a b => a.1 = b.1 /\ fix_ent_rel S a.2 b.2) (map_to_list m) (map_to_list m').
Proof.
  intros H.
  assert ((map_to_list m).*1 = (map_to_list m').*1) as Hk.
  { apply gmap_to_list_keys. intros e. specialize (H e). destruct H; split; intros [? ?]; eauto; done. }
  assert (forall a, a ∈ map_to_list m -> m !! a.1 = Some a.2) as H1
    by (intros [? ?] ?; by apply elem_of_map_to_list).
  assert (forall a, a ∈ map_to_list m' -> m' !! a.1 = Some a.2) as H2
    by (intros [? ?] ?; by apply elem_of_map_to_list).
  revert Hk H1 H2. generalize (map_to_list m) (map_to_list m').
  induction l as [|a l IH]; intros [|a' l'] Hk H1 H2; try discriminate; constructor.
  - injection Hk as Hk _. split; [done|].
    pose proof (H1 a ltac:(left)) as E1. pose proof (H2 a' ltac:(left)) as E2. rewrite <- Hk in E2.
    specialize (H a.1). rewrite E1, E2 in H. by inversion H.
  - injection Hk as _ Hk. apply IH; auto; intros; [apply H1|apply H2]; by right.
Qed.

Definition det_eq (a b : peer_state) : Prop :=
  t_queue b = t_queue a /\ t_ctok b = t_ctok a /\ t_e2u b = t_e2u a.

Lemma signal_det_eq a b u t v ch : det_eq a b ->
  det_eq (signal_component_changed a u t v ch) (signal_component_changed b u t v ch).
Proof.
  intros (Hq & Hc & He). unfold signal_component_changed. rewrite Hc.
  destruct (tok_find _ _) as [at_|]; cbv zeta; [destruct (at_ =? ch)|]; repeat split; cbn; congruence.
Qed.

Lemma sync_detect_fix_rel pr pr' t last :
  t < 100 -> fix_ents_rel is_companion (p_ents pr) (p_ents pr') -> det_eq pr pr' ->
  det_eq (sync_detect pr t last) (sync_detect pr' t last).
Proof.
  intros Ht Hr Hd. unfold sync_detect, ents_list.
  pose proof (ents_list_rel _ _ _ Hr) as HF. clear Hr. revert HF. generalize (map_to_list (p_ents pr)) (map_to_list (p_ents pr')). intros l0 l0' HF. revert pr pr' Hd.
  induction HF as [|[e en] [e' en'] l l' [_ Hx] HF IH]; intros a a' Hd; cbn; [exact Hd|].
  apply IH. cbn in Hx. destruct Hx as (_ & Hs & Hsa & Hex & _ & _ & Hcomp & _).
  rewrite Hs, Hsa, Hex, Hcomp by (unfold is_companion; lia).
  destruct (en_sync en); [|exact Hd].
  match goal with |- context [match ?X with Some _ => _ | None => _ end] => destruct X as [c|] end; [|exact Hd].
  destruct (_ && _); [|exact Hd]. destruct Hd as (Hq & Hc & He).
  destruct (c_val c); try (apply signal_det_eq; repeat split; assumption).
  unfold to_skinned_mapper. rewrite He. apply signal_det_eq; repeat split; assumption.
Qed.

(* ---------- the Without<..> filter ----------------------------------------------------------- *)

Lemma sat_not_lacks C en : sat C en -> forallb (fun t => negb (has_comp en t)) C = false.
Proof.
  unfold sat. induction C as [|t C IH]; cbn; [done|].
  destruct (has_comp en t); cbn; auto.
Qed.

Lemma fix_system_skips pr k last T C e en :
  p_ents pr !! e = Some en -> sat C en ->
  forall cs, CFixInsert e cs ∈ queue (fix_system pr k last T C C) k -> CFixInsert e cs ∈ queue pr k.
Proof.
  intros He Hs. unfold fix_system, ents_list.
  apply (foldl_rel (fun a b => forall cs, CFixInsert e cs ∈ queue b k -> CFixInsert e cs ∈ queue a k)); auto.
  intros a [e' en'] Hin cs. apply elem_of_map_to_list in Hin.
  destruct (en_comps en' !! T); [|done].
  destruct (decide (e' = e)) as [->|Hne].
  - assert (en' = en) as -> by congruence. rewrite (sat_not_lacks _ _ Hs), andb_false_r. done.
  - destruct (_ && _); [|done]. unfold queue, push_cmd; cbn. rewrite lookup_insert; cbn.
    rewrite elem_of_app, elem_of_list_singleton. intros [?|[=]]; [done|]. congruence.
Qed.

(* ---------- one and two frames, generic --------------------------------------------------------------- *)
Lemma frame_panic_back pr o : p_panic (frame pr o) = None -> p_panic pr = None.
Proof. unfold frame. destruct (p_panic pr) eqn:E; [|done]. by rewrite E. Qed.

Lemma model_lists_pair s T C cs :
  fix_spec s = Some (T, C) -> cs ∈ model_fix_lists -> cs = C \/ (forall t, t ∈ cs -> t ∉ C).
Proof.
  intros Hs Hin. unfold model_fix_lists in Hin.
  repeat (apply elem_of_cons in Hin as [->|Hin]); [..|by apply elem_of_nil in Hin];
    destruct s; try discriminate Hs; injection Hs as <- <-;
    first [left; reflexivity
          |right; intros t Ht Hc;
           repeat (apply elem_of_cons in Ht as [->|Ht]); try (by apply elem_of_nil in Ht);
           repeat (apply elem_of_cons in Hc as [Hc|Hc]); try (by apply elem_of_nil in Hc); discriminate Hc].
Qed.

Section generic.
  Context (vs : bool) (s : sysid) (T : tyid) (C : list tyid) (e : ent).
  Context (Hspec : fix_spec s = Some (T, C)).

  Definition Pc (c : cmd) : Prop := not_spawn_of e c /\ (vs = true -> pair_safe C e c).
  Definition inv_cmds (pr : peer_state) : Prop :=
    cmds_ok Pc (e + 1) pr /\ (vs = true -> registry_ok C pr).

  Lemma Pc_ok c : Pc c -> cmd_ok vs C e c.
  Proof. intros H. exact H. Qed.
  Lemma Pc_gen c : model_cmd (e + 1) c = true -> Pc c.
  Proof.
    intros H. split.
    - intros u ->. cbn in H. apply N.leb_le in H. lia.
    - intros _. destruct c; cbn in *; try done. intros _.
      apply bool_decide_eq_true in H. eapply model_lists_pair; eauto.
  Qed.

  Definition Wp (phi : option entity -> tick -> Prop) : option entity -> tick -> Prop :=
    if vs then withP C phi else phi.
  Lemma Wp_closed nt (phi : option entity -> tick -> Prop) : (forall v, closed C v nt phi) -> closed C vs nt (Wp phi).
  Proof. intros H. unfold Wp. destruct vs; [apply withP_closed|]; apply H. Qed.
  Lemma Wp_done (phi : option entity -> tick -> Prop) : done_in C phi -> done_in C (Wp phi).
  Proof. intros H. unfold Wp. destruct vs; [by apply withP_done|done]. Qed.
  Lemma Wp_step (phi phi' : option entity -> tick -> Prop) : fix_step s T C e phi phi' -> fix_step s T C e (Wp phi) (Wp phi').
  Proof. intros H. unfold Wp. destruct vs; [by apply fix_step_withP|done]. Qed.
  Lemma Wp_weak (phi : option entity -> tick -> Prop) oe lr : Wp phi oe lr -> phi oe lr.
  Proof. unfold Wp. destruct vs; [by intros []|done]. Qed.
  Lemma Wp_intro (phi : option entity -> tick -> Prop) oe lr : phi oe lr -> (vs = true -> all_or_none C oe) -> Wp phi oe lr.
  Proof. unfold Wp. destruct vs; [split; auto|done]. Qed.
  Lemma Wp_pair (phi : option entity -> tick -> Prop) oe lr : Wp phi oe lr -> vs = true -> all_or_none C oe.
  Proof. unfold Wp. intros H ->. by destruct H. Qed.

  Notation OI := (OInv s C e vs Pc (e + 1)).
  Let Hne : nonempty C := fix_spec_nonempty _ _ _ Hspec.

  Definition result (phi : option entity -> tick -> Prop) (pr pr' : peer_state) : Prop :=
    Wp phi (p_ents pr' !! e) (last_run pr' (sys_key s)) /\ inv_cmds pr' /\ p_order pr' = p_order pr.

  Lemma OI_result nt phi pr pr' :
    p_panic pr' = None -> OI nt (Wp phi) (p_order pr) false pr' -> result phi pr pr' /\ (nt = true -> ticks_ok pr').
  Proof.
    intros Hp (Ht & Hreg & Hok & Ho & H). split; [|exact Ht]. split; [|split; [split; assumption|exact Ho]].
    destruct H as [?|[H|[? _]]]; [done|exact H|done].
  Qed.
  Lemma OI_start nt phi pr :
    (nt = true -> ticks_ok pr) -> inv_cmds pr ->
    Wp phi (p_ents pr !! e) (last_run pr (sys_key s)) -> OI nt (Wp phi) (p_order pr) false pr.
  Proof.
    intros Ht [Hok Hreg] H. split; [exact Ht|split; [exact Hreg|split; [exact Hok|split; [done|]]]].
    right; left. exact H.
  Qed.

  Lemma one_frame pr o :
    s ∈ p_order pr -> inv_cmds pr ->
    Wp (phiA T C) (p_ents pr !! e) (last_run pr (sys_key s)) ->
    p_panic (frame pr o) = None -> result (phiD C) pr (frame pr o).
  Proof.
    intros Hin Hinv H Hp.
    apply (OI_result false); [exact Hp|].
    apply (frame_phase_split s T C e Hspec vs Pc (e + 1) Pc_ok Pc_gen (Wp (phiA T C)) (Wp (phiD C)));
      auto using Wp_closed, Wp_done, Wp_step, phiA_closed, phiA_done, phiD_closed, phiD_done,
        fix_step_AB, fix_step_BB.
    apply OI_start; auto. intros [=].
  Qed.
  Lemma stay_frame pr o :
    s ∈ p_order pr -> inv_cmds pr ->
    Wp (phiD C) (p_ents pr !! e) (last_run pr (sys_key s)) ->
    p_panic (frame pr o) = None -> result (phiD C) pr (frame pr o).
  Proof.
    intros Hin Hinv H Hp.
    apply (OI_result false); [exact Hp|].
    apply (frame_phase_any s T C e Hspec vs Pc (e + 1) Pc_ok Pc_gen false (Wp (phiD C)));
      auto using Wp_closed, Wp_done, phiD_closed, phiD_done.
    - intros ord q st H0. exact (step_fix s T C e Hspec vs Pc (e + 1) Pc_gen false _ _ ord q st o (Wp_step _ _ (fix_step_BB s T C e)) H0).
    - apply OI_start; auto. intros [=].
  Qed.
  Lemma inv_frame pr o :
    s ∈ p_order pr -> ticks_ok pr -> inv_cmds pr ->
    Wp (phiFI T C) (p_ents pr !! e) (last_run pr (sys_key s)) ->
    p_panic (frame pr o) = None -> result (phiFI T C) pr (frame pr o) /\ ticks_ok (frame pr o).
  Proof.
    intros Hin Ht Hinv H Hp.
    destruct (OI_result true (phiFI T C) pr (frame pr o) Hp) as [? ?]; [|auto].
    apply (frame_phase_any s T C e Hspec vs Pc (e + 1) Pc_ok Pc_gen true (Wp (phiFI T C)));
      auto using Wp_closed, Wp_done, phiFI_closed, phiFI_done.
    - intros ord q st H0. exact (step_fix s T C e Hspec vs Pc (e + 1) Pc_gen true _ _ ord q st o (Wp_step _ _ (fix_step_FI s T C e)) H0).
    - apply OI_start; auto.
  Qed.

  Lemma two_frames pr o1 o2 en1 :
    s ∈ p_order pr -> ticks_ok pr -> inv_cmds pr ->
    Wp (phiFI T C) (p_ents pr !! e) (last_run pr (sys_key s)) ->
    p_panic (frame (frame pr o1) o2) = None ->
    p_ents (frame pr o1) !! e = Some en1 -> has_comp en1 T = true ->
    result (phiD C) (frame pr o1) (frame (frame pr o1) o2).
  Proof.
    intros Hin Ht Hinv H Hp He1 Hh.
    pose proof (frame_panic_back _ _ Hp) as Hp1.
    destruct (inv_frame pr o1 Hin Ht Hinv H Hp1) as ((H1 & Hinv1 & Ho1) & Ht1).
    assert (s ∈ p_order (frame pr o1)) as Hin1 by (by rewrite Ho1).
    pose proof (Wp_weak _ _ _ H1) as H1w. rewrite He1 in H1w. cbn in H1w.
    pose proof (Wp_pair _ _ _ H1) as H1p.
    unfold has_comp in Hh. destruct H1w as [Hsat|Hpend].
    - apply stay_frame; auto. apply Wp_intro; auto. rewrite He1. exact Hsat.
    - destruct (en_comps en1 !! T) as [c|] eqn:Ec; [|done].
      apply one_frame; auto. apply Wp_intro; auto. rewrite He1. cbn. right. eauto.
  Qed.
End generic.

