(* Hierarchy bookkeeping (Parent / Children) of the frame-level model: a re-parented child is
   listed exactly once among the new parent's children and under no other (live) parent.

   hier_ok pr   : the property-level invariant on the entities of one peer
   hier_inv pr  : hier_ok plus what makes it inductive over frames (the replica ids handed out
                  by the allocator p_next_ent and waiting in the command queues are unused,
                  pairwise different and above SCRIPT_LIMIT; application systems queue no spawn)
   Both ignore p_panic: they hold in panicked states too (every panic site of the model fires
   before anything is written). *)
From stdpp Require Import gmap list.
From Coq Require Import NArith Lia.
From RecordUpdate Require Import RecordSet.
From BS Require Import Sync.Types Sync.Model Sync.Observe Sync.Proofs.PanicLemmas.
Import RecordSetNotations.
Local Open Scope N_scope.

(* ================================================================================================ *)
(* 1. The invariant                                                                                  *)
(* ================================================================================================ *)

Record hier_ok (pr : peer_state) : Prop := {
  (* (a) a live child of a live parent is listed by it ... *)
  ho_listed : forall c cen p t pen,
    p_ents pr !! c = Some cen -> en_parent cen = Some (p, t) -> p_ents pr !! p = Some pen ->
    c ∈ en_children pen;
  (* (b) a live entity listed by a live entity has it as Parent (so: under no other parent) *)
  ho_parent : forall q qen c cen,
    p_ents pr !! q = Some qen -> c ∈ en_children qen -> p_ents pr !! c = Some cen ->
    exists t, en_parent cen = Some (q, t);
  (* (c) ... exactly once *)
  ho_nodup : forall q qen, p_ents pr !! q = Some qen -> NoDup (en_children qen);
}.

(* ---------- the hierarchy view of the entities: Parent without its tick, Children ---------------- *)

Notation hnode := (option ent * list ent)%type.
Definition hproj (en : entity) : hnode := (parent_of en, en_children en).
Notation view := (gmap ent hnode).
Definition hv (m : gmap ent entity) : view := hproj <$> m.

Record hvok (V : view) : Prop := {
  vo_listed : forall c cn p pn, V !! c = Some cn -> cn.1 = Some p -> V !! p = Some pn -> c ∈ pn.2;
  vo_parent : forall q qn c cn, V !! q = Some qn -> c ∈ qn.2 -> V !! c = Some cn -> cn.1 = Some q;
  vo_nodup : forall q qn, V !! q = Some qn -> NoDup qn.2;
}.

(* an id is used if it is alive or some live entity still mentions it (plain despawns leave stale
   entries behind: a dead child in Children, a Parent pointing at a dead entity) *)
Definition mentions (n : hnode) (e : ent) : Prop := e ∈ n.2 \/ n.1 = Some e.
Definition usedv (V : view) (e : ent) : Prop :=
  is_Some (V !! e) \/ exists q qn, V !! q = Some qn /\ mentions qn e.
Definition id_used (pr : peer_state) (e : ent) : Prop := usedv (hv (p_ents pr)) e.

Lemma parent_of_Some en p : parent_of en = Some p <-> exists t, en_parent en = Some (p, t).
Proof.
  unfold parent_of. destruct (en_parent en) as [[q t]|]; simpl; split.
  - intros [= ->]. exists t. reflexivity.
  - intros [t' [= -> _]]. reflexivity.
  - discriminate.
  - intros [t' H]. discriminate.
Qed.

Lemma hv_lookup m x : hv m !! x = hproj <$> m !! x.
Proof. unfold hv. apply lookup_fmap. Qed.

Lemma hv_lookup_Some m x n :
  hv m !! x = Some n <-> exists en, m !! x = Some en /\ n = hproj en.
Proof.
  rewrite hv_lookup. destruct (m !! x) as [en|]; simpl; split.
  - intros [= <-]. exists en. split; reflexivity.
  - intros (en' & [= <-] & ->). reflexivity.
  - discriminate.
  - intros (en' & H & _). discriminate.
Qed.

Lemma hier_ok_hv pr : hier_ok pr <-> hvok (hv (p_ents pr)).
Proof.
  split.
  - intros [Ha Hb Hc]. constructor.
    + intros c cn p pn Hc1 Hp Hp1.
      apply hv_lookup_Some in Hc1 as (cen & Hc1 & ->). apply hv_lookup_Some in Hp1 as (pen & Hp1 & ->).
      simpl in *. apply parent_of_Some in Hp as [t Hp]. eapply Ha; eassumption.
    + intros q qn c cn Hq Hin Hc1.
      apply hv_lookup_Some in Hc1 as (cen & Hc1 & ->). apply hv_lookup_Some in Hq as (qen & Hq & ->).
      simpl in *. apply parent_of_Some. eapply Hb; eassumption.
    + intros q qn Hq. apply hv_lookup_Some in Hq as (qen & Hq & ->). simpl. eapply Hc; eassumption.
  - intros [Ha Hb Hc]. constructor.
    + intros c cen p t pen Hc1 Hp Hp1.
      apply (Ha c (hproj cen) p (hproj pen)).
      * apply hv_lookup_Some. exists cen. split; [exact Hc1|reflexivity].
      * simpl. apply parent_of_Some. exists t. exact Hp.
      * apply hv_lookup_Some. exists pen. split; [exact Hp1|reflexivity].
    + intros q qen c cen Hq Hin Hc1. apply parent_of_Some.
      apply (Hb q (hproj qen) c (hproj cen)).
      * apply hv_lookup_Some. exists qen. split; [exact Hq|reflexivity].
      * exact Hin.
      * apply hv_lookup_Some. exists cen. split; [exact Hc1|reflexivity].
    + intros q qen Hq. apply (Hc q (hproj qen)).
      apply hv_lookup_Some. exists qen. split; [exact Hq|reflexivity].
Qed.

(* ---------- removeN ------------------------------------------------------------------------------ *)

Lemma elem_of_removeN x c l : x ∈ removeN c l <-> x <> c /\ x ∈ l.
Proof.
  unfold removeN. rewrite elem_of_list_filter.
  destruct (N.eqb_spec c x) as [->|Hne]; simpl; split.
  - intros [[] _].
  - intros [H _]. congruence.
  - intros [_ H]. split; [congruence|exact H].
  - intros [_ H]. split; [exact I|exact H].
Qed.

Lemma NoDup_removeN c l : NoDup l -> NoDup (removeN c l).
Proof. apply NoDup_filter. Qed.

Lemma NoDup_removeN_snoc c l : NoDup l -> NoDup (removeN c l ++ [c]).
Proof.
  intros H. apply NoDup_app. split; [apply NoDup_removeN; exact H|]. split.
  - intros x Hx Hx'. apply elem_of_removeN in Hx as [Hne _].
    apply elem_of_list_singleton in Hx'. contradiction.
  - apply NoDup_singleton.
Qed.

(* ---------- steps of the view --------------------------------------------------------------------- *)

(* o = the id the step brings to life, if any *)
Definition wstep (o : option ent) (V V' : view) : Prop :=
  (hvok V -> (forall e, o = Some e -> ~ usedv V e) -> hvok V') /\
  (forall e, usedv V' e -> usedv V e \/ o = Some e).

Lemma wstep_refl V : wstep None V V.
Proof. split; [intros H _; exact H|intros e H; left; exact H]. Qed.

Lemma wstep_eq o V V' : V' = V -> wstep o V V'.
Proof. intros ->. split; [intros H _; exact H|intros e H; left; exact H]. Qed.

Lemma wstep_trans V1 V2 V3 : wstep None V1 V2 -> wstep None V2 V3 -> wstep None V1 V3.
Proof.
  intros [A1 A2] [B1 B2]. split.
  - intros H _. apply B1; [|intros e [=]]. apply A1; [exact H|intros e [=]].
  - intros e H. destruct (B2 e H) as [H'|[=]]. exact (A2 e H').
Qed.

Lemma wstep_delete V e : wstep None V (delete e V).
Proof.
  split.
  - intros [Ha Hb Hc] _. constructor.
    + intros c cn p pn H1 H2 H3.
      apply lookup_delete_Some in H1 as [_ H1]. apply lookup_delete_Some in H3 as [_ H3].
      eapply Ha; eassumption.
    + intros q qn c cn H1 H2 H3.
      apply lookup_delete_Some in H1 as [_ H1]. apply lookup_delete_Some in H3 as [_ H3].
      eapply Hb; eassumption.
    + intros q qn H1. apply lookup_delete_Some in H1 as [_ H1]. eapply Hc; eassumption.
  - intros x [[n H]|(q & qn & H & Hm)]; left.
    + left. apply lookup_delete_Some in H as [_ H]. exists n. exact H.
    + right. apply lookup_delete_Some in H as [_ H]. exists q, qn. split; assumption.
Qed.

Lemma wstep_spawn V e : wstep (Some e) V (<[e := (None, [])]> V).
Proof.
  split.
  - intros [Ha Hb Hc] Hfresh. specialize (Hfresh e eq_refl).
    assert (Hdead : V !! e = None).
    { destruct (V !! e) as [n|] eqn:E; [|reflexivity]. exfalso. apply Hfresh. left. exists n. exact E. }
    constructor.
    + intros c cn p pn H1 H2 H3.
      destruct (decide (c = e)) as [->|Hce].
      { rewrite lookup_insert in H1. injection H1 as <-. discriminate. }
      rewrite lookup_insert_ne in H1 by congruence.
      destruct (decide (p = e)) as [->|Hpe].
      { exfalso. apply Hfresh. right. exists c, cn. split; [exact H1|right; exact H2]. }
      rewrite lookup_insert_ne in H3 by congruence. eapply Ha; eassumption.
    + intros q qn c cn H1 H2 H3.
      destruct (decide (q = e)) as [->|Hqe].
      { rewrite lookup_insert in H1. injection H1 as <-. simpl in H2. inversion H2. }
      rewrite lookup_insert_ne in H1 by congruence.
      destruct (decide (c = e)) as [->|Hce].
      { exfalso. apply Hfresh. right. exists q, qn. split; [exact H1|left; exact H2]. }
      rewrite lookup_insert_ne in H3 by congruence. eapply Hb; eassumption.
    + intros q qn H1. destruct (decide (q = e)) as [->|Hqe].
      { rewrite lookup_insert in H1. injection H1 as <-. apply NoDup_nil_2. }
      rewrite lookup_insert_ne in H1 by congruence. eapply Hc; eassumption.
  - intros x [[n H]|(q & qn & H & Hm)].
    + destruct (decide (x = e)) as [->|Hne]; [right; reflexivity|].
      rewrite lookup_insert_ne in H by congruence. left. left. exists n. exact H.
    + destruct (decide (q = e)) as [->|Hne].
      { rewrite lookup_insert in H. injection H as <-. destruct Hm as [Hm|Hm]; simpl in Hm; [inversion Hm|discriminate]. }
      rewrite lookup_insert_ne in H by congruence. left. right. exists q, qn. split; assumption.
Qed.

(* add_child p c on the view, node by node *)
Definition reparent_node (prev : option ent) (p c x : ent) (n : hnode) : hnode :=
  (if decide (x = c) then Some p else n.1,
   if decide (x = p) then removeN c n.2 ++ [c]
   else if decide (prev = Some x) then removeN c n.2 else n.2).
Definition reparented (V V' : view) (p c : ent) : Prop :=
  forall x, V' !! x = reparent_node (V !! c ≫= fst) p c x <$> V !! x.

Lemma reparent_children_sub prev p c x n y :
  y ∈ (reparent_node prev p c x n).2 -> y ∈ n.2 \/ (y = c /\ x = p).
Proof.
  unfold reparent_node. simpl. destruct (decide (x = p)) as [->|Hxp].
  - intros H. apply elem_of_app in H as [H|H].
    + apply elem_of_removeN in H as [_ H]. left. exact H.
    + apply elem_of_list_singleton in H. right. split; [exact H|reflexivity].
  - destruct (decide (prev = Some x)); intros H; [apply elem_of_removeN in H as [_ H]|]; left; exact H.
Qed.

Lemma reparent_children_keep prev p c x n y :
  y <> c -> y ∈ n.2 -> y ∈ (reparent_node prev p c x n).2.
Proof.
  intros Hne H. unfold reparent_node. simpl. destruct (decide (x = p)).
  - apply elem_of_app. left. apply elem_of_removeN. split; assumption.
  - destruct (decide (prev = Some x)); [apply elem_of_removeN; split; assumption|exact H].
Qed.

Lemma wstep_reparent V V' p c :
  is_Some (V !! c) -> is_Some (V !! p) -> p <> c -> reparented V V' p c -> wstep None V V'.
Proof.
  intros [cn0 Hc0] [pn0 Hp0] Hpc HR.
  assert (Hprev : V !! c ≫= fst = cn0.1) by (rewrite Hc0; reflexivity).
  unfold reparented in HR. rewrite Hprev in HR.
  assert (Hinv : forall x n', V' !! x = Some n' ->
            exists n, V !! x = Some n /\ n' = reparent_node cn0.1 p c x n).
  { intros x n' H. rewrite HR in H. destruct (V !! x) as [n|]; simpl in H; [|discriminate].
    injection H as <-. exists n. split; reflexivity. }
  split.
  - intros [Ha Hb Hcc] _. constructor.
    + intros x xn y yn H1 H2 H3.
      apply Hinv in H1 as (xn0 & H1 & ->). apply Hinv in H3 as (yn0 & H3 & ->).
      simpl in H2. destruct (decide (x = c)) as [->|Hxc].
      * injection H2 as <-. unfold reparent_node. simpl. rewrite decide_True by reflexivity.
        apply elem_of_app. right. apply elem_of_list_singleton. reflexivity.
      * apply reparent_children_keep; [exact Hxc|]. eapply Ha; eassumption.
    + intros q qn x xn H1 H2 H3.
      apply Hinv in H1 as (qn0 & H1 & ->). apply Hinv in H3 as (xn0 & H3 & ->).
      simpl. destruct (decide (x = c)) as [->|Hxc].
      * f_equal. unfold reparent_node in H2. simpl in H2.
        destruct (decide (q = p)) as [->|Hqp]; [reflexivity|]. exfalso.
        rewrite Hc0 in H3. injection H3 as <-.
        destruct (decide (cn0.1 = Some q)) as [Hprevq|Hprevq].
        -- apply elem_of_removeN in H2 as [H2 _]. congruence.
        -- apply Hprevq. eapply Hb; eassumption.
      * apply reparent_children_sub in H2 as [H2|[H2 _]]; [|contradiction].
        eapply Hb; eassumption.
    + intros q qn H1. apply Hinv in H1 as (qn0 & H1 & ->).
      specialize (Hcc q qn0 H1). unfold reparent_node. simpl.
      destruct (decide (q = p)); [apply NoDup_removeN_snoc; exact Hcc|].
      destruct (decide (cn0.1 = Some q)); [apply NoDup_removeN|]; exact Hcc.
  - intros e [[n' H]|(q & qn' & H & Hm)]; left.
    + apply Hinv in H as (n & H & _). left. exists n. exact H.
    + apply Hinv in H as (qn & H & ->). destruct Hm as [Hm|Hm].
      * apply reparent_children_sub in Hm as [Hm|[-> _]].
        -- right. exists q, qn. split; [exact H|left; exact Hm].
        -- left. exists cn0. exact Hc0.
      * simpl in Hm. destruct (decide (q = c)) as [->|Hqc].
        -- injection Hm as <-. left. exists pn0. exact Hp0.
        -- right. exists q, qn. split; [exact H|right; exact Hm].
Qed.

(* ================================================================================================ *)
(* 2. What the model's world operations do to the view                                               *)
(* ================================================================================================ *)

Notation V_of pr := (hv (p_ents pr)).

Lemma upd_ent_lookup pr e f x :
  p_ents (upd_ent pr e f) !! x = (if decide (x = e) then f else id) <$> p_ents pr !! x.
Proof.
  unfold upd_ent. destruct (p_ents pr !! e) as [en|] eqn:E; simpl.
  - destruct (decide (x = e)) as [->|Hne].
    + rewrite lookup_insert, E. reflexivity.
    + rewrite lookup_insert_ne by congruence. destruct (p_ents pr !! x); reflexivity.
  - destruct (decide (x = e)) as [->|Hne].
    + rewrite E. reflexivity.
    + destruct (p_ents pr !! x); reflexivity.
Qed.

Lemma upd_ent_hv_same pr e f :
  (forall en, hproj (f en) = hproj en) -> V_of (upd_ent pr e f) = V_of pr.
Proof.
  intros Hf. apply map_eq. intros x. rewrite !hv_lookup, upd_ent_lookup.
  destruct (p_ents pr !! x) as [en|]; simpl; [|reflexivity].
  destruct (decide (x = e)); simpl; [rewrite Hf|]; reflexivity.
Qed.

Lemma put_comp_hproj now t v en : hproj (put_comp now t v en) = hproj en.
Proof. unfold put_comp. destruct (en_comps en !! t); reflexivity. Qed.

Lemma hv_insert m e en : hv (<[e := en]> m) = <[e := hproj en]> (hv m).
Proof. unfold hv. apply fmap_insert. Qed.
Lemma hv_delete m e : hv (delete e m) = delete e (hv m).
Proof. unfold hv. apply fmap_delete. Qed.

Lemma alive_hv pr e : alive pr e = true <-> is_Some (V_of pr !! e).
Proof.
  unfold alive. rewrite hv_lookup. destruct (p_ents pr !! e) as [en|]; simpl; split.
  - intros _. eexists. reflexivity.
  - reflexivity.
  - discriminate.
  - intros [n H]. discriminate.
Qed.

Ltac decide_all :=
  repeat match goal with
         | |- context [decide ?P] => destruct (decide P)
         end.

Lemma add_child_ok_reparented pr p c :
  p <> c -> reparented (V_of pr) (V_of (add_child_ok pr p c (prev_parent pr c))) p c.
Proof.
  intros Hpc x.
  assert (Hprev : V_of pr !! c ≫= fst = prev_parent pr c).
  { rewrite hv_lookup. unfold prev_parent. destruct (p_ents pr !! c); reflexivity. }
  rewrite Hprev. rewrite !hv_lookup. unfold add_child_ok. cbv zeta.
  rewrite upd_ent_lookup.
  destruct (prev_parent pr c) as [q|].
  - destruct (N.eqb_spec q p) as [->|Hqp].
    + rewrite upd_ent_lookup. destruct (p_ents pr !! x) as [en|]; [|reflexivity]. simpl. f_equal.
      unfold reparent_node, hproj. simpl.
      decide_all; subst; simpl; try congruence; try reflexivity.
    + rewrite !upd_ent_lookup. destruct (p_ents pr !! x) as [en|]; [|reflexivity]. simpl. f_equal.
      unfold reparent_node, hproj. simpl.
      decide_all; subst; simpl; try congruence; try reflexivity.
  - rewrite upd_ent_lookup. destruct (p_ents pr !! x) as [en|]; [|reflexivity]. simpl. f_equal.
    unfold reparent_node, hproj. simpl.
    decide_all; subst; simpl; try congruence; try reflexivity.
Qed.

Lemma add_child_alive' pr p c x : alive (add_child pr p c) x = alive pr x.
Proof.
  rewrite add_child_eq.
  destruct (negb (alive pr p)); [unfold alive; rewrite set_panic_ents; reflexivity|].
  destruct (p =? c); [unfold alive; rewrite set_panic_ents; reflexivity|].
  apply add_child_ok_alive.
Qed.

(* add_child is called on a live child at every call site of the model *)
Lemma add_child_wstep pr p c : alive pr c = true -> wstep None (V_of pr) (V_of (add_child pr p c)).
Proof.
  intros Hc. rewrite add_child_eq.
  destruct (alive pr p) eqn:Hp; simpl; [|apply wstep_eq; rewrite set_panic_ents; reflexivity].
  destruct (N.eqb_spec p c) as [->|Hpc]; [apply wstep_eq; rewrite set_panic_ents; reflexivity|].
  apply (wstep_reparent _ _ p c).
  - apply alive_hv. exact Hc.
  - apply alive_hv. exact Hp.
  - exact Hpc.
  - apply add_child_ok_reparented. exact Hpc.
Qed.

Lemma set_parent_twice_wstep pr c p :
  alive pr c = true -> wstep None (V_of pr) (V_of (set_parent_twice pr c p)).
Proof.
  intros Hc. unfold set_parent_twice.
  destruct (p_panic (add_child pr p c)); [apply add_child_wstep; exact Hc|].
  eapply wstep_trans; [apply add_child_wstep; exact Hc|].
  apply add_child_wstep. rewrite add_child_alive'. exact Hc.
Qed.

Definition sid (c : cmd) : option ent := match c with CSpawnSync e _ => Some e | _ => None end.

Lemma wstep_upd_same o pr e f : (forall en, hproj (f en) = hproj en) -> wstep o (V_of pr) (V_of (upd_ent pr e f)).
Proof. intros Hf. apply wstep_eq. apply upd_ent_hv_same. exact Hf. Qed.

Lemma wstep_core o pr pr' : core pr' = core pr -> wstep o (V_of pr) (V_of pr').
Proof. intros H. apply wstep_eq. rewrite (core_ents _ _ H). reflexivity. Qed.

Lemma acc_wstep pr e t v : wstep None (V_of pr) (V_of (apply_component_change pr e t v).1).
Proof.
  unfold apply_component_change.
  repeat case_match; simpl; try apply wstep_refl.
  all: match goal with |- wstep _ _ (V_of (upd_ent ?a _ _)) =>
         change (V_of pr) with (V_of a); apply wstep_upd_same; intros en0; apply put_comp_hproj end.
Qed.

Lemma apply_cmd_wstep pr c : wstep (sid c) (V_of pr) (V_of (apply_cmd pr c)).
Proof.
  destruct c; simpl; try apply wstep_refl.
  - (* CSpawnSync *) rewrite hv_insert. apply wstep_spawn.
  - (* CDespawn *) rewrite hv_delete. apply wstep_delete.
  - (* CInsertSync *) apply wstep_upd_same. intros en. reflexivity.
  - (* CApplyComp *)
    destruct (apply_component_change pr e t v) as [pr' ch] eqn:E.
    pose proof (acc_wstep pr e t v) as H. rewrite E in H. simpl in H.
    destruct from as [c|]; [destruct ch|]; rewrite ?(core_ents _ _ (relay_except_core _ _ _)); exact H.
  - (* CSetParentSrv *)
    destruct (t_u2e pr !! c) as [ce|]; [|apply wstep_refl].
    destruct (t_u2e pr !! p) as [pe|]; [|apply wstep_refl].
    destruct (alive pr pe) eqn:Ep; simpl; [|apply wstep_refl].
    destruct (alive pr ce) eqn:Ec; simpl; [|apply wstep_refl].
    destruct (parent_differs pr ce pe).
    + set (sp := set_parent_twice pr ce pe <| t_ptok ::= <[c := p]> |>).
      change (wstep None (V_of pr)
                (V_of (match p_panic sp with Some _ => sp | None => relay_except sp from (MParented c p) end))).
      rewrite (core_ents _ _ (relay_ok_core sp from (MParented c p))).
      exact (set_parent_twice_wstep pr ce pe Ec).
    + destruct (p_panic pr); rewrite ?(core_ents _ _ (relay_except_core _ _ _)); apply wstep_refl.
  - (* CSetParentCli *)
    destruct (alive pr p) eqn:Ep; simpl; [|apply wstep_refl].
    destruct (alive pr c) eqn:Ec; simpl; [|apply wstep_refl].
    destruct (parent_differs pr c p); [|apply wstep_refl].
    exact (set_parent_twice_wstep pr c p Ec).
  - destruct from as [c|]; [rewrite (core_ents _ _ (relay_except_core _ _ _))|]; apply wstep_refl.
  - rewrite (core_ents _ _ (relay_except_core _ _ _)). apply wstep_refl.
  - (* CSendInitialSync *)
    pose proof (core_ents _ _ (react_components_core true pr)) as H0.
    set (pr0 := react_on_changed_components true pr) in *.
    destruct (build_full_sync pr0) as [pr1 ms] eqn:E.
    pose proof (core_ents _ _ (build_full_sync_core pr0)) as H. rewrite E in H. simpl in H.
    apply wstep_eq.
    change (V_of (foldl (fun pr0 m => send pr0 to m) pr1 ms) = V_of pr).
    rewrite (core_ents _ _ (foldl_core _ ms pr1 (fun a x => send_core a to x))). congruence.
  - (* CRequestInitialSync *)
    destruct (build_full_sync pr) as [pr1 ms] eqn:E.
    pose proof (core_ents _ _ (build_full_sync_core pr)) as H. rewrite E in H. simpl in H.
    apply wstep_eq. rewrite (core_ents _ _ (send_up_core _ _)). congruence.
  - (* CFixInsert *)
    apply (foldl_inv (fun a => wstep None (V_of pr) (V_of a))); [apply wstep_refl|].
    intros a x _ Ha. eapply wstep_trans; [exact Ha|].
    apply wstep_upd_same. intros en. apply put_comp_hproj.
  - destruct set_flag; apply wstep_refl.
  - (* CAppDespawnUuid *)
    destruct (filter _ _) as [|[e en] l]; [apply wstep_refl|]. simpl. rewrite hv_delete. apply wstep_delete.
  - (* CAppDespawn *) rewrite hv_delete. apply wstep_delete.
  - (* CAppInsert *)
    destruct (negb (alive pr e)); [apply wstep_eq; rewrite set_panic_ents; reflexivity|].
    apply wstep_upd_same. intros en. apply put_comp_hproj.
Qed.

Definition op_sid (op : app_op) : option ent := match op with OSpawn e _ _ => Some e | _ => None end.

Lemma app_step_wstep pr op : wstep (op_sid op) (V_of pr) (V_of (app_step pr op)).
Proof.
  destruct op; simpl; try apply wstep_refl.
  - (* OSpawn *)
    rewrite hv_insert.
    match goal with |- wstep _ _ (<[_ := hproj ?x]> _) => assert (Hx : hproj x = (None, [])) end.
    { apply (foldl_inv (fun a => hproj a = (None, []))); [reflexivity|].
      intros a [t v] _ Ha. rewrite put_comp_hproj. exact Ha. }
    rewrite Hx. apply wstep_spawn.
  - rewrite hv_delete. apply wstep_delete.
  - apply wstep_upd_same. intros en. reflexivity.
  - apply wstep_upd_same. intros en. apply put_comp_hproj.
  - apply wstep_upd_same. intros en. reflexivity.
  - destruct (alive pr c) eqn:Ec; [apply add_child_wstep; exact Ec|apply wstep_refl].
  - destruct host; apply wstep_refl.
Qed.

(* ================================================================================================ *)
(* 3. Pending spawns: the replica ids reserved from the allocator and not spawned yet                *)
(* ================================================================================================ *)

(* a position in the list being applied by a flush (extra) or in a system's buffer *)
Inductive slot := SExtra (n : nat) | SQueue (k : N) (n : nat).

Definition at_slot (q : gmap N (list cmd)) (extra : list cmd) (s : slot) : option cmd :=
  match s with
  | SExtra n => extra !! n
  | SQueue k n => q !! k ≫= (fun cs => cs !! n)
  end.
Definition spawn_at (q : gmap N (list cmd)) (extra : list cmd) (s : slot) (e : ent) : Prop :=
  exists c, at_slot q extra s = Some c /\ sid c = Some e.

(* every pending spawn id is a replica id handed out by the allocator, unused, and pending once *)
Definition pend_ok (U : ent -> Prop) (next : N) (q : gmap N (list cmd)) (extra : list cmd) : Prop :=
  (forall s e, spawn_at q extra s e -> SCRIPT_LIMIT <= e /\ e < next /\ ~ U e) /\
  (forall s1 s2 e, spawn_at q extra s1 e -> spawn_at q extra s2 e -> s1 = s2).

Lemma pend_ok_transfer (f : slot -> slot) (U U' : ent -> Prop) next next' q q' extra extra' :
  next <= next' ->
  (forall s e, spawn_at q' extra' s e -> spawn_at q extra (f s) e) ->
  (forall s1 s2 e, spawn_at q' extra' s1 e -> spawn_at q' extra' s2 e -> f s1 = f s2 -> s1 = s2) ->
  (forall s e, spawn_at q' extra' s e -> U' e -> U e) ->
  pend_ok U next q extra -> pend_ok U' next' q' extra'.
Proof.
  intros Hn Hf Hinj HU [H1 H2]. split.
  - intros s e Hs. destruct (H1 _ _ (Hf _ _ Hs)) as (A & B & C).
    split; [exact A|split; [lia|]]. intros HU'. apply C. eapply HU; eassumption.
  - intros s1 s2 e Hs1 Hs2. apply (Hinj s1 s2 e Hs1 Hs2).
    apply (H2 _ _ e); apply Hf; assumption.
Qed.

(* appending a command to a buffer *)
Lemma spawn_at_push q extra k c s e :
  spawn_at (<[k := default [] (q !! k) ++ [c]]> q) extra s e ->
  spawn_at q extra s e \/ (s = SQueue k (length (default [] (q !! k))) /\ sid c = Some e).
Proof.
  intros (c' & Hat & Hsid). destruct s as [n|k' n]; simpl in Hat.
  - left. exists c'. split; assumption.
  - destruct (decide (k' = k)) as [->|Hne].
    + rewrite lookup_insert in Hat. simpl in Hat.
      apply lookup_app_Some in Hat as [Hat|[Hlen Hat]].
      * left. exists c'. split; [|exact Hsid]. simpl.
        destruct (q !! k) as [cs|]; simpl in *; [exact Hat|]. rewrite lookup_nil in Hat. discriminate.
      * right. destruct (n - length (default [] (q !! k)))%nat as [|j] eqn:En; simpl in Hat; [|rewrite lookup_nil in Hat; discriminate].
        injection Hat as <-. split; [|exact Hsid]. f_equal. lia.
    + rewrite lookup_insert_ne in Hat by congruence. left. exists c'. split; assumption.
Qed.

Lemma pend_ok_push_plain (U : ent -> Prop) next q extra k c :
  sid c = None -> pend_ok U next q extra ->
  pend_ok U next (<[k := default [] (q !! k) ++ [c]]> q) extra.
Proof.
  intros Hc. apply (pend_ok_transfer id); [lia| | |auto].
  - intros s e Hs. apply spawn_at_push in Hs as [Hs|[_ Hs]]; [exact Hs|congruence].
  - intros s1 s2 e _ _ H. exact H.
Qed.

(* handing out the next id *)
Lemma pend_ok_push_alloc (U : ent -> Prop) next q extra k u :
  SCRIPT_LIMIT <= next -> (forall e, U e -> e < next) -> pend_ok U next q extra ->
  pend_ok U (next + 1) (<[k := default [] (q !! k) ++ [CSpawnSync next u]]> q) extra.
Proof.
  intros Hn HU [H1 H2]. split.
  - intros s e Hs. apply spawn_at_push in Hs as [Hs|[_ Hs]].
    + destruct (H1 _ _ Hs) as (A & B & C). split; [exact A|split; [lia|exact C]].
    + simpl in Hs. injection Hs as <-. split; [exact Hn|split; [lia|]].
      intros Hu. specialize (HU _ Hu). lia.
  - intros s1 s2 e Hs1 Hs2.
    apply spawn_at_push in Hs1 as [Hs1|[-> Hs1]]; apply spawn_at_push in Hs2 as [Hs2|[-> Hs2]].
    + eapply H2; eassumption.
    + simpl in Hs2. injection Hs2 as <-. destruct (H1 _ _ Hs1) as (_ & B & _). lia.
    + simpl in Hs1. injection Hs1 as <-. destruct (H1 _ _ Hs2) as (_ & B & _). lia.
    + reflexivity.
Qed.

(* a flush takes a whole buffer *)
Lemma pend_ok_take (U : ent -> Prop) next q k cs :
  q !! k = Some cs -> pend_ok U next q [] -> pend_ok U next (delete k q) cs.
Proof.
  intros Hk.
  apply (pend_ok_transfer (fun s => match s with SExtra n => SQueue k n | _ => s end)); [lia| | |auto].
  - intros s e (c & Hat & Hsid). exists c. split; [|exact Hsid]. destruct s as [n|k' n]; simpl in *.
    + rewrite Hk. exact Hat.
    + destruct (decide (k' = k)) as [->|Hne]; [rewrite lookup_delete in Hat; discriminate|].
      rewrite lookup_delete_ne in Hat by congruence. exact Hat.
  - intros s1 s2 e (c1 & Hat1 & _) (c2 & Hat2 & _) H.
    destruct s1 as [n1|k1 n1], s2 as [n2|k2 n2]; simpl in *; try congruence.
    + injection H as <- _. rewrite lookup_delete in Hat2. discriminate.
    + injection H as -> _. rewrite lookup_delete in Hat1. discriminate.
Qed.

(* ... and applies its commands one by one; e0 = the id the head brings to life, if any *)
Lemma pend_ok_head (U U' : ent -> Prop) next q c cs :
  (forall e, U' e -> U e \/ sid c = Some e) ->
  pend_ok U next q (c :: cs) -> pend_ok U' next q cs.
Proof.
  intros HU Hp.
  refine (pend_ok_transfer (fun s => match s with SExtra n => SExtra (S n) | _ => s end)
            U U' next next q q (c :: cs) cs _ _ _ _ Hp); [lia| | |].
  - intros s e (c' & Hat & Hsid). exists c'. split; [|exact Hsid]. destruct s; exact Hat.
  - intros s1 s2 e _ _ H. destruct s1, s2; congruence.
  - intros s e Hs Hu. destruct (HU e Hu) as [H|H]; [exact H|]. exfalso.
    assert (H0 : spawn_at q (c :: cs) (SExtra 0) e) by (exists c; split; [reflexivity|exact H]).
    assert (H1 : spawn_at q (c :: cs) (match s with SExtra n => SExtra (S n) | _ => s end) e).
    { destruct Hs as (c' & Hat & Hsid). exists c'. split; [|exact Hsid]. destruct s; exact Hat. }
    pose proof (proj2 Hp _ _ e H0 H1) as Heq. destruct s; discriminate.
Qed.

Lemma pend_ok_drop (U : ent -> Prop) next q extra : pend_ok U next q extra -> pend_ok U next q [].
Proof.
  apply (pend_ok_transfer id); [lia| | |auto].
  - intros s e (c & Hat & Hsid). exists c. split; [|exact Hsid].
    destruct s; simpl in *; [rewrite lookup_nil in Hat; discriminate|exact Hat].
  - intros s1 s2 e _ _ H. exact H.
Qed.

Lemma pend_ok_head_id (U : ent -> Prop) next q c cs e :
  pend_ok U next q (c :: cs) -> sid c = Some e -> SCRIPT_LIMIT <= e /\ e < next /\ ~ U e.
Proof. intros [H _] Hc. apply (H (SExtra 0)). exists c. split; [reflexivity|exact Hc]. Qed.

(* ================================================================================================ *)
(* 4. The inductive invariant                                                                        *)
(* ================================================================================================ *)

Record HI (pr : peer_state) (extra : list cmd) : Prop := {
  hi_ok : hvok (V_of pr);
  hi_bound : forall e, usedv (V_of pr) e -> e < p_next_ent pr;
  hi_next : SCRIPT_LIMIT <= p_next_ent pr;
  hi_pend : pend_ok (usedv (V_of pr)) (p_next_ent pr) (p_cmdq pr) extra;
  hi_app : forall x, x ∈ p_app_cmds pr -> sid x.2 = None;
}.

Definition hier_inv (pr : peer_state) : Prop := HI pr [].

Lemma hier_inv_ok pr : hier_inv pr -> hier_ok pr.
Proof. intros H. apply hier_ok_hv. apply (hi_ok _ _ H). Qed.

Lemma HI_ext pr pr' extra :
  p_ents pr' = p_ents pr -> p_next_ent pr' = p_next_ent pr -> p_cmdq pr' = p_cmdq pr ->
  p_app_cmds pr' = p_app_cmds pr -> HI pr extra -> HI pr' extra.
Proof. intros He Hn Hq Ha [H1 H2 H3 H4 H5]. constructor; rewrite ?He, ?Hn, ?Hq, ?Ha; assumption. Qed.

Lemma HI_core pr pr' extra : core pr' = core pr -> HI pr extra -> HI pr' extra.
Proof.
  intros H. apply HI_ext; [apply (core_ents _ _ H)|apply (core_next _ _ H)|apply (core_cmdq _ _ H)|apply (core_app _ _ H)].
Qed.

Lemma HI_drop pr extra : HI pr extra -> HI pr [].
Proof. intros [H1 H2 H3 H4 H5]. constructor; try assumption. eapply pend_ok_drop; exact H4. Qed.

Lemma HI_push_plain pr pr' extra k c :
  sid c = None ->
  p_ents pr' = p_ents pr -> p_next_ent pr' = p_next_ent pr -> p_app_cmds pr' = p_app_cmds pr ->
  p_cmdq pr' = <[k := default [] (p_cmdq pr !! k) ++ [c]]> (p_cmdq pr) ->
  HI pr extra -> HI pr' extra.
Proof.
  intros Hc He Hn Ha Hq [H1 H2 H3 H4 H5]. constructor; rewrite ?He, ?Hn, ?Hq, ?Ha; try assumption.
  apply pend_ok_push_plain; assumption.
Qed.

Lemma HI_push_alloc pr pr' extra k u :
  p_ents pr' = p_ents pr -> p_next_ent pr' = p_next_ent pr + 1 -> p_app_cmds pr' = p_app_cmds pr ->
  p_cmdq pr' = <[k := default [] (p_cmdq pr !! k) ++ [CSpawnSync (p_next_ent pr) u]]> (p_cmdq pr) ->
  HI pr extra -> HI pr' extra.
Proof.
  intros He Hn Ha Hq [H1 H2 H3 H4 H5]. constructor; rewrite ?He, ?Hn, ?Hq, ?Ha; try assumption.
  - intros e Hu. specialize (H2 e Hu). lia.
  - lia.
  - apply pend_ok_push_alloc; assumption.
Qed.

Lemma HI_take pr k cs :
  HI pr [] -> p_cmdq pr !! k = Some cs -> HI (pr <| p_cmdq := delete k (p_cmdq pr) |>) cs.
Proof.
  intros [H1 H2 H3 H4 H5] Hk. constructor; try assumption.
  change (pend_ok (usedv (V_of pr)) (p_next_ent pr) (delete k (p_cmdq pr)) cs).
  apply pend_ok_take; assumption.
Qed.

Lemma apply_cmd_HI pr c cs : HI pr (c :: cs) -> HI (apply_cmd pr c) cs.
Proof.
  intros [H1 H2 H3 H4 H5].
  pose proof (rest_inv _ _ (apply_cmd_rest pr c)) as (Ha & _ & _ & Hn & Hq).
  destruct (apply_cmd_wstep pr c) as [W1 W2].
  constructor; rewrite ?Hn, ?Hq, ?Ha; try assumption.
  - apply W1; [exact H1|]. intros e He. exact (proj2 (proj2 (pend_ok_head_id _ _ _ _ _ _ H4 He))).
  - intros e Hu. destruct (W2 e Hu) as [Hu'|He]; [apply H2; exact Hu'|].
    exact (proj1 (proj2 (pend_ok_head_id _ _ _ _ _ _ H4 He))).
  - eapply pend_ok_head; [exact W2|exact H4].
Qed.

Lemma apply_cmds_HI cs : forall pr, HI pr cs -> HI (apply_cmds pr cs) [].
Proof.
  induction cs as [|c cs IH]; intros pr H; simpl; [exact H|].
  destruct (p_panic pr); [eapply HI_drop; exact H|].
  apply IH. apply apply_cmd_HI. exact H.
Qed.

Lemma flush_HI pr : HI pr [] -> HI (flush pr) [].
Proof.
  intros H. rewrite flush_eq. unfold flush_with.
  apply (foldl_inv (fun a => HI a [])); [exact H|].
  intros a s _ Ha. cbv zeta.
  destruct (p_cmdq a !! sys_key s) as [cs|] eqn:E; [|exact Ha].
  apply apply_cmds_HI. apply HI_take; assumption.
Qed.

(* ================================================================================================ *)
(* 5. Systems                                                                                        *)
(* ================================================================================================ *)

Lemma HI_nou2e pr pr' extra : nou2e pr' = nou2e pr -> HI pr extra -> HI pr' extra.
Proof.
  intros H. apply nou2e_inv in H as (_ & He & Ha & _ & Hn & Hq). apply HI_ext; assumption.
Qed.

Lemma HI_push pr extra k c : sid c = None -> HI pr extra -> HI (push_cmd pr k c) extra.
Proof. intros Hc. apply (HI_push_plain pr _ extra k c Hc); reflexivity. Qed.

Lemma fix_system_HI pr k last trig wo comps : HI pr [] -> HI (fix_system pr k last trig wo comps) [].
Proof.
  intros H. unfold fix_system. apply (foldl_inv (fun a => HI a [])); [exact H|].
  intros a [e en] _ Ha. cbv beta iota.
  repeat case_match; try exact Ha. apply HI_push; [reflexivity|exact Ha].
Qed.

Lemma entity_created_HI server pr k last : HI pr [] -> HI (entity_created server pr k last) [].
Proof.
  intros H. rewrite entity_created_eq. apply (foldl_inv (fun a => HI a [])); [exact H|].
  intros a [e en] _ Ha. cbv beta iota. destruct (newly_marked last en); [|exact Ha].
  pose proof (fixed_inv _ _ (created_body_fixed server k a e)) as (_ & He & Hap & _ & Hn).
  apply (HI_push_plain a _ [] k (CInsertSync e e)); try assumption; [reflexivity|].
  apply created_body_cmdq_eq.
Qed.

Lemma client_connected_HI pr k : HI pr [] -> HI (client_connected pr k) [].
Proof.
  intros H. unfold client_connected. cbv zeta.
  apply (foldl_inv (fun a => HI a [])); [eapply HI_ext; [| | | |exact H]; reflexivity|].
  intros a [conn c] _ Ha. cbv beta iota.
  repeat case_match; try exact Ha.
  - eapply (HI_push_plain a _ [] k CRemoveClientTransport); [| | | | |exact Ha]; reflexivity.
  - eapply (HI_push_plain a _ [] k CRemoveServerTransport); [| | | | |exact Ha]; reflexivity.
Qed.

Lemma verify_HI pr k : HI pr [] -> HI (verify_client_connected pr k) [].
Proof.
  intros H. unfold verify_client_connected.
  destruct (n_status pr); try exact H. cbv zeta.
  destruct (negb _).
  - eapply (HI_push_plain pr _ [] k CRequestInitialSync); [| | | | |exact H]; reflexivity.
  - eapply HI_ext; [| | | |exact H]; reflexivity.
Qed.

Lemma HI_pop pr from rest_ : HI pr [] -> HI (pr <| n_inbox := <[from := rest_]> (n_inbox pr) |>) [].
Proof. apply HI_ext; reflexivity. Qed.

Lemma client_received_HI pr k m : HI pr [] -> HI (client_received pr k m) [].
Proof.
  intros H. destruct m; simpl; try exact H.
  - (* MSpawn *) case_match; [exact H|].
    eapply (HI_push_alloc pr _ [] k u); [| | | |exact H]; reflexivity.
  - (* MParented *) repeat case_match; try exact H. apply HI_push; [reflexivity|exact H].
  - (* MDelete *) repeat case_match; try exact H.
    eapply (HI_push_plain pr _ [] k (CDespawn _)); [| | | | |exact H]; reflexivity.
  - (* MComp *) case_match; [|exact H]. apply HI_push; [reflexivity|exact H].
  - apply HI_push; [reflexivity|exact H].
  - eapply HI_core; [apply request_asset_core|exact H].
  - apply HI_push; [reflexivity|exact H].
  - (* MNewHost *)
    apply HI_push; [reflexivity|].
    eapply (HI_push_plain pr _ [] k CRemoveClientTransport); [| | | | |exact H]; reflexivity.
  - eapply HI_ext; [| | | |exact H]; reflexivity.
Qed.

Lemma server_received_HI pr k from m : HI pr [] -> HI (server_received pr k from m) [].
Proof.
  intros H. destruct m; simpl; try exact H.
  - (* MSpawn *)
    eapply HI_core; [apply relay_except_core|].
    eapply (HI_push_alloc pr _ [] k u); [| | | |exact H]; reflexivity.
  - apply HI_push; [reflexivity|exact H].
  - (* MDelete *)
    eapply HI_core; [apply relay_except_core|].
    repeat case_match; try exact H.
    eapply (HI_push_plain pr _ [] k (CDespawn _)); [| | | | |exact H]; reflexivity.
  - case_match; [|exact H]. apply HI_push; [reflexivity|exact H].
  - apply HI_push; [reflexivity|exact H].
  - apply HI_push; [reflexivity|]. eapply HI_core; [apply request_asset_core|exact H].
  - (* MNewHost *)
    apply HI_push; [reflexivity|].
    eapply HI_core; [apply relay_except_core|].
    eapply HI_ext; [| | | |exact H]; reflexivity.
  - apply HI_push; [reflexivity|exact H].
Qed.

Lemma app_system_HI pr k n :
  HI pr [] ->
  HI (foldl (fun a x => push_cmd a k x.2)
            (pr <| p_app_cmds := filter (fun x : N * cmd => negb (x.1 =? n)) (p_app_cmds pr) |>)
            (filter (fun x : N * cmd => x.1 =? n) (p_app_cmds pr))) [].
Proof.
  intros H.
  apply (foldl_inv (fun a => HI a [])).
  - destruct H as [H1 H2 H3 H4 H5]. constructor; try assumption.
    intros x Hx. simpl in Hx. apply elem_of_list_filter in Hx as [_ Hx]. apply H5. exact Hx.
  - intros a x Hx Ha. apply HI_push; [|exact Ha].
    apply elem_of_list_filter in Hx as [_ Hx]. apply (hi_app _ _ H). exact Hx.
Qed.

Lemma sys_body_HI pr s o k last : HI pr [] -> HI (sys_body pr s o k last) [].
Proof.
  intros H.
  destruct s; simpl; try apply fix_system_HI; try exact H;
    try (eapply HI_core; [|exact H]; first [reflexivity|apply react_assets_core|apply process_assets_core]).
  - eapply HI_nou2e; [apply entity_removed_server_nou2e|exact H].
  - apply entity_created_HI. exact H.
  - eapply HI_core; [apply entity_parented_server_core|exact H].
  - eapply HI_core; [apply react_components_core|exact H].
  - eapply HI_core; [apply promote_reader_core|exact H].
  - apply client_connected_HI. exact H.
  - apply (server_poll_inv (fun a => HI a []) (fun _ => True)); [intros a _ ? ? ? _ _; exact I| | |exact H].
    + intros a from m rest_ Ha _. apply HI_pop. exact Ha.
    + intros a from m Ha _. apply server_received_HI. exact Ha.
  - apply verify_HI. exact H.
  - eapply HI_nou2e; [apply entity_removed_client_nou2e|exact H].
  - apply entity_created_HI. exact H.
  - eapply HI_core; [apply entity_parented_client_core|exact H].
  - eapply HI_core; [apply react_components_core|exact H].
  - destruct (n_cli_transport pr) as [[h t]|]; [|exact H].
    apply (client_poll_inv (fun a => HI a []) (fun _ => True)); [intros a _ ? ? ? _ _; exact I| | |exact H].
    + intros a from m rest_ Ha _. apply HI_pop. exact Ha.
    + intros a m Ha _. apply client_received_HI. exact Ha.
  - eapply HI_core; [apply sync_detect_core|exact H].
  - apply app_system_HI. exact H.
Qed.

Theorem frame_hier_inv pr o : hier_inv pr -> hier_inv (frame pr o).
Proof.
  unfold hier_inv. revert pr o. apply (frame_inv (fun pr => HI pr [])).
  - intros pr pr' Hc _. apply HI_core. exact Hc.
  - intros pr. apply HI_ext; reflexivity.
  - intros a h. apply HI_core. apply send_up_core.
  - intros pr H _. apply flush_HI. exact H.
  - intros pr s o k last. apply sys_body_HI.
Qed.

(* ================================================================================================ *)
(* 6. Preservation, operation by operation                                                            *)
(* ================================================================================================ *)

(* the only side condition: an operation that brings an id to life (OSpawn e, CSpawnSync e u) does
   it on an unused id.  Bevy never re-issues an Entity (index + generation) and never spawns over
   a live one; the model takes the id as an argument, so this is a premise here. *)
Theorem app_step_hier_ok pr op :
  hier_ok pr -> (forall e, op_sid op = Some e -> ~ id_used pr e) -> hier_ok (app_step pr op).
Proof.
  intros H Hf. apply hier_ok_hv. apply (proj1 (app_step_wstep pr op)); [apply hier_ok_hv; exact H|exact Hf].
Qed.

Theorem apply_cmd_hier_ok pr c :
  hier_ok pr -> (forall e, sid c = Some e -> ~ id_used pr e) -> hier_ok (apply_cmd pr c).
Proof.
  intros H Hf. apply hier_ok_hv. apply (proj1 (apply_cmd_wstep pr c)); [apply hier_ok_hv; exact H|exact Hf].
Qed.

(* no operation other than a spawn makes an id used *)
Theorem app_step_id_used pr op e :
  id_used (app_step pr op) e -> id_used pr e \/ op_sid op = Some e.
Proof. apply (proj2 (app_step_wstep pr op)). Qed.
Theorem apply_cmd_id_used pr c e :
  id_used (apply_cmd pr c) e -> id_used pr e \/ sid c = Some e.
Proof. apply (proj2 (apply_cmd_wstep pr c)). Qed.

(* decidable form of id_used *)
Definition ent_mentions (e : ent) (en : entity) : bool :=
  memN e (en_children en) || match parent_of en with Some q => q =? e | None => false end.
Definition id_usedb (pr : peer_state) (e : ent) : bool :=
  alive pr e || existsb (fun x : ent * entity => ent_mentions e x.2) (ents_list pr).

Lemma memN_elem x l : memN x l = true <-> x ∈ l.
Proof.
  unfold memN. rewrite existsb_exists. split.
  - intros (y & Hin & Heq). apply N.eqb_eq in Heq as ->. apply elem_of_list_In. exact Hin.
  - intros H. exists x. split; [apply elem_of_list_In; exact H|apply N.eqb_refl].
Qed.

Lemma ent_mentions_spec e en : ent_mentions e en = true <-> mentions (hproj en) e.
Proof.
  unfold ent_mentions, mentions, hproj. simpl. rewrite orb_true_iff, memN_elem.
  destruct (parent_of en) as [q|]; split; intros [H|H]; try (left; exact H); try discriminate.
  - right. apply N.eqb_eq in H as ->. reflexivity.
  - right. injection H as ->. apply N.eqb_refl.
Qed.

Lemma id_usedb_spec pr e : id_usedb pr e = true <-> id_used pr e.
Proof.
  unfold id_usedb, id_used, usedv. rewrite orb_true_iff, alive_hv, existsb_exists. split.
  - intros [H|([q en] & Hin & Hm)]; [left; exact H|right].
    apply elem_of_list_In in Hin. unfold ents_list in Hin. apply elem_of_map_to_list in Hin. simpl in Hm.
    exists q, (hproj en). split; [apply hv_lookup_Some; exists en; split; [exact Hin|reflexivity]|].
    apply ent_mentions_spec. exact Hm.
  - intros [H|(q & qn & Hq & Hm)]; [left; exact H|right].
    apply hv_lookup_Some in Hq as (en & Hq & ->). exists (q, en). split.
    + apply elem_of_list_In. unfold ents_list. apply elem_of_map_to_list. exact Hq.
    + apply ent_mentions_spec. exact Hm.
Qed.

Definition is_spawn_cmd (c : cmd) : bool := match c with CSpawnSync _ _ => true | _ => false end.

(* what a trace must respect: script entities get ids below SCRIPT_LIMIT that are unused on the peer
   at that moment, and application systems do not queue raw spawn commands *)
Definition op_hier_ok (pr : peer_state) (op : app_op) : bool :=
  match op with
  | OSpawn e _ _ => (e <? SCRIPT_LIMIT) && negb (id_usedb pr e)
  | OAppCmd _ c => negb (is_spawn_cmd c)
  | _ => true
  end.

Lemma app_step_rest_q pr op :
  p_next_ent (app_step pr op) = p_next_ent pr /\ p_cmdq (app_step pr op) = p_cmdq pr.
Proof.
  destruct op; simpl; try (split; reflexivity).
  - pose proof (rest_inv _ _ (upd_ent_rest pr e (fun en => en <| en_mark := Some (p_tick pr) |>))) as (_ & _ & _ & A & B). auto.
  - pose proof (rest_inv _ _ (upd_ent_rest pr e (put_comp (p_tick pr) t v))) as (_ & _ & _ & A & B). auto.
  - match goal with |- context [upd_ent pr e ?f] => pose proof (rest_inv _ _ (upd_ent_rest pr e f)) as (_ & _ & _ & A & B) end. auto.
  - destruct (alive pr c); [|split; reflexivity].
    pose proof (rest_inv _ _ (add_child_rest pr p c)) as (_ & _ & _ & A & B). auto.
  - destruct host; split; reflexivity.
Qed.

Lemma app_step_app_cmds pr op x :
  x ∈ p_app_cmds (app_step pr op) -> x ∈ p_app_cmds pr \/ exists n, op = OAppCmd n x.2.
Proof.
  destruct op; simpl; try (intros H; left; exact H).
  - rewrite (proj1 (rest_inv _ _ (upd_ent_rest pr e _))). auto.
  - rewrite (proj1 (rest_inv _ _ (upd_ent_rest pr e _))). auto.
  - rewrite (proj1 (rest_inv _ _ (upd_ent_rest pr e _))). auto.
  - destruct (alive pr c); [|auto]. rewrite (proj1 (rest_inv _ _ (add_child_rest pr p c))). auto.
  - intros H. apply elem_of_app in H as [H|H]; [left; exact H|].
    apply elem_of_list_singleton in H as ->. right. exists n. reflexivity.
  - destruct host; auto.
Qed.

Theorem app_step_hier_inv pr op :
  hier_inv pr -> op_hier_ok pr op = true -> hier_inv (app_step pr op).
Proof.
  intros [H1 H2 H3 H4 H5] Hop.
  destruct (app_step_rest_q pr op) as [Hn Hq].
  destruct (app_step_wstep pr op) as [W1 W2].
  assert (Hfresh : forall e, op_sid op = Some e -> e < SCRIPT_LIMIT /\ ~ usedv (V_of pr) e).
  { intros e He. destruct op; simpl in He; try discriminate. injection He as ->. simpl in Hop.
    apply andb_true_iff in Hop as [Hlt Hu]. apply N.ltb_lt in Hlt. split; [exact Hlt|].
    intros Hused. apply id_usedb_spec in Hused. rewrite Hused in Hu. discriminate. }
  constructor; rewrite ?Hn, ?Hq.
  - apply W1; [exact H1|]. intros e He. apply (Hfresh e He).
  - intros e Hu. destruct (W2 e Hu) as [Hu'|He]; [apply H2; exact Hu'|].
    destruct (Hfresh e He) as [Hlt _]. lia.
  - exact H3.
  - refine (pend_ok_transfer id _ _ _ _ _ _ _ _ _ _ _ _ H4); [lia| | |].
    + intros s e Hs. exact Hs.
    + intros s1 s2 e _ _ H. exact H.
    + intros s e Hs Hu. destruct (W2 e Hu) as [Hu'|He]; [exact Hu'|]. exfalso.
      destruct (Hfresh e He) as [Hlt _]. destruct (proj1 H4 s e Hs) as (Hge & _). lia.
  - intros x Hx. apply app_step_app_cmds in Hx as [Hx|[n ->]]; [apply H5; exact Hx|].
    simpl in Hop. destruct (x.2); simpl in *; try reflexivity. discriminate.
Qed.

Theorem flush_hier_inv pr : hier_inv pr -> hier_inv (flush pr).
Proof. apply flush_HI. Qed.

Theorem run_system_hier_inv pr s o : hier_inv pr -> hier_inv (run_system pr s o).
Proof.
  unfold hier_inv. revert pr s o. apply (run_system_inv (fun pr => HI pr [])).
  - intros pr pr' Hc _. apply HI_core. exact Hc.
  - intros pr H _. apply flush_HI. exact H.
  - apply run_body_inv.
    + intros pr pr' Hc _. apply HI_core. exact Hc.
    + intros pr s o k last. apply sys_body_HI.
Qed.

(* the property-level forms *)
Corollary frame_hier_ok pr o : hier_inv pr -> hier_ok (frame pr o).
Proof. intros H. apply hier_inv_ok, frame_hier_inv, H. Qed.
Corollary flush_hier_ok pr : hier_inv pr -> hier_ok (flush pr).
Proof. intros H. apply hier_inv_ok, flush_hier_inv, H. Qed.
Corollary run_system_hier_ok pr s o : hier_inv pr -> hier_ok (run_system pr s o).
Proof. intros H. apply hier_inv_ok, run_system_hier_inv, H. Qed.

Lemma hier_inv_init id sync_types registry order : hier_inv (init_peer id sync_types registry order).
Proof.
  assert (Hu : forall e, ~ usedv (V_of (init_peer id sync_types registry order)) e).
  { intros e [[n H]|(q & qn & H & _)]; simpl in H; unfold hv in H;
      rewrite fmap_empty, lookup_empty in H; discriminate. }
  constructor.
  - constructor.
    + intros c cn p pn H. simpl in H. unfold hv in H. rewrite fmap_empty, lookup_empty in H. discriminate.
    + intros q qn c cn H. simpl in H. unfold hv in H. rewrite fmap_empty, lookup_empty in H. discriminate.
    + intros q qn H. simpl in H. unfold hv in H. rewrite fmap_empty, lookup_empty in H. discriminate.
  - intros e H. destruct (Hu e H).
  - simpl. unfold SCRIPT_LIMIT. lia.
  - split.
    + intros s e (c & Hat & _). destruct s; simpl in Hat; [rewrite lookup_nil in Hat|rewrite lookup_empty in Hat]; discriminate.
    + intros s1 s2 e (c & Hat & _). destruct s1; simpl in Hat; [rewrite lookup_nil in Hat|rewrite lookup_empty in Hat]; discriminate.
  - intros x Hx. simpl in Hx. inversion Hx.
Qed.

Corollary hier_ok_init id sync_types registry order : hier_ok (init_peer id sync_types registry order).
Proof. apply hier_inv_ok, hier_inv_init. Qed.

(* ================================================================================================ *)
(* 7. Every reachable state of a global run                                                          *)
(* ================================================================================================ *)

Definition step_hier_ok (g : global) (s : step) : bool :=
  match s with
  | StApp p op => match g !! p with Some pr => op_hier_ok pr op | None => true end
  | _ => true
  end.
Fixpoint hier_conforming_from (g : global) (tr : list step) : bool :=
  match tr with
  | [] => true
  | s :: tr' => step_hier_ok g s && hier_conforming_from (gstep g s) tr'
  end.
(* restricts OSpawn (fresh script id) and OAppCmd (no raw spawn command) only: frames, oracles,
   orders, set-ups, interleavings, reorderings, every other application operation are arbitrary *)
Definition hier_conforming (n : nat) (tr : list step) : Prop :=
  hier_conforming_from (init_global n) tr = true.

Definition all_inv (g : gmap peer peer_state) : Prop := forall p pr, g !! p = Some pr -> hier_inv pr.

Lemma all_inv_insert (g : gmap peer peer_state) p pr : all_inv g -> hier_inv pr -> all_inv (<[p := pr]> g).
Proof.
  intros Hg Hpr q pq Hq. destruct (decide (q = p)) as [->|Hne].
  - rewrite lookup_insert in Hq. injection Hq as <-. exact Hpr.
  - rewrite lookup_insert_ne in Hq by congruence. eapply Hg; exact Hq.
Qed.

Lemma deliver_out_inv (g : global) src out : all_inv g -> all_inv (deliver_out g src out).
Proof.
  intros Hg. unfold deliver_out. apply (foldl_inv all_inv); [exact Hg|].
  intros a [dst m] _ Ha. destruct (_ !! dst) as [pd|] eqn:E; [|exact Ha].
  apply all_inv_insert; [exact Ha|]. unfold hier_inv. eapply HI_ext; [| | | |apply (Ha _ _ E)]; reflexivity.
Qed.

Lemma gstep_inv (g : global) s : all_inv g -> step_hier_ok g s = true -> all_inv (gstep g s).
Proof.
  intros Hg Hs. destruct s as [p op|p o|dst src i j]; simpl in *.
  - destruct (g !! p) as [pr|] eqn:E; [|exact Hg].
    apply all_inv_insert; [exact Hg|]. apply app_step_hier_inv; [apply (Hg _ _ E)|exact Hs].
  - destruct (g !! p) as [pr|] eqn:E; [|exact Hg].
    apply deliver_out_inv. apply all_inv_insert; [exact Hg|]. apply frame_hier_inv. apply (Hg _ _ E).
  - destruct (g !! dst) as [pd|] eqn:E; [|exact Hg].
    destruct (n_inbox pd !! src) as [l|]; [|exact Hg].
    apply all_inv_insert; [exact Hg|]. unfold hier_inv. eapply HI_ext; [| | | |apply (Hg _ _ E)]; reflexivity.
Qed.

Lemma grun_inv tr : forall g : global, all_inv g -> hier_conforming_from g tr = true -> all_inv (grun g tr).
Proof.
  induction tr as [|s tr IH]; intros g Hg Hc; simpl in *; [exact Hg|].
  apply andb_true_iff in Hc as [H1 H2]. apply IH; [|exact H2]. apply gstep_inv; assumption.
Qed.

Lemma init_global_inv n : all_inv (init_global n).
Proof.
  unfold init_global. apply (foldl_inv all_inv).
  - intros p pr H. exfalso. exact (lookup_empty_Some (M := gmap peer) p pr H).
  - intros a i _ Ha. cbv zeta. apply all_inv_insert; [exact Ha|apply hier_inv_init].
Qed.

Theorem grun_hier_inv n tr :
  hier_conforming n tr -> forall p pr, grun (init_global n) tr !! p = Some pr -> hier_inv pr.
Proof. intros Hc. apply grun_inv; [apply init_global_inv|exact Hc]. Qed.

Theorem grun_hier_ok n tr :
  hier_conforming n tr -> forall p pr, grun (init_global n) tr !! p = Some pr -> hier_ok pr.
Proof. intros Hc p pr H. apply hier_inv_ok. eapply grun_hier_inv; eassumption. Qed.

(* ---------- the premise in its history form: script ids are never reused ---------------------------- *)

(* a frame makes no script id (below SCRIPT_LIMIT) used: only replica ids come to life in a frame *)
Section ScriptIds.
  Variable Q : peer_state -> Prop.
  Hypothesis Q_ents : forall a a', p_ents a' = p_ents a -> Q a -> Q a'.
  Hypothesis Q_step : forall a c, Q a -> (forall e, id_used (apply_cmd a c) e -> id_used a e \/ (SCRIPT_LIMIT <= e)) -> Q (apply_cmd a c).

  Let J (a : peer_state) (extra : list cmd) : Prop := HI a extra /\ Q a.

  Lemma apply_cmds_J cs : forall a, J a cs -> J (apply_cmds a cs) [].
  Proof.
    induction cs as [|c cs IH]; intros a [H HQ]; simpl; [split; assumption|].
    destruct (p_panic a); [split; [eapply HI_drop; exact H|exact HQ]|].
    apply IH. split; [apply apply_cmd_HI; exact H|].
    apply Q_step; [exact HQ|]. intros e Hu.
    destruct (apply_cmd_id_used a c e Hu) as [Hu'|He]; [left; exact Hu'|right].
    exact (proj1 (pend_ok_head_id _ _ _ _ _ _ (hi_pend _ _ H) He)).
  Qed.

  Lemma flush_J a : J a [] -> J (flush a) [].
  Proof.
    intros H. rewrite flush_eq. unfold flush_with.
    apply (foldl_inv (fun a => J a [])); [exact H|].
    intros b s _ [Hb HQ]. cbv zeta.
    destruct (p_cmdq b !! sys_key s) as [cs|] eqn:E; [|split; assumption].
    apply apply_cmds_J. split; [apply HI_take; assumption|]. eapply Q_ents; [|exact HQ]. reflexivity.
  Qed.

  Lemma frame_J a o : J a [] -> J (frame a o) [].
  Proof.
    revert a o. apply (frame_inv (fun a => J a [])).
    - intros a a' Hc _ [H HQ]. split; [eapply HI_core; eassumption|]. eapply Q_ents; [apply (core_ents _ _ Hc)|exact HQ].
    - intros a [H HQ]. split; [eapply HI_ext; [| | | |exact H]; reflexivity|]. eapply Q_ents; [|exact HQ]. reflexivity.
    - intros a h [H HQ]. split; [eapply HI_core; [apply send_up_core|exact H]|].
      eapply Q_ents; [apply (core_ents _ _ (send_up_core a (MNewHost h)))|exact HQ].
    - intros a Ha _. apply flush_J. exact Ha.
    - intros a s o k last [H HQ]. split; [apply sys_body_HI; exact H|].
      eapply Q_ents; [apply (proj2 (pe_inv _ _ (sys_body_pe a s o k last)))|exact HQ].
  Qed.
End ScriptIds.

Theorem frame_script_ids pr o e :
  hier_inv pr -> id_used (frame pr o) e -> e < SCRIPT_LIMIT -> id_used pr e.
Proof.
  intros H Hu Hlt.
  pose (Q := fun a : peer_state => forall e, id_used a e -> e < SCRIPT_LIMIT -> id_used pr e).
  assert (HJ : HI (frame pr o) [] /\ Q (frame pr o)).
  { apply (frame_J Q).
    - intros a a' He HQ x Hx. apply HQ. unfold id_used in *. rewrite <- He. exact Hx.
    - intros a c HQ Hs x Hx Hxl. destruct (Hs x Hx) as [Hx'|Hge]; [apply HQ; assumption|lia].
    - split; [exact H|]. intros x Hx _. exact Hx. }
  apply (proj2 HJ e Hu Hlt).
Qed.

Definition op_fresh (used : list ent) (op : app_op) : bool :=
  match op with
  | OSpawn e _ _ => (e <? SCRIPT_LIMIT) && negb (memN e used)
  | OAppCmd _ c => negb (is_spawn_cmd c)
  | _ => true
  end.
Definition used_after (used : list ent) (s : step) : list ent :=
  match s with StApp _ (OSpawn e _ _) => e :: used | _ => used end.
(* used = the script ids handed out so far, on any peer (as in the no-panic theorem's `conforming`) *)
Fixpoint never_reused_from (g : global) (used : list ent) (tr : list step) : bool :=
  match tr with
  | [] => true
  | s :: tr' =>
      match s with
      | StApp p op => match g !! p with Some _ => op_fresh used op | None => true end
      | _ => true
      end && never_reused_from (gstep g s) (used_after used s) tr'
  end.
Definition never_reused (n : nat) (tr : list step) : Prop := never_reused_from (init_global n) [] tr = true.

Definition script_ids_in (used : list ent) (g : gmap peer peer_state) : Prop :=
  forall p pr e, g !! p = Some pr -> id_used pr e -> e < SCRIPT_LIMIT -> e ∈ used.

Lemma script_ids_insert used (g : gmap peer peer_state) p pr :
  script_ids_in used g -> (forall e, id_used pr e -> e < SCRIPT_LIMIT -> e ∈ used) ->
  script_ids_in used (<[p := pr]> g).
Proof.
  intros Hg Hpr q pq e Hq. destruct (decide (q = p)) as [->|Hne].
  - rewrite lookup_insert in Hq. injection Hq as <-. apply Hpr.
  - rewrite lookup_insert_ne in Hq by congruence. eapply Hg; exact Hq.
Qed.

Lemma deliver_out_script used (g : global) src out : script_ids_in used g -> script_ids_in used (deliver_out g src out).
Proof.
  intros Hg. unfold deliver_out. apply (foldl_inv (script_ids_in used)); [exact Hg|].
  intros a [dst m] _ Ha. destruct (_ !! dst) as [pd|] eqn:E; [|exact Ha].
  apply script_ids_insert; [exact Ha|]. intros e He. apply (Ha _ _ e E). exact He.
Qed.

Lemma never_reused_hier_conforming tr : forall (g : global) used,
  all_inv g -> script_ids_in used g ->
  never_reused_from g used tr = true -> hier_conforming_from g tr = true.
Proof.
  induction tr as [|s tr IH]; intros g used Hg Hu Hc; simpl in *; [reflexivity|].
  apply andb_true_iff in Hc as [H1 H2].
  assert (Hs : step_hier_ok g s = true).
  { destruct s as [p op|p o|dst src i j]; simpl; try reflexivity.
    destruct (g !! p) as [pr|] eqn:E; [|reflexivity].
    destruct op; simpl in *; try reflexivity; [|exact H1].
    apply andb_true_iff in H1 as [Hlt Hm]. rewrite Hlt. simpl.
    destruct (id_usedb pr e) eqn:Eu; [|reflexivity]. exfalso.
    apply id_usedb_spec in Eu. apply N.ltb_lt in Hlt.
    pose proof (Hu p pr e E Eu Hlt) as Hin. apply memN_elem in Hin. rewrite Hin in Hm. discriminate. }
  rewrite Hs. simpl. apply (IH _ (used_after used s)); [apply gstep_inv; assumption| |exact H2].
  destruct s as [p op|p o|dst src i j]; simpl.
  - destruct (g !! p) as [pr|] eqn:E; [|destruct op; try exact Hu; intros q pq x Hq Hx Hxl; right; eapply Hu; eassumption].
    assert (Hmono : forall x, x ∈ used -> x ∈ used_after used (StApp p op)).
    { intros x Hx. destruct op; simpl; try exact Hx. right. exact Hx. }
    apply script_ids_insert.
    + intros q pq x Hq Hx Hxl. apply Hmono. eapply Hu; eassumption.
    + intros x Hx Hxl. destruct (app_step_id_used pr op x Hx) as [Hx'|Hop].
      * apply Hmono. eapply Hu; eassumption.
      * destruct op; simpl in Hop; try discriminate. injection Hop as ->. left.
  - destruct (g !! p) as [pr|] eqn:E; [|exact Hu].
    apply deliver_out_script. apply script_ids_insert; [exact Hu|].
    intros x Hx Hxl. apply (Hu p pr x E); [|exact Hxl].
    eapply frame_script_ids; [apply (Hg _ _ E)|exact Hx|exact Hxl].
  - destruct (g !! dst) as [pd|] eqn:E; [|exact Hu].
    destruct (n_inbox pd !! src) as [l|]; [|exact Hu].
    apply script_ids_insert; [exact Hu|]. intros x Hx. apply (Hu dst pd x E). exact Hx.
Qed.

(* "script ids below SCRIPT_LIMIT are never reused (on any peer) and application systems queue no raw
   spawn" implies the state-based premise *)
Theorem never_reused_conforming n tr : never_reused n tr -> hier_conforming n tr.
Proof.
  intros H. apply (never_reused_hier_conforming tr (init_global n) []); [apply init_global_inv| |exact H].
  intros p pr e Hp Hu _. exfalso.
  pose proof (init_global_inv n p pr Hp) as Hi.
  assert (Hpe : p_ents pr = ∅).
  { revert Hp. unfold init_global.
    apply (foldl_inv (fun g : gmap peer peer_state => g !! p = Some pr -> p_ents pr = ∅)).
    - intros Hp. exfalso. exact (lookup_empty_Some (M := gmap peer) p pr Hp).
    - intros a i _ Ha Hp. cbv beta zeta in Hp. unfold global in Hp. destruct (decide (p = N.of_nat i)) as [->|Hne].
      + rewrite lookup_insert in Hp. injection Hp as <-. reflexivity.
      + rewrite lookup_insert_ne in Hp by congruence. apply Ha. exact Hp. }
  unfold id_used, usedv, hv in Hu. rewrite Hpe, fmap_empty in Hu.
  destruct Hu as [[x Hx]|(q & qn & Hq & _)]; rewrite lookup_empty in *; discriminate.
Qed.

Corollary grun_hier_ok_never_reused n tr :
  never_reused n tr -> forall p pr, grun (init_global n) tr !! p = Some pr -> hier_ok pr.
Proof. intros H. apply grun_hier_ok. apply never_reused_conforming. exact H. Qed.

(* ================================================================================================ *)
(* 8. The property: a re-parented child is listed exactly once, under its new parent only            *)
(* ================================================================================================ *)

Definition listed_once (pr : peer_state) (c p : ent) : Prop :=
  (exists cen t, p_ents pr !! c = Some cen /\ en_parent cen = Some (p, t)) /\
  (exists pen, p_ents pr !! p = Some pen /\ count_occ N.eq_dec (en_children pen) c = 1%nat) /\
  (forall q qen, p_ents pr !! q = Some qen -> q <> p -> c ∉ en_children qen).

Lemma hier_ok_listed_once pr c p cen t :
  hier_ok pr -> p_ents pr !! c = Some cen -> en_parent cen = Some (p, t) -> is_Some (p_ents pr !! p) ->
  listed_once pr c p.
Proof.
  intros [Ha Hb Hc] Hc1 Hp [pen Hp1]. split; [|split].
  - exists cen, t. split; assumption.
  - exists pen. split; [exact Hp1|].
    apply (proj1 (NoDup_count_occ' N.eq_dec (en_children pen))); [apply NoDup_ListNoDup; eapply Hc; exact Hp1|].
    apply elem_of_list_In. eapply Ha; eassumption.
  - intros q qen Hq Hne Hin. destruct (Hb q qen c cen Hq Hin Hc1) as [t' Ht']. congruence.
Qed.

Definition parent_in (pr : peer_state) (c p : ent) : Prop :=
  exists n, V_of pr !! c = Some n /\ n.1 = Some p.

Lemma parent_in_ents pr c p :
  parent_in pr c p -> exists cen t, p_ents pr !! c = Some cen /\ en_parent cen = Some (p, t).
Proof.
  intros (n & Hn & Hp). apply hv_lookup_Some in Hn as (cen & Hc & ->). simpl in Hp.
  apply parent_of_Some in Hp as [t Ht]. exists cen, t. split; assumption.
Qed.

Lemma add_child_parent_in pr p c :
  alive pr c = true -> alive pr p = true -> p <> c -> parent_in (add_child pr p c) c p.
Proof.
  intros Hc Hp Hpc. rewrite add_child_eq, Hp. simpl.
  destruct (N.eqb_spec p c) as [->|_]; [contradiction|].
  pose proof (add_child_ok_reparented pr p c Hpc c) as H.
  apply alive_hv in Hc as [n Hn]. rewrite Hn in H. simpl in H.
  eexists. split; [exact H|]. unfold reparent_node. simpl. rewrite decide_True by reflexivity. reflexivity.
Qed.

Lemma set_parent_twice_parent_in pr c p :
  alive pr c = true -> alive pr p = true -> p <> c -> parent_in (set_parent_twice pr c p) c p.
Proof.
  intros Hc Hp Hpc. unfold set_parent_twice.
  destruct (p_panic (add_child pr p c)); [apply add_child_parent_in; assumption|].
  apply add_child_parent_in; [rewrite add_child_alive'; exact Hc|rewrite add_child_alive'; exact Hp|exact Hpc].
Qed.

Lemma set_parent_twice_alive pr c p x : alive (set_parent_twice pr c p) x = alive pr x.
Proof.
  unfold set_parent_twice. destruct (p_panic (add_child pr p c)); [apply add_child_alive'|].
  rewrite !add_child_alive'. reflexivity.
Qed.

Lemma parent_differs_false pr c p : parent_differs pr c p = false -> parent_in pr c p.
Proof.
  unfold parent_differs. intros H.
  destruct (p_ents pr !! c) as [en|] eqn:E; [|discriminate].
  exists (hproj en). split; [rewrite hv_lookup, E; reflexivity|].
  simpl. unfold parent_of. destruct (en_parent en) as [[q t]|]; [|discriminate]. simpl.
  apply negb_false_iff, N.eqb_eq in H as ->. reflexivity.
Qed.

(* the three ways a link is set: by the application, by the client receiver, by the host receiver *)
Inductive reparent_op (pr : peer_state) (c p : ent) : peer_state -> Prop :=
| ro_app : reparent_op pr c p (app_step pr (OSetParent c p))
| ro_cli cu pu : reparent_op pr c p (apply_cmd pr (CSetParentCli c p cu pu))
| ro_srv from cu pu :
    t_u2e pr !! cu = Some c -> t_u2e pr !! pu = Some p ->
    reparent_op pr c p (apply_cmd pr (CSetParentSrv from cu pu)).

Lemma reparent_op_result pr c p pr' :
  alive pr c = true -> alive pr p = true -> c <> p -> reparent_op pr c p pr' ->
  parent_in pr' c p /\ alive pr' p = true.
Proof.
  intros Hc Hp Hcp Hop. assert (Hpc : p <> c) by congruence.
  assert (Hrec : parent_in (if parent_differs pr c p then set_parent_twice pr c p else pr) c p /\
                 alive (if parent_differs pr c p then set_parent_twice pr c p else pr) p = true).
  { destruct (parent_differs pr c p) eqn:Ed.
    - split; [apply set_parent_twice_parent_in; assumption|rewrite set_parent_twice_alive; exact Hp].
    - split; [apply parent_differs_false; exact Ed|exact Hp]. }
  destruct Hop as [|cu pu|from cu pu Hcu Hpu]; simpl.
  - rewrite Hc. split; [apply add_child_parent_in; assumption|rewrite add_child_alive'; exact Hp].
  - rewrite Hp, Hc. simpl. destruct (parent_differs pr c p); exact Hrec.
  - rewrite Hcu, Hpu, Hp, Hc. simpl.
    assert (He : forall sp : peer_state,
               p_ents (match p_panic sp with Some _ => sp | None => relay_except sp from (MParented cu pu) end)
               = p_ents sp).
    { intros sp. apply (core_ents _ _ (relay_ok_core sp from (MParented cu pu))). }
    unfold parent_in, alive. rewrite He. destruct (parent_differs pr c p); exact Hrec.
Qed.

(* after ANY re-parenting of a live c under a live p <> c, from a hier_ok state: the state is hier_ok,
   Parent(c) = p, c occurs exactly once in Children(p) and in no other live entity's Children *)
Theorem reparent_listed_once pr c p pr' :
  hier_ok pr -> alive pr c = true -> alive pr p = true -> c <> p ->
  reparent_op pr c p pr' ->
  hier_ok pr' /\ listed_once pr' c p.
Proof.
  intros H Hc Hp Hcp Hop.
  assert (H' : hier_ok pr').
  { destruct Hop; [apply app_step_hier_ok|apply apply_cmd_hier_ok|apply apply_cmd_hier_ok];
      try exact H; intros e He; discriminate. }
  split; [exact H'|].
  destruct (reparent_op_result pr c p pr' Hc Hp Hcp Hop) as [Hpar Hal].
  apply parent_in_ents in Hpar as (cen & t & Hc1 & Hpt).
  eapply hier_ok_listed_once; try eassumption.
  unfold alive in Hal. destruct (p_ents pr' !! p) as [pen|]; [eexists; reflexivity|discriminate].
Qed.

(* the same at any later time: in every hier_ok state a live child of a live parent is listed once *)
Corollary child_listed_once pr c p cen t :
  hier_ok pr -> p_ents pr !! c = Some cen -> en_parent cen = Some (p, t) -> alive pr p = true ->
  listed_once pr c p.
Proof.
  intros H Hc Hp Hal. eapply hier_ok_listed_once; try eassumption.
  unfold alive in Hal. destruct (p_ents pr !! p) as [pen|]; [eexists; reflexivity|discriminate].
Qed.

(* ================================================================================================ *)
(* 9. A decision procedure for hier_ok                                                               *)
(* ================================================================================================ *)

Definition ent_okb (pr : peer_state) (x : ent * entity) : bool :=
  match en_parent x.2 with
  | Some (p, _) => match p_ents pr !! p with Some pen => memN x.1 (en_children pen) | None => true end
  | None => true
  end &&
  forallb (fun c => match p_ents pr !! c with
                    | Some cen => match en_parent cen with Some (q, _) => q =? x.1 | None => false end
                    | None => true
                    end) (en_children x.2) &&
  bool_decide (NoDup (en_children x.2)).
Definition hier_okb (pr : peer_state) : bool := forallb (ent_okb pr) (ents_list pr).

Lemma hier_okb_spec pr : hier_okb pr = true <-> hier_ok pr.
Proof.
  unfold hier_okb. rewrite forallb_forall. split.
  - intros H.
    assert (H' : forall e en, p_ents pr !! e = Some en -> ent_okb pr (e, en) = true).
    { intros e en Hl. apply H. apply elem_of_list_In. unfold ents_list. apply elem_of_map_to_list. exact Hl. }
    constructor.
    + intros c cen p t pen Hc Hp Hp1. specialize (H' c cen Hc). unfold ent_okb in H'. simpl in H'.
      rewrite Hp, Hp1 in H'. apply andb_true_iff in H' as [H' _]. apply andb_true_iff in H' as [H' _].
      apply memN_elem. exact H'.
    + intros q qen c cen Hq Hin Hc. specialize (H' q qen Hq). unfold ent_okb in H'. simpl in H'.
      apply andb_true_iff in H' as [H' _]. apply andb_true_iff in H' as [_ H'].
      rewrite forallb_forall in H'. specialize (H' c (proj1 (elem_of_list_In _ _) Hin)).
      rewrite Hc in H'. destruct (en_parent cen) as [[q' t]|]; [|discriminate].
      apply N.eqb_eq in H' as ->. exists t. reflexivity.
    + intros q qen Hq. specialize (H' q qen Hq). unfold ent_okb in H'. simpl in H'.
      apply andb_true_iff in H' as [_ H']. apply bool_decide_eq_true in H'. exact H'.
  - intros [Ha Hb Hc] [e en] Hin.
    apply elem_of_list_In in Hin. unfold ents_list in Hin. apply elem_of_map_to_list in Hin.
    unfold ent_okb. simpl. rewrite !andb_true_iff. split; [split|].
    + destruct (en_parent en) as [[p t]|] eqn:Ep; [|reflexivity].
      destruct (p_ents pr !! p) as [pen|] eqn:E1; [|reflexivity].
      apply memN_elem. eapply Ha; eassumption.
    + apply forallb_forall. intros c Hc'. apply elem_of_list_In in Hc'.
      destruct (p_ents pr !! c) as [cen|] eqn:E2; [|reflexivity].
      destruct (Hb e en c cen Hin Hc' E2) as [t Ht]. rewrite Ht. apply N.eqb_refl.
    + apply bool_decide_eq_true. eapply Hc. exact Hin.
Qed.

(* ================================================================================================ *)
(* 10. Examples: the hypotheses are satisfiable on non-trivial states; the premises are necessary     *)
(* ================================================================================================ *)

Definition shape (pr : peer_state) : list (ent * option ent * list ent) :=
  (fun '(e, en) => (e, parent_of en, en_children en)) <$> entities pr.

(* a three-level hierarchy 1 > 2 > 3 and a second root 4, built by the application *)
Definition ex_ops : list app_op :=
  [OSpawn 1 false []; OSpawn 2 false [(T_A, VN 7)]; OSpawn 3 true []; OSpawn 4 false [];
   OSetParent 2 1; OSetParent 3 2].
Definition ex0 : peer_state := foldl app_step (init_peer 0 [] [] []) ex_ops.

Example ex0_shape : shape ex0 = [(1, None, [2]); (3, Some 2, []); (2, Some 1, [3]); (4, None, [])].
Proof. vm_compute. reflexivity. Qed.
Example ex0_hier_ok : hier_ok ex0.
Proof. apply hier_okb_spec. vm_compute. reflexivity. Qed.

(* ... also by the theorems: every operation meets its side condition *)
Fixpoint ops_okb (pr : peer_state) (ops : list app_op) : bool :=
  match ops with [] => true | op :: ops' => op_hier_ok pr op && ops_okb (app_step pr op) ops' end.
Lemma ops_hier_inv ops : forall pr, hier_inv pr -> ops_okb pr ops = true -> hier_inv (foldl app_step pr ops).
Proof.
  induction ops as [|op ops IH]; intros pr H Hok; simpl in *; [exact H|].
  apply andb_true_iff in Hok as [H1 H2]. apply IH; [|exact H2]. apply app_step_hier_inv; assumption.
Qed.
Example ex0_hier_inv : hier_inv ex0.
Proof. apply ops_hier_inv; [apply hier_inv_init|vm_compute; reflexivity]. Qed.

(* re-parenting 3 from A = 2 to B = 4 and back to A *)
Definition ex1 : peer_state := app_step ex0 (OSetParent 3 4).
Definition ex2 : peer_state := app_step ex1 (OSetParent 3 2).
Example ex1_shape : shape ex1 = [(1, None, [2]); (3, Some 4, []); (2, Some 1, []); (4, None, [3])].
Proof. vm_compute. reflexivity. Qed.
Example ex2_shape : shape ex2 = [(1, None, [2]); (3, Some 2, []); (2, Some 1, [3]); (4, None, [])].
Proof. vm_compute. reflexivity. Qed.
Example ex1_ex2_hier_okb : hier_okb ex1 = true /\ hier_okb ex2 = true.
Proof. vm_compute. split; reflexivity. Qed.
(* the theorem's hypotheses hold at both steps, and it yields the property *)
Example ex1_listed_once : hier_ok ex1 /\ listed_once ex1 3 4.
Proof.
  apply (reparent_listed_once ex0 3 4 ex1 ex0_hier_ok); [reflexivity|reflexivity|discriminate|apply ro_app].
Qed.
Example ex2_listed_once : hier_ok ex2 /\ listed_once ex2 3 2.
Proof.
  apply (reparent_listed_once ex1 3 2 ex2 (proj1 ex1_listed_once)); [reflexivity|reflexivity|discriminate|apply ro_app].
Qed.
(* the same links arriving from the network, on a client (ids stand for replicas) and on a host *)
Example ex_cli_listed_once :
  let pr' := apply_cmd (apply_cmd ex0 (CSetParentCli 3 4 33 44)) (CSetParentCli 3 2 33 22) in
  shape pr' = shape ex0 /\ hier_ok pr' /\ listed_once pr' 3 2.
Proof.
  cbv zeta. split; [vm_compute; reflexivity|].
  apply (reparent_listed_once (apply_cmd ex0 (CSetParentCli 3 4 33 44)) 3 2); [|reflexivity|reflexivity|discriminate|apply ro_cli].
  apply (reparent_listed_once ex0 3 4 _ ex0_hier_ok); [reflexivity|reflexivity|discriminate|apply ro_cli].
Qed.
Example ex_srv_listed_once :
  let pr0 := ex0 <| t_u2e := {[33 := 3; 44 := 4]} |> <| n_clients := [1; 2] |> in
  let pr' := apply_cmd pr0 (CSetParentSrv 1 33 44) in
  shape pr' = shape ex1 /\ p_out pr' = [(2, MParented 33 44)] /\ hier_ok pr' /\ listed_once pr' 3 4.
Proof.
  cbv zeta. split; [vm_compute; reflexivity|]. split; [vm_compute; reflexivity|].
  apply (reparent_listed_once (ex0 <| t_u2e := {[33 := 3; 44 := 4]} |> <| n_clients := [1; 2] |>) 3 4).
  - apply hier_okb_spec. vm_compute. reflexivity.
  - reflexivity.
  - reflexivity.
  - discriminate.
  - apply ro_srv; vm_compute; reflexivity.
Qed.

(* stale entries: a plain despawn of the middle entity 2 leaves it in Children(1) and leaves
   Parent(3) = 2; the invariant tolerates both *)
Example ex_stale :
  shape (app_step ex0 (ODespawn 2)) = [(1, None, [2]); (3, Some 2, []); (4, None, [])] /\
  hier_ok (app_step ex0 (ODespawn 2)).
Proof. split; [vm_compute; reflexivity|apply hier_okb_spec; vm_compute; reflexivity]. Qed.

(* ... but only as long as the id 2 is not handed out again: the freshness premise is necessary.
   (A modelling premise: Bevy never re-issues an Entity, the model's OSpawn takes the id as input.) *)
Example app_step_hier_ok_reuse_refuted :
  exists pr op, hier_ok pr /\ ~ hier_ok (app_step pr op).
Proof.
  exists (app_step ex0 (ODespawn 2)), (OSpawn 2 false []). split; [apply ex_stale|].
  intros H. apply hier_okb_spec in H. vm_compute in H. discriminate.
Qed.
Example app_step_hier_ok_respawn_live_refuted :
  exists pr op, hier_ok pr /\ ~ hier_ok (app_step pr op).
Proof.
  exists ex0, (OSpawn 2 false []). split; [apply ex0_hier_ok|].
  intros H. apply hier_okb_spec in H. vm_compute in H. discriminate.
Qed.

(* hier_ok alone is not inductive over frames: an (unreachable) state whose command queue holds a
   spawn of a live id.  This is why frame_hier_inv is stated for hier_inv. *)
Example frame_hier_ok_literal_refuted :
  exists pr o, hier_ok pr /\ ~ hier_ok (frame pr o).
Proof.
  exists (ex0 <| p_order := [SSync] |> <| p_cmdq := {[sys_key SSync := [CSpawnSync 2 9]]} |>),
         (Build_frame_oracle [] [] None [] 0 []).
  split; [apply hier_okb_spec; vm_compute; reflexivity|].
  intros H. apply hier_okb_spec in H. vm_compute in H. discriminate.
Qed.

(* a session: host 0 builds the hierarchy 1 > 2 > 3 (and 4), client 1 replicates it; 3 moves under
   4 and back under 2, on the host and (through the network) on the client *)
Definition host_order : list sysid :=
  [SSrvConnected; SSrvRemoved; SSrvCreated; SDetect T_A; SSrvParented; SSrvReact; SApp 7; SSrvPoll; SSync].
Definition cli_order : list sysid :=
  [SCliConnecting; SCliVerify; SCliRemoved; SCliCreated; SDetect T_A; SCliParented; SCliReact; SCliPoll; SSync].
Definition fh (poll : list peer) : frame_oracle := Build_frame_oracle [] [1] None poll 0 [].
Definition fc (n : nat) : frame_oracle := Build_frame_oracle [] [] (Some RConnected) [] n [].
Definition E0 : N := 4294967296.

Definition session : list step :=
  [StApp 0 (OSetup true 0); StApp 1 (OSetup false 0);
   StApp 0 (OSetOrder host_order); StApp 1 (OSetOrder cli_order);
   StFrame 0 (fh []); StFrame 0 (fh []);
   StFrame 1 (fc 0); StFrame 1 (fc 0); StFrame 1 (fc 0);
   StApp 0 (OSpawn 1 true []); StApp 0 (OSpawn 2 true []); StApp 0 (OSpawn 3 true []); StApp 0 (OSpawn 4 true []);
   StFrame 0 (fh [1]); StFrame 0 (fh []);
   StApp 0 (OSetParent 2 1); StApp 0 (OSetParent 3 2);
   StFrame 0 (fh []);
   StFrame 1 (fc 20); StFrame 1 (fc 20)].
Definition move_to_B : list step := [StApp 0 (OSetParent 3 4); StFrame 0 (fh []); StFrame 1 (fc 20)].
Definition move_to_A : list step := [StApp 0 (OSetParent 3 2); StFrame 0 (fh []); StFrame 1 (fc 20)].
(* the client moves its replica of 2 under its replica of 4; the host applies and the link comes back *)
Definition client_move : list step :=
  [StApp 1 (OSetParent (E0 + 2) (E0 + 3)); StFrame 1 (fc 0); StFrame 0 (fh [1; 1]); StFrame 1 (fc 20)].
Definition whole : list step := session ++ move_to_B ++ move_to_A ++ client_move.

Example whole_conforming : hier_conforming 2 whole.
Proof. vm_compute. reflexivity. Qed.

(* replicas on the client: E0 ~ 1, E0+2 ~ 2, E0+1 ~ 3, E0+3 ~ 4 *)
Example session_replicated :
  shape <$> (grun (init_global 2) session !! 1)
  = Some [(E0 + 3, None, []); (E0 + 1, Some (E0 + 2), []); (E0, None, [E0 + 2]); (E0 + 2, Some E0, [E0 + 1])].
Proof. vm_compute. reflexivity. Qed.
Example move_to_B_replicated :
  shape <$> (grun (init_global 2) (session ++ move_to_B) !! 1)
  = Some [(E0 + 3, None, [E0 + 1]); (E0 + 1, Some (E0 + 3), []); (E0, None, [E0 + 2]); (E0 + 2, Some E0, [])].
Proof. vm_compute. reflexivity. Qed.
Example move_to_A_replicated :
  shape <$> (grun (init_global 2) (session ++ move_to_B ++ move_to_A) !! 1)
  = Some [(E0 + 3, None, []); (E0 + 1, Some (E0 + 2), []); (E0, None, [E0 + 2]); (E0 + 2, Some E0, [E0 + 1])].
Proof. vm_compute. reflexivity. Qed.
Example whole_final :
  shape <$> (grun (init_global 2) whole !! 0)
  = Some [(1, None, []); (3, Some 2, []); (2, Some 4, [3]); (4, None, [2])] /\
  shape <$> (grun (init_global 2) whole !! 1)
  = Some [(E0 + 3, None, [E0 + 2]); (E0 + 1, Some (E0 + 2), []); (E0, None, []); (E0 + 2, Some (E0 + 3), [E0 + 1])].
Proof. vm_compute. split; reflexivity. Qed.
(* ... as the theorem predicts, at every prefix and on both peers *)
Example whole_by_theorem k p pr : grun (init_global 2) (take k whole) !! p = Some pr -> hier_ok pr.
Proof.
  apply grun_hier_ok. unfold hier_conforming.
  assert (H : forall tr (g : global) k, hier_conforming_from g tr = true -> hier_conforming_from g (take k tr) = true).
  { induction tr as [|s tr IH]; intros g k' Hc; destruct k'; simpl in *; try reflexivity.
    apply andb_true_iff in Hc as [H1 H2]. rewrite H1. simpl. apply IH. exact H2. }
  apply H. exact whole_conforming.
Qed.

(* the premise on OAppCmd is necessary too: an application system queueing a raw spawn of a live id *)
Example grun_hier_ok_app_spawn_refuted :
  exists n tr p pr, grun (init_global n) tr !! p = Some pr /\ ~ hier_ok pr.
Proof.
  exists 2%nat, (session ++ [StApp 0 (OAppCmd 7 (CSpawnSync 2 9)); StFrame 0 (fh [])]), 0.
  destruct (grun (init_global 2) (session ++ [StApp 0 (OAppCmd 7 (CSpawnSync 2 9)); StFrame 0 (fh [])]) !! 0)
    as [pr|] eqn:E; [|vm_compute in E; discriminate].
  exists pr. split; [exact E|]. intros H. apply hier_okb_spec in H.
  assert (Hb : hier_okb <$> (grun (init_global 2) (session ++ [StApp 0 (OAppCmd 7 (CSpawnSync 2 9)); StFrame 0 (fh [])]) !! 0)
               = Some false) by (vm_compute; reflexivity).
  rewrite E in Hb. simpl in Hb. congruence.
Qed.

(* the history form of the premise holds of the same trace *)
Example whole_never_reused : never_reused 2 whole.
Proof. vm_compute. reflexivity. Qed.

(* panicked states: neither invariant looks at p_panic, and a panicked peer is frozen; every panic site
   fires before anything is written (add_child on a dead parent / on itself, insert on a dead entity) *)
Lemma hier_inv_panic_blind pr x : hier_inv pr -> hier_inv (pr <| p_panic := x |>).
Proof. apply HI_ext; reflexivity. Qed.
Example ex_panicked :
  let pr := app_step ex0 (OSetParent 3 3) in
  p_panic pr = Some PSetParentSelf /\ shape pr = shape ex0 /\ hier_inv pr /\
  forall o, frame pr o = pr.
Proof.
  cbv zeta. split; [vm_compute; reflexivity|]. split; [vm_compute; reflexivity|]. split.
  - apply app_step_hier_inv; [apply ex0_hier_inv|reflexivity].
  - intros o. apply (frame_panicked _ o PSetParentSelf). vm_compute. reflexivity.
Qed.

Print Assumptions app_step_hier_ok.
Print Assumptions apply_cmd_hier_ok.
Print Assumptions app_step_hier_inv.
Print Assumptions frame_hier_inv.
Print Assumptions grun_hier_ok.
Print Assumptions grun_hier_ok_never_reused.
Print Assumptions reparent_listed_once.
Print Assumptions hier_okb_spec.
Print Assumptions whole_by_theorem.
