(* Local lemmas for property C08 (no panic): projections of the model's primitives, exact panic
   conditions of add_child / apply_cmd / app_step, and generic preservation lemmas for the
   systems of a frame.  Used by Panic.v. *)
From stdpp Require Import gmap list.
From Coq Require Import NArith Lia.
From RecordUpdate Require Import RecordSet.
From BS Require Import Sync.Types Sync.Model Sync.Observe.
Import RecordSetNotations.
Local Open Scope N_scope.

(* ---------- generic ------------------------------------------------------------------------ *)

Lemma foldl_inv {A B} (P : A -> Prop) (f : A -> B -> A) (l : list B) (a : A) :
  P a -> (forall a x, x ∈ l -> P a -> P (f a x)) -> P (foldl f a l).
Proof.
  revert a. induction l as [|x l IH]; intros a Ha Hf; simpl; [exact Ha|].
  apply IH.
  - apply Hf; [left|exact Ha].
  - intros a' y Hy Ha'. apply Hf; [right; exact Hy|exact Ha'].
Qed.

Lemma elem_of_concat {A} (x : A) (ls : list (list A)) :
  x ∈ concat ls -> exists l, x ∈ l /\ l ∈ ls.
Proof.
  induction ls as [|l ls IH]; simpl; intros H; [inversion H|].
  apply elem_of_app in H as [H|H].
  - exists l. split; [exact H|left].
  - destruct (IH H) as [l' [H1 H2]]. exists l'. split; [exact H1|right; exact H2].
Qed.

(* ---------- views of a peer state ---------------------------------------------------------- *)

(* fields no deferred command ever writes *)
Definition rest (pr : peer_state) :=
  (p_app_cmds pr, t_u2e pr, n_inbox pr, p_next_ent pr, p_cmdq pr).
(* everything the panic analysis looks at, except the outbox *)
Definition core (pr : peer_state) := (p_panic pr, p_ents pr, rest pr).

Lemma rest_inv pr pr' : rest pr' = rest pr ->
  p_app_cmds pr' = p_app_cmds pr /\ t_u2e pr' = t_u2e pr /\ n_inbox pr' = n_inbox pr /\
  p_next_ent pr' = p_next_ent pr /\ p_cmdq pr' = p_cmdq pr.
Proof.
  unfold rest. intros H.
  repeat split.
  - exact (f_equal (fun x => x.1.1.1.1) H).
  - exact (f_equal (fun x => x.1.1.1.2) H).
  - exact (f_equal (fun x => x.1.1.2) H).
  - exact (f_equal (fun x => x.1.2) H).
  - exact (f_equal (fun x => x.2) H).
Qed.

Lemma core_inv pr pr' : core pr' = core pr ->
  p_panic pr' = p_panic pr /\ p_ents pr' = p_ents pr /\ rest pr' = rest pr.
Proof.
  unfold core. intros H.
  repeat split.
  - exact (f_equal (fun x => x.1.1) H).
  - exact (f_equal (fun x => x.1.2) H).
  - exact (f_equal (fun x => x.2) H).
Qed.

Lemma core_intro pr pr' :
  p_panic pr' = p_panic pr -> p_ents pr' = p_ents pr -> rest pr' = rest pr -> core pr' = core pr.
Proof. unfold core. intros -> -> ->. reflexivity. Qed.

Definition cmdq_all (P : cmd -> Prop) (pr : peer_state) : Prop :=
  forall k cs c, p_cmdq pr !! k = Some cs -> c ∈ cs -> P c.
Definition app_all (P : cmd -> Prop) (pr : peer_state) : Prop :=
  forall x, x ∈ p_app_cmds pr -> P x.2.
Definition inbox_all (M : msg -> Prop) (pr : peer_state) : Prop :=
  forall s l m, n_inbox pr !! s = Some l -> m ∈ l -> M m.
Definition out_all (M : msg -> Prop) (pr : peer_state) : Prop :=
  forall d m, (d, m) ∈ p_out pr -> M m.
Definition ents_all (Q : ent -> entity -> Prop) (pr : peer_state) : Prop :=
  forall e en, p_ents pr !! e = Some en -> Q e en.

Lemma cmdq_all_ext P pr pr' : p_cmdq pr' = p_cmdq pr -> cmdq_all P pr -> cmdq_all P pr'.
Proof. unfold cmdq_all. intros ->. auto. Qed.
Lemma app_all_ext P pr pr' : p_app_cmds pr' = p_app_cmds pr -> app_all P pr -> app_all P pr'.
Proof. unfold app_all. intros ->. auto. Qed.
Lemma inbox_all_ext M pr pr' : n_inbox pr' = n_inbox pr -> inbox_all M pr -> inbox_all M pr'.
Proof. unfold inbox_all. intros ->. auto. Qed.
Lemma out_all_ext M pr pr' : p_out pr' = p_out pr -> out_all M pr -> out_all M pr'.
Proof. unfold out_all. intros ->. auto. Qed.
Lemma ents_all_ext (Q : ent -> entity -> Prop) pr pr' : p_ents pr' = p_ents pr -> ents_all Q pr -> ents_all Q pr'.
Proof. unfold ents_all. intros ->. auto. Qed.

(* ---------- primitives --------------------------------------------------------------------- *)

Lemma send_core pr d m : core (send pr d m) = core pr.
Proof. reflexivity. Qed.
Lemma send_all_core pr ds m : core (send_all pr ds m) = core pr.
Proof.
  unfold send_all. apply (foldl_inv (fun a => core a = core pr)); [reflexivity|].
  intros a x _ Ha. rewrite send_core. exact Ha.
Qed.
Lemma broadcast_core pr m : core (broadcast pr m) = core pr.
Proof. apply send_all_core. Qed.
Lemma relay_except_core pr from m : core (relay_except pr from m) = core pr.
Proof. apply send_all_core. Qed.
Lemma send_up_core pr m : core (send_up pr m) = core pr.
Proof. unfold send_up. destruct (n_cli_transport pr) as [[h t]|]; reflexivity. Qed.

Lemma send_out_all M pr d m : out_all M pr -> M m -> out_all M (send pr d m).
Proof.
  intros H Hm d' m' Hin. unfold send in Hin. simpl in Hin.
  apply elem_of_app in Hin as [Hin|Hin]; [eapply H; exact Hin|].
  apply elem_of_list_singleton in Hin. injection Hin as _ ->. exact Hm.
Qed.
Lemma send_all_out_all M pr ds m : out_all M pr -> M m -> out_all M (send_all pr ds m).
Proof.
  intros H Hm. unfold send_all. apply (foldl_inv (out_all M)); [exact H|].
  intros a x _ Ha. apply send_out_all; assumption.
Qed.
Lemma broadcast_out_all M pr m : out_all M pr -> M m -> out_all M (broadcast pr m).
Proof. apply send_all_out_all. Qed.
Lemma relay_except_out_all M pr from m : out_all M pr -> M m -> out_all M (relay_except pr from m).
Proof. apply send_all_out_all. Qed.
Lemma send_up_out_all M pr m : out_all M pr -> M m -> out_all M (send_up pr m).
Proof.
  intros H Hm. unfold send_up. destruct (n_cli_transport pr) as [[h t]|]; [|exact H].
  apply send_out_all; assumption.
Qed.

Lemma push_cmd_panic pr k c : p_panic (push_cmd pr k c) = p_panic pr.
Proof. reflexivity. Qed.
Lemma push_cmd_ents pr k c : p_ents (push_cmd pr k c) = p_ents pr.
Proof. reflexivity. Qed.
Lemma push_cmd_out pr k c : p_out (push_cmd pr k c) = p_out pr.
Proof. reflexivity. Qed.
Lemma push_cmd_all P pr k c : cmdq_all P pr -> P c -> cmdq_all P (push_cmd pr k c).
Proof.
  intros H Hc k' cs c' Hl Hin. unfold push_cmd in Hl. simpl in Hl.
  destruct (decide (k' = k)) as [->|Hne].
  - rewrite lookup_insert in Hl. injection Hl as <-. apply elem_of_app in Hin as [Hin|Hin].
    + destruct (p_cmdq pr !! k) as [cs0|] eqn:E; simpl in Hin.
      * eapply H; [exact E|exact Hin].
      * inversion Hin.
    + apply elem_of_list_singleton in Hin as ->. exact Hc.
  - rewrite lookup_insert_ne in Hl by congruence. eapply H; [exact Hl|exact Hin].
Qed.

Definition cmdq_all_ (P : cmd -> Prop) (q : gmap N (list cmd)) : Prop :=
  forall k cs c, q !! k = Some cs -> c ∈ cs -> P c.
Lemma cmdq_all_intro P pr q : p_cmdq pr = q -> cmdq_all_ P q -> cmdq_all P pr.
Proof. intros <- H. exact H. Qed.
Lemma cmdq_push_ P q k c :
  cmdq_all_ P q -> P c -> cmdq_all_ P (<[k := default [] (q !! k) ++ [c]]> q).
Proof.
  intros H Hc k' cs c' Hl Hin.
  destruct (decide (k' = k)) as [->|Hne].
  - rewrite lookup_insert in Hl. injection Hl as <-. apply elem_of_app in Hin as [Hin|Hin].
    + destruct (q !! k) as [cs0|] eqn:E; simpl in Hin.
      * eapply H; [exact E|exact Hin].
      * inversion Hin.
    + apply elem_of_list_singleton in Hin as ->. exact Hc.
  - rewrite lookup_insert_ne in Hl by congruence. eapply H; [exact Hl|exact Hin].
Qed.

Lemma upd_ent_panic pr e f : p_panic (upd_ent pr e f) = p_panic pr.
Proof. unfold upd_ent. destruct (p_ents pr !! e); reflexivity. Qed.
Lemma upd_ent_rest pr e f : rest (upd_ent pr e f) = rest pr.
Proof. unfold upd_ent. destruct (p_ents pr !! e); reflexivity. Qed.
Lemma upd_ent_out pr e f : p_out (upd_ent pr e f) = p_out pr.
Proof. unfold upd_ent. destruct (p_ents pr !! e); reflexivity. Qed.
Lemma upd_ent_tick pr e f : p_tick (upd_ent pr e f) = p_tick pr.
Proof. unfold upd_ent. destruct (p_ents pr !! e); reflexivity. Qed.
Lemma upd_ent_alive pr e f x : alive (upd_ent pr e f) x = alive pr x.
Proof.
  unfold upd_ent, alive. destruct (p_ents pr !! e) as [en|] eqn:E; [|reflexivity].
  simpl. destruct (decide (x = e)) as [->|Hne].
  - rewrite lookup_insert, E. reflexivity.
  - rewrite lookup_insert_ne by congruence. reflexivity.
Qed.
Lemma upd_ent_ents_all (Q : ent -> entity -> Prop) pr e f :
  (forall en, Q e en -> Q e (f en)) -> ents_all Q pr -> ents_all Q (upd_ent pr e f).
Proof.
  intros Hf H. unfold upd_ent. destruct (p_ents pr !! e) as [en|] eqn:E; [|exact H].
  intros x en' Hl. simpl in Hl. destruct (decide (x = e)) as [->|Hne].
  - rewrite lookup_insert in Hl. injection Hl as <-. apply Hf. apply H. exact E.
  - rewrite lookup_insert_ne in Hl by congruence. apply H. exact Hl.
Qed.

Lemma set_panic_rest pr s : rest (set_panic pr s) = rest pr.
Proof. unfold set_panic. destruct (p_panic pr); reflexivity. Qed.
Lemma set_panic_ents pr s : p_ents (set_panic pr s) = p_ents pr.
Proof. unfold set_panic. destruct (p_panic pr); reflexivity. Qed.
Lemma set_panic_out pr s : p_out (set_panic pr s) = p_out pr.
Proof. unfold set_panic. destruct (p_panic pr); reflexivity. Qed.
Lemma set_panic_none pr s : p_panic pr = None -> p_panic (set_panic pr s) = Some s.
Proof. unfold set_panic. intros ->. reflexivity. Qed.

(* ---------- hierarchy: exact panic conditions ------------------------------------------------ *)

Definition add_child_outcome (pr : peer_state) (p c : ent) : option panic_site :=
  if negb (alive pr p) then Some PEntityMutDead
  else if p =? c then Some PSetParentSelf else None.

(* the non-panicking path of add_child, with the child's previous parent passed in *)
Definition add_child_ok (pr : peer_state) (p c : ent) (previous : option ent) : peer_state :=
  let pr1 := upd_ent pr c (fun en => en <| en_parent := Some (p, p_tick pr) |>) in
  let pr2 := match previous with
             | Some q => if q =? p then pr1
                         else upd_ent pr1 q (fun en => en <| en_children := removeN c (en_children en) |>)
             | None => pr1
             end in
  upd_ent pr2 p (fun en => en <| en_children := removeN c (en_children en) ++ [c] |>).

Definition prev_parent (pr : peer_state) (c : ent) : option ent :=
  match p_ents pr !! c with Some en => fst <$> en_parent en | None => None end.

Lemma add_child_eq pr p c :
  add_child pr p c =
  if negb (alive pr p) then set_panic pr PEntityMutDead
  else if p =? c then set_panic pr PSetParentSelf
  else add_child_ok pr p c (prev_parent pr c).
Proof. reflexivity. Qed.

Lemma add_child_ok_panic pr p c prev : p_panic (add_child_ok pr p c prev) = p_panic pr.
Proof.
  unfold add_child_ok. cbv zeta. rewrite upd_ent_panic.
  destruct prev as [q|]; [destruct (q =? p); [|rewrite upd_ent_panic]|]; apply upd_ent_panic.
Qed.
Lemma add_child_ok_rest pr p c prev : rest (add_child_ok pr p c prev) = rest pr.
Proof.
  unfold add_child_ok. cbv zeta. rewrite upd_ent_rest.
  destruct prev as [q|]; [destruct (q =? p); [|rewrite upd_ent_rest]|]; apply upd_ent_rest.
Qed.
Lemma add_child_ok_out pr p c prev : p_out (add_child_ok pr p c prev) = p_out pr.
Proof.
  unfold add_child_ok. cbv zeta. rewrite upd_ent_out.
  destruct prev as [q|]; [destruct (q =? p); [|rewrite upd_ent_out]|]; apply upd_ent_out.
Qed.
Lemma add_child_ok_alive pr p c prev x : alive (add_child_ok pr p c prev) x = alive pr x.
Proof.
  unfold add_child_ok. cbv zeta. rewrite upd_ent_alive.
  destruct prev as [q|]; [destruct (q =? p); [|rewrite upd_ent_alive]|]; apply upd_ent_alive.
Qed.

(* a predicate on entities that add_child cannot break: it may look at anything but the
   Parent / Children components *)
Definition hier_blind (Q : ent -> entity -> Prop) : Prop :=
  forall e en p cs, Q e en -> Q e (en <| en_parent := p |>) /\ Q e (en <| en_children := cs |>).

Lemma add_child_ok_ents_all (Q : ent -> entity -> Prop) pr p c prev :
  hier_blind Q -> ents_all Q pr -> ents_all Q (add_child_ok pr p c prev).
Proof.
  intros HQ H. unfold add_child_ok. cbv zeta.
  apply upd_ent_ents_all; [intros en Hen; apply (HQ p en None _ Hen)|].
  assert (H1 : ents_all Q (upd_ent pr c (fun en => en <| en_parent := Some (p, p_tick pr) |>))).
  { apply upd_ent_ents_all; [intros en Hen; apply (HQ c en _ [] Hen)|exact H]. }
  destruct prev as [q|]; [|exact H1].
  destruct (q =? p); [exact H1|].
  apply upd_ent_ents_all; [intros en Hen; apply (HQ q en None _ Hen)|exact H1].
Qed.

Lemma add_child_panic pr p c :
  p_panic pr = None -> p_panic (add_child pr p c) = add_child_outcome pr p c.
Proof.
  intros Hn. rewrite add_child_eq. unfold add_child_outcome.
  destruct (negb (alive pr p)); [apply set_panic_none; exact Hn|].
  destruct (p =? c); [apply set_panic_none; exact Hn|].
  rewrite add_child_ok_panic. exact Hn.
Qed.

Lemma add_child_rest pr p c : rest (add_child pr p c) = rest pr.
Proof.
  rewrite add_child_eq.
  destruct (negb (alive pr p)); [apply set_panic_rest|].
  destruct (p =? c); [apply set_panic_rest|]. apply add_child_ok_rest.
Qed.

Lemma add_child_out pr p c : p_out (add_child pr p c) = p_out pr.
Proof.
  rewrite add_child_eq.
  destruct (negb (alive pr p)); [apply set_panic_out|].
  destruct (p =? c); [apply set_panic_out|]. apply add_child_ok_out.
Qed.

Lemma add_child_alive pr p c x :
  p_panic pr = None -> p_panic (add_child pr p c) = None -> alive (add_child pr p c) x = alive pr x.
Proof.
  intros Hn. rewrite add_child_eq.
  destruct (negb (alive pr p)); [rewrite set_panic_none by exact Hn; discriminate|].
  destruct (p =? c); [rewrite set_panic_none by exact Hn; discriminate|].
  intros _. apply add_child_ok_alive.
Qed.

Lemma add_child_ents_all (Q : ent -> entity -> Prop) pr p c :
  hier_blind Q -> ents_all Q pr -> ents_all Q (add_child pr p c).
Proof.
  intros HQ H. rewrite add_child_eq.
  destruct (negb (alive pr p)); [eapply ents_all_ext; [apply set_panic_ents|exact H]|].
  destruct (p =? c); [eapply ents_all_ext; [apply set_panic_ents|exact H]|].
  apply add_child_ok_ents_all; assumption.
Qed.

Definition set_parent_outcome (p c : ent) : option panic_site :=
  if p =? c then Some PSetParentSelf else None.

Lemma set_parent_twice_panic pr c p :
  p_panic pr = None -> alive pr p = true ->
  p_panic (set_parent_twice pr c p) = set_parent_outcome p c.
Proof.
  intros Hn Hp. unfold set_parent_twice, set_parent_outcome.
  pose proof (add_child_panic pr p c Hn) as H1. unfold add_child_outcome in H1.
  rewrite Hp in H1. simpl in H1.
  destruct (p =? c) eqn:Epc.
  - rewrite H1. exact H1.
  - rewrite H1. rewrite add_child_panic by exact H1. unfold add_child_outcome.
    rewrite add_child_alive by assumption. rewrite Hp, Epc. reflexivity.
Qed.

Lemma set_parent_twice_rest pr c p : rest (set_parent_twice pr c p) = rest pr.
Proof.
  unfold set_parent_twice. destruct (p_panic (add_child pr p c)).
  - apply add_child_rest.
  - rewrite add_child_rest. apply add_child_rest.
Qed.
Lemma set_parent_twice_out pr c p : p_out (set_parent_twice pr c p) = p_out pr.
Proof.
  unfold set_parent_twice. destruct (p_panic (add_child pr p c)).
  - apply add_child_out.
  - rewrite add_child_out. apply add_child_out.
Qed.
Lemma set_parent_twice_ents_all (Q : ent -> entity -> Prop) pr c p :
  hier_blind Q -> ents_all Q pr -> ents_all Q (set_parent_twice pr c p).
Proof.
  intros HQ H. unfold set_parent_twice. destruct (p_panic (add_child pr p c)).
  - apply add_child_ents_all; assumption.
  - apply add_child_ents_all; [exact HQ|]. apply add_child_ents_all; assumption.
Qed.

(* ---------- apply_component_change, snapshot ------------------------------------------------ *)

Lemma acc_panic pr e t v : p_panic (apply_component_change pr e t v).1 = p_panic pr.
Proof.
  unfold apply_component_change.
  repeat case_match; simpl; try reflexivity; rewrite upd_ent_panic; reflexivity.
Qed.
Lemma acc_rest pr e t v : rest (apply_component_change pr e t v).1 = rest pr.
Proof.
  unfold apply_component_change.
  repeat case_match; simpl; try reflexivity; rewrite upd_ent_rest; reflexivity.
Qed.
Lemma acc_out pr e t v : p_out (apply_component_change pr e t v).1 = p_out pr.
Proof.
  unfold apply_component_change.
  repeat case_match; simpl; try reflexivity; rewrite upd_ent_out; reflexivity.
Qed.
Lemma acc_ents_all (Q : ent -> entity -> Prop) pr e t v :
  (forall x en now t' v', Q x en -> Q x (put_comp now t' v' en)) ->
  ents_all Q pr -> ents_all Q (apply_component_change pr e t v).1.
Proof.
  intros HQ H. unfold apply_component_change.
  repeat case_match; simpl; try exact H;
    (apply upd_ent_ents_all; [intros en' Hen'; apply HQ; exact Hen'|exact H]).
Qed.

Lemma serve_all_core pr c : core (serve_all pr c).1 = core pr.
Proof. unfold serve_all. destruct (class_enabled pr (KClass c)); reflexivity. Qed.
Lemma serve_all_out pr c : p_out (serve_all pr c).1 = p_out pr.
Proof. unfold serve_all. destruct (class_enabled pr (KClass c)); reflexivity. Qed.

Lemma build_full_sync_core pr : core (build_full_sync pr).1 = core pr.
Proof.
  unfold build_full_sync.
  destruct (serve_all pr AImage) as [pr1 mi] eqn:E1.
  destruct (serve_all pr1 AMesh) as [pr2 me] eqn:E2.
  destruct (serve_all pr2 AAudio) as [pr3 ma] eqn:E3.
  simpl.
  rewrite <- (serve_all_core pr AImage), E1. simpl.
  rewrite <- (serve_all_core pr1 AMesh), E2. simpl.
  rewrite <- (serve_all_core pr2 AAudio), E3. reflexivity.
Qed.
Lemma build_full_sync_out pr : p_out (build_full_sync pr).1 = p_out pr.
Proof.
  unfold build_full_sync.
  destruct (serve_all pr AImage) as [pr1 mi] eqn:E1.
  destruct (serve_all pr1 AMesh) as [pr2 me] eqn:E2.
  destruct (serve_all pr2 AAudio) as [pr3 ma] eqn:E3.
  simpl.
  rewrite <- (serve_all_out pr AImage), E1. simpl.
  rewrite <- (serve_all_out pr1 AMesh), E2. simpl.
  rewrite <- (serve_all_out pr2 AAudio), E3. reflexivity.
Qed.

Definition not_parented (m : msg) : Prop := match m with MParented _ _ => False | _ => True end.
Definition no_parent (_ : ent) (en : entity) : Prop := en_parent en = None.

Lemma serve_all_msgs pr c m : m ∈ (serve_all pr c).2 -> not_parented m.
Proof.
  unfold serve_all. destruct (class_enabled pr (KClass c)); simpl; [|intros H; inversion H].
  intros H. apply elem_of_list_fmap in H as [[a v] [-> _]]. exact I.
Qed.

(* the snapshot contains a parent link only if some live entity has a Parent *)
Lemma build_full_sync_msgs pr m :
  ents_all no_parent pr -> m ∈ (build_full_sync pr).2 -> not_parented m.
Proof.
  intros Hnp. unfold build_full_sync.
  destruct (serve_all pr AImage) as [pr1 mi] eqn:E1.
  destruct (serve_all pr1 AMesh) as [pr2 me] eqn:E2.
  destruct (serve_all pr2 AAudio) as [pr3 ma] eqn:E3.
  simpl. intros Hin.
  repeat (apply elem_of_app in Hin as [Hin|Hin]).
  - apply elem_of_concat in Hin as [l [Hm Hl]].
    apply elem_of_list_fmap in Hl as [[e en] [-> _]].
    unfold snapshot_entity_msgs in Hm.
    destruct (en_sync en); [|inversion Hm]. destruct (t_e2u pr !! e); [|inversion Hm].
    apply elem_of_cons in Hm as [->|Hm]; [exact I|].
    apply elem_of_list_omap in Hm as [[t c] [_ Hm]].
    destruct (memN t (p_sync_types pr) && negb (memN t (en_excl en))); [|discriminate].
    injection Hm as <-. destruct (c_val c); exact I.
  - apply elem_of_concat in Hin as [l [Hm Hl]].
    apply elem_of_list_fmap in Hl as [[e en] [-> Hl]].
    unfold ents_list in Hl. apply elem_of_map_to_list in Hl. specialize (Hnp e en Hl). unfold no_parent in Hnp.
    unfold snapshot_parent_msgs in Hm. rewrite Hnp in Hm.
    destruct (en_sync en); inversion Hm.
  - apply (serve_all_msgs pr AImage). rewrite E1. exact Hin.
  - unfold snapshot_material_msgs in Hin. destruct (t_mat pr1); [|inversion Hin].
    apply elem_of_list_fmap in Hin as [[a v] [-> _]]. exact I.
  - apply (serve_all_msgs pr1 AMesh). rewrite E2. exact Hin.
  - apply (serve_all_msgs pr2 AAudio). rewrite E3. exact Hin.
Qed.

Lemma insert_asset_core pr k a v : core (insert_asset pr k a v) = core pr.
Proof. reflexivity. Qed.
Lemma request_asset_core pr c a o : core (request_asset pr c a o) = core pr.
Proof. unfold request_asset. destruct (is_some _); reflexivity. Qed.
Lemma request_asset_out pr c a o : p_out (request_asset pr c a o) = p_out pr.
Proof. unfold request_asset. destruct (is_some _); reflexivity. Qed.

(* projections of core equalities *)
Lemma core_panic pr pr' : core pr' = core pr -> p_panic pr' = p_panic pr.
Proof. intros H. apply core_inv in H. tauto. Qed.
Lemma core_ents pr pr' : core pr' = core pr -> p_ents pr' = p_ents pr.
Proof. intros H. apply core_inv in H. tauto. Qed.
Lemma core_rest pr pr' : core pr' = core pr -> rest pr' = rest pr.
Proof. intros H. apply core_inv in H. tauto. Qed.
Lemma core_cmdq pr pr' : core pr' = core pr -> p_cmdq pr' = p_cmdq pr.
Proof. intros H. apply core_rest, rest_inv in H. tauto. Qed.
Lemma core_app pr pr' : core pr' = core pr -> p_app_cmds pr' = p_app_cmds pr.
Proof. intros H. apply core_rest, rest_inv in H. tauto. Qed.
Lemma core_u2e pr pr' : core pr' = core pr -> t_u2e pr' = t_u2e pr.
Proof. intros H. apply core_rest, rest_inv in H. tauto. Qed.
Lemma core_inbox pr pr' : core pr' = core pr -> n_inbox pr' = n_inbox pr.
Proof. intros H. apply core_rest, rest_inv in H. tauto. Qed.
Lemma core_next pr pr' : core pr' = core pr -> p_next_ent pr' = p_next_ent pr.
Proof. intros H. apply core_rest, rest_inv in H. tauto. Qed.
Lemma core_trans pr1 pr2 pr3 : core pr3 = core pr2 -> core pr2 = core pr1 -> core pr3 = core pr1.
Proof. congruence. Qed.

Lemma foldl_core {B} (f : peer_state -> B -> peer_state) l pr :
  (forall a x, core (f a x) = core a) -> core (foldl f pr l) = core pr.
Proof.
  intros Hf. apply (foldl_inv (fun a => core a = core pr)); [reflexivity|].
  intros a x _ Ha. rewrite Hf. exact Ha.
Qed.

(* ---------- deferred commands ----------------------------------------------------------------- *)

(* when, exactly, applying a command panics *)
Definition cmd_panics (pr : peer_state) (c : cmd) : option panic_site :=
  match c with
  | CSetParentSrv _ cu pu =>
      match t_u2e pr !! cu, t_u2e pr !! pu with
      | Some c, Some p =>
          if alive pr p && alive pr c && parent_differs pr c p then set_parent_outcome p c else None
      | _, _ => None
      end
  | CSetParentCli c p =>
      if alive pr p && alive pr c && parent_differs pr c p then set_parent_outcome p c else None
  | CAppInsert e _ _ => if alive pr e then None else Some PInsertDead
  | _ => None
  end.

Lemma apply_cmd_panic pr c : p_panic pr = None -> p_panic (apply_cmd pr c) = cmd_panics pr c.
Proof.
  intros Hn. destruct c; simpl.
  - exact Hn.
  - exact Hn.
  - rewrite upd_ent_panic. exact Hn.
  - destruct (apply_component_change pr e t v) as [pr' ch] eqn:E.
    pose proof (acc_panic pr e t v) as H. rewrite E in H. simpl in H.
    destruct from as [c|]; [destruct ch|]; rewrite ?(core_panic _ _ (relay_except_core _ _ _));
      congruence.
  - destruct (t_u2e pr !! c) as [ce|]; [|exact Hn].
    destruct (t_u2e pr !! p) as [pe|]; [|exact Hn].
    destruct (alive pr pe) eqn:Ep; simpl; [|exact Hn].
    destruct (alive pr ce) eqn:Ec; simpl; [|exact Hn].
    destruct (parent_differs pr ce pe).
    + pose proof (set_parent_twice_panic pr ce pe Hn Ep) as H.
      destruct (p_panic (set_parent_twice pr ce pe)) eqn:E; [congruence|].
      rewrite (core_panic _ _ (relay_except_core _ _ _)). congruence.
    + rewrite Hn. rewrite (core_panic _ _ (relay_except_core _ _ _)). exact Hn.
  - destruct (alive pr p) eqn:Ep; simpl; [|exact Hn].
    destruct (alive pr c) eqn:Ec; simpl; [|exact Hn].
    destruct (parent_differs pr c p); [|exact Hn].
    apply set_parent_twice_panic; assumption.
  - destruct from as [c|]; [rewrite (core_panic _ _ (relay_except_core _ _ _))|]; exact Hn.
  - rewrite (core_panic _ _ (relay_except_core _ _ _)). exact Hn.
  - destruct (build_full_sync pr) as [pr1 ms] eqn:E.
    pose proof (core_panic _ _ (build_full_sync_core pr)) as H. rewrite E in H. simpl in H.
    change (p_panic (foldl (fun pr0 m => send pr0 to m) pr1 ms) = None).
    rewrite (core_panic _ _ (foldl_core _ ms pr1 (fun a x => send_core a to x))). congruence.
  - destruct (build_full_sync pr) as [pr1 ms] eqn:E.
    pose proof (core_panic _ _ (build_full_sync_core pr)) as H. rewrite E in H. simpl in H.
    rewrite (core_panic _ _ (send_up_core _ _)). congruence.
  - apply (foldl_inv (fun a => p_panic a = None)); [exact Hn|].
    intros a x _ Ha. rewrite upd_ent_panic. exact Ha.
  - exact Hn.
  - destruct set_flag; exact Hn.
  - exact Hn.
  - exact Hn.
  - destruct (filter _ _) as [|[e en] l]; exact Hn.
  - exact Hn.
  - destruct (alive pr e); simpl; [rewrite upd_ent_panic; exact Hn|apply set_panic_none; exact Hn].
Qed.

Lemma foldl_rest {B} (f : peer_state -> B -> peer_state) l pr :
  (forall a x, rest (f a x) = rest a) -> rest (foldl f pr l) = rest pr.
Proof.
  intros Hf. apply (foldl_inv (fun a => rest a = rest pr)); [reflexivity|].
  intros a x _ Ha. rewrite Hf. exact Ha.
Qed.

(* no deferred command touches the command queues, the tracker's uuid map, the inboxes or the
   entity allocator *)
Lemma apply_cmd_rest pr c : rest (apply_cmd pr c) = rest pr.
Proof.
  destruct c; simpl; try reflexivity.
  - apply upd_ent_rest.
  - destruct (apply_component_change pr e t v) as [pr' ch] eqn:E.
    pose proof (acc_rest pr e t v) as H. rewrite E in H. simpl in H.
    destruct from as [c|]; [destruct ch|]; rewrite ?(core_rest _ _ (relay_except_core _ _ _));
      exact H.
  - destruct (t_u2e pr !! c) as [ce|]; [|reflexivity].
    destruct (t_u2e pr !! p) as [pe|]; [|reflexivity].
    destruct (negb (alive pr pe) || negb (alive pr ce)); [reflexivity|].
    destruct (parent_differs pr ce pe).
    + destruct (p_panic (set_parent_twice pr ce pe));
        rewrite ?(core_rest _ _ (relay_except_core _ _ _)); apply set_parent_twice_rest.
    + destruct (p_panic pr); rewrite ?(core_rest _ _ (relay_except_core _ _ _)); reflexivity.
  - destruct (negb (alive pr p) || negb (alive pr c)); [reflexivity|].
    destruct (parent_differs pr c p); [apply set_parent_twice_rest|reflexivity].
  - destruct from as [c|]; [rewrite (core_rest _ _ (relay_except_core _ _ _))|]; reflexivity.
  - apply (core_rest _ _ (relay_except_core _ _ _)).
  - destruct (build_full_sync pr) as [pr1 ms] eqn:E.
    pose proof (core_rest _ _ (build_full_sync_core pr)) as H. rewrite E in H. simpl in H.
    change (rest (foldl (fun pr0 m => send pr0 to m) pr1 ms) = rest pr).
    rewrite (core_rest _ _ (foldl_core _ ms pr1 (fun a x => send_core a to x))). exact H.
  - destruct (build_full_sync pr) as [pr1 ms] eqn:E.
    pose proof (core_rest _ _ (build_full_sync_core pr)) as H. rewrite E in H. simpl in H.
    rewrite (core_rest _ _ (send_up_core _ _)). exact H.
  - apply foldl_rest. intros a x. apply upd_ent_rest.
  - destruct set_flag; reflexivity.
  - destruct (filter _ _) as [|[e en] l]; reflexivity.
  - destruct (negb (alive pr e)); [apply set_panic_rest|apply upd_ent_rest].
Qed.

Definition is_set_parent (c : cmd) : Prop :=
  match c with CSetParentSrv _ _ _ | CSetParentCli _ _ => True | _ => False end.

(* what deferred commands can do to entities: spawn a fresh synchronised one, despawn, write
   components, clear the mark, and (set-parent commands only) edit Parent / Children *)
Lemma apply_cmd_ents_all (Q : ent -> entity -> Prop) pr c :
  (forall e u t, Q e (new_entity <| en_sync := Some u |> <| en_sync_added := t |>)) ->
  (forall e en now t v, Q e en -> Q e (put_comp now t v en)) ->
  (forall e en u t, Q e en -> Q e (en <| en_mark := None |> <| en_sync := Some u |> <| en_sync_added := t |>)) ->
  (is_set_parent c -> hier_blind Q) ->
  ents_all Q pr -> ents_all Q (apply_cmd pr c).
Proof.
  intros Hnew Hput Hsync Hpar H. destruct c; simpl; try exact H.
  - intros x en Hl. simpl in Hl. destruct (decide (x = e)) as [->|Hne].
    + rewrite lookup_insert in Hl. injection Hl as <-. apply Hnew.
    + rewrite lookup_insert_ne in Hl by congruence. apply H. exact Hl.
  - intros x en Hl. simpl in Hl. apply lookup_delete_Some in Hl as [_ Hl]. apply H. exact Hl.
  - apply upd_ent_ents_all; [intros en Hen; apply Hsync; exact Hen|exact H].
  - destruct (apply_component_change pr e t v) as [pr' ch] eqn:E.
    pose proof (acc_ents_all Q pr e t v Hput H) as H'. rewrite E in H'. simpl in H'.
    destruct from as [c|]; [destruct ch|];
      try (eapply ents_all_ext; [apply (core_ents _ _ (relay_except_core _ _ _))|]); exact H'.
  - destruct (t_u2e pr !! c) as [ce|]; [|exact H].
    destruct (t_u2e pr !! p) as [pe|]; [|exact H].
    destruct (negb (alive pr pe) || negb (alive pr ce)); [exact H|].
    assert (H' : ents_all Q (if parent_differs pr ce pe then set_parent_twice pr ce pe else pr)).
    { destruct (parent_differs pr ce pe); [|exact H].
      apply set_parent_twice_ents_all; [apply Hpar; exact I|exact H]. }
    destruct (p_panic _); [exact H'|].
    eapply ents_all_ext; [apply (core_ents _ _ (relay_except_core _ _ _))|exact H'].
  - destruct (negb (alive pr p) || negb (alive pr c)); [exact H|].
    destruct (parent_differs pr c p); [|exact H].
    apply set_parent_twice_ents_all; [apply Hpar; exact I|exact H].
  - destruct from as [c|]; [|exact H].
    eapply ents_all_ext; [apply (core_ents _ _ (relay_except_core _ _ _))|exact H].
  - eapply ents_all_ext; [apply (core_ents _ _ (relay_except_core _ _ _))|exact H].
  - destruct (build_full_sync pr) as [pr1 ms] eqn:E.
    pose proof (core_ents _ _ (build_full_sync_core pr)) as H1. rewrite E in H1. simpl in H1.
    eapply ents_all_ext; [|exact H].
    change (p_ents (foldl (fun pr0 m => send pr0 to m) pr1 ms) = p_ents pr).
    rewrite (core_ents _ _ (foldl_core _ ms pr1 (fun a x => send_core a to x))). exact H1.
  - destruct (build_full_sync pr) as [pr1 ms] eqn:E.
    pose proof (core_ents _ _ (build_full_sync_core pr)) as H1. rewrite E in H1. simpl in H1.
    eapply ents_all_ext; [|exact H]. rewrite (core_ents _ _ (send_up_core _ _)). exact H1.
  - apply (foldl_inv (ents_all Q)); [exact H|].
    intros a x _ Ha. apply upd_ent_ents_all; [intros en Hen; apply Hput; exact Hen|exact Ha].
  - destruct set_flag; exact H.
  - destruct (filter _ _) as [|[e en] l]; [exact H|].
    intros x en' Hl. simpl in Hl. apply lookup_delete_Some in Hl as [_ Hl]. apply H. exact Hl.
  - intros x en Hl. simpl in Hl. apply lookup_delete_Some in Hl as [_ Hl]. apply H. exact Hl.
  - destruct (negb (alive pr e)); [eapply ents_all_ext; [apply set_panic_ents|exact H]|].
    apply upd_ent_ents_all; [intros en Hen; apply Hput; exact Hen|exact H].
Qed.

(* commands that can occur when no hierarchy operation was ever performed (and the application
   issues no insert command) *)
Definition no_hier_cmd (c : cmd) : Prop :=
  match c with
  | CSetParentSrv _ _ _ | CSetParentCli _ _ | CAppInsert _ _ _ => False
  | CRelay _ m => not_parented m
  | _ => True
  end.

Lemma foldl_out_all {B} (M : msg -> Prop) (f : peer_state -> B -> peer_state) l pr :
  (forall a x, x ∈ l -> out_all M a -> out_all M (f a x)) -> out_all M pr -> out_all M (foldl f pr l).
Proof. intros Hf H. apply (foldl_inv (out_all M)); [exact H|exact Hf]. Qed.

Lemma apply_cmd_out_np pr c :
  no_hier_cmd c -> ents_all no_parent pr ->
  out_all not_parented pr -> out_all not_parented (apply_cmd pr c).
Proof.
  intros Hc Hnp H. destruct c; simpl; simpl in Hc; try exact H; try contradiction.
  - eapply out_all_ext; [apply upd_ent_out|exact H].
  - destruct (apply_component_change pr e t v) as [pr' ch] eqn:E.
    pose proof (acc_out pr e t v) as H1. rewrite E in H1. simpl in H1.
    assert (H' : out_all not_parented pr') by (eapply out_all_ext; [exact H1|exact H]).
    destruct from as [c|]; [destruct ch|]; try exact H'.
    apply relay_except_out_all; [exact H'|exact I].
  - destruct from as [c|]; [apply relay_except_out_all; [|exact I]|]; exact H.
  - apply relay_except_out_all; assumption.
  - destruct (build_full_sync pr) as [pr1 ms] eqn:E.
    pose proof (build_full_sync_out pr) as H1. rewrite E in H1. simpl in H1.
    assert (Hms : forall m, m ∈ ms -> not_parented m).
    { intros m Hm. apply (build_full_sync_msgs pr m Hnp). rewrite E. exact Hm. }
    apply send_out_all; [|exact I].
    apply foldl_out_all.
    + intros a x Hx Ha. apply send_out_all; [exact Ha|apply Hms; exact Hx].
    + eapply out_all_ext; [exact H1|exact H].
  - destruct (build_full_sync pr) as [pr1 ms] eqn:E.
    pose proof (build_full_sync_out pr) as H1. rewrite E in H1. simpl in H1.
    apply send_up_out_all; [|exact I]. eapply out_all_ext; [exact H1|exact H].
  - apply foldl_out_all; [|exact H].
    intros a x _ Ha. eapply out_all_ext; [apply upd_ent_out|exact Ha].
  - destruct set_flag; exact H.
  - destruct (filter _ _) as [|[e en] l]; exact H.
Qed.

(* ---------- apply_cmds, flush -------------------------------------------------------------------- *)

Lemma apply_cmds_inv (I : peer_state -> Prop) (P : cmd -> Prop) cs :
  (forall pr c, I pr -> P c -> p_panic pr = None -> I (apply_cmd pr c)) ->
  forall pr, I pr -> Forall P cs -> I (apply_cmds pr cs).
Proof.
  intros Hstep. induction cs as [|c cs IH]; intros pr HI HP; simpl; [exact HI|].
  destruct (p_panic pr) eqn:Ep; [exact HI|].
  inversion HP as [|? ? Hc Hcs]; subst.
  apply IH; [|exact Hcs]. apply Hstep; assumption.
Qed.

Definition flush_with (pr : peer_state) (order : list sysid) : peer_state :=
  foldl (fun pr s =>
           let k := sys_key s in
           match p_cmdq pr !! k with
           | Some cs => apply_cmds (pr <| p_cmdq := delete k (p_cmdq pr) |>) cs
           | None => pr
           end) pr order.
Lemma flush_eq pr : flush pr = flush_with pr (p_order pr).
Proof. reflexivity. Qed.

Lemma flush_with_inv (I : peer_state -> Prop) (P : cmd -> Prop) order :
  (forall pr, I pr -> cmdq_all P pr) ->
  (forall pr k, I pr -> I (pr <| p_cmdq := delete k (p_cmdq pr) |>)) ->
  (forall pr c, I pr -> P c -> p_panic pr = None -> I (apply_cmd pr c)) ->
  forall pr, I pr -> I (flush_with pr order).
Proof.
  intros HP Hdel Hstep pr HI. unfold flush_with.
  apply (foldl_inv I); [exact HI|].
  intros a s _ Ha. cbv zeta.
  destruct (p_cmdq a !! sys_key s) as [cs|] eqn:E; [|exact Ha].
  apply (apply_cmds_inv I P); [exact Hstep|apply Hdel; exact Ha|].
  apply Forall_forall. intros c Hc. eapply HP; [exact Ha|exact E|exact Hc].
Qed.

Lemma flush_inv (I : peer_state -> Prop) (P : cmd -> Prop) :
  (forall pr, I pr -> cmdq_all P pr) ->
  (forall pr k, I pr -> I (pr <| p_cmdq := delete k (p_cmdq pr) |>)) ->
  (forall pr c, I pr -> P c -> p_panic pr = None -> I (apply_cmd pr c)) ->
  forall pr, I pr -> I (flush pr).
Proof. intros H1 H2 H3 pr HI. rewrite flush_eq. apply (flush_with_inv I P); assumption. Qed.

Lemma cmdq_all_delete P pr k :
  cmdq_all P pr -> cmdq_all P (pr <| p_cmdq := delete k (p_cmdq pr) |>).
Proof.
  intros H k' cs c Hl Hin. simpl in Hl. apply lookup_delete_Some in Hl as [_ Hl].
  eapply H; [exact Hl|exact Hin].
Qed.

(* ---------- systems that touch nothing the analysis looks at (except the outbox) --------------- *)

Ltac core_step :=
  first [ reflexivity
        | rewrite broadcast_core | rewrite send_up_core | rewrite relay_except_core
        | rewrite send_core | rewrite insert_asset_core | rewrite request_asset_core ].

Lemma signal_component_changed_core pr u t v : core (signal_component_changed pr u t v) = core pr.
Proof. unfold signal_component_changed. destruct (mem_pair _ _); reflexivity. Qed.
Lemma signal_component_changed_out pr u t v : p_out (signal_component_changed pr u t v) = p_out pr.
Proof. unfold signal_component_changed. destruct (mem_pair _ _); reflexivity. Qed.

Lemma entity_parented_server_core pr last : core (entity_parented_server pr last) = core pr.
Proof.
  unfold entity_parented_server. apply foldl_core. intros a [e en]. cbv beta iota.
  repeat case_match; repeat core_step.
Qed.
Lemma entity_parented_client_core pr last : core (entity_parented_client pr last) = core pr.
Proof.
  unfold entity_parented_client. apply foldl_core. intros a [e en]. cbv beta iota.
  repeat case_match; repeat core_step.
Qed.
Lemma react_components_core b pr : core (react_on_changed_components b pr) = core pr.
Proof.
  unfold react_on_changed_components. cbv zeta. rewrite foldl_core; [reflexivity|].
  intros a [[u t] v]. cbv beta iota. destruct b; repeat core_step.
Qed.
Lemma react_assets_core b k pr : core (react_on_changed_assets b k pr) = core pr.
Proof.
  unfold react_on_changed_assets. cbv zeta. rewrite foldl_core; [reflexivity|].
  intros a [k' x]. cbv beta iota.
  destruct (a_store a !! akey k x); [|reflexivity].
  destruct (memN x (t_htok a)); [reflexivity|].
  destruct k; destruct b; repeat core_step.
Qed.
Lemma promote_reader_core pr : core (promote_reader pr) = core pr.
Proof.
  unfold promote_reader. cbv zeta. rewrite foldl_core; [reflexivity|].
  intros a c. apply send_core.
Qed.
Lemma process_assets_core pr c done : core (process_assets pr c done) = core pr.
Proof.
  unfold process_assets. apply foldl_core. intros a [[c' x] v]. cbv beta iota.
  destruct (_ =? _); reflexivity.
Qed.
Lemma sync_detect_core pr t last : core (sync_detect pr t last) = core pr.
Proof.
  unfold sync_detect. apply foldl_core. intros a [e en]. cbv beta iota.
  repeat case_match; try reflexivity; apply signal_component_changed_core.
Qed.

Lemma foldl_out_eq {B} (f : peer_state -> B -> peer_state) l pr :
  (forall a x, p_out (f a x) = p_out a) -> p_out (foldl f pr l) = p_out pr.
Proof.
  intros Hf. apply (foldl_inv (fun a => p_out a = p_out pr)); [reflexivity|].
  intros a x _ Ha. rewrite Hf. exact Ha.
Qed.

Lemma parent_changed_no_parent last en : en_parent en = None -> parent_changed last en = None.
Proof. unfold parent_changed. intros ->. reflexivity. Qed.

Lemma entity_parented_server_out_np pr last :
  ents_all no_parent pr -> out_all not_parented pr ->
  out_all not_parented (entity_parented_server pr last).
Proof.
  intros Hnp H. unfold entity_parented_server. apply foldl_out_all; [|exact H].
  intros a [e en] Hin Ha. cbv beta iota.
  unfold ents_list in Hin. apply elem_of_map_to_list in Hin.
  rewrite (parent_changed_no_parent last en (Hnp e en Hin)). exact Ha.
Qed.
Lemma entity_parented_client_out_np pr last :
  ents_all no_parent pr -> out_all not_parented pr ->
  out_all not_parented (entity_parented_client pr last).
Proof.
  intros Hnp H. unfold entity_parented_client. apply foldl_out_all; [|exact H].
  intros a [e en] Hin Ha. cbv beta iota.
  unfold ents_list in Hin. apply elem_of_map_to_list in Hin.
  rewrite (parent_changed_no_parent last en (Hnp e en Hin)). exact Ha.
Qed.
Lemma react_components_out_np b pr :
  out_all not_parented pr -> out_all not_parented (react_on_changed_components b pr).
Proof.
  intros H. unfold react_on_changed_components. cbv zeta. apply foldl_out_all; [|exact H].
  intros a [[u t] v] _ Ha. cbv beta iota.
  destruct b; [apply broadcast_out_all|apply send_up_out_all]; (exact Ha || exact I).
Qed.
Lemma react_assets_out_np b k pr :
  out_all not_parented pr -> out_all not_parented (react_on_changed_assets b k pr).
Proof.
  intros H. unfold react_on_changed_assets. cbv zeta. apply foldl_out_all; [|exact H].
  intros a [k' x] _ Ha. cbv beta iota.
  destruct (a_store a !! akey k x); [|exact Ha].
  destruct (memN x (t_htok a)); [exact Ha|].
  destruct k; destruct b;
    first [apply broadcast_out_all|apply send_up_out_all]; (exact Ha || exact I).
Qed.
Lemma promote_reader_out_np pr :
  out_all not_parented pr -> out_all not_parented (promote_reader pr).
Proof.
  intros H. unfold promote_reader. cbv zeta. apply foldl_out_all; [|exact H].
  intros a c _ Ha. apply send_out_all; [exact Ha|exact I].
Qed.
Lemma process_assets_out pr c done : p_out (process_assets pr c done) = p_out pr.
Proof.
  unfold process_assets. apply foldl_out_eq. intros a [[c' x] v]. cbv beta iota.
  destruct (_ =? _); reflexivity.
Qed.
Lemma sync_detect_out pr t last : p_out (sync_detect pr t last) = p_out pr.
Proof.
  unfold sync_detect. apply foldl_out_eq. intros a [e en]. cbv beta iota.
  repeat case_match; try reflexivity; apply signal_component_changed_out.
Qed.

(* ---------- systems that only queue harmless commands ---------------------------------------------- *)

(* commands the systems generate on their own (everything except the hierarchy handlers and
   the application's commands) *)
Definition benign (c : cmd) : Prop :=
  match c with
  | CSetParentSrv _ _ _ | CSetParentCli _ _ | CAppInsert _ _ _ => False
  | CRelay _ m => match m with MAsset _ _ _ => True | _ => False end
  | _ => True
  end.

(* everything but the command queue and the outbox *)
Definition nocmdq (pr : peer_state) :=
  (p_panic pr, p_ents pr, p_app_cmds pr, t_u2e pr, n_inbox pr, p_next_ent pr).

Lemma nocmdq_inv pr pr' : nocmdq pr' = nocmdq pr ->
  p_panic pr' = p_panic pr /\ p_ents pr' = p_ents pr /\ p_app_cmds pr' = p_app_cmds pr /\
  t_u2e pr' = t_u2e pr /\ n_inbox pr' = n_inbox pr /\ p_next_ent pr' = p_next_ent pr.
Proof.
  unfold nocmdq. intros H. repeat split.
  - exact (f_equal (fun x => x.1.1.1.1.1) H).
  - exact (f_equal (fun x => x.1.1.1.1.2) H).
  - exact (f_equal (fun x => x.1.1.1.2) H).
  - exact (f_equal (fun x => x.1.1.2) H).
  - exact (f_equal (fun x => x.1.2) H).
  - exact (f_equal (fun x => x.2) H).
Qed.
Lemma core_nocmdq pr pr' : core pr' = core pr -> nocmdq pr' = nocmdq pr.
Proof.
  intros H. unfold nocmdq.
  rewrite (core_panic _ _ H), (core_ents _ _ H), (core_app _ _ H), (core_u2e _ _ H),
    (core_inbox _ _ H), (core_next _ _ H). reflexivity.
Qed.
Lemma foldl_nocmdq {B} (f : peer_state -> B -> peer_state) l pr :
  (forall a x, nocmdq (f a x) = nocmdq a) -> nocmdq (foldl f pr l) = nocmdq pr.
Proof.
  intros Hf. apply (foldl_inv (fun a => nocmdq a = nocmdq pr)); [reflexivity|].
  intros a x _ Ha. rewrite Hf. exact Ha.
Qed.
Lemma foldl_cmdq_all {B} P (f : peer_state -> B -> peer_state) l pr :
  (forall a x, cmdq_all P a -> cmdq_all P (f a x)) -> cmdq_all P pr -> cmdq_all P (foldl f pr l).
Proof. intros Hf H. apply (foldl_inv (cmdq_all P)); [exact H|]. intros a x _. apply Hf. Qed.

Lemma fix_system_nocmdq pr k last trig wo comps : nocmdq (fix_system pr k last trig wo comps) = nocmdq pr.
Proof.
  unfold fix_system. apply foldl_nocmdq. intros a [e en]. cbv beta iota.
  repeat case_match; reflexivity.
Qed.
Lemma fix_system_out pr k last trig wo comps : p_out (fix_system pr k last trig wo comps) = p_out pr.
Proof.
  unfold fix_system. apply foldl_out_eq. intros a [e en]. cbv beta iota.
  repeat case_match; reflexivity.
Qed.
Lemma fix_system_cmdq (P : cmd -> Prop) pr k last trig wo comps :
  (forall c, benign c -> P c) -> cmdq_all P pr -> cmdq_all P (fix_system pr k last trig wo comps).
Proof.
  intros HP. unfold fix_system. apply foldl_cmdq_all. intros a [e en] Ha. cbv beta iota.
  repeat case_match; try exact Ha. apply push_cmd_all; [exact Ha|apply HP; exact I].
Qed.

Lemma client_connected_nocmdq pr k : nocmdq (client_connected pr k) = nocmdq pr.
Proof.
  unfold client_connected. cbv zeta. rewrite foldl_nocmdq; [reflexivity|].
  intros a [conn c]. cbv beta iota. repeat case_match; reflexivity.
Qed.
Lemma client_connected_out pr k : p_out (client_connected pr k) = p_out pr.
Proof.
  unfold client_connected. cbv zeta. rewrite foldl_out_eq; [reflexivity|].
  intros a [conn c]. cbv beta iota. repeat case_match; reflexivity.
Qed.
Lemma client_connected_cmdq (P : cmd -> Prop) pr k :
  (forall c, benign c -> P c) -> cmdq_all P pr -> cmdq_all P (client_connected pr k).
Proof.
  intros HP H. unfold client_connected. cbv zeta. apply foldl_cmdq_all; [|exact H].
  intros a [conn c] Ha. cbv beta iota.
  repeat case_match; try exact Ha; (apply push_cmd_all; [exact Ha|apply HP; exact I]).
Qed.

Lemma verify_nocmdq pr k : nocmdq (verify_client_connected pr k) = nocmdq pr.
Proof. unfold verify_client_connected. repeat case_match; reflexivity. Qed.
Lemma verify_out pr k : p_out (verify_client_connected pr k) = p_out pr.
Proof. unfold verify_client_connected. repeat case_match; reflexivity. Qed.
Lemma verify_cmdq (P : cmd -> Prop) pr k :
  (forall c, benign c -> P c) -> cmdq_all P pr -> cmdq_all P (verify_client_connected pr k).
Proof.
  intros HP H. unfold verify_client_connected.
  repeat case_match; try exact H. apply push_cmd_all; [exact H|apply HP; exact I].
Qed.

(* ---------- the uuid -> entity map ----------------------------------------------------------------- *)

Definition SCRIPT_LIMIT : N := 4294967296.    (* script entities are below, network replicas at or above *)

Definition mark_ok (e : ent) (en : entity) : Prop := en_mark en <> None -> e < SCRIPT_LIMIT.

(* uuid_to_entity is injective; replicas were allocated by this peer's counter; a script entity
   is only ever registered under its own id; only script entities carry SyncMark *)
Definition u2e_ok_ (m : gmap uuid ent) (next : N) (ents : gmap ent entity) : Prop :=
  (forall u1 u2 e, m !! u1 = Some e -> m !! u2 = Some e -> u1 = u2) /\
  (forall u e, m !! u = Some e -> e < next /\ (e < SCRIPT_LIMIT -> u = e)) /\
  SCRIPT_LIMIT <= next /\
  (forall e en, ents !! e = Some en -> mark_ok e en).
Definition u2e_ok (pr : peer_state) : Prop := u2e_ok_ (t_u2e pr) (p_next_ent pr) (p_ents pr).

Lemma u2e_ok_sub m m' next ents :
  (forall u e, m' !! u = Some e -> m !! u = Some e) -> u2e_ok_ m next ents -> u2e_ok_ m' next ents.
Proof.
  intros Hs (Hi & Hb & Hn & Hm).
  split; [|split; [|split; [exact Hn|exact Hm]]].
  - intros u1 u2 e H1 H2. eapply Hi; apply Hs; eassumption.
  - intros u e Hl. apply (Hb u e). apply Hs. exact Hl.
Qed.
Lemma u2e_ok_delete m next ents u : u2e_ok_ m next ents -> u2e_ok_ (delete u m) next ents.
Proof.
  apply u2e_ok_sub. intros u' e H. apply lookup_delete_Some in H as [_ H]. exact H.
Qed.
Lemma u2e_ok_alloc m next ents u : u2e_ok_ m next ents -> u2e_ok_ (<[u := next]> m) (next + 1) ents.
Proof.
  intros (Hi & Hb & Hn & Hm).
  split; [|split; [|split; [lia|exact Hm]]].
  - intros u1 u2 e H1 H2.
    destruct (decide (u1 = u)) as [->|N1]; destruct (decide (u2 = u)) as [->|N2]; [reflexivity| | |].
    + rewrite lookup_insert in H1. rewrite lookup_insert_ne in H2 by congruence.
      injection H1 as <-. apply Hb in H2 as [H2 _]. lia.
    + rewrite lookup_insert in H2. rewrite lookup_insert_ne in H1 by congruence.
      injection H2 as <-. apply Hb in H1 as [H1 _]. lia.
    + rewrite lookup_insert_ne in H1, H2 by congruence. eapply Hi; eassumption.
  - intros u' e Hl. destruct (decide (u' = u)) as [->|N1].
    + rewrite lookup_insert in Hl. injection Hl as <-. unfold SCRIPT_LIMIT in *. split; [lia|]. lia.
    + rewrite lookup_insert_ne in Hl by congruence. destruct (Hb u' e Hl) as [Hlt Heq].
      split; [lia|exact Heq].
Qed.
Lemma u2e_ok_self m next ents e en :
  ents !! e = Some en -> en_mark en <> None -> u2e_ok_ m next ents -> u2e_ok_ (<[e := e]> m) next ents.
Proof.
  intros Hl Hmk (Hi & Hb & Hn & Hm). pose proof (Hm e en Hl Hmk) as Hlt.
  split; [|split; [|split; [exact Hn|exact Hm]]].
  - intros u1 u2 x H1 H2.
    destruct (decide (u1 = e)) as [->|N1]; destruct (decide (u2 = e)) as [->|N2]; [reflexivity| | |].
    + rewrite lookup_insert in H1. rewrite lookup_insert_ne in H2 by congruence.
      injection H1 as <-. symmetry. apply (Hb u2 e H2). exact Hlt.
    + rewrite lookup_insert in H2. rewrite lookup_insert_ne in H1 by congruence.
      injection H2 as <-. apply (Hb u1 e H1). exact Hlt.
    + rewrite lookup_insert_ne in H1, H2 by congruence. eapply Hi; eassumption.
  - intros u x Hx. destruct (decide (u = e)) as [->|N1].
    + rewrite lookup_insert in Hx. injection Hx as <-. split; [lia|reflexivity].
    + rewrite lookup_insert_ne in Hx by congruence. exact (Hb u x Hx).
Qed.
Lemma u2e_ok_ents m next ents ents' :
  (forall e en, ents' !! e = Some en -> mark_ok e en) -> u2e_ok_ m next ents -> u2e_ok_ m next ents'.
Proof. intros H (Hi & Hb & Hn & _). split; [exact Hi|split; [exact Hb|split; [exact Hn|exact H]]]. Qed.
Lemma u2e_ok_ext pr pr' :
  t_u2e pr' = t_u2e pr -> p_next_ent pr' = p_next_ent pr -> p_ents pr' = p_ents pr ->
  u2e_ok pr -> u2e_ok pr'.
Proof. unfold u2e_ok. intros -> -> ->. auto. Qed.
Lemma u2e_ok_inj pr u1 u2 e :
  u2e_ok pr -> t_u2e pr !! u1 = Some e -> t_u2e pr !! u2 = Some e -> u1 = u2.
Proof. intros (Hi & _). apply Hi. Qed.

(* ---------- tracker systems -------------------------------------------------------------------------- *)

(* everything but the uuid map and the outbox *)
Definition nou2e (pr : peer_state) :=
  (p_panic pr, p_ents pr, p_app_cmds pr, n_inbox pr, p_next_ent pr, p_cmdq pr).
Lemma nou2e_inv pr pr' : nou2e pr' = nou2e pr ->
  p_panic pr' = p_panic pr /\ p_ents pr' = p_ents pr /\ p_app_cmds pr' = p_app_cmds pr /\
  n_inbox pr' = n_inbox pr /\ p_next_ent pr' = p_next_ent pr /\ p_cmdq pr' = p_cmdq pr.
Proof.
  unfold nou2e. intros H. repeat split.
  - exact (f_equal (fun x => x.1.1.1.1.1) H).
  - exact (f_equal (fun x => x.1.1.1.1.2) H).
  - exact (f_equal (fun x => x.1.1.1.2) H).
  - exact (f_equal (fun x => x.1.1.2) H).
  - exact (f_equal (fun x => x.1.2) H).
  - exact (f_equal (fun x => x.2) H).
Qed.
Lemma core_nou2e pr pr' : core pr' = core pr -> nou2e pr' = nou2e pr.
Proof.
  intros H. unfold nou2e.
  rewrite (core_panic _ _ H), (core_ents _ _ H), (core_app _ _ H), (core_cmdq _ _ H),
    (core_inbox _ _ H), (core_next _ _ H). reflexivity.
Qed.

Definition u2e_sub (pr pr' : peer_state) : Prop :=
  forall u e, t_u2e pr' !! u = Some e -> t_u2e pr !! u = Some e.

Lemma foldl_delete_sub {A B} (l : list (uuid * B)) (m : gmap uuid A) u e :
  foldl (fun m '(u, _) => delete u m) m l !! u = Some e -> m !! u = Some e.
Proof.
  revert m. induction l as [|[x y] l IH]; intros m H; simpl in H; [exact H|].
  apply IH in H. apply lookup_delete_Some in H as [_ H]. exact H.
Qed.

Lemma entity_removed_server_nou2e pr : nou2e (entity_removed_server pr) = nou2e pr.
Proof.
  unfold entity_removed_server. cbv zeta.
  apply (foldl_inv (fun a => nou2e a = nou2e pr)); [reflexivity|].
  intros a u _ Ha. rewrite (core_nou2e _ _ (broadcast_core _ _)). exact Ha.
Qed.
Lemma entity_removed_server_sub pr : u2e_sub pr (entity_removed_server pr).
Proof.
  unfold entity_removed_server. cbv zeta.
  apply (foldl_inv (fun a => u2e_sub pr a)); [intros u e H; exact H|].
  intros a u _ Ha u' e H. rewrite (core_u2e _ _ (broadcast_core _ _)) in H. simpl in H.
  apply lookup_delete_Some in H as [_ H]. apply Ha. exact H.
Qed.
Lemma entity_removed_server_out_np pr :
  out_all not_parented pr -> out_all not_parented (entity_removed_server pr).
Proof.
  intros H. unfold entity_removed_server. cbv zeta. apply foldl_out_all; [|exact H].
  intros a u _ Ha. apply broadcast_out_all; [exact Ha|exact I].
Qed.

Lemma entity_removed_client_nou2e pr : nou2e (entity_removed_client pr) = nou2e pr.
Proof.
  unfold entity_removed_client. cbv zeta.
  apply (foldl_inv (fun a => nou2e a = nou2e pr)); [reflexivity|].
  intros a [u e] _ Ha. cbv beta iota. rewrite (core_nou2e _ _ (send_up_core _ _)). exact Ha.
Qed.
Lemma entity_removed_client_sub pr : u2e_sub pr (entity_removed_client pr).
Proof.
  unfold entity_removed_client. cbv zeta.
  apply (foldl_inv (fun a => u2e_sub pr a)).
  - intros u e H. simpl in H. eapply foldl_delete_sub. exact H.
  - intros a [u e] _ Ha u' e' H. cbv beta iota in H.
    rewrite (core_u2e _ _ (send_up_core _ _)) in H. apply Ha. exact H.
Qed.
Lemma entity_removed_client_out_np pr :
  out_all not_parented pr -> out_all not_parented (entity_removed_client pr).
Proof.
  intros H. unfold entity_removed_client. cbv zeta. apply foldl_out_all; [|exact H].
  intros a [u e] _ Ha. cbv beta iota. apply send_up_out_all; [exact Ha|exact I].
Qed.

Lemma u2e_ok_of_sub pr pr' :
  nou2e pr' = nou2e pr -> u2e_sub pr pr' -> u2e_ok pr -> u2e_ok pr'.
Proof.
  intros Hn Hs H. apply nou2e_inv in Hn as (_ & He & _ & _ & Hx & _).
  unfold u2e_ok. rewrite He, Hx. eapply u2e_ok_sub; [exact Hs|exact H].
Qed.

(* entity_created_on_server / _on_client: the body for one newly marked entity *)
Definition created_body (server : bool) (k : N) (pr : peer_state) (e : ent) : peer_state :=
  let u := e in
  let pr := if server then broadcast pr (MSpawn u) else pr in
  let pr := pr <| t_u2e := <[u := e]> (t_u2e pr) |> <| t_e2u := <[e := u]> (t_e2u pr) |> in
  let pr := if server then pr else send_up pr (MSpawn u) in
  push_cmd pr k (CInsertSync e u).

Lemma entity_created_eq server pr k last :
  entity_created server pr k last =
  foldl (fun a '(e, en) => if newly_marked last en then created_body server k a e else a) pr (ents_list pr).
Proof. reflexivity. Qed.

Definition fixed (pr : peer_state) := (p_panic pr, p_ents pr, p_app_cmds pr, n_inbox pr, p_next_ent pr).
Lemma fixed_inv pr pr' : fixed pr' = fixed pr ->
  p_panic pr' = p_panic pr /\ p_ents pr' = p_ents pr /\ p_app_cmds pr' = p_app_cmds pr /\
  n_inbox pr' = n_inbox pr /\ p_next_ent pr' = p_next_ent pr.
Proof.
  unfold fixed. intros H. repeat split.
  - exact (f_equal (fun x => x.1.1.1.1) H).
  - exact (f_equal (fun x => x.1.1.1.2) H).
  - exact (f_equal (fun x => x.1.1.2) H).
  - exact (f_equal (fun x => x.1.2) H).
  - exact (f_equal (fun x => x.2) H).
Qed.
Lemma core_fixed pr pr' : core pr' = core pr -> fixed pr' = fixed pr.
Proof.
  intros H. unfold fixed.
  rewrite (core_panic _ _ H), (core_ents _ _ H), (core_app _ _ H),
    (core_inbox _ _ H), (core_next _ _ H). reflexivity.
Qed.

Lemma created_body_fixed server k pr e : fixed (created_body server k pr e) = fixed pr.
Proof.
  unfold created_body. cbv zeta. destruct server.
  - change (fixed (broadcast pr (MSpawn e)) = fixed pr). apply core_fixed, broadcast_core.
  - match goal with |- fixed (push_cmd (send_up ?x ?m) _ _) = _ =>
      change (fixed (send_up x m) = fixed pr); rewrite (core_fixed _ _ (send_up_core x m)) end.
    reflexivity.
Qed.
Lemma created_body_u2e server k pr e : t_u2e (created_body server k pr e) = <[e := e]> (t_u2e pr).
Proof.
  unfold created_body. cbv zeta. destruct server.
  - change (<[e := e]> (t_u2e (broadcast pr (MSpawn e))) = <[e := e]> (t_u2e pr)).
    rewrite (core_u2e _ _ (broadcast_core _ _)). reflexivity.
  - match goal with |- t_u2e (push_cmd (send_up ?x ?m) _ _) = _ =>
      change (t_u2e (send_up x m) = <[e := e]> (t_u2e pr)); rewrite (core_u2e _ _ (send_up_core x m)) end.
    reflexivity.
Qed.
Lemma created_body_cmdq (P : cmd -> Prop) server k pr e :
  (forall c, benign c -> P c) -> cmdq_all P pr -> cmdq_all P (created_body server k pr e).
Proof.
  intros HP H. unfold created_body. cbv zeta. apply push_cmd_all; [|apply HP; exact I].
  destruct server.
  - eapply cmdq_all_ext; [|exact H]. change (p_cmdq (broadcast pr (MSpawn e)) = p_cmdq pr).
    apply core_cmdq, broadcast_core.
  - eapply cmdq_all_ext; [|exact H]. rewrite (core_cmdq _ _ (send_up_core _ _)). reflexivity.
Qed.
Lemma created_body_out (M : msg -> Prop) server k pr e :
  M (MSpawn e) -> out_all M pr -> out_all M (created_body server k pr e).
Proof.
  intros HM H. unfold created_body. cbv zeta.
  eapply out_all_ext; [apply push_cmd_out|]. destruct server.
  - eapply out_all_ext; [|apply (broadcast_out_all M pr (MSpawn e) H HM)]. reflexivity.
  - apply send_up_out_all; [|exact HM]. eapply out_all_ext; [|exact H]. reflexivity.
Qed.

Lemma entity_created_fixed server pr k last : fixed (entity_created server pr k last) = fixed pr.
Proof.
  rewrite entity_created_eq. apply (foldl_inv (fun a => fixed a = fixed pr)); [reflexivity|].
  intros a [e en] _ Ha. cbv beta iota. destruct (newly_marked last en); [|exact Ha].
  rewrite created_body_fixed. exact Ha.
Qed.
Lemma entity_created_cmdq (P : cmd -> Prop) server pr k last :
  (forall c, benign c -> P c) -> cmdq_all P pr -> cmdq_all P (entity_created server pr k last).
Proof.
  intros HP H. rewrite entity_created_eq. apply foldl_cmdq_all; [|exact H].
  intros a [e en] Ha. cbv beta iota. destruct (newly_marked last en); [|exact Ha].
  apply created_body_cmdq; assumption.
Qed.
Lemma entity_created_out_np server pr k last :
  out_all not_parented pr -> out_all not_parented (entity_created server pr k last).
Proof.
  intros H. rewrite entity_created_eq. apply foldl_out_all; [|exact H].
  intros a [e en] _ Ha. cbv beta iota. destruct (newly_marked last en); [|exact Ha].
  apply created_body_out; [exact I|exact Ha].
Qed.
Lemma entity_created_u2e_ok server pr k last : u2e_ok pr -> u2e_ok (entity_created server pr k last).
Proof.
  intros H. rewrite entity_created_eq.
  refine (proj2 (foldl_inv (fun a => fixed a = fixed pr /\ u2e_ok a) _ _ _ _ _));
    [split; [reflexivity|exact H]|].
  intros a [e en] Hin [Ha Hu]. cbv beta iota.
  destruct (newly_marked last en) eqn:Enm; [|split; assumption].
  split; [rewrite created_body_fixed; exact Ha|].
  pose proof (created_body_fixed server k a e) as Hf.
  apply fixed_inv in Hf as (_ & He & _ & _ & Hx).
  apply fixed_inv in Ha as (_ & He' & _ & _ & _).
  unfold u2e_ok. rewrite created_body_u2e, He, Hx.
  unfold ents_list in Hin. apply elem_of_map_to_list in Hin.
  apply (u2e_ok_self _ _ _ e en); [rewrite He'; exact Hin| |exact Hu].
  unfold newly_marked in Enm. destruct (en_mark en); [discriminate|discriminate].
Qed.

(* ---------- receivers ---------------------------------------------------------------------------------- *)

(* what a receiver never changes *)
Definition pollfixed (pr : peer_state) := (p_panic pr, p_ents pr, p_app_cmds pr, n_inbox pr).
Lemma pollfixed_inv pr pr' : pollfixed pr' = pollfixed pr ->
  p_panic pr' = p_panic pr /\ p_ents pr' = p_ents pr /\ p_app_cmds pr' = p_app_cmds pr /\
  n_inbox pr' = n_inbox pr.
Proof.
  unfold pollfixed. intros H. repeat split.
  - exact (f_equal (fun x => x.1.1.1) H).
  - exact (f_equal (fun x => x.1.1.2) H).
  - exact (f_equal (fun x => x.1.2) H).
  - exact (f_equal (fun x => x.2) H).
Qed.
Lemma core_pollfixed pr pr' : core pr' = core pr -> pollfixed pr' = pollfixed pr.
Proof.
  intros H. unfold pollfixed.
  rewrite (core_panic _ _ H), (core_ents _ _ H), (core_app _ _ H), (core_inbox _ _ H). reflexivity.
Qed.

(* commands a client generates for message m *)
Definition cli_gen (pr : peer_state) (m : msg) (c : cmd) : Prop :=
  benign c \/
  exists cu pu ce pe, m = MParented cu pu /\ t_u2e pr !! cu = Some ce /\ t_u2e pr !! pu = Some pe /\
                      c = CSetParentCli ce pe.
(* commands the host generates for message m from client `from` *)
Definition srv_gen (from : peer) (m : msg) (c : cmd) : Prop :=
  benign c \/ exists cu pu, m = MParented cu pu /\ c = CSetParentSrv from cu pu.

Lemma client_received_pollfixed pr k m : pollfixed (client_received pr k m) = pollfixed pr.
Proof.
  destruct m; simpl; repeat case_match; try reflexivity.
  apply core_pollfixed, request_asset_core.
Qed.
Lemma client_received_out pr k m : p_out (client_received pr k m) = p_out pr.
Proof.
  destruct m; simpl; repeat case_match; try reflexivity. apply request_asset_out.
Qed.
Lemma client_received_cmdq (P : cmd -> Prop) pr k m :
  (forall c, cli_gen pr m c -> P c) -> cmdq_all P pr -> cmdq_all P (client_received pr k m).
Proof.
  intros HP H.
  assert (Hb : forall c, benign c -> P c) by (intros c Hc; apply HP; left; exact Hc).
  destruct m; simpl.
  - case_match; [exact H|].
    eapply cmdq_all_intro; [simpl; reflexivity|]. apply cmdq_push_; [exact H|apply Hb; exact I].
  - destruct (t_u2e pr !! c) as [ce|] eqn:Ec; [|exact H].
    destruct (t_u2e pr !! p) as [pe|] eqn:Ep; [|exact H].
    apply push_cmd_all; [exact H|]. apply HP. right. exists c, p, ce, pe. auto.
  - repeat case_match; try exact H.
    eapply cmdq_all_intro; [simpl; reflexivity|]. apply cmdq_push_; [exact H|apply Hb; exact I].
  - case_match; [|exact H]. apply push_cmd_all; [exact H|apply Hb; exact I].
  - apply push_cmd_all; [exact H|apply Hb; exact I].
  - eapply cmdq_all_ext; [apply (core_cmdq _ _ (request_asset_core _ _ _ _))|exact H].
  - apply push_cmd_all; [exact H|apply Hb; exact I].
  - eapply cmdq_all_intro; [simpl; reflexivity|].
    apply cmdq_push_; [|apply Hb; exact I]. apply cmdq_push_; [exact H|apply Hb; exact I].
  - exact H.
  - exact H.
Qed.
Lemma client_received_u2e_ok pr k m : u2e_ok pr -> u2e_ok (client_received pr k m).
Proof.
  intros H. destruct m; simpl; try exact H.
  - case_match; [exact H|]. apply (u2e_ok_alloc _ _ _ u H).
  - repeat case_match; exact H.
  - repeat case_match; try exact H. apply (u2e_ok_delete _ _ _ u H).
  - case_match; exact H.
  - eapply u2e_ok_ext; [| | |exact H].
    + apply (core_u2e _ _ (request_asset_core _ _ _ _)).
    + apply (core_next _ _ (request_asset_core _ _ _ _)).
    + apply (core_ents _ _ (request_asset_core _ _ _ _)).
Qed.

Lemma u2e_ok_core pr pr' : core pr' = core pr -> u2e_ok pr -> u2e_ok pr'.
Proof.
  intros H. apply u2e_ok_ext; [apply (core_u2e _ _ H)|apply (core_next _ _ H)|apply (core_ents _ _ H)].
Qed.

Lemma server_received_pollfixed pr k from m : pollfixed (server_received pr k from m) = pollfixed pr.
Proof.
  destruct m; simpl; try reflexivity.
  - rewrite (core_pollfixed _ _ (relay_except_core _ _ _)). reflexivity.
  - rewrite (core_pollfixed _ _ (relay_except_core _ _ _)). repeat case_match; reflexivity.
  - case_match; reflexivity.
  - change (pollfixed (request_asset pr k0 a owner) = pollfixed pr).
    apply core_pollfixed, request_asset_core.
  - match goal with |- pollfixed (push_cmd ?x _ _) = _ => change (pollfixed x = pollfixed pr) end.
    rewrite (core_pollfixed _ _ (relay_except_core _ _ _)). reflexivity.
Qed.

Lemma server_received_cmdq (P : cmd -> Prop) pr k from m :
  (forall c, srv_gen from m c -> P c) -> cmdq_all P pr -> cmdq_all P (server_received pr k from m).
Proof.
  intros HP H.
  assert (Hb : forall c, benign c -> P c) by (intros c Hc; apply HP; left; exact Hc).
  destruct m; simpl; try exact H.
  - eapply cmdq_all_ext; [apply (core_cmdq _ _ (relay_except_core _ _ _))|].
    eapply cmdq_all_intro; [simpl; reflexivity|]. apply cmdq_push_; [exact H|apply Hb; exact I].
  - apply push_cmd_all; [exact H|]. apply HP. right. exists c, p. auto.
  - eapply cmdq_all_ext; [apply (core_cmdq _ _ (relay_except_core _ _ _))|].
    repeat case_match; try exact H.
    eapply cmdq_all_intro; [simpl; reflexivity|]. apply cmdq_push_; [exact H|apply Hb; exact I].
  - case_match; [|exact H]. apply push_cmd_all; [exact H|apply Hb; exact I].
  - apply push_cmd_all; [exact H|apply Hb; exact I].
  - apply push_cmd_all; [|apply Hb; exact I].
    eapply cmdq_all_ext; [apply (core_cmdq _ _ (request_asset_core _ _ _ _))|exact H].
  - apply push_cmd_all; [|apply Hb; exact I].
    eapply cmdq_all_ext; [apply (core_cmdq _ _ (relay_except_core _ _ _))|].
    eapply cmdq_all_ext; [|exact H]. reflexivity.
  - apply push_cmd_all; [exact H|apply Hb; exact I].
Qed.

Lemma server_received_u2e_ok pr k from m : u2e_ok pr -> u2e_ok (server_received pr k from m).
Proof.
  intros H. destruct m; simpl; try exact H.
  - eapply u2e_ok_core; [apply relay_except_core|]. apply (u2e_ok_alloc _ _ _ u H).
  - eapply u2e_ok_core; [apply relay_except_core|].
    repeat case_match; try exact H. apply (u2e_ok_delete _ _ _ u H).
  - case_match; exact H.
  - change (u2e_ok (request_asset pr k0 a owner)). eapply u2e_ok_core; [apply request_asset_core|exact H].
  - match goal with |- u2e_ok (push_cmd ?x _ _) => change (u2e_ok x) end.
    eapply u2e_ok_core; [apply relay_except_core|]. exact H.
Qed.

Lemma server_received_out_np pr k from m :
  out_all not_parented pr -> out_all not_parented (server_received pr k from m).
Proof.
  intros H. destruct m; simpl; try exact H.
  - apply relay_except_out_all; [|exact I]. eapply out_all_ext; [|exact H]. reflexivity.
  - apply relay_except_out_all; [|exact I]. repeat case_match; exact H.
  - case_match; exact H.
  - eapply out_all_ext; [|exact H]. change (p_out (request_asset pr k0 a owner) = p_out pr).
    apply request_asset_out.
  - eapply out_all_ext; [apply push_cmd_out|].
    apply relay_except_out_all; [|exact I]. eapply out_all_ext; [|exact H]. reflexivity.
Qed.

(* pop_inbox *)
Lemma pop_inbox_spec pr from m pr' :
  pop_inbox pr from = Some (m, pr') ->
  exists rest_, n_inbox pr !! from = Some (m :: rest_) /\
                pr' = pr <| n_inbox := <[from := rest_]> (n_inbox pr) |>.
Proof.
  unfold pop_inbox. destruct (n_inbox pr !! from) as [[|m0 l]|]; try discriminate.
  intros H. injection H as <- <-. exists l. split; reflexivity.
Qed.
Lemma inbox_all_pop (M : msg -> Prop) pr from rest_ :
  (forall m, m ∈ rest_ -> M m) -> inbox_all M pr ->
  inbox_all M (pr <| n_inbox := <[from := rest_]> (n_inbox pr) |>).
Proof.
  intros Hr H s l m Hl Hin. simpl in Hl. destruct (decide (s = from)) as [->|Hne].
  - rewrite lookup_insert in Hl. injection Hl as <-. apply Hr. exact Hin.
  - rewrite lookup_insert_ne in Hl by congruence. eapply H; [exact Hl|exact Hin].
Qed.

Lemma server_poll_inv (I : peer_state -> Prop) (M : msg -> Prop) pr k froms :
  (forall a, I a -> inbox_all M a) ->
  (forall a from m rest_, I a -> n_inbox a !! from = Some (m :: rest_) ->
                          I (a <| n_inbox := <[from := rest_]> (n_inbox a) |>)) ->
  (forall a from m, I a -> M m -> I (server_received a k from m)) ->
  I pr -> I (server_poll pr k froms).
Proof.
  intros HM Hpop Hrecv HI. unfold server_poll. apply (foldl_inv I); [exact HI|].
  intros a from _ Ha. destruct (pop_inbox a from) as [[m a']|] eqn:E; [|exact Ha].
  apply pop_inbox_spec in E as [rest_ [Hl ->]].
  apply Hrecv; [eapply Hpop; [exact Ha|exact Hl]|].
  eapply HM; [exact Ha|exact Hl|left].
Qed.
Lemma client_poll_inv (I : peer_state -> Prop) (M : msg -> Prop) pr k host n :
  (forall a, I a -> inbox_all M a) ->
  (forall a from m rest_, I a -> n_inbox a !! from = Some (m :: rest_) ->
                          I (a <| n_inbox := <[from := rest_]> (n_inbox a) |>)) ->
  (forall a m, I a -> M m -> I (client_received a k m)) ->
  I pr -> I (client_poll pr k host n).
Proof.
  intros HM Hpop Hrecv HI. unfold client_poll. apply (foldl_inv I); [exact HI|].
  intros a x _ Ha. destruct (pop_inbox a host) as [[m a']|] eqn:E; [|exact Ha].
  apply pop_inbox_spec in E as [rest_ [Hl ->]].
  apply Hrecv; [eapply Hpop; [exact Ha|exact Hl]|].
  eapply HM; [exact Ha|exact Hl|left].
Qed.

(* ---------- run_body, run_system, frame: generic preservation ------------------------------------------- *)

Definition sys_body (pr : peer_state) (s : sysid) (o : frame_oracle) (k : N) (last : tick) : peer_state :=
  match s with
  | SFixVisibility => fix_system pr k last T_VISIBILITY [T_VIEWVIS; T_INHERITEDVIS] [T_VIEWVIS; T_INHERITEDVIS]
  | SFixGlobalTransform => fix_system pr k last T_TRANSFORM [T_GLOBALTRANSFORM] [T_GLOBALTRANSFORM]
  | SFixCubemapFrusta => fix_system pr k last T_POINTLIGHT [T_CUBEMAPFRUSTA] [T_CUBEMAPFRUSTA]
  | SFixCubemapVisible => fix_system pr k last T_POINTLIGHT [T_CUBEMAPVISIBLE] [T_CUBEMAPVISIBLE]
  | SFixSpotFrustum => fix_system pr k last T_SPOTLIGHT [T_FRUSTUM] [T_FRUSTUM]
  | SFixCascadesFrusta => fix_system pr k last T_DIRLIGHT [T_CASCADESFRUSTA] [T_CASCADESFRUSTA]
  | SFixCascadesVisible => fix_system pr k last T_DIRLIGHT [T_CASCADESVISIBLE] [T_CASCADESVISIBLE]
  | SFixCascades => fix_system pr k last T_DIRLIGHT [T_CASCADES] [T_CASCADES]
  | SFixCascadeShadowCfg => fix_system pr k last T_DIRLIGHT [T_CASCADESHADOWCFG] [T_CASCADESHADOWCFG]
  | SSrvConnected => pr <| s_next_server := Some SrvConnected |> <| p_finished_events := p_finished_events pr + 1 |>
  | SSrvDisconnected => pr <| s_next_server := Some SrvDisconnected |>
  | SSrvRemoved => entity_removed_server pr
  | SSrvCreated => entity_created true pr k last
  | SSrvParented => entity_parented_server pr last
  | SSrvReact => react_on_changed_components true pr
  | SSrvMat => react_on_changed_assets true KMaterial pr
  | SSrvImg => react_on_changed_assets true (KClass AImage) pr
  | SSrvMesh => react_on_changed_assets true (KClass AMesh) pr
  | SSrvAudio => react_on_changed_assets true (KClass AAudio) pr
  | SSrvPromote => promote_reader pr
  | SSrvClientConnected => client_connected pr k
  | SSrvPoll => server_poll pr k (fo_srv_poll o)
  | SCliConnecting => pr <| s_next_client := Some CliConnecting |>
  | SCliVerify => verify_client_connected pr k
  | SCliDisconnected => pr <| s_next_client := Some CliDisconnected |>
  | SCliRemoved => entity_removed_client pr
  | SCliCreated => entity_created false pr k last
  | SCliParented => entity_parented_client pr last
  | SCliReact => react_on_changed_components false pr
  | SCliMat => react_on_changed_assets false KMaterial pr
  | SCliImg => react_on_changed_assets false (KClass AImage) pr
  | SCliMesh => react_on_changed_assets false (KClass AMesh) pr
  | SCliAudio => react_on_changed_assets false (KClass AAudio) pr
  | SCliPoll => match n_cli_transport pr with
                | Some (h, _) => client_poll pr k h (fo_cli_poll o)
                | None => pr
                end
  | SProcMesh => process_assets pr AMesh (fo_downloads o)
  | SProcImage => process_assets pr AImage (fo_downloads o)
  | SProcAudio => process_assets pr AAudio (fo_downloads o)
  | SDetect t => sync_detect pr t last
  | SSync => pr
  | SApp n =>
      let mine := filter (fun x : N * cmd => x.1 =? n) (p_app_cmds pr) in
      let pr := pr <| p_app_cmds := filter (fun x : N * cmd => negb (x.1 =? n)) (p_app_cmds pr) |> in
      foldl (fun pr x => push_cmd pr k x.2) pr mine
  end.

Lemma run_body_eq pr s o :
  run_body pr s o =
  let k := sys_key s in
  let pr1 := pr <| p_tick := p_tick pr + 1 |> in
  end_run (sys_body pr1 s o k (last_run pr1 k)) k (p_tick pr).
Proof. destruct s; reflexivity. Qed.

(* an invariant that only looks at the fields of `core` and at the outbox *)
Definition respects_core (I : peer_state -> Prop) : Prop :=
  forall pr pr', core pr' = core pr -> p_out pr' = p_out pr -> I pr -> I pr'.

Lemma run_body_inv (I : peer_state -> Prop) :
  respects_core I ->
  (forall pr s o k last, I pr -> I (sys_body pr s o k last)) ->
  forall pr s o, I pr -> I (run_body pr s o).
Proof.
  intros Hext Hsys pr s o HI. rewrite run_body_eq. cbv zeta. unfold end_run.
  eapply Hext; [| |apply Hsys; eapply Hext; [| |exact HI]]; reflexivity.
Qed.

Lemma cond_added_core pr k a : core (cond_resource_added pr k a).1 = core pr.
Proof. reflexivity. Qed.
Lemma cond_added_out pr k a : p_out (cond_resource_added pr k a).1 = p_out pr.
Proof. reflexivity. Qed.
Lemma cond_removed_core pr k b : core (cond_resource_removed pr k b).1 = core pr.
Proof. unfold cond_resource_removed. destruct b; [reflexivity|]. destruct (default false _); reflexivity. Qed.
Lemma cond_removed_out pr k b : p_out (cond_resource_removed pr k b).1 = p_out pr.
Proof. unfold cond_resource_removed. destruct b; [reflexivity|]. destruct (default false _); reflexivity. Qed.

Lemma run_system_inv (I : peer_state -> Prop) :
  respects_core I ->
  (forall pr, I pr -> p_panic pr = None -> I (flush pr)) ->
  (forall pr s o, I pr -> I (run_body pr s o)) ->
  forall pr s o, I pr -> I (run_system pr s o).
Proof.
  intros Hext Hflush Hbody pr s o HI. unfold run_system.
  destruct (p_panic pr) eqn:Ep; [exact HI|]. cbv zeta.
  assert (Hadd : forall k a (b : peer_state -> bool),
             I (let '(pr0, added) := cond_resource_added pr k a in
                if b pr0 && added then run_body pr0 s o else pr0)).
  { intros k a b. destruct (cond_resource_added pr k a) as [pr0 added] eqn:E.
    assert (HI0 : I pr0).
    { eapply Hext; [| |exact HI].
      - rewrite <- (cond_added_core pr k a), E. reflexivity.
      - rewrite <- (cond_added_out pr k a), E. reflexivity. }
    destruct (b pr0 && added); [apply Hbody|]; exact HI0. }
  assert (Hrem : forall k a (b : peer_state -> bool),
             I (let '(pr0, removed) := cond_resource_removed pr k a in
                if b pr0 && removed then run_body pr0 s o else pr0)).
  { intros k a b. destruct (cond_resource_removed pr k a) as [pr0 removed] eqn:E.
    assert (HI0 : I pr0).
    { eapply Hext; [| |exact HI].
      - rewrite <- (cond_removed_core pr k a), E. reflexivity.
      - rewrite <- (cond_removed_out pr k a), E. reflexivity. }
    destruct (b pr0 && removed); [apply Hbody|]; exact HI0. }
  destruct s; try (apply Hbody; exact HI);
    try (match goal with |- I (if ?b then _ else _) => destruct b; [apply Hbody|]; exact HI end).
  - apply (Hadd _ _ (fun pr0 => n_setup pr0 && negb (is_srv_connected (s_server pr0)))).
  - apply (Hrem _ _ (fun pr0 => n_setup pr0 && is_srv_connected (s_server pr0))).
  - apply (Hadd _ _ (fun pr0 => n_setup pr0 && is_cli_disconnected (s_client pr0))).
  - apply (Hrem _ _ (fun pr0 => n_setup pr0 && negb (is_cli_disconnected (s_client pr0)))).
  - apply Hflush; assumption.
Qed.

Lemma pre_update_core pr o : core (pre_update pr o) = core pr.
Proof. unfold pre_update. destruct (fo_status o); reflexivity. Qed.
Lemma pre_update_out pr o : p_out (pre_update pr o) = p_out pr.
Proof. unfold pre_update. destruct (fo_status o); reflexivity. Qed.

Lemma state_transition_inv (I : peer_state -> Prop) pr :
  respects_core I ->
  (forall a h, I a -> I (send_up a (MNewHost h))) ->
  I pr -> I (state_transition pr).
Proof.
  intros Hext Hsend HI. unfold state_transition.
  set (pr1 := match s_next_client pr with
              | Some st => pr <| s_client := st |> <| s_next_client := None |>
              | None => pr end).
  assert (H1 : I pr1).
  { subst pr1. destruct (s_next_client pr); [|exact HI]. eapply Hext; [| |exact HI]; reflexivity. }
  clearbody pr1. destruct (s_next_server pr1) as [st|]; [|exact H1]. cbv zeta.
  assert (H2 : I (pr1 <| s_server := st |> <| s_next_server := None |>)).
  { eapply Hext; [| |exact H1]; reflexivity. }
  destruct (_ && _); [apply Hsend|]; exact H2.
Qed.

Lemma frame_inv (I : peer_state -> Prop) :
  respects_core I ->
  (forall pr, I pr -> I (pr <| p_out := [] |>)) ->
  (forall a h, I a -> I (send_up a (MNewHost h))) ->
  (forall pr, I pr -> p_panic pr = None -> I (flush pr)) ->
  (forall pr s o k last, I pr -> I (sys_body pr s o k last)) ->
  forall pr o, I pr -> I (frame pr o).
Proof.
  intros Hext Hreset Hsend Hflush Hsys pr o HI. unfold frame.
  destruct (p_panic pr) eqn:Ep; [exact HI|]. cbv zeta.
  assert (H1 : I (state_transition (pre_update (pr <| p_out := [] |>) o))).
  { apply state_transition_inv; [exact Hext|exact Hsend|].
    eapply Hext; [apply pre_update_core|apply pre_update_out|]. apply Hreset. exact HI. }
  set (pr1 := state_transition (pre_update (pr <| p_out := [] |>) o)) in *. clearbody pr1.
  assert (H2 : I (foldl (fun pr0 s => run_system pr0 s o) pr1 (p_order pr1))).
  { apply (foldl_inv I); [exact H1|]. intros a s _ Ha.
    apply run_system_inv; [exact Hext|exact Hflush| |exact Ha].
    apply run_body_inv; [exact Hext|exact Hsys]. }
  set (pr2 := foldl (fun pr0 s => run_system pr0 s o) pr1 (p_order pr1)) in *. clearbody pr2.
  assert (H3 : I (match p_panic pr2 with Some _ => pr2 | None => flush pr2 end)).
  { destruct (p_panic pr2) eqn:E2; [exact H2|]. apply Hflush; assumption. }
  eapply Hext; [| |exact H3]; reflexivity.
Qed.

(* a panicked peer is frozen: the flag is the only thing that stops a frame *)
Lemma frame_panicked pr o s : p_panic pr = Some s -> frame pr o = pr.
Proof. intros H. unfold frame. rewrite H. reflexivity. Qed.
Lemma run_system_panicked pr s o x : p_panic pr = Some x -> run_system pr s o = pr.
Proof. intros H. unfold run_system. rewrite H. reflexivity. Qed.

(* ---------- no system of a frame changes the panic flag or the entities ---------------------------------- *)

Definition pe (pr : peer_state) := (p_panic pr, p_ents pr).
Lemma pe_inv pr pr' : pe pr' = pe pr -> p_panic pr' = p_panic pr /\ p_ents pr' = p_ents pr.
Proof. unfold pe. intros H. split; [exact (f_equal fst H)|exact (f_equal snd H)]. Qed.
Lemma core_pe pr pr' : core pr' = core pr -> pe pr' = pe pr.
Proof. intros H. unfold pe. rewrite (core_panic _ _ H), (core_ents _ _ H). reflexivity. Qed.
Lemma nocmdq_pe pr pr' : nocmdq pr' = nocmdq pr -> pe pr' = pe pr.
Proof. intros H. apply nocmdq_inv in H as (H1 & H2 & _). unfold pe. rewrite H1, H2. reflexivity. Qed.
Lemma nou2e_pe pr pr' : nou2e pr' = nou2e pr -> pe pr' = pe pr.
Proof. intros H. apply nou2e_inv in H as (H1 & H2 & _). unfold pe. rewrite H1, H2. reflexivity. Qed.
Lemma fixed_pe pr pr' : fixed pr' = fixed pr -> pe pr' = pe pr.
Proof. intros H. apply fixed_inv in H as (H1 & H2 & _). unfold pe. rewrite H1, H2. reflexivity. Qed.
Lemma pollfixed_pe pr pr' : pollfixed pr' = pollfixed pr -> pe pr' = pe pr.
Proof. intros H. apply pollfixed_inv in H as (H1 & H2 & _). unfold pe. rewrite H1, H2. reflexivity. Qed.

Lemma sys_body_pe pr s o k last : pe (sys_body pr s o k last) = pe pr.
Proof.
  destruct s; simpl;
    try reflexivity;
    try (apply nocmdq_pe, fix_system_nocmdq);
    try (apply core_pe; first [apply react_assets_core|apply process_assets_core]).
  - apply nou2e_pe, entity_removed_server_nou2e.
  - apply fixed_pe, entity_created_fixed.
  - apply core_pe, entity_parented_server_core.
  - apply core_pe, react_components_core.
  - apply core_pe, promote_reader_core.
  - apply nocmdq_pe, client_connected_nocmdq.
  - apply (server_poll_inv (fun a => pe a = pe pr) (fun _ => True)); try reflexivity.
    + intros a _ ? ? ? _ _. exact I.
    + intros a from m rest_ Ha _. exact Ha.
    + intros a from m Ha _. rewrite (pollfixed_pe _ _ (server_received_pollfixed _ _ _ _)). exact Ha.
  - apply nocmdq_pe, verify_nocmdq.
  - apply nou2e_pe, entity_removed_client_nou2e.
  - apply fixed_pe, entity_created_fixed.
  - apply core_pe, entity_parented_client_core.
  - apply core_pe, react_components_core.
  - destruct (n_cli_transport pr) as [[h t]|]; [|reflexivity].
    apply (client_poll_inv (fun a => pe a = pe pr) (fun _ => True)); try reflexivity.
    + intros a _ ? ? ? _ _. exact I.
    + intros a from m rest_ Ha _. exact Ha.
    + intros a m Ha _. rewrite (pollfixed_pe _ _ (client_received_pollfixed _ _ _)). exact Ha.
  - apply core_pe, sync_detect_core.
  - apply (foldl_inv (fun a => pe a = pe pr)); [reflexivity|]. intros a x _ Ha. exact Ha.
Qed.

Lemma run_body_pe pr s o : pe (run_body pr s o) = pe pr.
Proof. rewrite run_body_eq. cbv zeta. unfold end_run. change (pe (sys_body (pr <| p_tick := p_tick pr + 1 |>) s o (sys_key s) (last_run (pr <| p_tick := p_tick pr + 1 |>) (sys_key s))) = pe pr). rewrite sys_body_pe. reflexivity. Qed.

(* the command queue and tracker part of the invariants, parametrised by the commands P and the
   messages M that are allowed; with_u2e adds the conditions on uuid_to_entity *)
Section GI.
  Variables (with_u2e : bool) (P : cmd -> Prop) (M : msg -> Prop).
  Definition GS (pr : peer_state) : Prop := if with_u2e then u2e_ok pr else True.
  Definition GI (pr : peer_state) : Prop :=
    cmdq_all P pr /\ app_all P pr /\ inbox_all M pr /\ GS pr.

  Hypothesis Hb : forall c, benign c -> P c.
  Hypothesis Hsrv : forall from cu pu, M (MParented cu pu) -> P (CSetParentSrv from cu pu).
  Hypothesis Hcli : forall pr cu pu ce pe, GS pr -> M (MParented cu pu) ->
    t_u2e pr !! cu = Some ce -> t_u2e pr !! pu = Some pe -> P (CSetParentCli ce pe).

  Lemma GS_ext pr pr' :
    t_u2e pr' = t_u2e pr -> p_next_ent pr' = p_next_ent pr -> p_ents pr' = p_ents pr -> GS pr -> GS pr'.
  Proof. unfold GS. destruct with_u2e; [apply u2e_ok_ext|auto]. Qed.

  Lemma GI_core pr pr' : core pr' = core pr -> GI pr -> GI pr'.
  Proof.
    intros H (H1 & H2 & H3 & H4). repeat split.
    - eapply cmdq_all_ext; [apply (core_cmdq _ _ H)|exact H1].
    - eapply app_all_ext; [apply (core_app _ _ H)|exact H2].
    - eapply inbox_all_ext; [apply (core_inbox _ _ H)|exact H3].
    - eapply GS_ext; [apply (core_u2e _ _ H)|apply (core_next _ _ H)|apply (core_ents _ _ H)|exact H4].
  Qed.

  Lemma GI_nocmdq pr pr' : nocmdq pr' = nocmdq pr -> cmdq_all P pr' -> GI pr -> GI pr'.
  Proof.
    intros H Hq (H1 & H2 & H3 & H4). apply nocmdq_inv in H as (_ & He & Ha & Hu & Hi & Hn).
    repeat split.
    - exact Hq.
    - eapply app_all_ext; [exact Ha|exact H2].
    - eapply inbox_all_ext; [exact Hi|exact H3].
    - eapply GS_ext; [exact Hu|exact Hn|exact He|exact H4].
  Qed.

  Lemma GI_sub pr pr' : nou2e pr' = nou2e pr -> u2e_sub pr pr' -> GI pr -> GI pr'.
  Proof.
    intros H Hs (H1 & H2 & H3 & H4).
    pose proof (nou2e_inv _ _ H) as (_ & He & Ha & Hi & Hn & Hq).
    repeat split.
    - eapply cmdq_all_ext; [exact Hq|exact H1].
    - eapply app_all_ext; [exact Ha|exact H2].
    - eapply inbox_all_ext; [exact Hi|exact H3].
    - unfold GS in H4 |- *. destruct with_u2e; [|exact I]. eapply u2e_ok_of_sub; eassumption.
  Qed.

  Lemma GI_created server pr k last : GI pr -> GI (entity_created server pr k last).
  Proof.
    intros (H1 & H2 & H3 & H4).
    pose proof (fixed_inv _ _ (entity_created_fixed server pr k last)) as (_ & He & Ha & Hi & Hn).
    repeat split.
    - apply entity_created_cmdq; assumption.
    - eapply app_all_ext; [exact Ha|exact H2].
    - eapply inbox_all_ext; [exact Hi|exact H3].
    - unfold GS in H4 |- *. destruct with_u2e; [|exact I]. apply entity_created_u2e_ok. exact H4.
  Qed.

  Lemma GI_pop pr from m rest_ :
    GI pr -> n_inbox pr !! from = Some (m :: rest_) ->
    GI (pr <| n_inbox := <[from := rest_]> (n_inbox pr) |>).
  Proof.
    intros (H1 & H2 & H3 & H4) Hl. repeat split; [exact H1|exact H2| |exact H4].
    apply inbox_all_pop; [|exact H3]. intros m' Hm'. eapply H3; [exact Hl|right; exact Hm'].
  Qed.

  Lemma GI_client_received pr k m : GI pr -> M m -> GI (client_received pr k m).
  Proof.
    intros (H1 & H2 & H3 & H4) Hm.
    pose proof (pollfixed_inv _ _ (client_received_pollfixed pr k m)) as (_ & He & Ha & Hi).
    repeat split.
    - apply client_received_cmdq; [|exact H1].
      intros c [Hc|(cu & pu & ce & pe' & -> & Hcu & Hpu & ->)]; [apply Hb; exact Hc|].
      eapply Hcli; eassumption.
    - eapply app_all_ext; [exact Ha|exact H2].
    - eapply inbox_all_ext; [exact Hi|exact H3].
    - unfold GS in H4 |- *. destruct with_u2e; [|exact I]. apply client_received_u2e_ok. exact H4.
  Qed.

  Lemma GI_server_received pr k from m : GI pr -> M m -> GI (server_received pr k from m).
  Proof.
    intros (H1 & H2 & H3 & H4) Hm.
    pose proof (pollfixed_inv _ _ (server_received_pollfixed pr k from m)) as (_ & He & Ha & Hi).
    repeat split.
    - apply server_received_cmdq; [|exact H1].
      intros c [Hc|(cu & pu & -> & ->)]; [apply Hb; exact Hc|]. apply Hsrv. exact Hm.
    - eapply app_all_ext; [exact Ha|exact H2].
    - eapply inbox_all_ext; [exact Hi|exact H3].
    - unfold GS in H4 |- *. destruct with_u2e; [|exact I]. apply server_received_u2e_ok. exact H4.
  Qed.

  Lemma GI_app pr k n :
    GI pr ->
    GI (foldl (fun a x => push_cmd a k x.2)
              (pr <| p_app_cmds := filter (fun x : N * cmd => negb (x.1 =? n)) (p_app_cmds pr) |>)
              (filter (fun x : N * cmd => x.1 =? n) (p_app_cmds pr))).
  Proof.
    intros (H1 & H2 & H3 & H4).
    set (pr0 := pr <| p_app_cmds := filter (fun x : N * cmd => negb (x.1 =? n)) (p_app_cmds pr) |>).
    assert (H0 : GI pr0).
    { repeat split; [exact H1| |exact H3|exact H4].
      intros x Hx. subst pr0. simpl in Hx. apply elem_of_list_filter in Hx as [_ Hx]. apply H2. exact Hx. }
    apply (foldl_inv GI); [exact H0|].
    intros a x Hx (A1 & A2 & A3 & A4). repeat split; [|exact A2|exact A3|exact A4].
    apply push_cmd_all; [exact A1|]. apply elem_of_list_filter in Hx as [_ Hx]. apply H2. exact Hx.
  Qed.

  Lemma sys_body_GI pr s o k last : GI pr -> GI (sys_body pr s o k last).
  Proof.
    intros HI.
    assert (Hfix : forall trig wo comps, GI (fix_system pr k last trig wo comps)).
    { intros trig wo comps. eapply GI_nocmdq; [apply fix_system_nocmdq| |exact HI].
      apply fix_system_cmdq; [exact Hb|apply HI]. }
    destruct s; simpl; try apply Hfix;
      try (eapply GI_core; [|exact HI]; first [reflexivity|apply react_assets_core|apply process_assets_core]).
    - eapply GI_sub; [apply entity_removed_server_nou2e|apply entity_removed_server_sub|exact HI].
    - apply GI_created. exact HI.
    - eapply GI_core; [apply entity_parented_server_core|exact HI].
    - eapply GI_core; [apply react_components_core|exact HI].
    - eapply GI_core; [apply promote_reader_core|exact HI].
    - eapply GI_nocmdq; [apply client_connected_nocmdq| |exact HI].
      apply client_connected_cmdq; [exact Hb|apply HI].
    - apply (server_poll_inv GI M); [intros a Ha; apply Ha| | |exact HI].
      + intros a from m rest_ Ha Hl. eapply GI_pop; eassumption.
      + intros a from m Ha Hm. apply GI_server_received; assumption.
    - eapply GI_nocmdq; [apply verify_nocmdq| |exact HI].
      apply verify_cmdq; [exact Hb|apply HI].
    - eapply GI_sub; [apply entity_removed_client_nou2e|apply entity_removed_client_sub|exact HI].
    - apply GI_created. exact HI.
    - eapply GI_core; [apply entity_parented_client_core|exact HI].
    - eapply GI_core; [apply react_components_core|exact HI].
    - destruct (n_cli_transport pr) as [[h t]|]; [|exact HI].
      apply (client_poll_inv GI M); [intros a Ha; apply Ha| | |exact HI].
      + intros a from m rest_ Ha Hl. eapply GI_pop; eassumption.
      + intros a m Ha Hm. apply GI_client_received; assumption.
    - eapply GI_core; [apply sync_detect_core|exact HI].
    - apply GI_app. exact HI.
  Qed.

  (* deferred commands leave this part alone, except for the marks (which they can only clear) *)
  Lemma GI_apply_cmd pr c : GI pr -> GI (apply_cmd pr c).
  Proof.
    intros (H1 & H2 & H3 & H4).
    pose proof (rest_inv _ _ (apply_cmd_rest pr c)) as (Ha & Hu & Hi & Hn & Hq).
    repeat split.
    - eapply cmdq_all_ext; [exact Hq|exact H1].
    - eapply app_all_ext; [exact Ha|exact H2].
    - eapply inbox_all_ext; [exact Hi|exact H3].
    - unfold GS in H4 |- *. destruct with_u2e; [|exact I].
      unfold u2e_ok. rewrite Hu, Hn. eapply u2e_ok_ents; [|exact H4].
      destruct H4 as (_ & _ & _ & U4).
      apply (apply_cmd_ents_all mark_ok pr c); [| | | |exact U4].
      + intros e u t Hm. simpl in Hm. contradiction.
      + intros e en now t v Hen. unfold mark_ok, put_comp in *. destruct (en_comps en !! t); exact Hen.
      + intros e en u t _ Hm. simpl in Hm. contradiction.
      + intros _ e en p cs Hen. split; exact Hen.
  Qed.

  Lemma GI_delete pr k : GI pr -> GI (pr <| p_cmdq := delete k (p_cmdq pr) |>).
  Proof.
    intros (H1 & H2 & H3 & H4). repeat split; [|exact H2|exact H3|exact H4].
    apply cmdq_all_delete. exact H1.
  Qed.
End GI.

(* no system originates a parent link unless some live entity has a Parent *)
Lemma sys_body_out_np pr s o k last :
  ents_all no_parent pr -> out_all not_parented pr -> out_all not_parented (sys_body pr s o k last).
Proof.
  intros Hnp H.
  destruct s; simpl;
    try exact H;
    try (eapply out_all_ext; [apply fix_system_out|exact H]);
    try (apply react_assets_out_np; exact H);
    try (eapply out_all_ext; [apply process_assets_out|exact H]).
  - apply entity_removed_server_out_np. exact H.
  - apply entity_created_out_np. exact H.
  - apply entity_parented_server_out_np; assumption.
  - apply react_components_out_np. exact H.
  - apply promote_reader_out_np. exact H.
  - eapply out_all_ext; [apply client_connected_out|exact H].
  - apply (server_poll_inv (out_all not_parented) (fun _ => True)); [| | |exact H].
    + intros a _ ? ? ? _ _. exact I.
    + intros a from m rest_ Ha _. exact Ha.
    + intros a from m Ha _. apply server_received_out_np. exact Ha.
  - eapply out_all_ext; [apply verify_out|exact H].
  - apply entity_removed_client_out_np. exact H.
  - apply entity_created_out_np. exact H.
  - apply entity_parented_client_out_np; assumption.
  - apply react_components_out_np. exact H.
  - destruct (n_cli_transport pr) as [[h t]|]; [|exact H].
    apply (client_poll_inv (out_all not_parented) (fun _ => True)); [| | |exact H].
    + intros a _ ? ? ? _ _. exact I.
    + intros a from m rest_ Ha _. exact Ha.
    + intros a m Ha _. eapply out_all_ext; [apply client_received_out|exact Ha].
  - eapply out_all_ext; [apply sync_detect_out|exact H].
  - apply foldl_out_all; [|exact H]. intros a x _ Ha. exact Ha.
Qed.
