(* Local lemmas for property C08 (no panic): projections of the model's primitives, exact panic
   conditions of add_child / apply_cmd / app_step, and generic preservation lemmas for the
   systems of a frame.  Used by Panic.v. *)
From stdpp Require Import gmap list.
From Coq Require Import NArith Lia.
From RecordUpdate Require Import RecordSet.
From BS Require Import Sync.Types Sync.Model Sync.Observe.
Import RecordSetNotations.
Local Open Scope N_scope.

(* ---------- generic ------------------------------------------------------------------------ *)

Lemma foldl_inv {A B} (P : A -> Prop) (f : A -> B -> A) (l : list B) (a : A) :
  P a -> (forall a x, x ∈ l -> P a -> P (f a x)) -> P (foldl f a l).
Proof.
  revert a. induction l as [|x l IH]; intros a Ha Hf; simpl; [exact Ha|].
  apply IH.
  - apply Hf; [left|exact Ha].
  - intros a' y Hy Ha'. apply Hf; [right; exact Hy|exact Ha'].
Qed.

Lemma elem_of_concat {A} (x : A) (ls : list (list A)) :
  x ∈ concat ls -> exists l, x ∈ l /\ l ∈ ls.
Proof.
  induction ls as [|l ls IH]; simpl; intros H; [inversion H|].
  apply elem_of_app in H as [H|H].
  - exists l. split; [exact H|left].
  - destruct (IH H) as [l' [H1 H2]]. exists l'. split; [exact H1|right; exact H2].
Qed.

(* ---------- views of a peer state ---------------------------------------------------------- *)

(* fields no deferred command ever writes *)
Definition rest (pr : peer_state) :=
  (p_app_cmds pr, t_u2e pr, n_inbox pr, p_next_ent pr, p_cmdq pr, t_e2u pr).
(* everything the panic analysis looks at, except the outbox *)
Definition core (pr : peer_state) := (p_panic pr, p_ents pr, rest pr).

Lemma rest_inv pr pr' : rest pr' = rest pr ->
  p_app_cmds pr' = p_app_cmds pr /\ t_u2e pr' = t_u2e pr /\ n_inbox pr' = n_inbox pr /\
  p_next_ent pr' = p_next_ent pr /\ p_cmdq pr' = p_cmdq pr.
Proof.
  unfold rest. intros H.
  repeat split.
  - exact (f_equal (fun x => x.1.1.1.1.1) H).
  - exact (f_equal (fun x => x.1.1.1.1.2) H).
  - exact (f_equal (fun x => x.1.1.1.2) H).
  - exact (f_equal (fun x => x.1.1.2) H).
  - exact (f_equal (fun x => x.1.2) H).
Qed.
Lemma rest_e2u pr pr' : rest pr' = rest pr -> t_e2u pr' = t_e2u pr.
Proof. unfold rest. intros H. exact (f_equal (fun x => x.2) H). Qed.

Lemma core_inv pr pr' : core pr' = core pr ->
  p_panic pr' = p_panic pr /\ p_ents pr' = p_ents pr /\ rest pr' = rest pr.
Proof.
  unfold core. intros H.
  repeat split.
  - exact (f_equal (fun x => x.1.1) H).
  - exact (f_equal (fun x => x.1.2) H).
  - exact (f_equal (fun x => x.2) H).
Qed.

Lemma core_intro pr pr' :
  p_panic pr' = p_panic pr -> p_ents pr' = p_ents pr -> rest pr' = rest pr -> core pr' = core pr.
Proof. unfold core. intros -> -> ->. reflexivity. Qed.

Definition cmdq_all (P : cmd -> Prop) (pr : peer_state) : Prop :=
  forall k cs c, p_cmdq pr !! k = Some cs -> c ∈ cs -> P c.
Definition app_all (P : cmd -> Prop) (pr : peer_state) : Prop :=
  forall x, x ∈ p_app_cmds pr -> P x.2.
Definition inbox_all (M : msg -> Prop) (pr : peer_state) : Prop :=
  forall s l m, n_inbox pr !! s = Some l -> m ∈ l -> M m.
Definition out_all (M : msg -> Prop) (pr : peer_state) : Prop :=
  forall d m, (d, m) ∈ p_out pr -> M m.
Definition ents_all (Q : ent -> entity -> Prop) (pr : peer_state) : Prop :=
  forall e en, p_ents pr !! e = Some en -> Q e en.

Lemma cmdq_all_ext P pr pr' : p_cmdq pr' = p_cmdq pr -> cmdq_all P pr -> cmdq_all P pr'.
Proof. unfold cmdq_all. intros ->. auto. Qed.
Lemma app_all_ext P pr pr' : p_app_cmds pr' = p_app_cmds pr -> app_all P pr -> app_all P pr'.
Proof. unfold app_all. intros ->. auto. Qed.
Lemma inbox_all_ext M pr pr' : n_inbox pr' = n_inbox pr -> inbox_all M pr -> inbox_all M pr'.
Proof. unfold inbox_all. intros ->. auto. Qed.
Lemma out_all_ext M pr pr' : p_out pr' = p_out pr -> out_all M pr -> out_all M pr'.
Proof. unfold out_all. intros ->. auto. Qed.
Lemma ents_all_ext (Q : ent -> entity -> Prop) pr pr' : p_ents pr' = p_ents pr -> ents_all Q pr -> ents_all Q pr'.
Proof. unfold ents_all. intros ->. auto. Qed.

(* ---------- primitives --------------------------------------------------------------------- *)

Lemma send_core pr d m : core (send pr d m) = core pr.
Proof. reflexivity. Qed.
Lemma send_all_core pr ds m : core (send_all pr ds m) = core pr.
Proof.
  unfold send_all. apply (foldl_inv (fun a => core a = core pr)); [reflexivity|].
  intros a x _ Ha. rewrite send_core. exact Ha.
Qed.
Lemma broadcast_core pr m : core (broadcast pr m) = core pr.
Proof. apply send_all_core. Qed.
Lemma relay_except_core pr from m : core (relay_except pr from m) = core pr.
Proof. apply send_all_core. Qed.
Lemma send_up_core pr m : core (send_up pr m) = core pr.
Proof. unfold send_up. destruct (n_cli_transport pr) as [[h t]|]; reflexivity. Qed.

Lemma send_out_all M pr d m : out_all M pr -> M m -> out_all M (send pr d m).
Proof.
  intros H Hm d' m' Hin. unfold send in Hin. simpl in Hin.
  apply elem_of_app in Hin as [Hin|Hin]; [eapply H; exact Hin|].
  apply elem_of_list_singleton in Hin. injection Hin as _ ->. exact Hm.
Qed.
Lemma send_all_out_all M pr ds m : out_all M pr -> M m -> out_all M (send_all pr ds m).
Proof.
  intros H Hm. unfold send_all. apply (foldl_inv (out_all M)); [exact H|].
  intros a x _ Ha. apply send_out_all; assumption.
Qed.
Lemma broadcast_out_all M pr m : out_all M pr -> M m -> out_all M (broadcast pr m).
Proof. apply send_all_out_all. Qed.
Lemma relay_except_out_all M pr from m : out_all M pr -> M m -> out_all M (relay_except pr from m).
Proof. apply send_all_out_all. Qed.
Lemma send_up_out_all M pr m : out_all M pr -> M m -> out_all M (send_up pr m).
Proof.
  intros H Hm. unfold send_up. destruct (n_cli_transport pr) as [[h t]|]; [|exact H].
  apply send_out_all; assumption.
Qed.

Lemma push_cmd_panic pr k c : p_panic (push_cmd pr k c) = p_panic pr.
Proof. reflexivity. Qed.
Lemma push_cmd_ents pr k c : p_ents (push_cmd pr k c) = p_ents pr.
Proof. reflexivity. Qed.
Lemma push_cmd_out pr k c : p_out (push_cmd pr k c) = p_out pr.
Proof. reflexivity. Qed.
Lemma push_cmd_all P pr k c : cmdq_all P pr -> P c -> cmdq_all P (push_cmd pr k c).
Proof.
  intros H Hc k' cs c' Hl Hin. unfold push_cmd in Hl. simpl in Hl.
  destruct (decide (k' = k)) as [->|Hne].
  - rewrite lookup_insert in Hl. injection Hl as <-. apply elem_of_app in Hin as [Hin|Hin].
    + destruct (p_cmdq pr !! k) as [cs0|] eqn:E; simpl in Hin.
      * eapply H; [exact E|exact Hin].
      * inversion Hin.
    + apply elem_of_list_singleton in Hin as ->. exact Hc.
  - rewrite lookup_insert_ne in Hl by congruence. eapply H; [exact Hl|exact Hin].
Qed.

Definition cmdq_all_ (P : cmd -> Prop) (q : gmap N (list cmd)) : Prop :=
  forall k cs c, q !! k = Some cs -> c ∈ cs -> P c.
Lemma cmdq_all_intro P pr q : p_cmdq pr = q -> cmdq_all_ P q -> cmdq_all P pr.
Proof. intros <- H. exact H. Qed.
Lemma cmdq_push_ P q k c :
  cmdq_all_ P q -> P c -> cmdq_all_ P (<[k := default [] (q !! k) ++ [c]]> q).
Proof.
  intros H Hc k' cs c' Hl Hin.
  destruct (decide (k' = k)) as [->|Hne].
  - rewrite lookup_insert in Hl. injection Hl as <-. apply elem_of_app in Hin as [Hin|Hin].
    + destruct (q !! k) as [cs0|] eqn:E; simpl in Hin.
      * eapply H; [exact E|exact Hin].
      * inversion Hin.
    + apply elem_of_list_singleton in Hin as ->. exact Hc.
  - rewrite lookup_insert_ne in Hl by congruence. eapply H; [exact Hl|exact Hin].
Qed.

Lemma upd_ent_panic pr e f : p_panic (upd_ent pr e f) = p_panic pr.
Proof. unfold upd_ent. destruct (p_ents pr !! e); reflexivity. Qed.
Lemma upd_ent_rest pr e f : rest (upd_ent pr e f) = rest pr.
Proof. unfold upd_ent. destruct (p_ents pr !! e); reflexivity. Qed.
Lemma upd_ent_out pr e f : p_out (upd_ent pr e f) = p_out pr.
Proof. unfold upd_ent. destruct (p_ents pr !! e); reflexivity. Qed.
Lemma upd_ent_tick pr e f : p_tick (upd_ent pr e f) = p_tick pr.
Proof. unfold upd_ent. destruct (p_ents pr !! e); reflexivity. Qed.
Lemma upd_ent_alive pr e f x : alive (upd_ent pr e f) x = alive pr x.
Proof.
  unfold upd_ent, alive. destruct (p_ents pr !! e) as [en|] eqn:E; [|reflexivity].
  simpl. destruct (decide (x = e)) as [->|Hne].
  - rewrite lookup_insert, E. reflexivity.
  - rewrite lookup_insert_ne by congruence. reflexivity.
Qed.
Lemma upd_ent_ents_all (Q : ent -> entity -> Prop) pr e f :
  (forall en, Q e en -> Q e (f en)) -> ents_all Q pr -> ents_all Q (upd_ent pr e f).
Proof.
  intros Hf H. unfold upd_ent. destruct (p_ents pr !! e) as [en|] eqn:E; [|exact H].
  intros x en' Hl. simpl in Hl. destruct (decide (x = e)) as [->|Hne].
  - rewrite lookup_insert in Hl. injection Hl as <-. apply Hf. apply H. exact E.
  - rewrite lookup_insert_ne in Hl by congruence. apply H. exact Hl.
Qed.

Lemma set_panic_rest pr s : rest (set_panic pr s) = rest pr.
Proof. unfold set_panic. destruct (p_panic pr); reflexivity. Qed.
Lemma set_panic_ents pr s : p_ents (set_panic pr s) = p_ents pr.
Proof. unfold set_panic. destruct (p_panic pr); reflexivity. Qed.
Lemma set_panic_out pr s : p_out (set_panic pr s) = p_out pr.
Proof. unfold set_panic. destruct (p_panic pr); reflexivity. Qed.
Lemma set_panic_none pr s : p_panic pr = None -> p_panic (set_panic pr s) = Some s.
Proof. unfold set_panic. intros ->. reflexivity. Qed.

(* ---------- hierarchy: exact panic conditions ------------------------------------------------ *)

Definition add_child_outcome (pr : peer_state) (p c : ent) : option panic_site :=
  if negb (alive pr p) then Some PEntityMutDead
  else if p =? c then Some PSetParentSelf else None.

(* the non-panicking path of add_child, with the child's previous parent passed in *)
Definition add_child_ok (pr : peer_state) (p c : ent) (previous : option ent) : peer_state :=
  let pr1 := upd_ent pr c (fun en => en <| en_parent := Some (p, p_tick pr) |>) in
  let pr2 := match previous with
             | Some q => if q =? p then pr1
                         else upd_ent pr1 q (fun en => en <| en_children := removeN c (en_children en) |>)
             | None => pr1
             end in
  upd_ent pr2 p (fun en => en <| en_children := removeN c (en_children en) ++ [c] |>).

Definition prev_parent (pr : peer_state) (c : ent) : option ent :=
  match p_ents pr !! c with Some en => fst <$> en_parent en | None => None end.

Lemma add_child_eq pr p c :
  add_child pr p c =
  if negb (alive pr p) then set_panic pr PEntityMutDead
  else if p =? c then set_panic pr PSetParentSelf
  else add_child_ok pr p c (prev_parent pr c).
Proof. reflexivity. Qed.

Lemma add_child_ok_panic pr p c prev : p_panic (add_child_ok pr p c prev) = p_panic pr.
Proof.
  unfold add_child_ok. cbv zeta. rewrite upd_ent_panic.
  destruct prev as [q|]; [destruct (q =? p); [|rewrite upd_ent_panic]|]; apply upd_ent_panic.
Qed.
Lemma add_child_ok_rest pr p c prev : rest (add_child_ok pr p c prev) = rest pr.
Proof.
  unfold add_child_ok. cbv zeta. rewrite upd_ent_rest.
  destruct prev as [q|]; [destruct (q =? p); [|rewrite upd_ent_rest]|]; apply upd_ent_rest.
Qed.
Lemma add_child_ok_out pr p c prev : p_out (add_child_ok pr p c prev) = p_out pr.
Proof.
  unfold add_child_ok. cbv zeta. rewrite upd_ent_out.
  destruct prev as [q|]; [destruct (q =? p); [|rewrite upd_ent_out]|]; apply upd_ent_out.
Qed.
Lemma add_child_ok_alive pr p c prev x : alive (add_child_ok pr p c prev) x = alive pr x.
Proof.
  unfold add_child_ok. cbv zeta. rewrite upd_ent_alive.
  destruct prev as [q|]; [destruct (q =? p); [|rewrite upd_ent_alive]|]; apply upd_ent_alive.
Qed.

(* a predicate on entities that add_child cannot break: it may look at anything but the
   Parent / Children components *)
Definition hier_blind (Q : ent -> entity -> Prop) : Prop :=
  forall e en p cs, Q e en -> Q e (en <| en_parent := p |>) /\ Q e (en <| en_children := cs |>).

Lemma add_child_ok_ents_all (Q : ent -> entity -> Prop) pr p c prev :
  hier_blind Q -> ents_all Q pr -> ents_all Q (add_child_ok pr p c prev).
Proof.
  intros HQ H. unfold add_child_ok. cbv zeta.
  apply upd_ent_ents_all; [intros en Hen; apply (HQ p en None _ Hen)|].
  assert (H1 : ents_all Q (upd_ent pr c (fun en => en <| en_parent := Some (p, p_tick pr) |>))).
  { apply upd_ent_ents_all; [intros en Hen; apply (HQ c en _ [] Hen)|exact H]. }
  destruct prev as [q|]; [|exact H1].
  destruct (q =? p); [exact H1|].
  apply upd_ent_ents_all; [intros en Hen; apply (HQ q en None _ Hen)|exact H1].
Qed.

Lemma add_child_panic pr p c :
  p_panic pr = None -> p_panic (add_child pr p c) = add_child_outcome pr p c.
Proof.
  intros Hn. rewrite add_child_eq. unfold add_child_outcome.
  destruct (negb (alive pr p)); [apply set_panic_none; exact Hn|].
  destruct (p =? c); [apply set_panic_none; exact Hn|].
  rewrite add_child_ok_panic. exact Hn.
Qed.

Lemma add_child_rest pr p c : rest (add_child pr p c) = rest pr.
Proof.
  rewrite add_child_eq.
  destruct (negb (alive pr p)); [apply set_panic_rest|].
  destruct (p =? c); [apply set_panic_rest|]. apply add_child_ok_rest.
Qed.

Lemma add_child_out pr p c : p_out (add_child pr p c) = p_out pr.
Proof.
  rewrite add_child_eq.
  destruct (negb (alive pr p)); [apply set_panic_out|].
  destruct (p =? c); [apply set_panic_out|]. apply add_child_ok_out.
Qed.

Lemma add_child_alive pr p c x :
  p_panic pr = None -> p_panic (add_child pr p c) = None -> alive (add_child pr p c) x = alive pr x.
Proof.
  intros Hn. rewrite add_child_eq.
  destruct (negb (alive pr p)); [rewrite set_panic_none by exact Hn; discriminate|].
  destruct (p =? c); [rewrite set_panic_none by exact Hn; discriminate|].
  intros _. apply add_child_ok_alive.
Qed.

Lemma add_child_ents_all (Q : ent -> entity -> Prop) pr p c :
  hier_blind Q -> ents_all Q pr -> ents_all Q (add_child pr p c).
Proof.
  intros HQ H. rewrite add_child_eq.
  destruct (negb (alive pr p)); [eapply ents_all_ext; [apply set_panic_ents|exact H]|].
  destruct (p =? c); [eapply ents_all_ext; [apply set_panic_ents|exact H]|].
  apply add_child_ok_ents_all; assumption.
Qed.

Definition set_parent_outcome (p c : ent) : option panic_site :=
  if p =? c then Some PSetParentSelf else None.

Lemma set_parent_twice_panic pr c p :
  p_panic pr = None -> alive pr p = true ->
  p_panic (set_parent_twice pr c p) = set_parent_outcome p c.
Proof.
  intros Hn Hp. unfold set_parent_twice, set_parent_outcome.
  pose proof (add_child_panic pr p c Hn) as H1. unfold add_child_outcome in H1.
  rewrite Hp in H1. simpl in H1.
  destruct (p =? c) eqn:Epc.
  - rewrite H1. exact H1.
  - rewrite H1. rewrite add_child_panic by exact H1. unfold add_child_outcome.
    rewrite add_child_alive by assumption. rewrite Hp, Epc. reflexivity.
Qed.

Lemma set_parent_twice_rest pr c p : rest (set_parent_twice pr c p) = rest pr.
Proof.
  unfold set_parent_twice. destruct (p_panic (add_child pr p c)).
  - apply add_child_rest.
  - rewrite add_child_rest. apply add_child_rest.
Qed.
Lemma set_parent_twice_out pr c p : p_out (set_parent_twice pr c p) = p_out pr.
Proof.
  unfold set_parent_twice. destruct (p_panic (add_child pr p c)).
  - apply add_child_out.
  - rewrite add_child_out. apply add_child_out.
Qed.
Lemma set_parent_twice_ents_all (Q : ent -> entity -> Prop) pr c p :
  hier_blind Q -> ents_all Q pr -> ents_all Q (set_parent_twice pr c p).
Proof.
  intros HQ H. unfold set_parent_twice. destruct (p_panic (add_child pr p c)).
  - apply add_child_ents_all; assumption.
  - apply add_child_ents_all; [exact HQ|]. apply add_child_ents_all; assumption.
Qed.

(* ---------- apply_component_change, snapshot ------------------------------------------------ *)

Lemma acc_panic pr e t v : p_panic (apply_component_change pr e t v).1 = p_panic pr.
Proof.
  unfold apply_component_change.
  repeat case_match; simpl; try reflexivity; rewrite upd_ent_panic; reflexivity.
Qed.
Lemma acc_rest pr e t v : rest (apply_component_change pr e t v).1 = rest pr.
Proof.
  unfold apply_component_change.
  repeat case_match; simpl; try reflexivity; rewrite upd_ent_rest; reflexivity.
Qed.
Lemma acc_out pr e t v : p_out (apply_component_change pr e t v).1 = p_out pr.
Proof.
  unfold apply_component_change.
  repeat case_match; simpl; try reflexivity; rewrite upd_ent_out; reflexivity.
Qed.
Lemma acc_ents_all (Q : ent -> entity -> Prop) pr e t v :
  (forall x en now t' v', Q x en -> Q x (put_comp now t' v' en)) ->
  ents_all Q pr -> ents_all Q (apply_component_change pr e t v).1.
Proof.
  intros HQ H. unfold apply_component_change.
  repeat case_match; simpl; try exact H;
    (apply upd_ent_ents_all; [intros en' Hen'; apply HQ; exact Hen'|exact H]).
Qed.

Lemma serve_all_core pr c : core (serve_all pr c).1 = core pr.
Proof. unfold serve_all. destruct (class_enabled pr (KClass c)); reflexivity. Qed.
Lemma serve_all_out pr c : p_out (serve_all pr c).1 = p_out pr.
Proof. unfold serve_all. destruct (class_enabled pr (KClass c)); reflexivity. Qed.

Lemma build_full_sync_core pr : core (build_full_sync pr).1 = core pr.
Proof.
  unfold build_full_sync.
  destruct (serve_all pr AImage) as [pr1 mi] eqn:E1.
  destruct (serve_all pr1 AMesh) as [pr2 me] eqn:E2.
  destruct (serve_all pr2 AAudio) as [pr3 ma] eqn:E3.
  simpl.
  rewrite <- (serve_all_core pr AImage), E1. simpl.
  rewrite <- (serve_all_core pr1 AMesh), E2. simpl.
  rewrite <- (serve_all_core pr2 AAudio), E3. reflexivity.
Qed.
Lemma build_full_sync_out pr : p_out (build_full_sync pr).1 = p_out pr.
Proof.
  unfold build_full_sync.
  destruct (serve_all pr AImage) as [pr1 mi] eqn:E1.
  destruct (serve_all pr1 AMesh) as [pr2 me] eqn:E2.
  destruct (serve_all pr2 AAudio) as [pr3 ma] eqn:E3.
  simpl.
  rewrite <- (serve_all_out pr AImage), E1. simpl.
  rewrite <- (serve_all_out pr1 AMesh), E2. simpl.
  rewrite <- (serve_all_out pr2 AAudio), E3. reflexivity.
Qed.

Definition not_parented (m : msg) : Prop := match m with MParented _ _ => False | _ => True end.
Definition no_parent (_ : ent) (en : entity) : Prop := en_parent en = None.

Lemma serve_all_msgs pr c m : m ∈ (serve_all pr c).2 -> not_parented m.
Proof.
  unfold serve_all. destruct (class_enabled pr (KClass c)); simpl; [|intros H; inversion H].
  intros H. apply elem_of_app in H as [H|H];
    apply elem_of_list_fmap in H as [[a v] [-> _]]; exact I.
Qed.

(* the entity part of the snapshot: all spawns, then all component values; as a set, the messages
   of snapshot_entity_msgs *)
Lemma snapshot_spawns_values_elem pr (es : list (ent * entity)) m :
  m ∈ concat ((fun '(e, en) => firstn 1 (snapshot_entity_msgs pr e en)) <$> es) ++
      concat ((fun '(e, en) => skipn 1 (snapshot_entity_msgs pr e en)) <$> es) ->
  exists e en, (e, en) ∈ es /\ m ∈ snapshot_entity_msgs pr e en.
Proof.
  intros Hin. apply elem_of_app in Hin as [Hin|Hin].
  - apply elem_of_concat in Hin as [l [Hm Hl]].
    apply elem_of_list_fmap in Hl as [[e en] [-> Hl]].
    exists e, en. split; [exact Hl|].
    rewrite <- (take_drop 1 (snapshot_entity_msgs pr e en)). apply elem_of_app. left. exact Hm.
  - apply elem_of_concat in Hin as [l [Hm Hl]].
    apply elem_of_list_fmap in Hl as [[e en] [-> Hl]].
    exists e, en. split; [exact Hl|].
    rewrite <- (take_drop 1 (snapshot_entity_msgs pr e en)). apply elem_of_app. right. exact Hm.
Qed.

(* the snapshot contains a parent link only if some live entity has a Parent *)
Lemma build_full_sync_msgs pr m :
  ents_all no_parent pr -> m ∈ (build_full_sync pr).2 -> not_parented m.
Proof.
  intros Hnp. unfold build_full_sync.
  destruct (serve_all pr AImage) as [pr1 mi] eqn:E1.
  destruct (serve_all pr1 AMesh) as [pr2 me] eqn:E2.
  destruct (serve_all pr2 AAudio) as [pr3 ma] eqn:E3.
  simpl. intros Hin.
  apply elem_of_app in Hin as [Hin|Hin]; [|repeat (apply elem_of_app in Hin as [Hin|Hin])].
  - apply snapshot_spawns_values_elem in Hin as (e & en & _ & Hm).
    unfold snapshot_entity_msgs in Hm.
    destruct (en_sync en); [|inversion Hm]. destruct (t_e2u pr !! e); [|inversion Hm].
    apply elem_of_cons in Hm as [->|Hm]; [exact I|].
    apply elem_of_list_omap in Hm as [[t c] [_ Hm]].
    destruct (memN t (p_sync_types pr) && negb (memN t (en_excl en))); [|discriminate].
    injection Hm as <-. destruct (c_val c); exact I.
  - apply elem_of_concat in Hin as [l [Hm Hl]].
    apply elem_of_list_fmap in Hl as [[e en] [-> Hl]].
    unfold ents_list in Hl. apply elem_of_map_to_list in Hl. specialize (Hnp e en Hl). unfold no_parent in Hnp.
    unfold snapshot_parent_msgs in Hm. rewrite Hnp in Hm.
    destruct (en_sync en); inversion Hm.
  - apply (serve_all_msgs pr AImage). rewrite E1. exact Hin.
  - unfold snapshot_material_msgs in Hin. destruct (t_mat pr1); [|inversion Hin].
    apply elem_of_list_fmap in Hin as [[a v] [-> _]]. exact I.
  - apply (serve_all_msgs pr1 AMesh). rewrite E2. exact Hin.
  - apply (serve_all_msgs pr2 AAudio). rewrite E3. exact Hin.
Qed.

Lemma insert_asset_core pr k a v : core (insert_asset pr k a v) = core pr.
Proof. reflexivity. Qed.
Lemma request_asset_core pr c a o : core (request_asset pr c a o) = core pr.
Proof. reflexivity. Qed.
Lemma request_asset_out pr c a o : p_out (request_asset pr c a o) = p_out pr.
Proof. reflexivity. Qed.

(* projections of core equalities *)
Lemma core_panic pr pr' : core pr' = core pr -> p_panic pr' = p_panic pr.
Proof. intros H. apply core_inv in H. tauto. Qed.
Lemma core_ents pr pr' : core pr' = core pr -> p_ents pr' = p_ents pr.
Proof. intros H. apply core_inv in H. tauto. Qed.
Lemma core_rest pr pr' : core pr' = core pr -> rest pr' = rest pr.
Proof. intros H. apply core_inv in H. tauto. Qed.
Lemma core_cmdq pr pr' : core pr' = core pr -> p_cmdq pr' = p_cmdq pr.
Proof. intros H. apply core_rest, rest_inv in H. tauto. Qed.
Lemma core_app pr pr' : core pr' = core pr -> p_app_cmds pr' = p_app_cmds pr.
Proof. intros H. apply core_rest, rest_inv in H. tauto. Qed.
Lemma core_u2e pr pr' : core pr' = core pr -> t_u2e pr' = t_u2e pr.
Proof. intros H. apply core_rest, rest_inv in H. tauto. Qed.
Lemma core_inbox pr pr' : core pr' = core pr -> n_inbox pr' = n_inbox pr.
Proof. intros H. apply core_rest, rest_inv in H. tauto. Qed.
Lemma core_next pr pr' : core pr' = core pr -> p_next_ent pr' = p_next_ent pr.
Proof. intros H. apply core_rest, rest_inv in H. tauto. Qed.
Lemma core_e2u pr pr' : core pr' = core pr -> t_e2u pr' = t_e2u pr.
Proof. intros H. apply core_rest, rest_e2u in H. exact H. Qed.
Lemma core_trans pr1 pr2 pr3 : core pr3 = core pr2 -> core pr2 = core pr1 -> core pr3 = core pr1.
Proof. congruence. Qed.

(* the record of parent links applied from the network (t_ptok) is outside everything the panic
   analysis looks at *)
Lemma ptok_core pr (f : gmap uuid uuid -> gmap uuid uuid) : core (pr <| t_ptok ::= f |>) = core pr.
Proof. reflexivity. Qed.
Lemma ptok_out pr (f : gmap uuid uuid -> gmap uuid uuid) : p_out (pr <| t_ptok ::= f |>) = p_out pr.
Proof. reflexivity. Qed.
(* the tail of the host's set-parent command: relay unless panicked *)
Lemma relay_ok_core pr from m :
  core (match p_panic pr with Some _ => pr | None => relay_except pr from m end) = core pr.
Proof. destruct (p_panic pr); [reflexivity|apply relay_except_core]. Qed.

Lemma foldl_core {B} (f : peer_state -> B -> peer_state) l pr :
  (forall a x, core (f a x) = core a) -> core (foldl f pr l) = core pr.
Proof.
  intros Hf. apply (foldl_inv (fun a => core a = core pr)); [reflexivity|].
  intros a x _ Ha. rewrite Hf. exact Ha.
Qed.

(* react_on_changed_components (also the first step of the host's CSendInitialSync since the repair
   of S21): only the outbox and the queue of detected changes move *)
Lemma react_components_core b pr : core (react_on_changed_components b pr) = core pr.
Proof.
  unfold react_on_changed_components. cbv zeta. rewrite foldl_core; [reflexivity|].
  intros a [[u t] v]. cbv beta iota. destruct b; [apply broadcast_core|apply send_up_core].
Qed.

(* ---------- deferred commands ----------------------------------------------------------------- *)

(* when, exactly, applying a command panics *)
Definition cmd_panics (pr : peer_state) (c : cmd) : option panic_site :=
  match c with
  | CSetParentSrv _ cu pu =>
      match t_u2e pr !! cu, t_u2e pr !! pu with
      | Some c, Some p =>
          if alive pr p && alive pr c && parent_differs pr c p then set_parent_outcome p c else None
      | _, _ => None
      end
  | CSetParentCli c p _ _ =>
      if alive pr p && alive pr c && parent_differs pr c p then set_parent_outcome p c else None
  | CAppInsert e _ _ => if alive pr e then None else Some PInsertDead
  | _ => None
  end.

Lemma apply_cmd_panic pr c : p_panic pr = None -> p_panic (apply_cmd pr c) = cmd_panics pr c.
Proof.
  intros Hn. destruct c; simpl.
  - exact Hn.
  - exact Hn.
  - rewrite upd_ent_panic. exact Hn.
  - destruct (apply_component_change pr e t v) as [pr' ch] eqn:E.
    pose proof (acc_panic pr e t v) as H. rewrite E in H. simpl in H.
    destruct from as [c|]; [destruct ch|]; rewrite ?(core_panic _ _ (relay_except_core _ _ _));
      congruence.
  - destruct (t_u2e pr !! c) as [ce|]; [|exact Hn].
    destruct (t_u2e pr !! p) as [pe|]; [|exact Hn].
    destruct (alive pr pe) eqn:Ep; simpl; [|exact Hn].
    destruct (alive pr ce) eqn:Ec; simpl; [|exact Hn].
    destruct (parent_differs pr ce pe).
    + set (sp := set_parent_twice pr ce pe <| t_ptok ::= <[c := p]> |>).
      change (p_panic (match p_panic sp with Some _ => sp | None => relay_except sp from (MParented c p) end)
              = set_parent_outcome pe ce).
      rewrite (core_panic _ _ (relay_ok_core sp from (MParented c p))).
      exact (set_parent_twice_panic pr ce pe Hn Ep).
    + rewrite Hn. rewrite (core_panic _ _ (relay_except_core _ _ _)). exact Hn.
  - destruct (alive pr p) eqn:Ep; simpl; [|exact Hn].
    destruct (alive pr c) eqn:Ec; simpl; [|exact Hn].
    destruct (parent_differs pr c p); [|exact Hn].
    exact (set_parent_twice_panic pr c p Hn Ep).
  - destruct from as [c|]; [rewrite (core_panic _ _ (relay_except_core _ _ _))|]; exact Hn.
  - rewrite (core_panic _ _ (relay_except_core _ _ _)). exact Hn.
  - pose proof (core_panic _ _ (react_components_core true pr)) as H0.
    set (pr0 := react_on_changed_components true pr) in *.
    destruct (build_full_sync pr0) as [pr1 ms] eqn:E.
    pose proof (core_panic _ _ (build_full_sync_core pr0)) as H. rewrite E in H. simpl in H.
    change (p_panic (foldl (fun pr0 m => send pr0 to m) pr1 ms) = None).
    rewrite (core_panic _ _ (foldl_core _ ms pr1 (fun a x => send_core a to x))). congruence.
  - destruct (build_full_sync pr) as [pr1 ms] eqn:E.
    pose proof (core_panic _ _ (build_full_sync_core pr)) as H. rewrite E in H. simpl in H.
    rewrite (core_panic _ _ (send_up_core _ _)). congruence.
  - apply (foldl_inv (fun a => p_panic a = None)); [exact Hn|].
    intros a x _ Ha. rewrite upd_ent_panic. exact Ha.
  - exact Hn.
  - destruct set_flag; exact Hn.
  - exact Hn.
  - exact Hn.
  - destruct (filter _ _) as [|[e en] l]; exact Hn.
  - exact Hn.
  - destruct (alive pr e); simpl; [rewrite upd_ent_panic; exact Hn|apply set_panic_none; exact Hn].
Qed.

Lemma foldl_rest {B} (f : peer_state -> B -> peer_state) l pr :
  (forall a x, rest (f a x) = rest a) -> rest (foldl f pr l) = rest pr.
Proof.
  intros Hf. apply (foldl_inv (fun a => rest a = rest pr)); [reflexivity|].
  intros a x _ Ha. rewrite Hf. exact Ha.
Qed.

(* no deferred command touches the command queues, the tracker's uuid map, the inboxes or the
   entity allocator *)
Lemma apply_cmd_rest pr c : rest (apply_cmd pr c) = rest pr.
Proof.
  destruct c; simpl; try reflexivity.
  - apply upd_ent_rest.
  - destruct (apply_component_change pr e t v) as [pr' ch] eqn:E.
    pose proof (acc_rest pr e t v) as H. rewrite E in H. simpl in H.
    destruct from as [c|]; [destruct ch|]; rewrite ?(core_rest _ _ (relay_except_core _ _ _));
      exact H.
  - destruct (t_u2e pr !! c) as [ce|]; [|reflexivity].
    destruct (t_u2e pr !! p) as [pe|]; [|reflexivity].
    destruct (negb (alive pr pe) || negb (alive pr ce)); [reflexivity|].
    destruct (parent_differs pr ce pe).
    + set (sp := set_parent_twice pr ce pe <| t_ptok ::= <[c := p]> |>).
      change (rest (match p_panic sp with Some _ => sp | None => relay_except sp from (MParented c p) end)
              = rest pr).
      rewrite (core_rest _ _ (relay_ok_core sp from (MParented c p))).
      exact (set_parent_twice_rest pr ce pe).
    + destruct (p_panic pr); rewrite ?(core_rest _ _ (relay_except_core _ _ _)); reflexivity.
  - destruct (negb (alive pr p) || negb (alive pr c)); [reflexivity|].
    destruct (parent_differs pr c p); [exact (set_parent_twice_rest pr c p)|reflexivity].
  - destruct from as [c|]; [rewrite (core_rest _ _ (relay_except_core _ _ _))|]; reflexivity.
  - apply (core_rest _ _ (relay_except_core _ _ _)).
  - pose proof (core_rest _ _ (react_components_core true pr)) as H0.
    set (pr0 := react_on_changed_components true pr) in *.
    destruct (build_full_sync pr0) as [pr1 ms] eqn:E.
    pose proof (core_rest _ _ (build_full_sync_core pr0)) as H. rewrite E in H. simpl in H.
    change (rest (foldl (fun pr0 m => send pr0 to m) pr1 ms) = rest pr).
    rewrite (core_rest _ _ (foldl_core _ ms pr1 (fun a x => send_core a to x))). congruence.
  - destruct (build_full_sync pr) as [pr1 ms] eqn:E.
    pose proof (core_rest _ _ (build_full_sync_core pr)) as H. rewrite E in H. simpl in H.
    rewrite (core_rest _ _ (send_up_core _ _)). exact H.
  - apply foldl_rest. intros a x. apply upd_ent_rest.
  - destruct set_flag; reflexivity.
  - destruct (filter _ _) as [|[e en] l]; reflexivity.
  - destruct (negb (alive pr e)); [apply set_panic_rest|apply upd_ent_rest].
Qed.

Definition is_set_parent (c : cmd) : Prop :=
  match c with CSetParentSrv _ _ _ | CSetParentCli _ _ _ _ => True | _ => False end.

(* what deferred commands can do to entities: spawn a fresh synchronised one, despawn, write
   components, clear the mark, and (set-parent commands only) edit Parent / Children *)
Lemma apply_cmd_ents_all (Q : ent -> entity -> Prop) pr c :
  (forall e u t, Q e (new_entity <| en_sync := Some u |> <| en_sync_added := t |>)) ->
  (forall e en now t v, Q e en -> Q e (put_comp now t v en)) ->
  (forall e en u t, Q e en -> Q e (en <| en_mark := None |> <| en_sync := Some u |> <| en_sync_added := t |>)) ->
  (is_set_parent c -> hier_blind Q) ->
  ents_all Q pr -> ents_all Q (apply_cmd pr c).
Proof.
  intros Hnew Hput Hsync Hpar H. destruct c; simpl; try exact H.
  - intros x en Hl. simpl in Hl. destruct (decide (x = e)) as [->|Hne].
    + rewrite lookup_insert in Hl. injection Hl as <-. apply Hnew.
    + rewrite lookup_insert_ne in Hl by congruence. apply H. exact Hl.
  - intros x en Hl. simpl in Hl. apply lookup_delete_Some in Hl as [_ Hl]. apply H. exact Hl.
  - apply upd_ent_ents_all; [intros en Hen; apply Hsync; exact Hen|exact H].
  - destruct (apply_component_change pr e t v) as [pr' ch] eqn:E.
    pose proof (acc_ents_all Q pr e t v Hput H) as H'. rewrite E in H'. simpl in H'.
    destruct from as [c|]; [destruct ch|];
      try (eapply ents_all_ext; [apply (core_ents _ _ (relay_except_core _ _ _))|]); exact H'.
  - destruct (t_u2e pr !! c) as [ce|]; [|exact H].
    destruct (t_u2e pr !! p) as [pe|]; [|exact H].
    destruct (negb (alive pr pe) || negb (alive pr ce)); [exact H|].
    assert (H' : ents_all Q (if parent_differs pr ce pe
                             then set_parent_twice pr ce pe <| t_ptok ::= <[c := p]> |> else pr)).
    { destruct (parent_differs pr ce pe); [|exact H].
      exact (set_parent_twice_ents_all Q pr ce pe (Hpar I) H). }
    destruct (p_panic _); [exact H'|].
    eapply ents_all_ext; [apply (core_ents _ _ (relay_except_core _ _ _))|exact H'].
  - destruct (negb (alive pr p) || negb (alive pr c)); [exact H|].
    destruct (parent_differs pr c p); [|exact H].
    exact (set_parent_twice_ents_all Q pr c p (Hpar I) H).
  - destruct from as [c|]; [|exact H].
    eapply ents_all_ext; [apply (core_ents _ _ (relay_except_core _ _ _))|exact H].
  - eapply ents_all_ext; [apply (core_ents _ _ (relay_except_core _ _ _))|exact H].
  - pose proof (core_ents _ _ (react_components_core true pr)) as H0.
    set (pr0 := react_on_changed_components true pr) in *.
    destruct (build_full_sync pr0) as [pr1 ms] eqn:E.
    pose proof (core_ents _ _ (build_full_sync_core pr0)) as H1. rewrite E in H1. simpl in H1.
    eapply ents_all_ext; [|exact H].
    change (p_ents (foldl (fun pr0 m => send pr0 to m) pr1 ms) = p_ents pr).
    rewrite (core_ents _ _ (foldl_core _ ms pr1 (fun a x => send_core a to x))). congruence.
  - destruct (build_full_sync pr) as [pr1 ms] eqn:E.
    pose proof (core_ents _ _ (build_full_sync_core pr)) as H1. rewrite E in H1. simpl in H1.
    eapply ents_all_ext; [|exact H]. rewrite (core_ents _ _ (send_up_core _ _)). exact H1.
  - apply (foldl_inv (ents_all Q)); [exact H|].
    intros a x _ Ha. apply upd_ent_ents_all; [intros en Hen; apply Hput; exact Hen|exact Ha].
  - destruct set_flag; exact H.
  - destruct (filter _ _) as [|[e en] l]; [exact H|].
    intros x en' Hl. simpl in Hl. apply lookup_delete_Some in Hl as [_ Hl]. apply H. exact Hl.
  - intros x en Hl. simpl in Hl. apply lookup_delete_Some in Hl as [_ Hl]. apply H. exact Hl.
  - destruct (negb (alive pr e)); [eapply ents_all_ext; [apply set_panic_ents|exact H]|].
    apply upd_ent_ents_all; [intros en Hen; apply Hput; exact Hen|exact H].
Qed.

(* commands that can occur when no hierarchy operation was ever performed (and the application
   issues no insert command) *)
Definition no_hier_cmd (c : cmd) : Prop :=
  match c with
  | CSetParentSrv _ _ _ | CSetParentCli _ _ _ _ | CAppInsert _ _ _ => False
  | CRelay _ m => not_parented m
  | _ => True
  end.

Lemma foldl_out_all {B} (M : msg -> Prop) (f : peer_state -> B -> peer_state) l pr :
  (forall a x, x ∈ l -> out_all M a -> out_all M (f a x)) -> out_all M pr -> out_all M (foldl f pr l).
Proof. intros Hf H. apply (foldl_inv (out_all M)); [exact H|exact Hf]. Qed.

Lemma react_components_out_np b pr :
  out_all not_parented pr -> out_all not_parented (react_on_changed_components b pr).
Proof.
  intros H. unfold react_on_changed_components. cbv zeta. apply foldl_out_all; [|exact H].
  intros a [[u t] v] _ Ha. cbv beta iota.
  destruct b; [apply broadcast_out_all|apply send_up_out_all]; (exact Ha || exact I).
Qed.

Lemma apply_cmd_out_np pr c :
  no_hier_cmd c -> ents_all no_parent pr ->
  out_all not_parented pr -> out_all not_parented (apply_cmd pr c).
Proof.
  intros Hc Hnp H. destruct c; simpl; simpl in Hc; try exact H; try contradiction.
  - eapply out_all_ext; [apply upd_ent_out|exact H].
  - destruct (apply_component_change pr e t v) as [pr' ch] eqn:E.
    pose proof (acc_out pr e t v) as H1. rewrite E in H1. simpl in H1.
    assert (H' : out_all not_parented pr') by (eapply out_all_ext; [exact H1|exact H]).
    destruct from as [c|]; [destruct ch|]; try exact H'.
    apply relay_except_out_all; [exact H'|exact I].
  - destruct from as [c|]; [apply relay_except_out_all; [|exact I]|]; exact H.
  - apply relay_except_out_all; assumption.
  - apply (react_components_out_np true) in H.
    assert (Hnp0 : ents_all no_parent (react_on_changed_components true pr)).
    { eapply ents_all_ext; [apply (core_ents _ _ (react_components_core true pr))|exact Hnp]. }
    set (pr0 := react_on_changed_components true pr) in *.
    destruct (build_full_sync pr0) as [pr1 ms] eqn:E.
    pose proof (build_full_sync_out pr0) as H1. rewrite E in H1. simpl in H1.
    assert (Hms : forall m, m ∈ ms -> not_parented m).
    { intros m Hm. apply (build_full_sync_msgs pr0 m Hnp0). rewrite E. exact Hm. }
    apply send_out_all; [|exact I].
    apply foldl_out_all.
    + intros a x Hx Ha. apply send_out_all; [exact Ha|apply Hms; exact Hx].
    + eapply out_all_ext; [exact H1|exact H].
  - destruct (build_full_sync pr) as [pr1 ms] eqn:E.
    pose proof (build_full_sync_out pr) as H1. rewrite E in H1. simpl in H1.
    apply send_up_out_all; [|exact I]. eapply out_all_ext; [exact H1|exact H].
  - apply foldl_out_all; [|exact H].
    intros a x _ Ha. eapply out_all_ext; [apply upd_ent_out|exact Ha].
  - destruct set_flag; exact H.
  - destruct (filter _ _) as [|[e en] l]; exact H.
Qed.

(* ---------- apply_cmds, flush -------------------------------------------------------------------- *)

Lemma apply_cmds_inv (I : peer_state -> Prop) (P : cmd -> Prop) cs :
  (forall pr c, I pr -> P c -> p_panic pr = None -> I (apply_cmd pr c)) ->
  forall pr, I pr -> Forall P cs -> I (apply_cmds pr cs).
Proof.
  intros Hstep. induction cs as [|c cs IH]; intros pr HI HP; simpl; [exact HI|].
  destruct (p_panic pr) eqn:Ep; [exact HI|].
  inversion HP as [|? ? Hc Hcs]; subst.
  apply IH; [|exact Hcs]. apply Hstep; assumption.
Qed.

Definition flush_with (pr : peer_state) (order : list sysid) : peer_state :=
  foldl (fun pr s =>
           let k := sys_key s in
           match p_cmdq pr !! k with
           | Some cs => apply_cmds (pr <| p_cmdq := delete k (p_cmdq pr) |>) cs
           | None => pr
           end) pr order.
Lemma flush_eq pr : flush pr = flush_with pr (p_order pr).
Proof. reflexivity. Qed.

Lemma flush_with_inv (I : peer_state -> Prop) (P : cmd -> Prop) order :
  (forall pr, I pr -> cmdq_all P pr) ->
  (forall pr k, I pr -> I (pr <| p_cmdq := delete k (p_cmdq pr) |>)) ->
  (forall pr c, I pr -> P c -> p_panic pr = None -> I (apply_cmd pr c)) ->
  forall pr, I pr -> I (flush_with pr order).
Proof.
  intros HP Hdel Hstep pr HI. unfold flush_with.
  apply (foldl_inv I); [exact HI|].
  intros a s _ Ha. cbv zeta.
  destruct (p_cmdq a !! sys_key s) as [cs|] eqn:E; [|exact Ha].
  apply (apply_cmds_inv I P); [exact Hstep|apply Hdel; exact Ha|].
  apply Forall_forall. intros c Hc. eapply HP; [exact Ha|exact E|exact Hc].
Qed.

Lemma flush_inv (I : peer_state -> Prop) (P : cmd -> Prop) :
  (forall pr, I pr -> cmdq_all P pr) ->
  (forall pr k, I pr -> I (pr <| p_cmdq := delete k (p_cmdq pr) |>)) ->
  (forall pr c, I pr -> P c -> p_panic pr = None -> I (apply_cmd pr c)) ->
  forall pr, I pr -> I (flush pr).
Proof. intros H1 H2 H3 pr HI. rewrite flush_eq. apply (flush_with_inv I P); assumption. Qed.

Lemma cmdq_all_delete P pr k :
  cmdq_all P pr -> cmdq_all P (pr <| p_cmdq := delete k (p_cmdq pr) |>).
Proof.
  intros H k' cs c Hl Hin. simpl in Hl. apply lookup_delete_Some in Hl as [_ Hl].
  eapply H; [exact Hl|exact Hin].
Qed.

(* ---------- systems that touch nothing the analysis looks at (except the outbox) --------------- *)

Ltac core_step :=
  first [ reflexivity
        | rewrite broadcast_core | rewrite send_up_core | rewrite relay_except_core
        | rewrite send_core | rewrite insert_asset_core | rewrite request_asset_core ].

Lemma signal_component_changed_core pr u t v ch : core (signal_component_changed pr u t v ch) = core pr.
Proof.
  unfold signal_component_changed. destruct (tok_find _ _) as [at_|]; [|reflexivity].
  cbv zeta. destruct (at_ =? ch); reflexivity.
Qed.
Lemma signal_component_changed_out pr u t v ch : p_out (signal_component_changed pr u t v ch) = p_out pr.
Proof.
  unfold signal_component_changed. destruct (tok_find _ _) as [at_|]; [|reflexivity].
  cbv zeta. destruct (at_ =? ch); reflexivity.
Qed.

Lemma entity_parented_server_core pr last : core (entity_parented_server pr last) = core pr.
Proof.
  unfold entity_parented_server. apply foldl_core. intros a [e en]. cbv beta iota.
  repeat case_match; repeat core_step.
Qed.
Lemma entity_parented_client_core pr last : core (entity_parented_client pr last) = core pr.
Proof.
  unfold entity_parented_client. apply foldl_core. intros a [e en]. cbv beta iota.
  repeat case_match; repeat core_step.
Qed.
Lemma react_assets_core b k pr : core (react_on_changed_assets b k pr) = core pr.
Proof.
  unfold react_on_changed_assets. cbv zeta. rewrite foldl_core; [reflexivity|].
  intros a [k' x]. cbv beta iota.
  destruct (a_store a !! akey k x); [|reflexivity].
  destruct (memN x (t_htok a)); [reflexivity|].
  destruct k; destruct b; repeat core_step.
Qed.
Lemma promote_reader_core pr : core (promote_reader pr) = core pr.
Proof.
  unfold promote_reader. cbv zeta. rewrite foldl_core; [reflexivity|].
  intros a c. apply send_core.
Qed.
Lemma process_assets_core pr c done : core (process_assets pr c done) = core pr.
Proof.
  unfold process_assets. apply foldl_core. intros a [[[c' x] v] lst]. cbv beta iota.
  destruct (_ =? _); [|reflexivity]. destruct v; reflexivity.
Qed.
Lemma sync_detect_core pr t last : core (sync_detect pr t last) = core pr.
Proof.
  unfold sync_detect. apply foldl_core. intros a [e en]. cbv beta iota.
  repeat case_match; try reflexivity; apply signal_component_changed_core.
Qed.

Lemma foldl_out_eq {B} (f : peer_state -> B -> peer_state) l pr :
  (forall a x, p_out (f a x) = p_out a) -> p_out (foldl f pr l) = p_out pr.
Proof.
  intros Hf. apply (foldl_inv (fun a => p_out a = p_out pr)); [reflexivity|].
  intros a x _ Ha. rewrite Hf. exact Ha.
Qed.

Lemma parent_changed_no_parent last en : en_parent en = None -> parent_changed last en = None.
Proof. unfold parent_changed. intros ->. reflexivity. Qed.

Lemma entity_parented_server_out_np pr last :
  ents_all no_parent pr -> out_all not_parented pr ->
  out_all not_parented (entity_parented_server pr last).
Proof.
  intros Hnp H. unfold entity_parented_server. apply foldl_out_all; [|exact H].
  intros a [e en] Hin Ha. cbv beta iota.
  unfold ents_list in Hin. apply elem_of_map_to_list in Hin.
  rewrite (parent_changed_no_parent last en (Hnp e en Hin)). exact Ha.
Qed.
Lemma entity_parented_client_out_np pr last :
  ents_all no_parent pr -> out_all not_parented pr ->
  out_all not_parented (entity_parented_client pr last).
Proof.
  intros Hnp H. unfold entity_parented_client. apply foldl_out_all; [|exact H].
  intros a [e en] Hin Ha. cbv beta iota.
  unfold ents_list in Hin. apply elem_of_map_to_list in Hin.
  rewrite (parent_changed_no_parent last en (Hnp e en Hin)). exact Ha.
Qed.
Lemma react_assets_out_np b k pr :
  out_all not_parented pr -> out_all not_parented (react_on_changed_assets b k pr).
Proof.
  intros H. unfold react_on_changed_assets. cbv zeta. apply foldl_out_all; [|exact H].
  intros a [k' x] _ Ha. cbv beta iota.
  destruct (a_store a !! akey k x); [|exact Ha].
  destruct (memN x (t_htok a)); [exact Ha|].
  destruct k; destruct b;
    first [apply broadcast_out_all|apply send_up_out_all]; (exact Ha || exact I).
Qed.
Lemma promote_reader_out_np pr :
  out_all not_parented pr -> out_all not_parented (promote_reader pr).
Proof.
  intros H. unfold promote_reader. cbv zeta. apply foldl_out_all; [|exact H].
  intros a c _ Ha. apply send_out_all; [exact Ha|exact I].
Qed.
Lemma process_assets_out pr c done : p_out (process_assets pr c done) = p_out pr.
Proof.
  unfold process_assets. apply foldl_out_eq. intros a [[[c' x] v] lst]. cbv beta iota.
  destruct (_ =? _); [|reflexivity]. destruct v; reflexivity.
Qed.
Lemma sync_detect_out pr t last : p_out (sync_detect pr t last) = p_out pr.
Proof.
  unfold sync_detect. apply foldl_out_eq. intros a [e en]. cbv beta iota.
  repeat case_match; try reflexivity; apply signal_component_changed_out.
Qed.

(* ---------- systems that only queue harmless commands ---------------------------------------------- *)

(* commands the systems generate on their own (everything except the hierarchy handlers and
   the application's commands) *)
Definition benign (c : cmd) : Prop :=
  match c with
  | CSetParentSrv _ _ _ | CSetParentCli _ _ _ _ | CAppInsert _ _ _ => False
  | CRelay _ m => match m with MAsset _ _ _ => True | _ => False end
  | _ => True
  end.

(* ... and among those, the ones that neither spawn nor (re)name an entity *)
Definition plain (c : cmd) : Prop :=
  match c with
  | CSpawnSync _ _ | CInsertSync _ _ => False
  | CSetParentSrv _ _ _ | CSetParentCli _ _ _ _ | CAppInsert _ _ _ => False
  | CRelay _ m => match m with MAsset _ _ _ => True | _ => False end
  | _ => True
  end.
Lemma plain_benign c : plain c -> benign c.
Proof. destruct c; simpl; auto. Qed.

(* everything but the command queue and the outbox *)
Definition nocmdq (pr : peer_state) :=
  (p_panic pr, p_ents pr, p_app_cmds pr, t_u2e pr, n_inbox pr, p_next_ent pr, t_e2u pr).

Lemma nocmdq_inv pr pr' : nocmdq pr' = nocmdq pr ->
  p_panic pr' = p_panic pr /\ p_ents pr' = p_ents pr /\ p_app_cmds pr' = p_app_cmds pr /\
  t_u2e pr' = t_u2e pr /\ n_inbox pr' = n_inbox pr /\ p_next_ent pr' = p_next_ent pr.
Proof.
  unfold nocmdq. intros H. repeat split.
  - exact (f_equal (fun x => x.1.1.1.1.1.1) H).
  - exact (f_equal (fun x => x.1.1.1.1.1.2) H).
  - exact (f_equal (fun x => x.1.1.1.1.2) H).
  - exact (f_equal (fun x => x.1.1.1.2) H).
  - exact (f_equal (fun x => x.1.1.2) H).
  - exact (f_equal (fun x => x.1.2) H).
Qed.
Lemma nocmdq_e2u pr pr' : nocmdq pr' = nocmdq pr -> t_e2u pr' = t_e2u pr.
Proof. unfold nocmdq. intros H. exact (f_equal (fun x => x.2) H). Qed.
Lemma core_nocmdq pr pr' : core pr' = core pr -> nocmdq pr' = nocmdq pr.
Proof.
  intros H. unfold nocmdq.
  rewrite (core_panic _ _ H), (core_ents _ _ H), (core_app _ _ H), (core_u2e _ _ H),
    (core_inbox _ _ H), (core_next _ _ H), (core_e2u _ _ H). reflexivity.
Qed.
Lemma foldl_nocmdq {B} (f : peer_state -> B -> peer_state) l pr :
  (forall a x, nocmdq (f a x) = nocmdq a) -> nocmdq (foldl f pr l) = nocmdq pr.
Proof.
  intros Hf. apply (foldl_inv (fun a => nocmdq a = nocmdq pr)); [reflexivity|].
  intros a x _ Ha. rewrite Hf. exact Ha.
Qed.
Lemma foldl_cmdq_all {B} P (f : peer_state -> B -> peer_state) l pr :
  (forall a x, cmdq_all P a -> cmdq_all P (f a x)) -> cmdq_all P pr -> cmdq_all P (foldl f pr l).
Proof. intros Hf H. apply (foldl_inv (cmdq_all P)); [exact H|]. intros a x _. apply Hf. Qed.

Lemma fix_system_nocmdq pr k last trig wo comps : nocmdq (fix_system pr k last trig wo comps) = nocmdq pr.
Proof.
  unfold fix_system. apply foldl_nocmdq. intros a [e en]. cbv beta iota.
  repeat case_match; reflexivity.
Qed.
Lemma fix_system_out pr k last trig wo comps : p_out (fix_system pr k last trig wo comps) = p_out pr.
Proof.
  unfold fix_system. apply foldl_out_eq. intros a [e en]. cbv beta iota.
  repeat case_match; reflexivity.
Qed.
Lemma fix_system_cmdq (P : cmd -> Prop) pr k last trig wo comps :
  (forall c, plain c -> P c) -> cmdq_all P pr -> cmdq_all P (fix_system pr k last trig wo comps).
Proof.
  intros HP. unfold fix_system. apply foldl_cmdq_all. intros a [e en] Ha. cbv beta iota.
  repeat case_match; try exact Ha. apply push_cmd_all; [exact Ha|apply HP; exact I].
Qed.

Lemma client_connected_nocmdq pr k : nocmdq (client_connected pr k) = nocmdq pr.
Proof.
  unfold client_connected. cbv zeta. rewrite foldl_nocmdq; [reflexivity|].
  intros a [conn c]. cbv beta iota. repeat case_match; reflexivity.
Qed.
Lemma client_connected_out pr k : p_out (client_connected pr k) = p_out pr.
Proof.
  unfold client_connected. cbv zeta. rewrite foldl_out_eq; [reflexivity|].
  intros a [conn c]. cbv beta iota. repeat case_match; reflexivity.
Qed.
Lemma client_connected_cmdq (P : cmd -> Prop) pr k :
  (forall c, plain c -> P c) -> cmdq_all P pr -> cmdq_all P (client_connected pr k).
Proof.
  intros HP H. unfold client_connected. cbv zeta. apply foldl_cmdq_all; [|exact H].
  intros a [conn c] Ha. cbv beta iota.
  repeat case_match; try exact Ha; (apply push_cmd_all; [exact Ha|apply HP; exact I]).
Qed.

Lemma verify_nocmdq pr k : nocmdq (verify_client_connected pr k) = nocmdq pr.
Proof. unfold verify_client_connected. repeat case_match; reflexivity. Qed.
Lemma verify_out pr k : p_out (verify_client_connected pr k) = p_out pr.
Proof. unfold verify_client_connected. repeat case_match; reflexivity. Qed.
Lemma verify_cmdq (P : cmd -> Prop) pr k :
  (forall c, plain c -> P c) -> cmdq_all P pr -> cmdq_all P (verify_client_connected pr k).
Proof.
  intros HP H. unfold verify_client_connected.
  repeat case_match; try exact H. apply push_cmd_all; [exact H|apply HP; exact I].
Qed.

(* ---------- the uuid -> entity map ----------------------------------------------------------------- *)

Definition SCRIPT_LIMIT : N := 4294967296.    (* script entities are below, network replicas at or above *)

Definition mark_ok (e : ent) (en : entity) : Prop := en_mark en <> None -> e < SCRIPT_LIMIT.

(* uuid_to_entity is injective; replicas were allocated by this peer's counter; a script entity
   is only ever registered under its own id; only script entities carry SyncMark *)
Definition u2e_ok_ (m : gmap uuid ent) (next : N) (ents : gmap ent entity) : Prop :=
  (forall u1 u2 e, m !! u1 = Some e -> m !! u2 = Some e -> u1 = u2) /\
  (forall u e, m !! u = Some e -> e < next /\ (e < SCRIPT_LIMIT -> u = e)) /\
  SCRIPT_LIMIT <= next /\
  (forall e en, ents !! e = Some en -> mark_ok e en).
Definition u2e_ok (pr : peer_state) : Prop := u2e_ok_ (t_u2e pr) (p_next_ent pr) (p_ents pr).

Lemma u2e_ok_sub m m' next ents :
  (forall u e, m' !! u = Some e -> m !! u = Some e) -> u2e_ok_ m next ents -> u2e_ok_ m' next ents.
Proof.
  intros Hs (Hi & Hb & Hn & Hm).
  split; [|split; [|split; [exact Hn|exact Hm]]].
  - intros u1 u2 e H1 H2. eapply Hi; apply Hs; eassumption.
  - intros u e Hl. apply (Hb u e). apply Hs. exact Hl.
Qed.
Lemma u2e_ok_delete m next ents u : u2e_ok_ m next ents -> u2e_ok_ (delete u m) next ents.
Proof.
  apply u2e_ok_sub. intros u' e H. apply lookup_delete_Some in H as [_ H]. exact H.
Qed.
Lemma u2e_ok_alloc m next ents u : u2e_ok_ m next ents -> u2e_ok_ (<[u := next]> m) (next + 1) ents.
Proof.
  intros (Hi & Hb & Hn & Hm).
  split; [|split; [|split; [lia|exact Hm]]].
  - intros u1 u2 e H1 H2.
    destruct (decide (u1 = u)) as [->|N1]; destruct (decide (u2 = u)) as [->|N2]; [reflexivity| | |].
    + rewrite lookup_insert in H1. rewrite lookup_insert_ne in H2 by congruence.
      injection H1 as <-. apply Hb in H2 as [H2 _]. lia.
    + rewrite lookup_insert in H2. rewrite lookup_insert_ne in H1 by congruence.
      injection H2 as <-. apply Hb in H1 as [H1 _]. lia.
    + rewrite lookup_insert_ne in H1, H2 by congruence. eapply Hi; eassumption.
  - intros u' e Hl. destruct (decide (u' = u)) as [->|N1].
    + rewrite lookup_insert in Hl. injection Hl as <-. unfold SCRIPT_LIMIT in *. split; [lia|]. lia.
    + rewrite lookup_insert_ne in Hl by congruence. destruct (Hb u' e Hl) as [Hlt Heq].
      split; [lia|exact Heq].
Qed.
Lemma u2e_ok_self m next ents e en :
  ents !! e = Some en -> en_mark en <> None -> u2e_ok_ m next ents -> u2e_ok_ (<[e := e]> m) next ents.
Proof.
  intros Hl Hmk (Hi & Hb & Hn & Hm). pose proof (Hm e en Hl Hmk) as Hlt.
  split; [|split; [|split; [exact Hn|exact Hm]]].
  - intros u1 u2 x H1 H2.
    destruct (decide (u1 = e)) as [->|N1]; destruct (decide (u2 = e)) as [->|N2]; [reflexivity| | |].
    + rewrite lookup_insert in H1. rewrite lookup_insert_ne in H2 by congruence.
      injection H1 as <-. symmetry. apply (Hb u2 e H2). exact Hlt.
    + rewrite lookup_insert in H2. rewrite lookup_insert_ne in H1 by congruence.
      injection H2 as <-. apply (Hb u1 e H1). exact Hlt.
    + rewrite lookup_insert_ne in H1, H2 by congruence. eapply Hi; eassumption.
  - intros u x Hx. destruct (decide (u = e)) as [->|N1].
    + rewrite lookup_insert in Hx. injection Hx as <-. split; [lia|reflexivity].
    + rewrite lookup_insert_ne in Hx by congruence. exact (Hb u x Hx).
Qed.
Lemma u2e_ok_ents m next ents ents' :
  (forall e en, ents' !! e = Some en -> mark_ok e en) -> u2e_ok_ m next ents -> u2e_ok_ m next ents'.
Proof. intros H (Hi & Hb & Hn & _). split; [exact Hi|split; [exact Hb|split; [exact Hn|exact H]]]. Qed.
Lemma u2e_ok_ext pr pr' :
  t_u2e pr' = t_u2e pr -> p_next_ent pr' = p_next_ent pr -> p_ents pr' = p_ents pr ->
  u2e_ok pr -> u2e_ok pr'.
Proof. unfold u2e_ok. intros -> -> ->. auto. Qed.
Lemma u2e_ok_inj pr u1 u2 e :
  u2e_ok pr -> t_u2e pr !! u1 = Some e -> t_u2e pr !! u2 = Some e -> u1 = u2.
Proof. intros (Hi & _). apply Hi. Qed.

(* ---------- tracker systems -------------------------------------------------------------------------- *)

(* everything but the uuid map and the outbox *)
Definition nou2e (pr : peer_state) :=
  (p_panic pr, p_ents pr, p_app_cmds pr, n_inbox pr, p_next_ent pr, p_cmdq pr).
Lemma nou2e_inv pr pr' : nou2e pr' = nou2e pr ->
  p_panic pr' = p_panic pr /\ p_ents pr' = p_ents pr /\ p_app_cmds pr' = p_app_cmds pr /\
  n_inbox pr' = n_inbox pr /\ p_next_ent pr' = p_next_ent pr /\ p_cmdq pr' = p_cmdq pr.
Proof.
  unfold nou2e. intros H. repeat split.
  - exact (f_equal (fun x => x.1.1.1.1.1) H).
  - exact (f_equal (fun x => x.1.1.1.1.2) H).
  - exact (f_equal (fun x => x.1.1.1.2) H).
  - exact (f_equal (fun x => x.1.1.2) H).
  - exact (f_equal (fun x => x.1.2) H).
  - exact (f_equal (fun x => x.2) H).
Qed.
Lemma core_nou2e pr pr' : core pr' = core pr -> nou2e pr' = nou2e pr.
Proof.
  intros H. unfold nou2e.
  rewrite (core_panic _ _ H), (core_ents _ _ H), (core_app _ _ H), (core_cmdq _ _ H),
    (core_inbox _ _ H), (core_next _ _ H). reflexivity.
Qed.

Definition u2e_sub (pr pr' : peer_state) : Prop :=
  forall u e, t_u2e pr' !! u = Some e -> t_u2e pr !! u = Some e.

Lemma foldl_delete_sub {A B} (l : list (uuid * B)) (m : gmap uuid A) u e :
  foldl (fun m '(u, _) => delete u m) m l !! u = Some e -> m !! u = Some e.
Proof.
  revert m. induction l as [|[x y] l IH]; intros m H; simpl in H; [exact H|].
  apply IH in H. apply lookup_delete_Some in H as [_ H]. exact H.
Qed.

Lemma entity_removed_server_nou2e pr : nou2e (entity_removed_server pr) = nou2e pr.
Proof.
  unfold entity_removed_server. cbv zeta.
  apply (foldl_inv (fun a => nou2e a = nou2e pr)); [reflexivity|].
  intros a u _ Ha. rewrite (core_nou2e _ _ (broadcast_core _ _)). exact Ha.
Qed.
Lemma entity_removed_server_sub pr : u2e_sub pr (entity_removed_server pr).
Proof.
  unfold entity_removed_server. cbv zeta.
  apply (foldl_inv (fun a => u2e_sub pr a)); [intros u e H; exact H|].
  intros a u _ Ha u' e H. rewrite (core_u2e _ _ (broadcast_core _ _)) in H. simpl in H.
  apply lookup_delete_Some in H as [_ H]. apply Ha. exact H.
Qed.
Lemma entity_removed_server_out_np pr :
  out_all not_parented pr -> out_all not_parented (entity_removed_server pr).
Proof.
  intros H. unfold entity_removed_server. cbv zeta. apply foldl_out_all; [|exact H].
  intros a u _ Ha. apply broadcast_out_all; [exact Ha|exact I].
Qed.

Lemma entity_removed_client_nou2e pr : nou2e (entity_removed_client pr) = nou2e pr.
Proof.
  unfold entity_removed_client. cbv zeta.
  apply (foldl_inv (fun a => nou2e a = nou2e pr)); [reflexivity|].
  intros a [u e] _ Ha. cbv beta iota. rewrite (core_nou2e _ _ (send_up_core _ _)). exact Ha.
Qed.
Lemma entity_removed_client_sub pr : u2e_sub pr (entity_removed_client pr).
Proof.
  unfold entity_removed_client. cbv zeta.
  apply (foldl_inv (fun a => u2e_sub pr a)).
  - intros u e H. simpl in H. eapply foldl_delete_sub. exact H.
  - intros a [u e] _ Ha u' e' H. cbv beta iota in H.
    rewrite (core_u2e _ _ (send_up_core _ _)) in H. apply Ha. exact H.
Qed.
Lemma entity_removed_client_out_np pr :
  out_all not_parented pr -> out_all not_parented (entity_removed_client pr).
Proof.
  intros H. unfold entity_removed_client. cbv zeta. apply foldl_out_all; [|exact H].
  intros a [u e] _ Ha. cbv beta iota. apply send_up_out_all; [exact Ha|exact I].
Qed.

Lemma u2e_ok_of_sub pr pr' :
  nou2e pr' = nou2e pr -> u2e_sub pr pr' -> u2e_ok pr -> u2e_ok pr'.
Proof.
  intros Hn Hs H. apply nou2e_inv in Hn as (_ & He & _ & _ & Hx & _).
  unfold u2e_ok. rewrite He, Hx. eapply u2e_ok_sub; [exact Hs|exact H].
Qed.

(* entity_created_on_server / _on_client: the body for one newly marked entity *)
Definition created_body (server : bool) (k : N) (pr : peer_state) (e : ent) : peer_state :=
  let u := e in
  let pr := if server then broadcast pr (MSpawn u) else pr in
  let pr := pr <| t_u2e := <[u := e]> (t_u2e pr) |> <| t_e2u := <[e := u]> (t_e2u pr) |> in
  let pr := if server then pr else send_up pr (MSpawn u) in
  push_cmd pr k (CInsertSync e u).

Lemma entity_created_eq server pr k last :
  entity_created server pr k last =
  foldl (fun a '(e, en) => if newly_marked last en then created_body server k a e else a) pr (ents_list pr).
Proof. reflexivity. Qed.

Definition fixed (pr : peer_state) := (p_panic pr, p_ents pr, p_app_cmds pr, n_inbox pr, p_next_ent pr).
Lemma fixed_inv pr pr' : fixed pr' = fixed pr ->
  p_panic pr' = p_panic pr /\ p_ents pr' = p_ents pr /\ p_app_cmds pr' = p_app_cmds pr /\
  n_inbox pr' = n_inbox pr /\ p_next_ent pr' = p_next_ent pr.
Proof.
  unfold fixed. intros H. repeat split.
  - exact (f_equal (fun x => x.1.1.1.1) H).
  - exact (f_equal (fun x => x.1.1.1.2) H).
  - exact (f_equal (fun x => x.1.1.2) H).
  - exact (f_equal (fun x => x.1.2) H).
  - exact (f_equal (fun x => x.2) H).
Qed.
Lemma core_fixed pr pr' : core pr' = core pr -> fixed pr' = fixed pr.
Proof.
  intros H. unfold fixed.
  rewrite (core_panic _ _ H), (core_ents _ _ H), (core_app _ _ H),
    (core_inbox _ _ H), (core_next _ _ H). reflexivity.
Qed.

Lemma created_body_fixed server k pr e : fixed (created_body server k pr e) = fixed pr.
Proof.
  unfold created_body. cbv zeta. destruct server.
  - change (fixed (broadcast pr (MSpawn e)) = fixed pr). apply core_fixed, broadcast_core.
  - match goal with |- fixed (push_cmd (send_up ?x ?m) _ _) = _ =>
      change (fixed (send_up x m) = fixed pr); rewrite (core_fixed _ _ (send_up_core x m)) end.
    reflexivity.
Qed.
Lemma created_body_u2e server k pr e : t_u2e (created_body server k pr e) = <[e := e]> (t_u2e pr).
Proof.
  unfold created_body. cbv zeta. destruct server.
  - change (<[e := e]> (t_u2e (broadcast pr (MSpawn e))) = <[e := e]> (t_u2e pr)).
    rewrite (core_u2e _ _ (broadcast_core _ _)). reflexivity.
  - match goal with |- t_u2e (push_cmd (send_up ?x ?m) _ _) = _ =>
      change (t_u2e (send_up x m) = <[e := e]> (t_u2e pr)); rewrite (core_u2e _ _ (send_up_core x m)) end.
    reflexivity.
Qed.
Lemma created_body_cmdq (P : cmd -> Prop) server k pr e :
  (forall e, P (CInsertSync e e)) -> cmdq_all P pr -> cmdq_all P (created_body server k pr e).
Proof.
  intros HP H. unfold created_body. cbv zeta. apply push_cmd_all; [|apply HP].
  destruct server.
  - eapply cmdq_all_ext; [|exact H]. change (p_cmdq (broadcast pr (MSpawn e)) = p_cmdq pr).
    apply core_cmdq, broadcast_core.
  - eapply cmdq_all_ext; [|exact H]. rewrite (core_cmdq _ _ (send_up_core _ _)). reflexivity.
Qed.
Lemma created_body_out (M : msg -> Prop) server k pr e :
  M (MSpawn e) -> out_all M pr -> out_all M (created_body server k pr e).
Proof.
  intros HM H. unfold created_body. cbv zeta.
  eapply out_all_ext; [apply push_cmd_out|]. destruct server.
  - eapply out_all_ext; [|apply (broadcast_out_all M pr (MSpawn e) H HM)]. reflexivity.
  - apply send_up_out_all; [|exact HM]. eapply out_all_ext; [|exact H]. reflexivity.
Qed.

Lemma entity_created_fixed server pr k last : fixed (entity_created server pr k last) = fixed pr.
Proof.
  rewrite entity_created_eq. apply (foldl_inv (fun a => fixed a = fixed pr)); [reflexivity|].
  intros a [e en] _ Ha. cbv beta iota. destruct (newly_marked last en); [|exact Ha].
  rewrite created_body_fixed. exact Ha.
Qed.
Lemma entity_created_cmdq (P : cmd -> Prop) server pr k last :
  (forall e, P (CInsertSync e e)) -> cmdq_all P pr -> cmdq_all P (entity_created server pr k last).
Proof.
  intros HP H. rewrite entity_created_eq. apply foldl_cmdq_all; [|exact H].
  intros a [e en] Ha. cbv beta iota. destruct (newly_marked last en); [|exact Ha].
  apply created_body_cmdq; assumption.
Qed.
Lemma entity_created_out_np server pr k last :
  out_all not_parented pr -> out_all not_parented (entity_created server pr k last).
Proof.
  intros H. rewrite entity_created_eq. apply foldl_out_all; [|exact H].
  intros a [e en] _ Ha. cbv beta iota. destruct (newly_marked last en); [|exact Ha].
  apply created_body_out; [exact I|exact Ha].
Qed.
Lemma entity_created_u2e_ok server pr k last : u2e_ok pr -> u2e_ok (entity_created server pr k last).
Proof.
  intros H. rewrite entity_created_eq.
  refine (proj2 (foldl_inv (fun a => fixed a = fixed pr /\ u2e_ok a) _ _ _ _ _));
    [split; [reflexivity|exact H]|].
  intros a [e en] Hin [Ha Hu]. cbv beta iota.
  destruct (newly_marked last en) eqn:Enm; [|split; assumption].
  split; [rewrite created_body_fixed; exact Ha|].
  pose proof (created_body_fixed server k a e) as Hf.
  apply fixed_inv in Hf as (_ & He & _ & _ & Hx).
  apply fixed_inv in Ha as (_ & He' & _ & _ & _).
  unfold u2e_ok. rewrite created_body_u2e, He, Hx.
  unfold ents_list in Hin. apply elem_of_map_to_list in Hin.
  apply (u2e_ok_self _ _ _ e en); [rewrite He'; exact Hin| |exact Hu].
  unfold newly_marked in Enm. destruct (en_mark en); [discriminate|discriminate].
Qed.

(* ---------- receivers ---------------------------------------------------------------------------------- *)

(* what a receiver never changes *)
Definition pollfixed (pr : peer_state) := (p_panic pr, p_ents pr, p_app_cmds pr, n_inbox pr).
Lemma pollfixed_inv pr pr' : pollfixed pr' = pollfixed pr ->
  p_panic pr' = p_panic pr /\ p_ents pr' = p_ents pr /\ p_app_cmds pr' = p_app_cmds pr /\
  n_inbox pr' = n_inbox pr.
Proof.
  unfold pollfixed. intros H. repeat split.
  - exact (f_equal (fun x => x.1.1.1) H).
  - exact (f_equal (fun x => x.1.1.2) H).
  - exact (f_equal (fun x => x.1.2) H).
  - exact (f_equal (fun x => x.2) H).
Qed.
Lemma core_pollfixed pr pr' : core pr' = core pr -> pollfixed pr' = pollfixed pr.
Proof.
  intros H. unfold pollfixed.
  rewrite (core_panic _ _ H), (core_ents _ _ H), (core_app _ _ H), (core_inbox _ _ H). reflexivity.
Qed.

(* commands a client generates for message m *)
Definition cli_gen (pr : peer_state) (m : msg) (c : cmd) : Prop :=
  plain c \/
  (exists u, m = MSpawn u /\ c = CSpawnSync (p_next_ent pr) u) \/
  exists cu pu ce pe, m = MParented cu pu /\ t_u2e pr !! cu = Some ce /\ t_u2e pr !! pu = Some pe /\
                      c = CSetParentCli ce pe cu pu.
(* commands the host generates for message m from client `from` *)
Definition srv_gen (pr : peer_state) (from : peer) (m : msg) (c : cmd) : Prop :=
  plain c \/
  (exists u, m = MSpawn u /\ c = CSpawnSync (p_next_ent pr) u) \/
  exists cu pu, m = MParented cu pu /\ c = CSetParentSrv from cu pu.

Lemma client_received_pollfixed pr k m : pollfixed (client_received pr k m) = pollfixed pr.
Proof.
  destruct m; simpl; repeat case_match; try reflexivity;
    apply core_pollfixed, request_asset_core.
Qed.
Lemma client_received_out pr k m : p_out (client_received pr k m) = p_out pr.
Proof.
  destruct m; simpl; repeat case_match; try reflexivity; apply request_asset_out.
Qed.
Lemma client_received_cmdq (P : cmd -> Prop) pr k m :
  (forall c, cli_gen pr m c -> P c) -> cmdq_all P pr -> cmdq_all P (client_received pr k m).
Proof.
  intros HP H.
  assert (Hb : forall c, plain c -> P c) by (intros c Hc; apply HP; left; exact Hc).
  destruct m; simpl.
  - case_match; [exact H|].
    eapply cmdq_all_intro; [simpl; reflexivity|]. apply cmdq_push_; [exact H|].
    apply HP. right. left. exists u. auto.
  - destruct (t_u2e pr !! c) as [ce|] eqn:Ec; [|exact H].
    destruct (t_u2e pr !! p) as [pe|] eqn:Ep; [|exact H].
    apply push_cmd_all; [exact H|]. apply HP. right. right. exists c, p, ce, pe. auto.
  - repeat case_match; try exact H.
    eapply cmdq_all_intro; [simpl; reflexivity|]. apply cmdq_push_; [exact H|apply Hb; exact I].
  - case_match; [|exact H]. apply push_cmd_all; [exact H|apply Hb; exact I].
  - apply push_cmd_all; [exact H|apply Hb; exact I].
  - eapply cmdq_all_ext; [apply (core_cmdq _ _ (request_asset_core _ _ _ _))|exact H].
  - apply push_cmd_all; [exact H|apply Hb; exact I].
  - eapply cmdq_all_intro; [simpl; reflexivity|].
    apply cmdq_push_; [|apply Hb; exact I]. apply cmdq_push_; [exact H|apply Hb; exact I].
  - exact H.
  - exact H.
Qed.
Lemma client_received_u2e_ok pr k m : u2e_ok pr -> u2e_ok (client_received pr k m).
Proof.
  intros H. destruct m; simpl; try exact H.
  - case_match; [exact H|]. apply (u2e_ok_alloc _ _ _ u H).
  - repeat case_match; exact H.
  - repeat case_match; try exact H. apply (u2e_ok_delete _ _ _ u H).
  - case_match; exact H.
Qed.

Lemma u2e_ok_core pr pr' : core pr' = core pr -> u2e_ok pr -> u2e_ok pr'.
Proof.
  intros H. apply u2e_ok_ext; [apply (core_u2e _ _ H)|apply (core_next _ _ H)|apply (core_ents _ _ H)].
Qed.

Lemma server_received_pollfixed pr k from m : pollfixed (server_received pr k from m) = pollfixed pr.
Proof.
  destruct m; simpl; try reflexivity.
  - rewrite (core_pollfixed _ _ (relay_except_core _ _ _)). reflexivity.
  - rewrite (core_pollfixed _ _ (relay_except_core _ _ _)). repeat case_match; reflexivity.
  - case_match; reflexivity.
  - match goal with |- pollfixed (push_cmd ?x _ _) = _ => change (pollfixed x = pollfixed pr) end.
    rewrite (core_pollfixed _ _ (relay_except_core _ _ _)). reflexivity.
Qed.

Lemma server_received_cmdq (P : cmd -> Prop) pr k from m :
  (forall c, srv_gen pr from m c -> P c) -> cmdq_all P pr -> cmdq_all P (server_received pr k from m).
Proof.
  intros HP H.
  assert (Hb : forall c, plain c -> P c) by (intros c Hc; apply HP; left; exact Hc).
  destruct m; simpl; try exact H.
  - eapply cmdq_all_ext; [apply (core_cmdq _ _ (relay_except_core _ _ _))|].
    eapply cmdq_all_intro; [simpl; reflexivity|]. apply cmdq_push_; [exact H|].
    apply HP. right. left. exists u. auto.
  - apply push_cmd_all; [exact H|]. apply HP. right. right. exists c, p. auto.
  - eapply cmdq_all_ext; [apply (core_cmdq _ _ (relay_except_core _ _ _))|].
    repeat case_match; try exact H.
    eapply cmdq_all_intro; [simpl; reflexivity|]. apply cmdq_push_; [exact H|apply Hb; exact I].
  - case_match; [|exact H]. apply push_cmd_all; [exact H|apply Hb; exact I].
  - apply push_cmd_all; [exact H|apply Hb; exact I].
  - apply push_cmd_all; [|apply Hb; exact I].
    eapply cmdq_all_ext; [apply (core_cmdq _ _ (request_asset_core _ _ _ _))|exact H].
  - apply push_cmd_all; [|apply Hb; exact I].
    eapply cmdq_all_ext; [apply (core_cmdq _ _ (relay_except_core _ _ _))|].
    eapply cmdq_all_ext; [|exact H]. reflexivity.
  - apply push_cmd_all; [exact H|apply Hb; exact I].
Qed.

Lemma server_received_u2e_ok pr k from m : u2e_ok pr -> u2e_ok (server_received pr k from m).
Proof.
  intros H. destruct m; simpl; try exact H.
  - eapply u2e_ok_core; [apply relay_except_core|]. apply (u2e_ok_alloc _ _ _ u H).
  - eapply u2e_ok_core; [apply relay_except_core|].
    repeat case_match; try exact H. apply (u2e_ok_delete _ _ _ u H).
  - case_match; exact H.
  - match goal with |- u2e_ok (push_cmd ?x _ _) => change (u2e_ok x) end.
    eapply u2e_ok_core; [apply relay_except_core|]. exact H.
Qed.

Lemma server_received_out_np pr k from m :
  out_all not_parented pr -> out_all not_parented (server_received pr k from m).
Proof.
  intros H. destruct m; simpl; try exact H.
  - apply relay_except_out_all; [|exact I]. eapply out_all_ext; [|exact H]. reflexivity.
  - apply relay_except_out_all; [|exact I]. repeat case_match; exact H.
  - case_match; exact H.
  - eapply out_all_ext; [apply push_cmd_out|].
    apply relay_except_out_all; [|exact I]. eapply out_all_ext; [|exact H]. reflexivity.
Qed.

(* pop_inbox *)
Lemma pop_inbox_spec pr from m pr' :
  pop_inbox pr from = Some (m, pr') ->
  exists rest_, n_inbox pr !! from = Some (m :: rest_) /\
                pr' = pr <| n_inbox := <[from := rest_]> (n_inbox pr) |>.
Proof.
  unfold pop_inbox. destruct (n_inbox pr !! from) as [[|m0 l]|]; try discriminate.
  intros H. injection H as <- <-. exists l. split; reflexivity.
Qed.
Lemma inbox_all_pop (M : msg -> Prop) pr from rest_ :
  (forall m, m ∈ rest_ -> M m) -> inbox_all M pr ->
  inbox_all M (pr <| n_inbox := <[from := rest_]> (n_inbox pr) |>).
Proof.
  intros Hr H s l m Hl Hin. simpl in Hl. destruct (decide (s = from)) as [->|Hne].
  - rewrite lookup_insert in Hl. injection Hl as <-. apply Hr. exact Hin.
  - rewrite lookup_insert_ne in Hl by congruence. eapply H; [exact Hl|exact Hin].
Qed.

Lemma server_poll_inv (I : peer_state -> Prop) (M : msg -> Prop) pr k froms :
  (forall a, I a -> inbox_all M a) ->
  (forall a from m rest_, I a -> n_inbox a !! from = Some (m :: rest_) ->
                          I (a <| n_inbox := <[from := rest_]> (n_inbox a) |>)) ->
  (forall a from m, I a -> M m -> I (server_received a k from m)) ->
  I pr -> I (server_poll pr k froms).
Proof.
  intros HM Hpop Hrecv HI. unfold server_poll. apply (foldl_inv I); [exact HI|].
  intros a from _ Ha. destruct (pop_inbox a from) as [[m a']|] eqn:E; [|exact Ha].
  apply pop_inbox_spec in E as [rest_ [Hl ->]].
  apply Hrecv; [eapply Hpop; [exact Ha|exact Hl]|].
  eapply HM; [exact Ha|exact Hl|left].
Qed.
Lemma client_poll_inv (I : peer_state -> Prop) (M : msg -> Prop) pr k host n :
  (forall a, I a -> inbox_all M a) ->
  (forall a from m rest_, I a -> n_inbox a !! from = Some (m :: rest_) ->
                          I (a <| n_inbox := <[from := rest_]> (n_inbox a) |>)) ->
  (forall a m, I a -> M m -> I (client_received a k m)) ->
  I pr -> I (client_poll pr k host n).
Proof.
  intros HM Hpop Hrecv HI. unfold client_poll. apply (foldl_inv I); [exact HI|].
  intros a x _ Ha. destruct (pop_inbox a host) as [[m a']|] eqn:E; [|exact Ha].
  apply pop_inbox_spec in E as [rest_ [Hl ->]].
  apply Hrecv; [eapply Hpop; [exact Ha|exact Hl]|].
  eapply HM; [exact Ha|exact Hl|left].
Qed.

(* ---------- run_body, run_system, frame: generic preservation ------------------------------------------- *)

Definition sys_body (pr : peer_state) (s : sysid) (o : frame_oracle) (k : N) (last : tick) : peer_state :=
  match s with
  | SFixVisibility => fix_system pr k last T_VISIBILITY [T_VIEWVIS; T_INHERITEDVIS] [T_VIEWVIS; T_INHERITEDVIS]
  | SFixGlobalTransform => fix_system pr k last T_TRANSFORM [T_GLOBALTRANSFORM] [T_GLOBALTRANSFORM]
  | SFixCubemapFrusta => fix_system pr k last T_POINTLIGHT [T_CUBEMAPFRUSTA] [T_CUBEMAPFRUSTA]
  | SFixCubemapVisible => fix_system pr k last T_POINTLIGHT [T_CUBEMAPVISIBLE] [T_CUBEMAPVISIBLE]
  | SFixSpotFrustum => fix_system pr k last T_SPOTLIGHT [T_FRUSTUM] [T_FRUSTUM]
  | SFixCascadesFrusta => fix_system pr k last T_DIRLIGHT [T_CASCADESFRUSTA] [T_CASCADESFRUSTA]
  | SFixCascadesVisible => fix_system pr k last T_DIRLIGHT [T_CASCADESVISIBLE] [T_CASCADESVISIBLE]
  | SFixCascades => fix_system pr k last T_DIRLIGHT [T_CASCADES] [T_CASCADES]
  | SFixCascadeShadowCfg => fix_system pr k last T_DIRLIGHT [T_CASCADESHADOWCFG] [T_CASCADESHADOWCFG]
  | SSrvConnected => pr <| s_next_server := Some SrvConnected |> <| p_finished_events := p_finished_events pr + 1 |>
  | SSrvDisconnected => pr <| s_next_server := Some SrvDisconnected |>
  | SSrvRemoved => entity_removed_server pr
  | SSrvCreated => entity_created true pr k last
  | SSrvParented => entity_parented_server pr last
  | SSrvReact => react_on_changed_components true pr
  | SSrvMat => react_on_changed_assets true KMaterial pr
  | SSrvImg => react_on_changed_assets true (KClass AImage) pr
  | SSrvMesh => react_on_changed_assets true (KClass AMesh) pr
  | SSrvAudio => react_on_changed_assets true (KClass AAudio) pr
  | SSrvPromote => promote_reader pr
  | SSrvClientConnected => client_connected pr k
  | SSrvPoll => server_poll pr k (fo_srv_poll o)
  | SCliConnecting => pr <| s_next_client := Some CliConnecting |>
  | SCliVerify => verify_client_connected pr k
  | SCliDisconnected => pr <| s_next_client := Some CliDisconnected |>
  | SCliRemoved => entity_removed_client pr
  | SCliCreated => entity_created false pr k last
  | SCliParented => entity_parented_client pr last
  | SCliReact => react_on_changed_components false pr
  | SCliMat => react_on_changed_assets false KMaterial pr
  | SCliImg => react_on_changed_assets false (KClass AImage) pr
  | SCliMesh => react_on_changed_assets false (KClass AMesh) pr
  | SCliAudio => react_on_changed_assets false (KClass AAudio) pr
  | SCliPoll => match n_cli_transport pr with
                | Some (h, _) => client_poll pr k h (fo_cli_poll o)
                | None => pr
                end
  | SProcMesh => process_assets pr AMesh (fo_downloads o)
  | SProcImage => process_assets pr AImage (fo_downloads o)
  | SProcAudio => process_assets pr AAudio (fo_downloads o)
  | SDetect t => sync_detect pr t last
  | SSync => pr
  | SApp n =>
      let mine := filter (fun x : N * cmd => x.1 =? n) (p_app_cmds pr) in
      let pr := pr <| p_app_cmds := filter (fun x : N * cmd => negb (x.1 =? n)) (p_app_cmds pr) |> in
      foldl (fun pr x => push_cmd pr k x.2) pr mine
  end.

Lemma run_body_eq pr s o :
  run_body pr s o =
  let k := sys_key s in
  let pr1 := pr <| p_tick := p_tick pr + 1 |> in
  end_run (sys_body pr1 s o k (last_run pr1 k)) k (p_tick pr).
Proof. destruct s; reflexivity. Qed.

(* an invariant that only looks at the fields of `core` and at the outbox *)
Definition respects_core (I : peer_state -> Prop) : Prop :=
  forall pr pr', core pr' = core pr -> p_out pr' = p_out pr -> I pr -> I pr'.

Lemma run_body_inv (I : peer_state -> Prop) :
  respects_core I ->
  (forall pr s o k last, I pr -> I (sys_body pr s o k last)) ->
  forall pr s o, I pr -> I (run_body pr s o).
Proof.
  intros Hext Hsys pr s o HI. rewrite run_body_eq. cbv zeta. unfold end_run.
  eapply Hext; [| |apply Hsys; eapply Hext; [| |exact HI]]; reflexivity.
Qed.

Lemma cond_added_core pr k a : core (cond_resource_added pr k a).1 = core pr.
Proof. reflexivity. Qed.
Lemma cond_added_out pr k a : p_out (cond_resource_added pr k a).1 = p_out pr.
Proof. reflexivity. Qed.
Lemma cond_removed_core pr k b : core (cond_resource_removed pr k b).1 = core pr.
Proof. unfold cond_resource_removed. destruct b; [reflexivity|]. destruct (default false _); reflexivity. Qed.
Lemma cond_removed_out pr k b : p_out (cond_resource_removed pr k b).1 = p_out pr.
Proof. unfold cond_resource_removed. destruct b; [reflexivity|]. destruct (default false _); reflexivity. Qed.

Lemma run_system_inv (I : peer_state -> Prop) :
  respects_core I ->
  (forall pr, I pr -> p_panic pr = None -> I (flush pr)) ->
  (forall pr s o, I pr -> I (run_body pr s o)) ->
  forall pr s o, I pr -> I (run_system pr s o).
Proof.
  intros Hext Hflush Hbody pr s o HI. unfold run_system.
  destruct (p_panic pr) eqn:Ep; [exact HI|]. cbv zeta.
  assert (Hadd : forall k a (b : peer_state -> bool),
             I (let '(pr0, added) := cond_resource_added pr k a in
                if b pr0 && added then run_body pr0 s o else pr0)).
  { intros k a b. destruct (cond_resource_added pr k a) as [pr0 added] eqn:E.
    assert (HI0 : I pr0).
    { eapply Hext; [| |exact HI].
      - rewrite <- (cond_added_core pr k a), E. reflexivity.
      - rewrite <- (cond_added_out pr k a), E. reflexivity. }
    destruct (b pr0 && added); [apply Hbody|]; exact HI0. }
  assert (Hrem : forall k a (b : peer_state -> bool),
             I (let '(pr0, removed) := cond_resource_removed pr k a in
                if b pr0 && removed then run_body pr0 s o else pr0)).
  { intros k a b. destruct (cond_resource_removed pr k a) as [pr0 removed] eqn:E.
    assert (HI0 : I pr0).
    { eapply Hext; [| |exact HI].
      - rewrite <- (cond_removed_core pr k a), E. reflexivity.
      - rewrite <- (cond_removed_out pr k a), E. reflexivity. }
    destruct (b pr0 && removed); [apply Hbody|]; exact HI0. }
  destruct s; try (apply Hbody; exact HI);
    try (match goal with |- I (if ?b then _ else _) => destruct b; [apply Hbody|]; exact HI end).
  - apply (Hadd _ _ (fun pr0 => n_setup pr0 && negb (is_srv_connected (s_server pr0)))).
  - apply (Hrem _ _ (fun pr0 => n_setup pr0 && is_srv_connected (s_server pr0))).
  - apply (Hadd _ _ (fun pr0 => n_setup pr0 && is_cli_disconnected (s_client pr0))).
  - apply (Hrem _ _ (fun pr0 => n_setup pr0 && negb (is_cli_disconnected (s_client pr0)))).
  - apply Hflush; assumption.
Qed.

Lemma pre_update_core pr o : core (pre_update pr o) = core pr.
Proof. unfold pre_update. destruct (fo_status o); reflexivity. Qed.
Lemma pre_update_out pr o : p_out (pre_update pr o) = p_out pr.
Proof. unfold pre_update. destruct (fo_status o); reflexivity. Qed.

Lemma state_transition_inv (I : peer_state -> Prop) pr :
  respects_core I ->
  (forall a h, I a -> I (send_up a (MNewHost h))) ->
  I pr -> I (state_transition pr).
Proof.
  intros Hext Hsend HI. unfold state_transition.
  set (pr1 := match s_next_client pr with
              | Some st => pr <| s_client := st |> <| s_next_client := None |>
              | None => pr end).
  assert (H1 : I pr1).
  { subst pr1. destruct (s_next_client pr); [|exact HI]. eapply Hext; [| |exact HI]; reflexivity. }
  clearbody pr1. destruct (s_next_server pr1) as [st|]; [|exact H1]. cbv zeta.
  assert (H2 : I (pr1 <| s_server := st |> <| s_next_server := None |>)).
  { eapply Hext; [| |exact H1]; reflexivity. }
  destruct (_ && _); [apply Hsend|]; exact H2.
Qed.

Lemma frame_inv (I : peer_state -> Prop) :
  respects_core I ->
  (forall pr, I pr -> I (pr <| p_out := [] |>)) ->
  (forall a h, I a -> I (send_up a (MNewHost h))) ->
  (forall pr, I pr -> p_panic pr = None -> I (flush pr)) ->
  (forall pr s o k last, I pr -> I (sys_body pr s o k last)) ->
  forall pr o, I pr -> I (frame pr o).
Proof.
  intros Hext Hreset Hsend Hflush Hsys pr o HI. unfold frame.
  destruct (p_panic pr) eqn:Ep; [exact HI|]. cbv zeta.
  assert (H1 : I (state_transition (pre_update (pr <| p_out := [] |>) o))).
  { apply state_transition_inv; [exact Hext|exact Hsend|].
    eapply Hext; [apply pre_update_core|apply pre_update_out|]. apply Hreset. exact HI. }
  set (pr1 := state_transition (pre_update (pr <| p_out := [] |>) o)) in *. clearbody pr1.
  assert (H2 : I (foldl (fun pr0 s => run_system pr0 s o) pr1 (p_order pr1))).
  { apply (foldl_inv I); [exact H1|]. intros a s _ Ha.
    apply run_system_inv; [exact Hext|exact Hflush| |exact Ha].
    apply run_body_inv; [exact Hext|exact Hsys]. }
  set (pr2 := foldl (fun pr0 s => run_system pr0 s o) pr1 (p_order pr1)) in *. clearbody pr2.
  assert (H3 : I (match p_panic pr2 with Some _ => pr2 | None => flush pr2 end)).
  { destruct (p_panic pr2) eqn:E2; [exact H2|]. apply Hflush; assumption. }
  eapply Hext; [| |exact H3]; reflexivity.
Qed.

(* a panicked peer is frozen: the flag is the only thing that stops a frame *)
Lemma frame_panicked pr o s : p_panic pr = Some s -> frame pr o = pr.
Proof. intros H. unfold frame. rewrite H. reflexivity. Qed.
Lemma run_system_panicked pr s o x : p_panic pr = Some x -> run_system pr s o = pr.
Proof. intros H. unfold run_system. rewrite H. reflexivity. Qed.

(* ---------- no system of a frame changes the panic flag or the entities ---------------------------------- *)

Definition pe (pr : peer_state) := (p_panic pr, p_ents pr).
Lemma pe_inv pr pr' : pe pr' = pe pr -> p_panic pr' = p_panic pr /\ p_ents pr' = p_ents pr.
Proof. unfold pe. intros H. split; [exact (f_equal fst H)|exact (f_equal snd H)]. Qed.
Lemma core_pe pr pr' : core pr' = core pr -> pe pr' = pe pr.
Proof. intros H. unfold pe. rewrite (core_panic _ _ H), (core_ents _ _ H). reflexivity. Qed.
Lemma nocmdq_pe pr pr' : nocmdq pr' = nocmdq pr -> pe pr' = pe pr.
Proof. intros H. apply nocmdq_inv in H as (H1 & H2 & _). unfold pe. rewrite H1, H2. reflexivity. Qed.
Lemma nou2e_pe pr pr' : nou2e pr' = nou2e pr -> pe pr' = pe pr.
Proof. intros H. apply nou2e_inv in H as (H1 & H2 & _). unfold pe. rewrite H1, H2. reflexivity. Qed.
Lemma fixed_pe pr pr' : fixed pr' = fixed pr -> pe pr' = pe pr.
Proof. intros H. apply fixed_inv in H as (H1 & H2 & _). unfold pe. rewrite H1, H2. reflexivity. Qed.
Lemma pollfixed_pe pr pr' : pollfixed pr' = pollfixed pr -> pe pr' = pe pr.
Proof. intros H. apply pollfixed_inv in H as (H1 & H2 & _). unfold pe. rewrite H1, H2. reflexivity. Qed.

Lemma sys_body_pe pr s o k last : pe (sys_body pr s o k last) = pe pr.
Proof.
  destruct s; simpl;
    try reflexivity;
    try (apply nocmdq_pe, fix_system_nocmdq);
    try (apply core_pe; first [apply react_assets_core|apply process_assets_core]).
  - apply nou2e_pe, entity_removed_server_nou2e.
  - apply fixed_pe, entity_created_fixed.
  - apply core_pe, entity_parented_server_core.
  - apply core_pe, react_components_core.
  - apply core_pe, promote_reader_core.
  - apply nocmdq_pe, client_connected_nocmdq.
  - apply (server_poll_inv (fun a => pe a = pe pr) (fun _ => True)); try reflexivity.
    + intros a _ ? ? ? _ _. exact I.
    + intros a from m rest_ Ha _. exact Ha.
    + intros a from m Ha _. rewrite (pollfixed_pe _ _ (server_received_pollfixed _ _ _ _)). exact Ha.
  - apply nocmdq_pe, verify_nocmdq.
  - apply nou2e_pe, entity_removed_client_nou2e.
  - apply fixed_pe, entity_created_fixed.
  - apply core_pe, entity_parented_client_core.
  - apply core_pe, react_components_core.
  - destruct (n_cli_transport pr) as [[h t]|]; [|reflexivity].
    apply (client_poll_inv (fun a => pe a = pe pr) (fun _ => True)); try reflexivity.
    + intros a _ ? ? ? _ _. exact I.
    + intros a from m rest_ Ha _. exact Ha.
    + intros a m Ha _. rewrite (pollfixed_pe _ _ (client_received_pollfixed _ _ _)). exact Ha.
  - apply core_pe, sync_detect_core.
  - apply (foldl_inv (fun a => pe a = pe pr)); [reflexivity|]. intros a x _ Ha. exact Ha.
Qed.

Lemma run_body_pe pr s o : pe (run_body pr s o) = pe pr.
Proof. rewrite run_body_eq. cbv zeta. unfold end_run. change (pe (sys_body (pr <| p_tick := p_tick pr + 1 |>) s o (sys_key s) (last_run (pr <| p_tick := p_tick pr + 1 |>) (sys_key s))) = pe pr). rewrite sys_body_pe. reflexivity. Qed.

(* the command queue and tracker part of the invariants, parametrised by the commands P and the
   messages M that are allowed; with_u2e adds the conditions on uuid_to_entity *)
Section GI.
  Variables (with_u2e : bool) (P : cmd -> Prop) (M : msg -> Prop).
  Definition GS (pr : peer_state) : Prop := if with_u2e then u2e_ok pr else True.
  Definition GI (pr : peer_state) : Prop :=
    cmdq_all P pr /\ app_all P pr /\ inbox_all M pr /\ GS pr.

  Hypothesis Hb : forall c, benign c -> P c.
  Hypothesis Hsrv : forall from cu pu, M (MParented cu pu) -> P (CSetParentSrv from cu pu).
  Hypothesis Hcli : forall pr cu pu ce pe, GS pr -> M (MParented cu pu) ->
    t_u2e pr !! cu = Some ce -> t_u2e pr !! pu = Some pe -> P (CSetParentCli ce pe cu pu).

  Lemma GS_ext pr pr' :
    t_u2e pr' = t_u2e pr -> p_next_ent pr' = p_next_ent pr -> p_ents pr' = p_ents pr -> GS pr -> GS pr'.
  Proof. unfold GS. destruct with_u2e; [apply u2e_ok_ext|auto]. Qed.

  Lemma GI_core pr pr' : core pr' = core pr -> GI pr -> GI pr'.
  Proof.
    intros H (H1 & H2 & H3 & H4). repeat split.
    - eapply cmdq_all_ext; [apply (core_cmdq _ _ H)|exact H1].
    - eapply app_all_ext; [apply (core_app _ _ H)|exact H2].
    - eapply inbox_all_ext; [apply (core_inbox _ _ H)|exact H3].
    - eapply GS_ext; [apply (core_u2e _ _ H)|apply (core_next _ _ H)|apply (core_ents _ _ H)|exact H4].
  Qed.

  Lemma GI_nocmdq pr pr' : nocmdq pr' = nocmdq pr -> cmdq_all P pr' -> GI pr -> GI pr'.
  Proof.
    intros H Hq (H1 & H2 & H3 & H4). apply nocmdq_inv in H as (_ & He & Ha & Hu & Hi & Hn).
    repeat split.
    - exact Hq.
    - eapply app_all_ext; [exact Ha|exact H2].
    - eapply inbox_all_ext; [exact Hi|exact H3].
    - eapply GS_ext; [exact Hu|exact Hn|exact He|exact H4].
  Qed.

  Lemma GI_sub pr pr' : nou2e pr' = nou2e pr -> u2e_sub pr pr' -> GI pr -> GI pr'.
  Proof.
    intros H Hs (H1 & H2 & H3 & H4).
    pose proof (nou2e_inv _ _ H) as (_ & He & Ha & Hi & Hn & Hq).
    repeat split.
    - eapply cmdq_all_ext; [exact Hq|exact H1].
    - eapply app_all_ext; [exact Ha|exact H2].
    - eapply inbox_all_ext; [exact Hi|exact H3].
    - unfold GS in H4 |- *. destruct with_u2e; [|exact I]. eapply u2e_ok_of_sub; eassumption.
  Qed.

  Lemma GI_created server pr k last : GI pr -> GI (entity_created server pr k last).
  Proof.
    intros (H1 & H2 & H3 & H4).
    pose proof (fixed_inv _ _ (entity_created_fixed server pr k last)) as (_ & He & Ha & Hi & Hn).
    repeat split.
    - apply entity_created_cmdq; [intros e; apply Hb; exact I|exact H1].
    - eapply app_all_ext; [exact Ha|exact H2].
    - eapply inbox_all_ext; [exact Hi|exact H3].
    - unfold GS in H4 |- *. destruct with_u2e; [|exact I]. apply entity_created_u2e_ok. exact H4.
  Qed.

  Lemma GI_pop pr from m rest_ :
    GI pr -> n_inbox pr !! from = Some (m :: rest_) ->
    GI (pr <| n_inbox := <[from := rest_]> (n_inbox pr) |>).
  Proof.
    intros (H1 & H2 & H3 & H4) Hl. repeat split; [exact H1|exact H2| |exact H4].
    apply inbox_all_pop; [|exact H3]. intros m' Hm'. eapply H3; [exact Hl|right; exact Hm'].
  Qed.

  Lemma GI_client_received pr k m : GI pr -> M m -> GI (client_received pr k m).
  Proof.
    intros (H1 & H2 & H3 & H4) Hm.
    pose proof (pollfixed_inv _ _ (client_received_pollfixed pr k m)) as (_ & He & Ha & Hi).
    repeat split.
    - apply client_received_cmdq; [|exact H1].
      intros c [Hc|[(u & -> & ->)|(cu & pu & ce & pe' & -> & Hcu & Hpu & ->)]];
        [apply Hb, plain_benign; exact Hc|apply Hb; exact I|].
      eapply Hcli; eassumption.
    - eapply app_all_ext; [exact Ha|exact H2].
    - eapply inbox_all_ext; [exact Hi|exact H3].
    - unfold GS in H4 |- *. destruct with_u2e; [|exact I]. apply client_received_u2e_ok. exact H4.
  Qed.

  Lemma GI_server_received pr k from m : GI pr -> M m -> GI (server_received pr k from m).
  Proof.
    intros (H1 & H2 & H3 & H4) Hm.
    pose proof (pollfixed_inv _ _ (server_received_pollfixed pr k from m)) as (_ & He & Ha & Hi).
    repeat split.
    - apply server_received_cmdq; [|exact H1].
      intros c [Hc|[(u & -> & ->)|(cu & pu & -> & ->)]];
        [apply Hb, plain_benign; exact Hc|apply Hb; exact I|]. apply Hsrv. exact Hm.
    - eapply app_all_ext; [exact Ha|exact H2].
    - eapply inbox_all_ext; [exact Hi|exact H3].
    - unfold GS in H4 |- *. destruct with_u2e; [|exact I]. apply server_received_u2e_ok. exact H4.
  Qed.

  Lemma GI_app pr k n :
    GI pr ->
    GI (foldl (fun a x => push_cmd a k x.2)
              (pr <| p_app_cmds := filter (fun x : N * cmd => negb (x.1 =? n)) (p_app_cmds pr) |>)
              (filter (fun x : N * cmd => x.1 =? n) (p_app_cmds pr))).
  Proof.
    intros (H1 & H2 & H3 & H4).
    set (pr0 := pr <| p_app_cmds := filter (fun x : N * cmd => negb (x.1 =? n)) (p_app_cmds pr) |>).
    assert (H0 : GI pr0).
    { repeat split; [exact H1| |exact H3|exact H4].
      intros x Hx. subst pr0. simpl in Hx. apply elem_of_list_filter in Hx as [_ Hx]. apply H2. exact Hx. }
    apply (foldl_inv GI); [exact H0|].
    intros a x Hx (A1 & A2 & A3 & A4). repeat split; [|exact A2|exact A3|exact A4].
    apply push_cmd_all; [exact A1|]. apply elem_of_list_filter in Hx as [_ Hx]. apply H2. exact Hx.
  Qed.

  Lemma sys_body_GI pr s o k last : GI pr -> GI (sys_body pr s o k last).
  Proof.
    intros HI.
    assert (Hfix : forall trig wo comps, GI (fix_system pr k last trig wo comps)).
    { intros trig wo comps. eapply GI_nocmdq; [apply fix_system_nocmdq| |exact HI].
      apply fix_system_cmdq; [intros c Hc; apply Hb, plain_benign; exact Hc|apply HI]. }
    destruct s; simpl; try apply Hfix;
      try (eapply GI_core; [|exact HI]; first [reflexivity|apply react_assets_core|apply process_assets_core]).
    - eapply GI_sub; [apply entity_removed_server_nou2e|apply entity_removed_server_sub|exact HI].
    - apply GI_created. exact HI.
    - eapply GI_core; [apply entity_parented_server_core|exact HI].
    - eapply GI_core; [apply react_components_core|exact HI].
    - eapply GI_core; [apply promote_reader_core|exact HI].
    - eapply GI_nocmdq; [apply client_connected_nocmdq| |exact HI].
      apply client_connected_cmdq; [intros c Hc; apply Hb, plain_benign; exact Hc|apply HI].
    - apply (server_poll_inv GI M); [intros a Ha; apply Ha| | |exact HI].
      + intros a from m rest_ Ha Hl. eapply GI_pop; eassumption.
      + intros a from m Ha Hm. apply GI_server_received; assumption.
    - eapply GI_nocmdq; [apply verify_nocmdq| |exact HI].
      apply verify_cmdq; [intros c Hc; apply Hb, plain_benign; exact Hc|apply HI].
    - eapply GI_sub; [apply entity_removed_client_nou2e|apply entity_removed_client_sub|exact HI].
    - apply GI_created. exact HI.
    - eapply GI_core; [apply entity_parented_client_core|exact HI].
    - eapply GI_core; [apply react_components_core|exact HI].
    - destruct (n_cli_transport pr) as [[h t]|]; [|exact HI].
      apply (client_poll_inv GI M); [intros a Ha; apply Ha| | |exact HI].
      + intros a from m rest_ Ha Hl. eapply GI_pop; eassumption.
      + intros a m Ha Hm. apply GI_client_received; assumption.
    - eapply GI_core; [apply sync_detect_core|exact HI].
    - apply GI_app. exact HI.
  Qed.

  (* deferred commands leave this part alone, except for the marks (which they can only clear) *)
  Lemma GI_apply_cmd pr c : GI pr -> GI (apply_cmd pr c).
  Proof.
    intros (H1 & H2 & H3 & H4).
    pose proof (rest_inv _ _ (apply_cmd_rest pr c)) as (Ha & Hu & Hi & Hn & Hq).
    repeat split.
    - eapply cmdq_all_ext; [exact Hq|exact H1].
    - eapply app_all_ext; [exact Ha|exact H2].
    - eapply inbox_all_ext; [exact Hi|exact H3].
    - unfold GS in H4 |- *. destruct with_u2e; [|exact I].
      unfold u2e_ok. rewrite Hu, Hn. eapply u2e_ok_ents; [|exact H4].
      destruct H4 as (_ & _ & _ & U4).
      apply (apply_cmd_ents_all mark_ok pr c); [| | | |exact U4].
      + intros e u t Hm. simpl in Hm. contradiction.
      + intros e en now t v Hen. unfold mark_ok, put_comp in *. destruct (en_comps en !! t); exact Hen.
      + intros e en u t _ Hm. simpl in Hm. contradiction.
      + intros _ e en p cs Hen. split; exact Hen.
  Qed.

  Lemma GI_delete pr k : GI pr -> GI (pr <| p_cmdq := delete k (p_cmdq pr) |>).
  Proof.
    intros (H1 & H2 & H3 & H4). repeat split; [|exact H2|exact H3|exact H4].
    apply cmdq_all_delete. exact H1.
  Qed.
End GI.

(* no system originates a parent link unless some live entity has a Parent *)
Lemma sys_body_out_np pr s o k last :
  ents_all no_parent pr -> out_all not_parented pr -> out_all not_parented (sys_body pr s o k last).
Proof.
  intros Hnp H.
  destruct s; simpl;
    try exact H;
    try (eapply out_all_ext; [apply fix_system_out|exact H]);
    try (apply react_assets_out_np; exact H);
    try (eapply out_all_ext; [apply process_assets_out|exact H]).
  - apply entity_removed_server_out_np. exact H.
  - apply entity_created_out_np. exact H.
  - apply entity_parented_server_out_np; assumption.
  - apply react_components_out_np. exact H.
  - apply promote_reader_out_np. exact H.
  - eapply out_all_ext; [apply client_connected_out|exact H].
  - apply (server_poll_inv (out_all not_parented) (fun _ => True)); [| | |exact H].
    + intros a _ ? ? ? _ _. exact I.
    + intros a from m rest_ Ha _. exact Ha.
    + intros a from m Ha _. apply server_received_out_np. exact Ha.
  - eapply out_all_ext; [apply verify_out|exact H].
  - apply entity_removed_client_out_np. exact H.
  - apply entity_created_out_np. exact H.
  - apply entity_parented_client_out_np; assumption.
  - apply react_components_out_np. exact H.
  - destruct (n_cli_transport pr) as [[h t]|]; [|exact H].
    apply (client_poll_inv (out_all not_parented) (fun _ => True)); [| | |exact H].
    + intros a _ ? ? ? _ _. exact I.
    + intros a from m rest_ Ha _. exact Ha.
    + intros a m Ha _. eapply out_all_ext; [apply client_received_out|exact Ha].
  - eapply out_all_ext; [apply sync_detect_out|exact H].
  - apply foldl_out_all; [|exact H]. intros a x _ Ha. exact Ha.
Qed.

(* ================================================================================================ *)
(* Identities: which uuid an entity id stands for, and parent links between different uuids          *)
(* ================================================================================================ *)

(* commands waiting in some system's buffer, or (during a flush) in the list being applied *)
Definition queued_ (q : gmap N (list cmd)) (extra : list cmd) (c : cmd) : Prop :=
  c ∈ extra \/ exists k cs, q !! k = Some cs /\ c ∈ cs.
Definition queued (pr : peer_state) (extra : list cmd) (c : cmd) : Prop := queued_ (p_cmdq pr) extra c.

Lemma queued_push_ q extra k c0 c :
  queued_ (<[k := default [] (q !! k) ++ [c0]]> q) extra c <-> queued_ q extra c \/ c = c0.
Proof.
  unfold queued_. split.
  - intros [H|(k' & cs & Hl & Hin)]; [left; left; exact H|].
    destruct (decide (k' = k)) as [->|Hne].
    + rewrite lookup_insert in Hl. injection Hl as <-. apply elem_of_app in Hin as [Hin|Hin].
      * destruct (q !! k) as [cs0|] eqn:E; simpl in Hin; [|inversion Hin].
        left. right. exists k, cs0. split; [exact E|exact Hin].
      * apply elem_of_list_singleton in Hin. right. exact Hin.
    + rewrite lookup_insert_ne in Hl by congruence. left. right. exists k', cs. split; assumption.
  - intros [[H|(k' & cs & Hl & Hin)]| ->].
    + left. exact H.
    + right. destruct (decide (k' = k)) as [->|Hne].
      * exists k, (cs ++ [c0]). rewrite lookup_insert, Hl. split; [reflexivity|].
        apply elem_of_app. left. exact Hin.
      * exists k', cs. rewrite lookup_insert_ne by congruence. split; assumption.
    + right. exists k, (default [] (q !! k) ++ [c0]). rewrite lookup_insert. split; [reflexivity|].
      apply elem_of_app. right. apply elem_of_list_singleton. reflexivity.
Qed.
Lemma queued_push pr extra k c0 c :
  queued (push_cmd pr k c0) extra c <-> queued pr extra c \/ c = c0.
Proof. apply queued_push_. Qed.

Lemma queued_take_ q k cs c :
  q !! k = Some cs -> queued_ (delete k q) cs c <-> queued_ q [] c.
Proof.
  intros Hk. unfold queued_. split.
  - intros [H|(k' & cs' & Hl & Hin)]; right.
    + exists k, cs. split; assumption.
    + apply lookup_delete_Some in Hl as [_ Hl]. exists k', cs'. split; assumption.
  - intros [H|(k' & cs' & Hl & Hin)]; [inversion H|].
    destruct (decide (k' = k)) as [->|Hne].
    + rewrite Hk in Hl. injection Hl as <-. left. exact Hin.
    + right. exists k', cs'. rewrite lookup_delete_ne by congruence. split; assumption.
Qed.

Lemma queued_tail_ q c0 cs c : queued_ q cs c -> queued_ q (c0 :: cs) c.
Proof. intros [H|H]; [left; right; exact H|right; exact H]. Qed.
Lemma queued_head_ q c0 cs : queued_ q (c0 :: cs) c0.
Proof. left. left. Qed.

(* what is known about entity id e: entity_to_uuid, its SyncEntity component, a pending spawn *)
Definition fact (pr : peer_state) (extra : list cmd) (e : ent) (u : uuid) : Prop :=
  t_e2u pr !! e = Some u \/
  (exists en, p_ents pr !! e = Some en /\ en_sync en = Some u) \/
  queued pr extra (CSpawnSync e u).

(* e stands for uuid u: a script entity stands for its own id; everything known about e agrees *)
Definition ident (pr : peer_state) (extra : list cmd) (e : ent) (u : uuid) : Prop :=
  (e < SCRIPT_LIMIT -> u = e) /\ (forall u', fact pr extra e u' -> u' = u).

Definition distinct_ids (pr : peer_state) (extra : list cmd) (a b : ent) : Prop :=
  exists u v, u <> v /\ ident pr extra a u /\ ident pr extra b v.

Definition old (pr : peer_state) (e : ent) : Prop := e < p_next_ent pr.

Record link_inv (pr : peer_state) (extra : list cmd) : Prop := {
  li_fc : forall e, old pr e -> exists u, ident pr extra e u;
  li_uk : forall u e, t_u2e pr !! u = Some e -> old pr e /\ ident pr extra e u;
  li_links : forall e en q t, p_ents pr !! e = Some en -> en_parent en = Some (q, t) ->
             old pr q /\ distinct_ids pr extra e q;
  li_live : forall e en, p_ents pr !! e = Some en -> old pr e;
  li_e2u : forall e u, t_e2u pr !! e = Some u -> old pr e;
  li_spawn : forall e u, queued pr extra (CSpawnSync e u) -> SCRIPT_LIMIT <= e /\ old pr e;
  li_isync : forall e u, queued pr extra (CInsertSync e u) -> u = e /\ e < SCRIPT_LIMIT;
  li_cli : forall c p cu pu, queued pr extra (CSetParentCli c p cu pu) ->
           old pr c /\ old pr p /\ distinct_ids pr extra c p;
  li_next : SCRIPT_LIMIT <= p_next_ent pr;
}.

(* one step: nothing new is learnt about existing ids except that a script entity is itself *)
Definition facts_shrink (pr : peer_state) (extra : list cmd) (pr' : peer_state) (extra' : list cmd) : Prop :=
  forall e u, old pr e -> fact pr' extra' e u -> fact pr extra e u \/ (e < SCRIPT_LIMIT /\ u = e).

Lemma ident_mono pr extra pr' extra' e u :
  facts_shrink pr extra pr' extra' -> old pr e -> ident pr extra e u -> ident pr' extra' e u.
Proof.
  intros Hs Ho [H1 H2]. split; [exact H1|].
  intros u' Hf. destruct (Hs e u' Ho Hf) as [Hf'|[Hlt ->]]; [apply H2; exact Hf'|].
  symmetry. apply H1. exact Hlt.
Qed.
Lemma distinct_mono pr extra pr' extra' a b :
  facts_shrink pr extra pr' extra' -> old pr a -> old pr b ->
  distinct_ids pr extra a b -> distinct_ids pr' extra' a b.
Proof.
  intros Hs Ha Hb (u & v & Hne & Hu & Hv). exists u, v.
  split; [exact Hne|split; eapply ident_mono; eassumption].
Qed.

Lemma link_inv_step pr extra pr' extra' :
  link_inv pr extra ->
  p_next_ent pr <= p_next_ent pr' ->
  facts_shrink pr extra pr' extra' ->
  (forall e, ~ old pr e -> old pr' e -> exists u, ident pr' extra' e u) ->
  (forall u e, t_u2e pr' !! u = Some e ->
     t_u2e pr !! u = Some e \/ (old pr' e /\ ident pr' extra' e u)) ->
  (forall e en q t, p_ents pr' !! e = Some en -> en_parent en = Some (q, t) ->
     (exists en0 t0, p_ents pr !! e = Some en0 /\ en_parent en0 = Some (q, t0)) \/
     (old pr e /\ old pr q /\ distinct_ids pr extra e q)) ->
  (forall e en, p_ents pr' !! e = Some en -> (exists en0, p_ents pr !! e = Some en0) \/ old pr' e) ->
  (forall e u, t_e2u pr' !! e = Some u -> (exists u0, t_e2u pr !! e = Some u0) \/ old pr' e) ->
  (forall e u, queued pr' extra' (CSpawnSync e u) ->
     queued pr extra (CSpawnSync e u) \/ (SCRIPT_LIMIT <= e /\ old pr' e)) ->
  (forall e u, queued pr' extra' (CInsertSync e u) ->
     queued pr extra (CInsertSync e u) \/ (u = e /\ e < SCRIPT_LIMIT)) ->
  (forall c p cu pu, queued pr' extra' (CSetParentCli c p cu pu) ->
     queued pr extra (CSetParentCli c p cu pu) \/ (old pr c /\ old pr p /\ distinct_ids pr extra c p)) ->
  link_inv pr' extra'.
Proof.
  intros HI Hnext Hs Hnew Huk Hlinks Hlive He2u Hspawn Hisync Hcli.
  assert (Hold : forall e, old pr e -> old pr' e) by (unfold old; intros e He; lia).
  constructor.
  - intros e He. destruct (decide (e < p_next_ent pr)) as [Ho|Hn].
    + destruct (li_fc _ _ HI e Ho) as [u Hu]. exists u. eapply ident_mono; eassumption.
    + apply Hnew; assumption.
  - intros u e Hl. destruct (Huk u e Hl) as [H|H]; [|exact H].
    destruct (li_uk _ _ HI u e H) as [Ho Hi]. split; [apply Hold; exact Ho|].
    eapply ident_mono; eassumption.
  - intros e en q t Hl Hp. destruct (Hlinks e en q t Hl Hp) as [(en0 & t0 & Hl0 & Hp0)|(Ho & Hq & Hd)].
    + destruct (li_links _ _ HI e en0 q t0 Hl0 Hp0) as [Hq Hd].
      split; [apply Hold; exact Hq|]. eapply distinct_mono; try eassumption.
      eapply li_live; eassumption.
    + split; [apply Hold; exact Hq|]. eapply distinct_mono; eassumption.
  - intros e en Hl. destruct (Hlive e en Hl) as [[en0 H0]|H]; [|exact H].
    apply Hold. eapply li_live; eassumption.
  - intros e u Hl. destruct (He2u e u Hl) as [[u0 H0]|H]; [|exact H].
    apply Hold. eapply li_e2u; eassumption.
  - intros e u Hq. destruct (Hspawn e u Hq) as [H|H]; [|exact H].
    destruct (li_spawn _ _ HI e u H) as [H1 H2]. split; [exact H1|apply Hold; exact H2].
  - intros e u Hq. destruct (Hisync e u Hq) as [H|H]; [|exact H]. eapply li_isync; eassumption.
  - intros c p cu pu Hq. destruct (Hcli c p cu pu Hq) as [H|(Hc & Hp & Hd)].
    + destruct (li_cli _ _ HI c p cu pu H) as (Hc & Hp & Hd).
      split; [apply Hold; exact Hc|split; [apply Hold; exact Hp|]]. eapply distinct_mono; eassumption.
    + split; [apply Hold; exact Hc|split; [apply Hold; exact Hp|]]. eapply distinct_mono; eassumption.
  - pose proof (li_next _ _ HI). lia.
Qed.

Definition tracked (c : cmd) : Prop :=
  match c with CSpawnSync _ _ | CInsertSync _ _ | CSetParentCli _ _ _ _ => True | _ => False end.

(* entities may disappear or change components, not their SyncEntity or Parent (up to its tick) *)
Definition ents_shrink (m m' : gmap ent entity) : Prop :=
  forall e en', m' !! e = Some en' ->
    exists en, m !! e = Some en /\ en_sync en' = en_sync en /\
               (forall q t, en_parent en' = Some (q, t) -> exists t0, en_parent en = Some (q, t0)).

Lemma ents_shrink_refl m : ents_shrink m m.
Proof. intros e en H. exists en. split; [exact H|split; [reflexivity|]]. intros q t Hp. exists t. exact Hp. Qed.

Lemma link_inv_shrink pr extra pr' extra' :
  link_inv pr extra ->
  p_next_ent pr' = p_next_ent pr ->
  (forall e u, t_e2u pr' !! e = Some u -> t_e2u pr !! e = Some u) ->
  (forall u e, t_u2e pr' !! u = Some e -> t_u2e pr !! u = Some e) ->
  ents_shrink (p_ents pr) (p_ents pr') ->
  (forall c, tracked c -> queued pr' extra' c -> queued pr extra c) ->
  link_inv pr' extra'.
Proof.
  intros HI Hn He2u Hu2e Hents Hq.
  apply (link_inv_step pr extra); try assumption.
  - rewrite Hn. lia.
  - intros e u _ [H|[(en' & Hl & Hs)|H]]; left.
    + left. apply He2u. exact H.
    + right. left. destruct (Hents e en' Hl) as (en & Hl0 & Hs0 & _). exists en.
      split; [exact Hl0|]. rewrite <- Hs0. exact Hs.
    + right. right. apply Hq; [exact I|exact H].
  - intros e Hno Ho. exfalso. apply Hno. unfold old in *. rewrite <- Hn. exact Ho.
  - intros u e Hl. left. apply Hu2e. exact Hl.
  - intros e en q t Hl Hp. left. destruct (Hents e en Hl) as (en0 & Hl0 & _ & Hp0).
    destruct (Hp0 q t Hp) as [t0 Ht0]. exists en0, t0. split; assumption.
  - intros e en Hl. left. destruct (Hents e en Hl) as (en0 & Hl0 & _). exists en0. exact Hl0.
  - intros e u Hl. left. exists u. apply He2u. exact Hl.
  - intros e u H. left. apply Hq; [exact I|exact H].
  - intros e u H. left. apply Hq; [exact I|exact H].
  - intros c p cu pu H. left. apply Hq; [exact I|exact H].
Qed.

(* a state that agrees on everything the link invariant looks at *)
Lemma link_inv_core pr pr' extra : core pr' = core pr -> link_inv pr extra -> link_inv pr' extra.
Proof.
  intros H HI. apply (link_inv_shrink pr extra); try assumption.
  - apply (core_next _ _ H).
  - rewrite (core_e2u _ _ H). auto.
  - rewrite (core_u2e _ _ H). auto.
  - rewrite (core_ents _ _ H). apply ents_shrink_refl.
  - intros c _. unfold queued. rewrite (core_cmdq _ _ H). auto.
Qed.

(* a newly queued tracked command that is fine in the state it is queued in *)
Definition newcmd_ok (pr : peer_state) (extra : list cmd) (c : cmd) : Prop :=
  match c with
  | CSpawnSync _ _ => False
  | CInsertSync e u => u = e /\ e < SCRIPT_LIMIT
  | CSetParentCli c p _ _ => old pr c /\ old pr p /\ distinct_ids pr extra c p
  | _ => True
  end.

Lemma link_inv_shrink2 pr extra pr' extra' :
  link_inv pr extra ->
  p_next_ent pr' = p_next_ent pr ->
  (forall e u, t_e2u pr' !! e = Some u -> t_e2u pr !! e = Some u) ->
  (forall u e, t_u2e pr' !! u = Some e -> t_u2e pr !! u = Some e) ->
  ents_shrink (p_ents pr) (p_ents pr') ->
  (forall c, tracked c -> queued pr' extra' c -> queued pr extra c \/ newcmd_ok pr extra c) ->
  link_inv pr' extra'.
Proof.
  intros HI Hn He2u Hu2e Hents Hq.
  apply (link_inv_step pr extra); try assumption.
  - rewrite Hn. lia.
  - intros e u _ [H|[(en' & Hl & Hs)|H]]; left.
    + left. apply He2u. exact H.
    + right. left. destruct (Hents e en' Hl) as (en & Hl0 & Hs0 & _). exists en.
      split; [exact Hl0|]. rewrite <- Hs0. exact Hs.
    + right. right. destruct (Hq (CSpawnSync e u) I H) as [H'|H']; [exact H'|contradiction].
  - intros e Hno Ho. exfalso. apply Hno. unfold old in *. rewrite <- Hn. exact Ho.
  - intros u e Hl. left. apply Hu2e. exact Hl.
  - intros e en q t Hl Hp. left. destruct (Hents e en Hl) as (en0 & Hl0 & _ & Hp0).
    destruct (Hp0 q t Hp) as [t0 Ht0]. exists en0, t0. split; assumption.
  - intros e en Hl. left. destruct (Hents e en Hl) as (en0 & Hl0 & _). exists en0. exact Hl0.
  - intros e u Hl. left. exists u. apply He2u. exact Hl.
  - intros e u H. destruct (Hq (CSpawnSync e u) I H) as [H'|H']; [left; exact H'|contradiction].
  - intros e u H. destruct (Hq (CInsertSync e u) I H) as [H'|H']; [left; exact H'|right; exact H'].
  - intros c p cu pu H. destruct (Hq (CSetParentCli c p cu pu) I H) as [H'|H']; [left; exact H'|right; exact H'].
Qed.

Lemma queued_grows pr pr' (G : cmd -> Prop) :
  (forall P : cmd -> Prop, (forall c, G c -> P c) -> cmdq_all P pr -> cmdq_all P pr') ->
  forall c, queued pr' [] c -> queued pr [] c \/ G c.
Proof.
  intros H c [Hc|(k & cs & Hl & Hin)]; [inversion Hc|].
  refine (H (fun c => queued pr [] c \/ G c) _ _ k cs c Hl Hin).
  - intros c' Hc'. right. exact Hc'.
  - intros k' cs' c' Hl' Hin'. left. right. exists k', cs'. split; assumption.
Qed.

Lemma plain_not_tracked c : plain c -> tracked c -> False.
Proof. destruct c; simpl; auto. Qed.

(* systems that only queue plain commands *)
Lemma link_inv_pushers pr pr' :
  nocmdq pr' = nocmdq pr -> (forall c, queued pr' [] c -> queued pr [] c \/ plain c) ->
  link_inv pr [] -> link_inv pr' [].
Proof.
  intros H Hq HI. pose proof (nocmdq_e2u _ _ H) as He.
  apply nocmdq_inv in H as (_ & Hents & _ & Hu & _ & Hn).
  apply (link_inv_shrink pr []); try assumption.
  - rewrite He. auto.
  - rewrite Hu. auto.
  - rewrite Hents. apply ents_shrink_refl.
  - intros c Ht Hc. destruct (Hq c Hc) as [H|H]; [exact H|]. exfalso. eapply plain_not_tracked; eassumption.
Qed.

(* tracker systems *)
Lemma entity_removed_server_e2u_sub pr e u :
  t_e2u (entity_removed_server pr) !! e = Some u -> t_e2u pr !! e = Some u.
Proof.
  unfold entity_removed_server. cbv zeta.
  set (gone := filter _ _). intros H.
  assert (Hfold : forall l (a : peer_state),
            t_e2u (foldl (fun pr0 u0 => broadcast (pr0 <| t_u2e := delete u0 (t_u2e pr0) |>) (MDelete u0)) a l)
            = t_e2u a).
  { induction l as [|x l IH]; intros a; simpl; [reflexivity|].
    rewrite IH. rewrite (core_e2u _ _ (broadcast_core _ _)). reflexivity. }
  rewrite Hfold in H. simpl in H. eapply foldl_delete_sub. exact H.
Qed.
Lemma entity_removed_client_e2u pr : t_e2u (entity_removed_client pr) = t_e2u pr.
Proof.
  unfold entity_removed_client. cbv zeta.
  apply (foldl_inv (fun a => t_e2u a = t_e2u pr)); [reflexivity|].
  intros a [u e] _ Ha. cbv beta iota. rewrite (core_e2u _ _ (send_up_core _ _)). exact Ha.
Qed.

Lemma link_inv_removed_server pr : link_inv pr [] -> link_inv (entity_removed_server pr) [].
Proof.
  intros HI. pose proof (nou2e_inv _ _ (entity_removed_server_nou2e pr)) as (_ & He & _ & _ & Hn & Hq).
  apply (link_inv_shrink pr []); try assumption.
  - apply entity_removed_server_e2u_sub.
  - apply entity_removed_server_sub.
  - rewrite He. apply ents_shrink_refl.
  - intros c _. unfold queued. rewrite Hq. auto.
Qed.
Lemma link_inv_removed_client pr : link_inv pr [] -> link_inv (entity_removed_client pr) [].
Proof.
  intros HI. pose proof (nou2e_inv _ _ (entity_removed_client_nou2e pr)) as (_ & He & _ & _ & Hn & Hq).
  apply (link_inv_shrink pr []); try assumption.
  - rewrite entity_removed_client_e2u. auto.
  - apply entity_removed_client_sub.
  - rewrite He. apply ents_shrink_refl.
  - intros c _. unfold queued. rewrite Hq. auto.
Qed.

Lemma created_body_e2u server k pr e : t_e2u (created_body server k pr e) = <[e := e]> (t_e2u pr).
Proof.
  unfold created_body. cbv zeta. destruct server.
  - change (<[e := e]> (t_e2u (broadcast pr (MSpawn e))) = <[e := e]> (t_e2u pr)).
    rewrite (core_e2u _ _ (broadcast_core _ _)). reflexivity.
  - match goal with |- t_e2u (push_cmd (send_up ?x ?m) _ _) = _ =>
      change (t_e2u (send_up x m) = <[e := e]> (t_e2u pr)); rewrite (core_e2u _ _ (send_up_core x m)) end.
    reflexivity.
Qed.
Lemma created_body_cmdq_eq server k pr e :
  p_cmdq (created_body server k pr e) = <[k := default [] (p_cmdq pr !! k) ++ [CInsertSync e e]]> (p_cmdq pr).
Proof.
  unfold created_body. cbv zeta. destruct server.
  - change (<[k := default [] (p_cmdq (broadcast pr (MSpawn e)) !! k) ++ [CInsertSync e e]]>
              (p_cmdq (broadcast pr (MSpawn e))) = <[k := default [] (p_cmdq pr !! k) ++ [CInsertSync e e]]> (p_cmdq pr)).
    rewrite (core_cmdq _ _ (broadcast_core _ _)). reflexivity.
  - match goal with |- p_cmdq (push_cmd (send_up ?x ?m) _ _) = _ =>
      change (<[k := default [] (p_cmdq (send_up x m) !! k) ++ [CInsertSync e e]]> (p_cmdq (send_up x m))
              = <[k := default [] (p_cmdq pr !! k) ++ [CInsertSync e e]]> (p_cmdq pr));
      rewrite (core_cmdq _ _ (send_up_core x m)) end.
    reflexivity.
Qed.

Lemma link_inv_created_body server k pr e en :
  p_ents pr !! e = Some en -> e < SCRIPT_LIMIT ->
  link_inv pr [] -> link_inv (created_body server k pr e) [].
Proof.
  intros Hl Hlt HI.
  pose proof (fixed_inv _ _ (created_body_fixed server k pr e)) as (_ & He & _ & _ & Hn).
  pose proof (created_body_e2u server k pr e) as He2u.
  pose proof (created_body_u2e server k pr e) as Hu2e.
  assert (Hq : forall c, queued (created_body server k pr e) [] c <-> queued pr [] c \/ c = CInsertSync e e).
  { intros c. unfold queued. rewrite created_body_cmdq_eq. apply queued_push_. }
  assert (Hs : facts_shrink pr [] (created_body server k pr e) []).
  { intros x u _ [H|[(en' & Hl' & Hs')|H]].
    - rewrite He2u in H. destruct (decide (x = e)) as [->|Hne].
      + rewrite lookup_insert in H. injection H as <-. right. split; [exact Hlt|reflexivity].
      + rewrite lookup_insert_ne in H by congruence. left. left. exact H.
    - rewrite He in Hl'. left. right. left. exists en'. split; assumption.
    - apply Hq in H as [H|H]; [|discriminate]. left. right. right. exact H. }
  assert (Hoe : old pr e) by (eapply li_live; eassumption).
  apply (link_inv_step pr []); try assumption.
  - rewrite Hn. lia.
  - intros x Hno Ho. exfalso. apply Hno. unfold old in *. rewrite <- Hn. exact Ho.
  - intros u x H. rewrite Hu2e in H. destruct (decide (u = e)) as [->|Hne].
    + rewrite lookup_insert in H. injection H as <-. right.
      split; [unfold old in *; rewrite Hn; exact Hoe|].
      destruct (li_fc _ _ HI e Hoe) as [u0 Hu0].
      assert (u0 = e) by (apply Hu0; exact Hlt). subst u0.
      eapply ident_mono; eassumption.
    + rewrite lookup_insert_ne in H by congruence. left. exact H.
  - intros x en' q t Hl' Hp. rewrite He in Hl'. left. exists en', t. split; assumption.
  - intros x en' Hl'. rewrite He in Hl'. left. exists en'. exact Hl'.
  - intros x u H. rewrite He2u in H. destruct (decide (x = e)) as [->|Hne].
    + right. unfold old in *. rewrite Hn. exact Hoe.
    + rewrite lookup_insert_ne in H by congruence. left. exists u. exact H.
  - intros x u H. apply Hq in H as [H|H]; [left; exact H|discriminate].
  - intros x u H. apply Hq in H as [H|H]; [left; exact H|]. injection H as -> ->. right. auto.
  - intros c p cu pu H. apply Hq in H as [H|H]; [left; exact H|discriminate].
Qed.

Lemma link_inv_created server pr k last :
  u2e_ok pr -> link_inv pr [] -> link_inv (entity_created server pr k last) [].
Proof.
  intros Hu HI. rewrite entity_created_eq.
  refine (proj2 (foldl_inv (fun a => fixed a = fixed pr /\ link_inv a []) _ _ _ _ _));
    [split; [reflexivity|exact HI]|].
  intros a [e en] Hin [Ha Hla]. cbv beta iota.
  destruct (newly_marked last en) eqn:Enm; [|split; assumption].
  split; [rewrite created_body_fixed; exact Ha|].
  apply fixed_inv in Ha as (_ & He & _ & _ & _).
  unfold ents_list in Hin. apply elem_of_map_to_list in Hin.
  apply (link_inv_created_body server k a e en); [rewrite He; exact Hin| |exact Hla].
  destruct Hu as (_ & _ & _ & Hm). apply (Hm e en Hin).
  unfold newly_marked in Enm. destruct (en_mark en); discriminate.
Qed.

(* allocation of a replica for uuid u: the body shared by both MSpawn handlers *)
Lemma link_inv_alloc pr pr' k u :
  p_next_ent pr' = p_next_ent pr + 1 ->
  t_u2e pr' = <[u := p_next_ent pr]> (t_u2e pr) ->
  t_e2u pr' = <[p_next_ent pr := u]> (t_e2u pr) ->
  p_ents pr' = p_ents pr ->
  p_cmdq pr' = <[k := default [] (p_cmdq pr !! k) ++ [CSpawnSync (p_next_ent pr) u]]> (p_cmdq pr) ->
  link_inv pr [] -> link_inv pr' [].
Proof.
  intros Hn Hu2e He2u He Hcq HI. set (e := p_next_ent pr) in *.
  assert (Hq : forall c, queued pr' [] c <-> queued pr [] c \/ c = CSpawnSync e u).
  { intros c. unfold queued. rewrite Hcq. apply queued_push_. }
  assert (Hfresh : ~ old pr e) by (unfold old, e; lia).
  assert (Hs : facts_shrink pr [] pr' []).
  { intros x v Hx [H|[(en' & Hl' & Hs')|H]].
    - rewrite He2u in H. destruct (decide (x = e)) as [->|Hne]; [contradiction|].
      rewrite lookup_insert_ne in H by congruence. left. left. exact H.
    - rewrite He in Hl'. left. right. left. exists en'. split; assumption.
    - apply Hq in H as [H|H]; [left; right; right; exact H|].
      injection H as -> _. contradiction. }
  assert (Hnew : ident pr' [] e u).
  { split; [intros Hlt; pose proof (li_next _ _ HI); unfold e in Hlt; lia|].
    intros v [H|[(en' & Hl' & Hs')|H]].
    - rewrite He2u, lookup_insert in H. injection H as <-. reflexivity.
    - rewrite He in Hl'. exfalso. apply Hfresh. eapply li_live; eassumption.
    - apply Hq in H as [H|H]; [|injection H as <-; reflexivity].
      exfalso. apply Hfresh. eapply li_spawn; eassumption. }
  assert (Hoe : old pr' e) by (unfold old; rewrite Hn; unfold e; lia).
  apply (link_inv_step pr []); try assumption.
  - rewrite Hn. lia.
  - intros x Hno Ho. assert (x = e) by (unfold old in *; rewrite Hn in Ho; unfold e; lia). subst x.
    exists u. exact Hnew.
  - intros v x H. rewrite Hu2e in H. destruct (decide (v = u)) as [->|Hne].
    + rewrite lookup_insert in H. injection H as <-. right. split; assumption.
    + rewrite lookup_insert_ne in H by congruence. left. exact H.
  - intros x en' q t Hl' Hp. rewrite He in Hl'. left. exists en', t. split; assumption.
  - intros x en' Hl'. rewrite He in Hl'. left. exists en'. exact Hl'.
  - intros x v H. rewrite He2u in H. destruct (decide (x = e)) as [->|Hne].
    + right. exact Hoe.
    + rewrite lookup_insert_ne in H by congruence. left. exists v. exact H.
  - intros x v H. apply Hq in H as [H|H]; [left; exact H|]. injection H as -> ->. right.
    split; [apply (li_next _ _ HI)|exact Hoe].
  - intros x v H. apply Hq in H as [H|H]; [left; exact H|discriminate].
  - intros c p cu pu H. apply Hq in H as [H|H]; [left; exact H|discriminate].
Qed.

(* pushing one command onto a state whose tracked fields are those of pr *)
Lemma link_inv_push pr pr' k c0 :
  p_next_ent pr' = p_next_ent pr ->
  (forall e u, t_e2u pr' !! e = Some u -> t_e2u pr !! e = Some u) ->
  (forall u e, t_u2e pr' !! u = Some e -> t_u2e pr !! u = Some e) ->
  p_ents pr' = p_ents pr ->
  p_cmdq pr' = <[k := default [] (p_cmdq pr !! k) ++ [c0]]> (p_cmdq pr) ->
  (tracked c0 -> newcmd_ok pr [] c0) ->
  link_inv pr [] -> link_inv pr' [].
Proof.
  intros Hn He2u Hu2e He Hcq Hc0 HI.
  apply (link_inv_shrink2 pr []); try assumption.
  - rewrite He. apply ents_shrink_refl.
  - intros c Ht Hc. unfold queued in Hc. rewrite Hcq in Hc. apply queued_push_ in Hc as [Hc| ->].
    + left. exact Hc.
    + right. apply Hc0. exact Ht.
Qed.

Definition msg_distinct (m : msg) : Prop := match m with MParented c p => c <> p | _ => True end.

Lemma lookup_delete_sub {A} (m : gmap N A) k i x : delete k m !! i = Some x -> m !! i = Some x.
Proof. intros H. apply lookup_delete_Some in H as [_ H]. exact H. Qed.

Lemma link_inv_client_received pr k m :
  msg_distinct m -> link_inv pr [] -> link_inv (client_received pr k m) [].
Proof.
  intros Hm HI. destruct m; simpl.
  - case_match; [exact HI|].
    apply (link_inv_alloc pr _ k u); try reflexivity. exact HI.
  - destruct (t_u2e pr !! c) as [ce|] eqn:Ec; [|exact HI].
    destruct (t_u2e pr !! p) as [pe'|] eqn:Ep; [|exact HI].
    apply (link_inv_push pr _ k (CSetParentCli ce pe' c p)); try reflexivity; auto.
    intros _. simpl.
    destruct (li_uk _ _ HI c ce Ec) as [Ho1 Hi1]. destruct (li_uk _ _ HI p pe' Ep) as [Ho2 Hi2].
    split; [exact Ho1|split; [exact Ho2|]]. exists c, p. split; [exact Hm|split; assumption].
  - destruct (t_u2e pr !! u) as [e|] eqn:Eu; [|exact HI].
    destruct (cmd_get_entity pr e); [|exact HI].
    apply (link_inv_push pr _ k (CDespawn e)); try reflexivity; simpl; auto.
    + intros x v. apply lookup_delete_sub.
    + intros v x. apply lookup_delete_sub.
  - destruct (t_u2e pr !! u) as [e|]; [|exact HI].
    apply (link_inv_push pr _ k (CApplyComp None e u t v)); try reflexivity; simpl; auto.
  - apply (link_inv_push pr _ k (CApplyMaterial None a v)); try reflexivity; simpl; auto.
  - eapply link_inv_core; [apply request_asset_core|exact HI].
  - apply (link_inv_push pr _ k CStartServer); try reflexivity; simpl; auto.
  - apply (link_inv_push (push_cmd (pr <| n_sticky_disconnect := true |> <| n_status := RDisconnected |>) k CRemoveClientTransport)
             _ k (CStartClientTo p false)); try reflexivity; simpl; auto.
    apply (link_inv_push pr _ k CRemoveClientTransport); try reflexivity; simpl; auto.
  - exact HI.
  - eapply link_inv_core; [|exact HI]. reflexivity.
Qed.

Lemma link_inv_server_received pr k from m :
  link_inv pr [] -> link_inv (server_received pr k from m) [].
Proof.
  intros HI. destruct m; simpl.
  - eapply link_inv_core; [apply relay_except_core|].
    apply (link_inv_alloc pr _ k u); try reflexivity. exact HI.
  - apply (link_inv_push pr _ k (CSetParentSrv from c p)); try reflexivity; simpl; auto.
  - eapply link_inv_core; [apply relay_except_core|].
    destruct (t_u2e pr !! u) as [e|] eqn:Eu; [|exact HI].
    destruct (cmd_get_entity pr e); [|exact HI].
    apply (link_inv_push pr _ k (CDespawn e)); try reflexivity; simpl; auto.
    + intros x v. apply lookup_delete_sub.
    + intros v x. apply lookup_delete_sub.
  - destruct (t_u2e pr !! u) as [e|]; [|exact HI].
    apply (link_inv_push pr _ k (CApplyComp (Some from) e u t v)); try reflexivity; simpl; auto.
  - apply (link_inv_push pr _ k (CApplyMaterial (Some from) a v)); try reflexivity; simpl; auto.
  - apply (link_inv_push (request_asset pr k0 a owner) _ k (CRelay from (MAsset k0 a owner)));
      try reflexivity; simpl; auto.
    eapply link_inv_core; [apply request_asset_core|exact HI].
  - exact HI.
  - match goal with |- link_inv (push_cmd ?x _ ?c) _ =>
      apply (link_inv_push x _ k c); try reflexivity; simpl; auto end.
    eapply link_inv_core; [apply relay_except_core|]. eapply link_inv_core; [|exact HI]. reflexivity.
  - apply (link_inv_push pr _ k (CSendInitialSync from)); try reflexivity; simpl; auto.
  - exact HI.
Qed.

Lemma link_inv_pop pr from rest_ :
  link_inv pr [] -> link_inv (pr <| n_inbox := <[from := rest_]> (n_inbox pr) |>) [].
Proof. intros HI. eapply link_inv_shrink; try exact HI; try reflexivity; auto. apply ents_shrink_refl. Qed.

Definition app_only (c : cmd) : Prop :=
  match c with CAppDespawn _ | CAppDespawnUuid _ => True | _ => False end.

Lemma sys_body_link pr s o k last :
  u2e_ok pr -> inbox_all msg_distinct pr -> app_all app_only pr ->
  link_inv pr [] -> link_inv (sys_body pr s o k last) [].
Proof.
  intros Hu Hib Happ HI.
  assert (Hfix : forall trig wo comps, link_inv (fix_system pr k last trig wo comps) []).
  { intros trig wo comps. eapply link_inv_pushers; [apply fix_system_nocmdq| |exact HI].
    apply queued_grows. intros P HP. apply fix_system_cmdq. exact HP. }
  destruct s; simpl; try apply Hfix;
    try (eapply link_inv_core; [|exact HI]; first [reflexivity|apply react_assets_core|apply process_assets_core]).
  - apply link_inv_removed_server. exact HI.
  - apply link_inv_created; assumption.
  - eapply link_inv_core; [apply entity_parented_server_core|exact HI].
  - eapply link_inv_core; [apply react_components_core|exact HI].
  - eapply link_inv_core; [apply promote_reader_core|exact HI].
  - eapply link_inv_pushers; [apply client_connected_nocmdq| |exact HI].
    apply queued_grows. intros P HP. apply client_connected_cmdq. exact HP.
  - refine (proj2 (server_poll_inv (fun a => inbox_all msg_distinct a /\ link_inv a []) msg_distinct
                     pr k (fo_srv_poll o) _ _ _ (conj Hib HI))).
    + intros a [Ha _]. exact Ha.
    + intros a from m rest_ [Ha Hla] Hl. split; [|apply link_inv_pop; exact Hla].
      apply inbox_all_pop; [|exact Ha]. intros m' Hm'. eapply Ha; [exact Hl|right; exact Hm'].
    + intros a from m [Ha Hla] Hm. split; [|apply link_inv_server_received; exact Hla].
      pose proof (pollfixed_inv _ _ (server_received_pollfixed a k from m)) as (_ & _ & _ & Hi).
      eapply inbox_all_ext; [exact Hi|exact Ha].
  - eapply link_inv_pushers; [apply verify_nocmdq| |exact HI].
    apply queued_grows. intros P HP. apply verify_cmdq. exact HP.
  - apply link_inv_removed_client. exact HI.
  - apply link_inv_created; assumption.
  - eapply link_inv_core; [apply entity_parented_client_core|exact HI].
  - eapply link_inv_core; [apply react_components_core|exact HI].
  - destruct (n_cli_transport pr) as [[h t]|]; [|exact HI].
    refine (proj2 (client_poll_inv (fun a => inbox_all msg_distinct a /\ link_inv a []) msg_distinct
                     pr k h (fo_cli_poll o) _ _ _ (conj Hib HI))).
    + intros a [Ha _]. exact Ha.
    + intros a from m rest_ [Ha Hla] Hl. split; [|apply link_inv_pop; exact Hla].
      apply inbox_all_pop; [|exact Ha]. intros m' Hm'. eapply Ha; [exact Hl|right; exact Hm'].
    + intros a m [Ha Hla] Hm. split; [|apply link_inv_client_received; assumption].
      pose proof (pollfixed_inv _ _ (client_received_pollfixed a k m)) as (_ & _ & _ & Hi).
      eapply inbox_all_ext; [exact Hi|exact Ha].
  - eapply link_inv_core; [apply sync_detect_core|exact HI].
  - apply (foldl_inv (fun a => link_inv a [])).
    + eapply link_inv_shrink; try exact HI; try reflexivity; auto. apply ents_shrink_refl.
    + intros a x Hx Ha. apply elem_of_list_filter in Hx as [_ Hx]. specialize (Happ x Hx).
      apply (link_inv_push a _ k x.2); try reflexivity; auto.
      intros Ht. destruct (x.2); simpl in *; contradiction.
Qed.

(* ---------- what the systems put into the outbox, for a predicate M that holds of every message
   other than a parent link ------------------------------------------------------------------------- *)
Section OutGen.
  Variable M : msg -> Prop.
  Hypothesis HM : forall m, not_parented m -> M m.

  Lemma entity_removed_server_out_gen pr : out_all M pr -> out_all M (entity_removed_server pr).
  Proof.
    intros H. unfold entity_removed_server. cbv zeta. apply foldl_out_all; [|exact H].
    intros a u _ Ha. apply broadcast_out_all; [exact Ha|apply HM; exact I].
  Qed.
  Lemma entity_removed_client_out_gen pr : out_all M pr -> out_all M (entity_removed_client pr).
  Proof.
    intros H. unfold entity_removed_client. cbv zeta. apply foldl_out_all; [|exact H].
    intros a [u e] _ Ha. cbv beta iota. apply send_up_out_all; [exact Ha|apply HM; exact I].
  Qed.
  Lemma entity_created_out_gen server pr k last : out_all M pr -> out_all M (entity_created server pr k last).
  Proof.
    intros H. rewrite entity_created_eq. apply foldl_out_all; [|exact H].
    intros a [e en] _ Ha. cbv beta iota. destruct (newly_marked last en); [|exact Ha].
    apply created_body_out; [apply HM; exact I|exact Ha].
  Qed.
  Lemma react_components_out_gen b pr : out_all M pr -> out_all M (react_on_changed_components b pr).
  Proof.
    intros H. unfold react_on_changed_components. cbv zeta. apply foldl_out_all; [|exact H].
    intros a [[u t] v] _ Ha. cbv beta iota.
    destruct b; [apply broadcast_out_all|apply send_up_out_all]; (exact Ha || (apply HM; exact I)).
  Qed.
  Lemma react_assets_out_gen b k pr : out_all M pr -> out_all M (react_on_changed_assets b k pr).
  Proof.
    intros H. unfold react_on_changed_assets. cbv zeta. apply foldl_out_all; [|exact H].
    intros a [k' x] _ Ha. cbv beta iota.
    destruct (a_store a !! akey k x); [|exact Ha].
    destruct (memN x (t_htok a)); [exact Ha|].
    destruct k; destruct b;
      first [apply broadcast_out_all|apply send_up_out_all]; (exact Ha || (apply HM; exact I)).
  Qed.
  Lemma promote_reader_out_gen pr : out_all M pr -> out_all M (promote_reader pr).
  Proof.
    intros H. unfold promote_reader. cbv zeta. apply foldl_out_all; [|exact H].
    intros a c _ Ha. apply send_out_all; [exact Ha|apply HM; exact I].
  Qed.
  Lemma server_received_out_gen pr k from m : out_all M pr -> out_all M (server_received pr k from m).
  Proof.
    intros H. destruct m; simpl; try exact H.
    - apply relay_except_out_all; [|apply HM; exact I]. eapply out_all_ext; [|exact H]. reflexivity.
    - apply relay_except_out_all; [|apply HM; exact I]. repeat case_match; exact H.
    - case_match; exact H.
    - eapply out_all_ext; [apply push_cmd_out|].
      apply relay_except_out_all; [|apply HM; exact I]. eapply out_all_ext; [|exact H]. reflexivity.
  Qed.
End OutGen.

Lemma not_parented_distinct m : not_parented m -> msg_distinct m.
Proof. destruct m; simpl; auto. Qed.

(* the two systems that originate parent links *)
Lemma entity_parented_server_out_links pr last :
  link_inv pr [] -> out_all msg_distinct pr -> out_all msg_distinct (entity_parented_server pr last).
Proof.
  intros HI H. unfold entity_parented_server.
  refine (proj2 (foldl_inv (fun a => core a = core pr /\ out_all msg_distinct a) _ _ _ _ _));
    [split; [reflexivity|exact H]|].
  intros a [e en] Hin [Hc Ha]. cbv beta iota.
  unfold ents_list in Hin. apply elem_of_map_to_list in Hin.
  destruct (parent_changed last en) as [p|] eqn:Epc; [|split; assumption].
  destruct (t_e2u a !! e) as [u|] eqn:Eu; [|split; assumption].
  destruct (t_e2u a !! p) as [pu|] eqn:Epu; [|split; assumption].
  cbv zeta. set (a' := a <| t_ptok ::= delete u |>).
  assert (Hc' : core a' = core pr) by exact Hc.
  assert (Ha' : out_all msg_distinct a') by exact Ha.
  destruct (bool_decide (t_ptok a !! u = Some pu)); [split; assumption|].
  split; [rewrite broadcast_core; exact Hc'|].
  apply broadcast_out_all; [exact Ha'|]. simpl.
  rewrite (core_e2u _ _ Hc) in Eu, Epu.
  unfold parent_changed in Epc. destruct (en_parent en) as [[q t]|] eqn:Ep; [|discriminate].
  destruct (last <? t); [|discriminate]. injection Epc as ->.
  destruct (li_links _ _ HI e en p t Hin Ep) as [_ (u0 & v0 & Hne & [_ Hu0] & [_ Hv0])].
  rewrite (Hu0 u (or_introl Eu)), (Hv0 pu (or_introl Epu)). exact Hne.
Qed.

Lemma entity_parented_client_out_links pr last :
  link_inv pr [] -> out_all msg_distinct pr -> out_all msg_distinct (entity_parented_client pr last).
Proof.
  intros HI H. unfold entity_parented_client.
  refine (proj2 (foldl_inv (fun a => core a = core pr /\ out_all msg_distinct a) _ _ _ _ _));
    [split; [reflexivity|exact H]|].
  intros a [e en] Hin [Hc Ha]. cbv beta iota.
  unfold ents_list in Hin. apply elem_of_map_to_list in Hin.
  destruct (parent_changed last en) as [p|] eqn:Epc; [|split; assumption].
  destruct (en_sync en) as [u|] eqn:Eu; [|split; assumption].
  destruct (p_ents a !! p) as [pen|] eqn:Epen; [|split; assumption].
  destruct (en_sync pen) as [pu|] eqn:Epu; [|split; assumption].
  destruct (en_children pen); [split; assumption|].
  cbv zeta. set (a' := a <| t_ptok ::= delete u |>).
  assert (Hc' : core a' = core pr) by exact Hc.
  assert (Ha' : out_all msg_distinct a') by exact Ha.
  destruct (bool_decide (t_ptok a !! u = Some pu)); [split; assumption|].
  split; [rewrite send_up_core; exact Hc'|].
  apply send_up_out_all; [exact Ha'|]. simpl.
  rewrite (core_ents _ _ Hc) in Epen.
  unfold parent_changed in Epc. destruct (en_parent en) as [[q t]|] eqn:Ep; [|discriminate].
  destruct (last <? t); [|discriminate]. injection Epc as ->.
  destruct (li_links _ _ HI e en p t Hin Ep) as [_ (u0 & v0 & Hne & [_ Hu0] & [_ Hv0])].
  assert (H1 : u = u0) by (apply Hu0; right; left; exists en; split; assumption).
  assert (H2 : pu = v0) by (apply Hv0; right; left; exists pen; split; assumption).
  subst. exact Hne.
Qed.

Lemma sys_body_out_links pr s o k last :
  link_inv pr [] -> out_all msg_distinct pr -> out_all msg_distinct (sys_body pr s o k last).
Proof.
  intros HI H.
  destruct s; simpl;
    try exact H;
    try (eapply out_all_ext; [apply fix_system_out|exact H]);
    try (apply react_assets_out_gen; [exact not_parented_distinct|exact H]);
    try (eapply out_all_ext; [apply process_assets_out|exact H]).
  - apply entity_removed_server_out_gen; [exact not_parented_distinct|exact H].
  - apply entity_created_out_gen; [exact not_parented_distinct|exact H].
  - apply entity_parented_server_out_links; assumption.
  - apply react_components_out_gen; [exact not_parented_distinct|exact H].
  - apply promote_reader_out_gen; [exact not_parented_distinct|exact H].
  - eapply out_all_ext; [apply client_connected_out|exact H].
  - apply (server_poll_inv (out_all msg_distinct) (fun _ => True)); [| | |exact H].
    + intros a _ ? ? ? _ _. exact I.
    + intros a from m rest_ Ha _. exact Ha.
    + intros a from m Ha _. apply server_received_out_gen; [exact not_parented_distinct|exact Ha].
  - eapply out_all_ext; [apply verify_out|exact H].
  - apply entity_removed_client_out_gen; [exact not_parented_distinct|exact H].
  - apply entity_created_out_gen; [exact not_parented_distinct|exact H].
  - apply entity_parented_client_out_links; assumption.
  - apply react_components_out_gen; [exact not_parented_distinct|exact H].
  - destruct (n_cli_transport pr) as [[h t]|]; [|exact H].
    apply (client_poll_inv (out_all msg_distinct) (fun _ => True)); [| | |exact H].
    + intros a _ ? ? ? _ _. exact I.
    + intros a from m rest_ Ha _. exact Ha.
    + intros a m Ha _. eapply out_all_ext; [apply client_received_out|exact Ha].
  - eapply out_all_ext; [apply sync_detect_out|exact H].
  - apply foldl_out_all; [|exact H]. intros a x _ Ha. exact Ha.
Qed.

(* ---------- deferred commands and the link invariant ------------------------------------------------ *)

Lemma link_inv_apply_shrink pr pr' c cs :
  rest pr' = rest pr -> ents_shrink (p_ents pr) (p_ents pr') ->
  link_inv pr (c :: cs) -> link_inv pr' cs.
Proof.
  intros Hr He HI. pose proof (rest_e2u _ _ Hr) as He2u.
  apply rest_inv in Hr as (_ & Hu & _ & Hn & Hq).
  apply (link_inv_shrink pr (c :: cs)); try assumption.
  - rewrite He2u. auto.
  - rewrite Hu. auto.
  - intros x _ Hx. unfold queued in *. rewrite Hq in Hx. apply queued_tail_. exact Hx.
Qed.

Lemma ents_shrink_trans m1 m2 m3 : ents_shrink m1 m2 -> ents_shrink m2 m3 -> ents_shrink m1 m3.
Proof.
  intros H12 H23 e en3 Hl3. destruct (H23 e en3 Hl3) as (en2 & Hl2 & Hs2 & Hp2).
  destruct (H12 e en2 Hl2) as (en1 & Hl1 & Hs1 & Hp1). exists en1.
  split; [exact Hl1|split; [congruence|]]. intros q t Hp. destruct (Hp2 q t Hp) as [t0 Ht0].
  apply (Hp1 q t0 Ht0).
Qed.
Lemma ents_shrink_delete m e : ents_shrink m (delete e m).
Proof.
  intros x en Hl. apply lookup_delete_Some in Hl as [_ Hl]. exists en.
  split; [exact Hl|split; [reflexivity|]]. intros q t Hp. exists t. exact Hp.
Qed.
Lemma ents_shrink_upd pr e f :
  (forall en, en_sync (f en) = en_sync en /\ en_parent (f en) = en_parent en) ->
  ents_shrink (p_ents pr) (p_ents (upd_ent pr e f)).
Proof.
  intros Hf. unfold upd_ent. destruct (p_ents pr !! e) as [en|] eqn:E; [|apply ents_shrink_refl].
  intros x en' Hl. simpl in Hl. destruct (decide (x = e)) as [->|Hne].
  - rewrite lookup_insert in Hl. injection Hl as <-. exists en. destruct (Hf en) as [H1 H2].
    split; [exact E|split; [exact H1|]]. intros q t Hp. exists t. rewrite <- H2. exact Hp.
  - rewrite lookup_insert_ne in Hl by congruence. exists en'.
    split; [exact Hl|split; [reflexivity|]]. intros q t Hp. exists t. exact Hp.
Qed.
Lemma put_comp_sync_parent now t v en :
  en_sync (put_comp now t v en) = en_sync en /\ en_parent (put_comp now t v en) = en_parent en.
Proof. unfold put_comp. destruct (en_comps en !! t); split; reflexivity. Qed.

Lemma acc_ents_shrink pr e t v : ents_shrink (p_ents pr) (p_ents (apply_component_change pr e t v).1).
Proof.
  unfold apply_component_change.
  repeat case_match; simpl; try apply ents_shrink_refl.
  all: match goal with |- ents_shrink _ (p_ents (upd_ent ?x ?e ?f)) =>
         change (ents_shrink (p_ents x) (p_ents (upd_ent x e f))) end;
       apply ents_shrink_upd; intros en'; apply put_comp_sync_parent.
Qed.

(* entities after add_child p c: only c's Parent may be new, and then it is p *)
Definition parent_step (c p : ent) (m m' : gmap ent entity) : Prop :=
  forall x en', m' !! x = Some en' ->
    exists en, m !! x = Some en /\ en_sync en' = en_sync en /\
               (forall q t, en_parent en' = Some (q, t) ->
                  (exists t0, en_parent en = Some (q, t0)) \/ (x = c /\ q = p)).

Lemma parent_step_of_shrink c p m m' : ents_shrink m m' -> parent_step c p m m'.
Proof.
  intros H x en' Hl. destruct (H x en' Hl) as (en & Hl0 & Hs & Hp). exists en.
  split; [exact Hl0|split; [exact Hs|]]. intros q t Hq. left. apply (Hp q t Hq).
Qed.
Lemma parent_step_trans c p m1 m2 m3 : parent_step c p m1 m2 -> parent_step c p m2 m3 -> parent_step c p m1 m3.
Proof.
  intros H12 H23 x en3 Hl3. destruct (H23 x en3 Hl3) as (en2 & Hl2 & Hs2 & Hp2).
  destruct (H12 x en2 Hl2) as (en1 & Hl1 & Hs1 & Hp1). exists en1.
  split; [exact Hl1|split; [congruence|]]. intros q t Hp.
  destruct (Hp2 q t Hp) as [[t0 Ht0]|Hnew]; [|right; exact Hnew]. apply (Hp1 q t0 Ht0).
Qed.
Lemma parent_step_set pr c p now :
  parent_step c p (p_ents pr) (p_ents (upd_ent pr c (fun en => en <| en_parent := Some (p, now) |>))).
Proof.
  unfold upd_ent. destruct (p_ents pr !! c) as [en|] eqn:E; [|apply parent_step_of_shrink, ents_shrink_refl].
  intros x en' Hl. simpl in Hl. destruct (decide (x = c)) as [->|Hne].
  - rewrite lookup_insert in Hl. injection Hl as <-. exists en.
    split; [exact E|split; [reflexivity|]]. intros q t Hp. simpl in Hp. injection Hp as <- <-. right. auto.
  - rewrite lookup_insert_ne in Hl by congruence. exists en'.
    split; [exact Hl|split; [reflexivity|]]. intros q t Hp. left. exists t. exact Hp.
Qed.

Lemma add_child_ok_parent_step pr p c prev :
  parent_step c p (p_ents pr) (p_ents (add_child_ok pr p c prev)).
Proof.
  unfold add_child_ok. cbv zeta.
  set (pr1 := upd_ent pr c (fun en => en <| en_parent := Some (p, p_tick pr) |>)).
  assert (H1 : parent_step c p (p_ents pr) (p_ents pr1)) by apply parent_step_set.
  assert (Hch : forall x e (g : list ent -> list ent),
            parent_step c p (p_ents x) (p_ents (upd_ent x e (fun en => en <| en_children := g (en_children en) |>)))).
  { intros x e g. apply parent_step_of_shrink, ents_shrink_upd. intros en. split; reflexivity. }
  eapply parent_step_trans; [|apply (Hch _ p (fun l => removeN c l ++ [c]))].
  destruct prev as [q|]; [|exact H1]. destruct (q =? p); [exact H1|].
  eapply parent_step_trans; [exact H1|apply (Hch _ q (fun l => removeN c l))].
Qed.
Lemma add_child_parent_step pr p c : parent_step c p (p_ents pr) (p_ents (add_child pr p c)).
Proof.
  rewrite add_child_eq.
  destruct (negb (alive pr p)); [rewrite set_panic_ents; apply parent_step_of_shrink, ents_shrink_refl|].
  destruct (p =? c); [rewrite set_panic_ents; apply parent_step_of_shrink, ents_shrink_refl|].
  apply add_child_ok_parent_step.
Qed.
Lemma set_parent_twice_parent_step pr c p :
  parent_step c p (p_ents pr) (p_ents (set_parent_twice pr c p)).
Proof.
  unfold set_parent_twice. destruct (p_panic (add_child pr p c)); [apply add_child_parent_step|].
  eapply parent_step_trans; apply add_child_parent_step.
Qed.

Lemma link_inv_parent_step pr extra pr' extra' c p :
  link_inv pr extra ->
  t_e2u pr' = t_e2u pr -> t_u2e pr' = t_u2e pr -> p_next_ent pr' = p_next_ent pr ->
  parent_step c p (p_ents pr) (p_ents pr') ->
  (forall x, tracked x -> queued pr' extra' x -> queued pr extra x) ->
  old pr c -> old pr p -> distinct_ids pr extra c p ->
  link_inv pr' extra'.
Proof.
  intros HI He2u Hu2e Hn Hps Hq Hc Hp Hd.
  apply (link_inv_step pr extra); try assumption.
  - rewrite Hn. lia.
  - intros e u _ [H|[(en' & Hl & Hs)|H]]; left.
    + left. rewrite <- He2u. exact H.
    + right. left. destruct (Hps e en' Hl) as (en & Hl0 & Hs0 & _). exists en.
      split; [exact Hl0|]. rewrite <- Hs0. exact Hs.
    + right. right. apply (Hq (CSpawnSync e u) I H).
  - intros e Hno Ho. exfalso. apply Hno. unfold old in *. rewrite <- Hn. exact Ho.
  - intros u e Hl. left. rewrite <- Hu2e. exact Hl.
  - intros e en q t Hl Hpar. destruct (Hps e en Hl) as (en0 & Hl0 & _ & Hp0).
    destruct (Hp0 q t Hpar) as [[t0 Ht0]|[-> ->]].
    + left. exists en0, t0. split; assumption.
    + right. split; [exact Hc|split; [exact Hp|exact Hd]].
  - intros e en Hl. left. destruct (Hps e en Hl) as (en0 & Hl0 & _). exists en0. exact Hl0.
  - intros e u Hl. left. exists u. rewrite <- He2u. exact Hl.
  - intros e u H. left. apply (Hq (CSpawnSync e u) I H).
  - intros e u H. left. apply (Hq (CInsertSync e u) I H).
  - intros x y xu yu H. left. apply (Hq (CSetParentCli x y xu yu) I H).
Qed.

Definition link_cmd_ok (c : cmd) : Prop :=
  match c with
  | CAppInsert _ _ _ => False
  | CSetParentSrv _ cu pu => cu <> pu
  | CSetParentCli c p _ _ => c <> p
  | CRelay _ m => msg_distinct m
  | _ => True
  end.

Lemma link_inv_weaken pr c cs : link_inv pr (c :: cs) -> link_inv pr cs.
Proof. apply link_inv_apply_shrink; [reflexivity|apply ents_shrink_refl]. Qed.

Lemma link_inv_core_tail pr pr' c cs : core pr' = core pr -> link_inv pr (c :: cs) -> link_inv pr' cs.
Proof. intros H HI. eapply link_inv_core; [exact H|]. eapply link_inv_weaken. exact HI. Qed.

Lemma apply_cmd_link pr c cs :
  link_cmd_ok c -> link_inv pr (c :: cs) -> link_inv (apply_cmd pr c) cs.
Proof.
  intros Hc HI. destruct c; simpl.
  - (* CSpawnSync e u *)
    destruct (li_spawn _ _ HI e u (queued_head_ _ _ _)) as [Hge Hold].
    apply (link_inv_step pr (CSpawnSync e u :: cs)); try assumption.
    + simpl. lia.
    + intros x v _ [H|[(en' & Hl & Hs)|H]].
      * left. left. exact H.
      * simpl in Hl. destruct (decide (x = e)) as [->|Hne].
        -- rewrite lookup_insert in Hl. injection Hl as <-. simpl in Hs. injection Hs as <-.
           left. right. right. apply queued_head_.
        -- rewrite lookup_insert_ne in Hl by congruence. left. right. left. exists en'. split; assumption.
      * left. right. right. apply queued_tail_. exact H.
    + intros x Hno Ho. exfalso. apply Hno. exact Ho.
    + intros v x H. left. exact H.
    + intros x en' q t Hl Hp. simpl in Hl. destruct (decide (x = e)) as [->|Hne].
      * rewrite lookup_insert in Hl. injection Hl as <-. simpl in Hp. discriminate.
      * rewrite lookup_insert_ne in Hl by congruence. left. exists en', t. split; assumption.
    + intros x en' Hl. simpl in Hl. destruct (decide (x = e)) as [->|Hne].
      * right. exact Hold.
      * rewrite lookup_insert_ne in Hl by congruence. left. exists en'. exact Hl.
    + intros x v H. left. exists v. exact H.
    + intros x v H. left. apply queued_tail_. exact H.
    + intros x v H. left. apply queued_tail_. exact H.
    + intros x y xu yu H. left. apply queued_tail_. exact H.
  - (* CDespawn *) apply (link_inv_apply_shrink pr _ (CDespawn e) cs); [reflexivity|apply ents_shrink_delete|exact HI].
  - (* CInsertSync e u *)
    destruct (li_isync _ _ HI e u (queued_head_ _ _ _)) as [-> Hlt].
    apply (link_inv_step pr (CInsertSync e e :: cs)); try assumption.
    + rewrite (proj1 (proj2 (proj2 (proj2 (rest_inv _ _ (upd_ent_rest pr e _)))))). lia.
    + intros x v _ [H|[(en' & Hl & Hs)|H]].
      * rewrite (rest_e2u _ _ (upd_ent_rest _ _ _)) in H. left. left. exact H.
      * unfold upd_ent in Hl. destruct (p_ents pr !! e) as [en|] eqn:E.
        -- simpl in Hl. destruct (decide (x = e)) as [->|Hne].
           ++ rewrite lookup_insert in Hl. injection Hl as <-. simpl in Hs. injection Hs as <-.
              right. split; [exact Hlt|reflexivity].
           ++ rewrite lookup_insert_ne in Hl by congruence. left. right. left. exists en'. split; assumption.
        -- left. right. left. exists en'. split; assumption.
      * left. right. right. unfold queued in *.
        rewrite (proj2 (proj2 (proj2 (proj2 (rest_inv _ _ (upd_ent_rest pr e _)))))) in H.
        apply queued_tail_. exact H.
    + intros x Hno Ho. exfalso. apply Hno. unfold old in *.
      rewrite (proj1 (proj2 (proj2 (proj2 (rest_inv _ _ (upd_ent_rest pr e _)))))) in Ho. exact Ho.
    + intros v x H. left.
      rewrite (proj1 (proj2 (rest_inv _ _ (upd_ent_rest pr e _)))) in H. exact H.
    + intros x en' q t Hl Hp. left. unfold upd_ent in Hl. destruct (p_ents pr !! e) as [en|] eqn:E.
      * simpl in Hl. destruct (decide (x = e)) as [->|Hne].
        -- rewrite lookup_insert in Hl. injection Hl as <-. simpl in Hp. exists en, t. split; assumption.
        -- rewrite lookup_insert_ne in Hl by congruence. exists en', t. split; assumption.
      * exists en', t. split; assumption.
    + intros x en' Hl. left. unfold upd_ent in Hl. destruct (p_ents pr !! e) as [en|] eqn:E.
      * simpl in Hl. destruct (decide (x = e)) as [->|Hne].
        -- exists en. exact E.
        -- rewrite lookup_insert_ne in Hl by congruence. exists en'. exact Hl.
      * exists en'. exact Hl.
    + intros x v H. left. exists v. rewrite (rest_e2u _ _ (upd_ent_rest _ _ _)) in H. exact H.
    + intros x v H. left. unfold queued in *.
      rewrite (proj2 (proj2 (proj2 (proj2 (rest_inv _ _ (upd_ent_rest pr e _)))))) in H.
      apply queued_tail_. exact H.
    + intros x v H. left. unfold queued in *.
      rewrite (proj2 (proj2 (proj2 (proj2 (rest_inv _ _ (upd_ent_rest pr e _)))))) in H.
      apply queued_tail_. exact H.
    + intros x y xu yu H. left. unfold queued in *.
      rewrite (proj2 (proj2 (proj2 (proj2 (rest_inv _ _ (upd_ent_rest pr e _)))))) in H.
      apply queued_tail_. exact H.
  - (* CApplyComp *)
    pose proof (apply_cmd_rest pr (CApplyComp from e u t v)) as Hr. simpl in Hr.
    eapply link_inv_apply_shrink; [exact Hr| |exact HI].
    destruct (apply_component_change pr e t v) as [pr' ch] eqn:E.
    pose proof (acc_ents_shrink pr e t v) as Hs. rewrite E in Hs. simpl in Hs.
    destruct from as [c|]; [destruct ch|]; try exact Hs.
    rewrite (core_ents _ _ (relay_except_core _ _ _)). exact Hs.
  - (* CSetParentSrv *)
    pose proof (apply_cmd_rest pr (CSetParentSrv from c p)) as Hr. simpl in Hr.
    destruct (t_u2e pr !! c) as [ce|] eqn:Ec; [|eapply link_inv_weaken; exact HI].
    destruct (t_u2e pr !! p) as [pe'|] eqn:Ep; [|eapply link_inv_weaken; exact HI].
    destruct (negb (alive pr pe') || negb (alive pr ce)); [eapply link_inv_weaken; exact HI|].
    destruct (li_uk _ _ HI c ce Ec) as [Ho1 Hi1]. destruct (li_uk _ _ HI p pe' Ep) as [Ho2 Hi2].
    pose proof (rest_e2u _ _ Hr) as He2u. apply rest_inv in Hr as (_ & Hu & _ & Hn & Hq).
    eapply (link_inv_parent_step pr _ _ cs ce pe'); try eassumption.
    + destruct (parent_differs pr ce pe').
      * set (sp := set_parent_twice pr ce pe' <| t_ptok ::= <[c := p]> |>).
        change (parent_step ce pe' (p_ents pr)
                  (p_ents (match p_panic sp with Some _ => sp | None => relay_except sp from (MParented c p) end))).
        rewrite (core_ents _ _ (relay_ok_core sp from (MParented c p))).
        exact (set_parent_twice_parent_step pr ce pe').
      * destruct (p_panic pr); rewrite ?(core_ents _ _ (relay_except_core _ _ _));
          apply parent_step_of_shrink, ents_shrink_refl.
    + intros x _ Hx. unfold queued in *. rewrite Hq in Hx. apply queued_tail_. exact Hx.
    + exists c, p. split; [exact Hc|split; assumption].
  - (* CSetParentCli *)
    pose proof (apply_cmd_rest pr (CSetParentCli c p cu pu)) as Hr. simpl in Hr.
    destruct (li_cli _ _ HI c p cu pu (queued_head_ _ _ _)) as (Ho1 & Ho2 & Hd).
    destruct (negb (alive pr p) || negb (alive pr c)); [eapply link_inv_weaken; exact HI|].
    pose proof (rest_e2u _ _ Hr) as He2u. apply rest_inv in Hr as (_ & Hu & _ & Hn & Hq).
    eapply (link_inv_parent_step pr _ _ cs c p); try eassumption.
    + destruct (parent_differs pr c p); [exact (set_parent_twice_parent_step pr c p)|].
      apply parent_step_of_shrink, ents_shrink_refl.
    + intros x _ Hx. unfold queued in *. rewrite Hq in Hx. apply queued_tail_. exact Hx.
  - (* CApplyMaterial *)
    eapply link_inv_core_tail; [|exact HI].
    destruct from as [c|]; [rewrite relay_except_core|]; reflexivity.
  - (* CRelay *) eapply link_inv_core_tail; [apply relay_except_core|exact HI].
  - (* CSendInitialSync *)
    eapply link_inv_core_tail; [|exact HI].
    pose proof (react_components_core true pr) as H0.
    set (pr0 := react_on_changed_components true pr) in *.
    destruct (build_full_sync pr0) as [pr1 ms] eqn:E.
    pose proof (build_full_sync_core pr0) as H1. rewrite E in H1. simpl in H1.
    rewrite send_core. etransitivity; [apply (foldl_core _ ms pr1 (fun a x => send_core a to x))|].
    etransitivity; [exact H1|exact H0].
  - (* CRequestInitialSync *)
    eapply link_inv_core_tail; [|exact HI].
    destruct (build_full_sync pr) as [pr1 ms] eqn:E.
    pose proof (build_full_sync_core pr) as H1. rewrite E in H1. simpl in H1.
    rewrite send_up_core. exact H1.
  - (* CFixInsert *)
    pose proof (apply_cmd_rest pr (CFixInsert e companions)) as Hr. simpl in Hr.
    eapply link_inv_apply_shrink; [exact Hr| |exact HI].
    apply (foldl_inv (fun a => ents_shrink (p_ents pr) (p_ents a))); [apply ents_shrink_refl|].
    intros a t _ Ha. eapply ents_shrink_trans; [exact Ha|].
    apply ents_shrink_upd. intros en. apply put_comp_sync_parent.
  - eapply link_inv_core_tail; [|exact HI]. reflexivity.
  - eapply link_inv_core_tail; [|exact HI]. destruct set_flag; reflexivity.
  - eapply link_inv_core_tail; [|exact HI]. reflexivity.
  - eapply link_inv_core_tail; [|exact HI]. reflexivity.
  - (* CAppDespawnUuid *)
    destruct (filter _ _) as [|[e en] l]; [eapply link_inv_weaken; exact HI|].
    apply (link_inv_apply_shrink pr _ (CAppDespawnUuid u) cs); [reflexivity|apply ents_shrink_delete|exact HI].
  - apply (link_inv_apply_shrink pr _ (CAppDespawn e) cs); [reflexivity|apply ents_shrink_delete|exact HI].
  - contradiction.
Qed.

(* the snapshot's parent links join different uuids *)
Lemma build_full_sync_msgs_links pr extra m :
  link_inv pr extra -> m ∈ (build_full_sync pr).2 -> msg_distinct m.
Proof.
  intros HI. unfold build_full_sync.
  destruct (serve_all pr AImage) as [pr1 mi] eqn:E1.
  destruct (serve_all pr1 AMesh) as [pr2 me] eqn:E2.
  destruct (serve_all pr2 AAudio) as [pr3 ma] eqn:E3.
  simpl. intros Hin.
  apply elem_of_app in Hin as [Hin|Hin]; [|repeat (apply elem_of_app in Hin as [Hin|Hin])].
  - apply snapshot_spawns_values_elem in Hin as (e & en & _ & Hm).
    unfold snapshot_entity_msgs in Hm.
    destruct (en_sync en); [|inversion Hm]. destruct (t_e2u pr !! e); [|inversion Hm].
    apply elem_of_cons in Hm as [->|Hm]; [exact I|].
    apply elem_of_list_omap in Hm as [[t c] [_ Hm]].
    destruct (memN t (p_sync_types pr) && negb (memN t (en_excl en))); [|discriminate].
    injection Hm as <-. destruct (c_val c); exact I.
  - apply elem_of_concat in Hin as [l [Hm Hl]].
    apply elem_of_list_fmap in Hl as [[e en] [-> Hl]].
    unfold ents_list in Hl. apply elem_of_map_to_list in Hl.
    unfold snapshot_parent_msgs in Hm.
    destruct (en_sync en) as [su|]; [|inversion Hm].
    destruct (en_parent en) as [[q t]|] eqn:Ep; [|inversion Hm].
    destruct (t_e2u pr !! e) as [u|] eqn:Eu; [|inversion Hm].
    destruct (t_e2u pr !! q) as [pu|] eqn:Epu; [|inversion Hm].
    apply elem_of_list_singleton in Hm as ->. simpl.
    destruct (li_links _ _ HI e en q t Hl Ep) as [_ (u0 & v0 & Hne & [_ Hu0] & [_ Hv0])].
    rewrite (Hu0 u (or_introl Eu)), (Hv0 pu (or_introl Epu)). exact Hne.
  - apply not_parented_distinct. apply (serve_all_msgs pr AImage). rewrite E1. exact Hin.
  - unfold snapshot_material_msgs in Hin. destruct (t_mat pr1); [|inversion Hin].
    apply elem_of_list_fmap in Hin as [[a v] [-> _]]. exact I.
  - apply not_parented_distinct. apply (serve_all_msgs pr1 AMesh). rewrite E2. exact Hin.
  - apply not_parented_distinct. apply (serve_all_msgs pr2 AAudio). rewrite E3. exact Hin.
Qed.

Lemma apply_cmd_out_links pr c cs :
  link_cmd_ok c -> link_inv pr (c :: cs) ->
  out_all msg_distinct pr -> out_all msg_distinct (apply_cmd pr c).
Proof.
  intros Hc HI H. destruct c; simpl; simpl in Hc; try exact H; try contradiction.
  - eapply out_all_ext; [apply upd_ent_out|exact H].
  - destruct (apply_component_change pr e t v) as [pr' ch] eqn:E.
    pose proof (acc_out pr e t v) as H1. rewrite E in H1. simpl in H1.
    assert (H' : out_all msg_distinct pr') by (eapply out_all_ext; [exact H1|exact H]).
    destruct from as [c|]; [destruct ch|]; try exact H'.
    apply relay_except_out_all; [exact H'|exact I].
  - destruct (t_u2e pr !! c) as [ce|]; [|exact H].
    destruct (t_u2e pr !! p) as [pe'|]; [|exact H].
    destruct (negb (alive pr pe') || negb (alive pr ce)); [exact H|].
    assert (H' : out_all msg_distinct (if parent_differs pr ce pe'
                                       then set_parent_twice pr ce pe' <| t_ptok ::= <[c := p]> |> else pr)).
    { destruct (parent_differs pr ce pe'); [|exact H].
      eapply out_all_ext; [exact (set_parent_twice_out pr ce pe')|exact H]. }
    destruct (p_panic _); [exact H'|]. apply relay_except_out_all; [exact H'|exact Hc].
  - destruct (negb (alive pr p) || negb (alive pr c)); [exact H|].
    destruct (parent_differs pr c p); [|exact H].
    eapply out_all_ext; [exact (set_parent_twice_out pr c p)|exact H].
  - destruct from as [c|]; [apply relay_except_out_all; [|exact I]|]; exact H.
  - apply relay_except_out_all; assumption.
  - apply (react_components_out_gen msg_distinct not_parented_distinct true) in H.
    apply (link_inv_core pr (react_on_changed_components true pr) _ (react_components_core true pr)) in HI.
    set (pr0 := react_on_changed_components true pr) in *.
    destruct (build_full_sync pr0) as [pr1 ms] eqn:E.
    pose proof (build_full_sync_out pr0) as H1. rewrite E in H1. simpl in H1.
    assert (Hms : forall m, m ∈ ms -> msg_distinct m).
    { intros m Hm. apply (build_full_sync_msgs_links pr0 _ m HI). rewrite E. exact Hm. }
    apply send_out_all; [|exact I].
    apply foldl_out_all.
    + intros a x Hx Ha. apply send_out_all; [exact Ha|apply Hms; exact Hx].
    + eapply out_all_ext; [exact H1|exact H].
  - destruct (build_full_sync pr) as [pr1 ms] eqn:E.
    pose proof (build_full_sync_out pr) as H1. rewrite E in H1. simpl in H1.
    apply send_up_out_all; [|exact I]. eapply out_all_ext; [exact H1|exact H].
  - apply foldl_out_all; [|exact H].
    intros a x _ Ha. eapply out_all_ext; [apply upd_ent_out|exact Ha].
  - destruct set_flag; exact H.
  - destruct (filter _ _) as [|[e en] l]; exact H.
Qed.

(* ---------- flush with the pending list as part of the invariant -------------------------------------- *)

Lemma apply_cmds_inv2 (J : peer_state -> list cmd -> Prop) :
  (forall pr c cs, J pr (c :: cs) -> J (apply_cmd pr c) cs) ->
  (forall pr cs, J pr cs -> p_panic pr = None) ->
  forall cs pr, J pr cs -> J (apply_cmds pr cs) [].
Proof.
  intros Hstep Hnp. induction cs as [|c cs IH]; intros pr HJ; simpl; [exact HJ|].
  rewrite (Hnp _ _ HJ). apply IH. apply Hstep. exact HJ.
Qed.

Lemma flush_inv2 (J : peer_state -> list cmd -> Prop) :
  (forall pr k cs, J pr [] -> p_cmdq pr !! k = Some cs -> J (pr <| p_cmdq := delete k (p_cmdq pr) |>) cs) ->
  (forall pr c cs, J pr (c :: cs) -> J (apply_cmd pr c) cs) ->
  (forall pr cs, J pr cs -> p_panic pr = None) ->
  forall pr, J pr [] -> J (flush pr) [].
Proof.
  intros Htake Hstep Hnp pr HJ. rewrite flush_eq. unfold flush_with.
  apply (foldl_inv (fun a => J a [])); [exact HJ|].
  intros a s _ Ha. cbv zeta.
  destruct (p_cmdq a !! sys_key s) as [cs|] eqn:E; [|exact Ha].
  apply apply_cmds_inv2; [exact Hstep|exact Hnp|]. apply Htake; assumption.
Qed.

Lemma link_inv_take pr k cs :
  link_inv pr [] -> p_cmdq pr !! k = Some cs -> link_inv (pr <| p_cmdq := delete k (p_cmdq pr) |>) cs.
Proof.
  intros HI Hk. apply (link_inv_shrink pr []); try assumption; try reflexivity; auto.
  - apply ents_shrink_refl.
  - intros c _ Hc. unfold queued in *. simpl in Hc. apply (queued_take_ _ _ _ _ Hk). exact Hc.
Qed.

(* no system adds to the application's pending commands *)
Lemma sys_body_app_sub pr s o k last x :
  x ∈ p_app_cmds (sys_body pr s o k last) -> x ∈ p_app_cmds pr.
Proof.
  assert (Hnc : forall pr', nocmdq pr' = nocmdq pr -> x ∈ p_app_cmds pr' -> x ∈ p_app_cmds pr).
  { intros pr' H. apply nocmdq_inv in H as (_ & _ & -> & _). auto. }
  assert (Hco : forall pr', core pr' = core pr -> x ∈ p_app_cmds pr' -> x ∈ p_app_cmds pr).
  { intros pr' H. rewrite (core_app _ _ H). auto. }
  assert (Hnu : forall pr', nou2e pr' = nou2e pr -> x ∈ p_app_cmds pr' -> x ∈ p_app_cmds pr).
  { intros pr' H. apply nou2e_inv in H as (_ & _ & -> & _). auto. }
  assert (Hfi : forall pr', fixed pr' = fixed pr -> x ∈ p_app_cmds pr' -> x ∈ p_app_cmds pr).
  { intros pr' H. apply fixed_inv in H as (_ & _ & -> & _). auto. }
  destruct s; simpl;
    try (intros H; exact H);
    try (apply Hnc, fix_system_nocmdq);
    try (apply Hco; first [apply react_assets_core|apply process_assets_core]).
  - apply Hnu, entity_removed_server_nou2e.
  - apply Hfi, entity_created_fixed.
  - apply Hco, entity_parented_server_core.
  - apply Hco, react_components_core.
  - apply Hco, promote_reader_core.
  - apply Hnc, client_connected_nocmdq.
  - assert (He : p_app_cmds (server_poll pr k (fo_srv_poll o)) = p_app_cmds pr).
    { apply (server_poll_inv (fun a => p_app_cmds a = p_app_cmds pr) (fun _ => True)); try reflexivity.
      - intros a _ ? ? ? _ _. exact I.
      - intros a from m rest_ Ha _. exact Ha.
      - intros a from m Ha _.
        pose proof (pollfixed_inv _ _ (server_received_pollfixed a k from m)) as (_ & _ & Hx & _).
        rewrite Hx. exact Ha. }
    rewrite He. auto.
  - apply Hnc, verify_nocmdq.
  - apply Hnu, entity_removed_client_nou2e.
  - apply Hfi, entity_created_fixed.
  - apply Hco, entity_parented_client_core.
  - apply Hco, react_components_core.
  - destruct (n_cli_transport pr) as [[h t]|]; [|auto].
    assert (He : p_app_cmds (client_poll pr k h (fo_cli_poll o)) = p_app_cmds pr).
    { apply (client_poll_inv (fun a => p_app_cmds a = p_app_cmds pr) (fun _ => True)); try reflexivity.
      - intros a _ ? ? ? _ _. exact I.
      - intros a from m rest_ Ha _. exact Ha.
      - intros a m Ha _.
        pose proof (pollfixed_inv _ _ (client_received_pollfixed a k m)) as (_ & _ & Hx & _).
        rewrite Hx. exact Ha. }
    rewrite He. auto.
  - apply Hco, sync_detect_core.
  - intros H.
    assert (He : p_app_cmds (foldl (fun a y => push_cmd a k y.2)
                   (pr <| p_app_cmds := filter (fun y : N * cmd => negb (y.1 =? k0)) (p_app_cmds pr) |>)
                   (filter (fun y : N * cmd => y.1 =? k0) (p_app_cmds pr)))
                 = filter (fun y : N * cmd => negb (y.1 =? k0)) (p_app_cmds pr)).
    { apply (foldl_inv (fun a => p_app_cmds a = filter (fun y : N * cmd => negb (y.1 =? k0)) (p_app_cmds pr)));
        [reflexivity|]. intros a y _ Ha. exact Ha. }
    rewrite He in H. apply elem_of_list_filter in H as [_ H]. exact H.
Qed.

Lemma GI_weaken b (P P' : cmd -> Prop) (M : msg -> Prop) pr :
  (forall c, P c -> P' c) -> GI b P M pr -> GI b P' M pr.
Proof.
  intros HP (H1 & H2 & H3 & H4). split; [|split; [|split; [exact H3|exact H4]]].
  - intros k cs c Hl Hin. apply HP. eapply H1; eassumption.
  - intros x Hx. apply HP. apply H2. exact Hx.
Qed.
