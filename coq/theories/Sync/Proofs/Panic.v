(* Property C08: no peer crashes on traffic a conforming peer can send.
   Part 1 (all states, orders, oracles): exact conditions under which add_child / apply_cmd /
     app_step set p_panic; frame_panic_sites (a frame never yields PEntityMutDead),
     frame_panic_only_self_parent, frame_no_panic / frame_parents_ok (under parents_ok), with the
     flush and run_system versions.
   Part 3: frame is total, the flag is the only thing that stops it; ignored messages leave the
     state as it was.
   Part 2 (all traces):
     A  C08_no_panic_modulo_self_links     no panic as long as nobody emits MParented u u
     B  C08_no_panic_no_hierarchy          no OSetParent in the trace
     C  C08_no_panic_distinct_uuid_links   the application links only entities of different uuids
        (corollary C08_no_panic_own_hierarchy: only entities it spawned itself)
     C08_no_panic_statement_refuted        the unrestricted statement is false in the model, with
        two witnesses (untruthful oracles); a third one (an order Bevy does not build) was closed
        by the despawned_locally repair, see odd_order_single_replica. *)
From stdpp Require Import gmap list.
From Coq Require Import NArith Lia.
From RecordUpdate Require Import RecordSet.
From BS Require Import Sync.Types Sync.Model Sync.Observe Sync.Proofs.PanicLemmas.
Import RecordSetNotations.
Local Open Scope N_scope.

(* ================================================================================================ *)
(* Part 1: local characterisation                                                                   *)
(* ================================================================================================ *)

(* 1a. exact outcomes of the partial operations (from PanicLemmas) *)

Theorem add_child_panic_exact pr p c :
  p_panic pr = None ->
  p_panic (add_child pr p c) =
  if negb (alive pr p) then Some PEntityMutDead else if p =? c then Some PSetParentSelf else None.
Proof. apply add_child_panic. Qed.

Theorem apply_cmd_panic_exact pr c :
  p_panic pr = None -> p_panic (apply_cmd pr c) = cmd_panics pr c.
Proof. apply apply_cmd_panic. Qed.

Definition op_panics (pr : peer_state) (op : app_op) : option panic_site :=
  match op with
  | OSetParent c p =>
      if alive pr c then
        if negb (alive pr p) then Some PEntityMutDead else if p =? c then Some PSetParentSelf else None
      else None
  | _ => None
  end.

Theorem app_step_panic_exact pr op :
  p_panic pr = None -> p_panic (app_step pr op) = op_panics pr op.
Proof.
  intros Hn. destruct op; simpl; try exact Hn; try (rewrite upd_ent_panic; exact Hn).
  - destruct (alive pr c); [apply add_child_panic; exact Hn|exact Hn].
  - destruct host; exact Hn.
Qed.

(* which command kinds can panic, and where *)
Lemma cmd_panics_sites pr c s :
  cmd_panics pr c = Some s ->
  (s = PSetParentSelf /\ is_set_parent c) \/ (s = PInsertDead /\ exists e t v, c = CAppInsert e t v).
Proof.
  destruct c; simpl; try discriminate.
  - destruct (t_u2e pr !! c) as [ce|]; [|discriminate].
    destruct (t_u2e pr !! p) as [pe|]; [|discriminate].
    destruct (_ && _); [|discriminate]. unfold set_parent_outcome.
    destruct (pe =? ce); [|discriminate]. intros H. injection H as <-. left. split; [reflexivity|exact I].
  - destruct (_ && _); [|discriminate]. unfold set_parent_outcome.
    destruct (p =? c); [|discriminate]. intros H. injection H as <-. left. split; [reflexivity|exact I].
  - destruct (alive pr e); [discriminate|]. intros H. injection H as <-. right. split; [reflexivity|eauto].
Qed.

(* the receivers check liveness first: a deferred command never hits add_child on a dead parent *)
Definition frame_sites (pr : peer_state) : Prop :=
  p_panic pr = None \/ p_panic pr = Some PSetParentSelf \/ p_panic pr = Some PInsertDead.

Lemma frame_sites_respects : respects_core frame_sites.
Proof. intros pr pr' H _. unfold frame_sites. rewrite (core_panic _ _ H). auto. Qed.

Lemma frame_sites_apply_cmd pr c : p_panic pr = None -> frame_sites (apply_cmd pr c).
Proof.
  intros Hn. unfold frame_sites. rewrite (apply_cmd_panic pr c Hn).
  destruct (cmd_panics pr c) as [s|] eqn:E; [|auto].
  apply cmd_panics_sites in E as [[-> _]|[-> _]]; auto.
Qed.

Lemma frame_sites_flush pr : frame_sites pr -> frame_sites (flush pr).
Proof.
  apply (flush_inv frame_sites (fun _ => True)).
  - intros a _ ? ? ? _ _. exact I.
  - intros a k Ha. exact Ha.
  - intros a c _ _ Hn. apply frame_sites_apply_cmd. exact Hn.
Qed.

Lemma frame_sites_sys_body pr s o k last : frame_sites pr -> frame_sites (sys_body pr s o k last).
Proof.
  unfold frame_sites. destruct (pe_inv _ _ (sys_body_pe pr s o k last)) as [-> _]. auto.
Qed.

Theorem flush_panic_sites pr :
  p_panic pr = None -> p_panic (flush pr) <> Some PEntityMutDead.
Proof.
  intros Hn. destruct (frame_sites_flush pr (or_introl Hn)) as [H|[H|H]]; rewrite H; discriminate.
Qed.

Theorem run_system_panic_sites pr s o :
  p_panic pr = None -> p_panic (run_system pr s o) <> Some PEntityMutDead.
Proof.
  intros Hn.
  assert (H : frame_sites (run_system pr s o)).
  { apply run_system_inv; [exact frame_sites_respects| | |left; exact Hn].
    - intros a Ha _. apply frame_sites_flush. exact Ha.
    - apply run_body_inv; [exact frame_sites_respects|]. intros a s' o' k last. apply frame_sites_sys_body. }
  destruct H as [H|[H|H]]; rewrite H; discriminate.
Qed.

Lemma frame_frame_sites pr o : frame_sites pr -> frame_sites (frame pr o).
Proof.
  apply frame_inv.
  - exact frame_sites_respects.
  - intros a Ha. exact Ha.
  - intros a h Ha. unfold frame_sites. rewrite (core_panic _ _ (send_up_core _ _)). exact Ha.
  - intros a Ha _. apply frame_sites_flush. exact Ha.
  - intros a s' o' k last. apply frame_sites_sys_body.
Qed.

(* every state, order and oracle: a frame never produces PEntityMutDead *)
Theorem frame_panic_sites pr o :
  p_panic pr = None -> p_panic (frame pr o) <> Some PEntityMutDead.
Proof.
  intros Hn. destruct (frame_frame_sites pr o (or_introl Hn)) as [H|[H|H]]; rewrite H; discriminate.
Qed.

(* 1b. without the application's insert command, the only panic left is the self-parent link *)

Definition not_app_insert (c : cmd) : Prop := match c with CAppInsert _ _ _ => False | _ => True end.
Definition no_app_insert (pr : peer_state) : Prop :=
  cmdq_all not_app_insert pr /\ app_all not_app_insert pr.
Definition self_parent_only (pr : peer_state) : Prop :=
  p_panic pr = None \/ p_panic pr = Some PSetParentSelf.

Definition any_msg (_ : msg) : Prop := True.
Definition I1 (pr : peer_state) : Prop := GI false not_app_insert any_msg pr /\ self_parent_only pr.

Lemma benign_not_app_insert c : benign c -> not_app_insert c.
Proof. destruct c; simpl; auto. Qed.

Lemma I1_intro pr : no_app_insert pr -> self_parent_only pr -> I1 pr.
Proof. intros [H1 H2] H3. split; [|exact H3]. repeat split; assumption. Qed.

Lemma I1_core pr pr' : core pr' = core pr -> I1 pr -> I1 pr'.
Proof.
  intros H [H1 H2]. split; [eapply GI_core; eassumption|].
  unfold self_parent_only. rewrite (core_panic _ _ H). exact H2.
Qed.
Lemma I1_respects : respects_core I1.
Proof. intros pr pr' H _. apply I1_core. exact H. Qed.

Lemma I1_apply_cmd pr c : I1 pr -> not_app_insert c -> p_panic pr = None -> I1 (apply_cmd pr c).
Proof.
  intros [H1 _] Hc Hn. split; [apply GI_apply_cmd; exact H1|].
  unfold self_parent_only. rewrite (apply_cmd_panic pr c Hn).
  destruct (cmd_panics pr c) as [s|] eqn:E; [|auto].
  apply cmd_panics_sites in E as [[-> _]|[_ (e & t & v & ->)]]; [auto|contradiction].
Qed.

Lemma I1_flush pr : I1 pr -> I1 (flush pr).
Proof.
  apply (flush_inv I1 not_app_insert).
  - intros a [Ha _]. apply Ha.
  - intros a k [Ha Hp]. split; [apply GI_delete; exact Ha|exact Hp].
  - apply I1_apply_cmd.
Qed.

Lemma I1_sys_body pr s o k last : I1 pr -> I1 (sys_body pr s o k last).
Proof.
  intros [H1 H2]. split.
  - apply sys_body_GI; [exact benign_not_app_insert| | |exact H1].
    + intros from cu pu _. exact I.
    + intros a cu pu ce pe _ _ _ _. exact I.
  - unfold self_parent_only. destruct (pe_inv _ _ (sys_body_pe pr s o k last)) as [-> _]. exact H2.
Qed.

Lemma I1_frame pr o : I1 pr -> I1 (frame pr o).
Proof.
  apply frame_inv.
  - exact I1_respects.
  - intros a. apply I1_core. reflexivity.
  - intros a h. apply I1_core. apply send_up_core.
  - intros a Ha _. apply I1_flush. exact Ha.
  - intros a s' o' k last. apply I1_sys_body.
Qed.

Theorem flush_panic_only_self_parent pr :
  p_panic pr = None -> no_app_insert pr ->
  p_panic (flush pr) = None \/ p_panic (flush pr) = Some PSetParentSelf.
Proof. intros Hn H. apply (I1_flush pr (I1_intro pr H (or_introl Hn))). Qed.

Theorem run_system_panic_only_self_parent pr s o :
  p_panic pr = None -> no_app_insert pr ->
  p_panic (run_system pr s o) = None \/ p_panic (run_system pr s o) = Some PSetParentSelf.
Proof.
  intros Hn H.
  refine (proj2 (run_system_inv I1 I1_respects _ _ pr s o (I1_intro pr H (or_introl Hn)))).
  - intros a Ha _. apply I1_flush. exact Ha.
  - apply run_body_inv; [exact I1_respects|]. intros a s' o' k last. apply I1_sys_body.
Qed.

(* every state, order and oracle *)
Theorem frame_panic_only_self_parent pr o :
  p_panic pr = None -> no_app_insert pr ->
  p_panic (frame pr o) = None \/ p_panic (frame pr o) = Some PSetParentSelf.
Proof. intros Hn H. apply (I1_frame pr o (I1_intro pr H (or_introl Hn))). Qed.

Theorem frame_no_app_insert pr o : p_panic pr = None -> no_app_insert pr -> no_app_insert (frame pr o).
Proof.
  intros Hn H. destruct (I1_frame pr o (I1_intro pr H (or_introl Hn))) as [(H1 & H2 & _) _].
  split; assumption.
Qed.

(* 1c. ruling out the self-parent link: no panic at all *)

(* queued commands (of the systems and of the application) that cannot panic *)
Definition cmd_ok (c : cmd) : Prop :=
  match c with
  | CAppInsert _ _ _ => False
  | CSetParentSrv _ cu pu => cu <> pu
  | CSetParentCli c p _ _ => c <> p
  | _ => True
  end.
(* in-flight messages: no link of an entity to itself *)
Definition msg_ok (m : msg) : Prop := msg_distinct m.

(* parents_ok: every queued command is cmd_ok; no inbox holds MParented u u; uuid_to_entity is
   injective, maps below the entity allocator, registers script entities (ids below 2^32) under
   their own id only; the allocator is at or above 2^32; only script entities carry SyncMark.
   The last three conditions are what keeps uuid_to_entity injective *during* the frame. *)
Definition parents_ok (pr : peer_state) : Prop := GI true cmd_ok msg_ok pr.

Lemma parents_ok_unfold pr :
  parents_ok pr <->
  (forall k cs c, p_cmdq pr !! k = Some cs -> c ∈ cs -> cmd_ok c) /\
  (forall x, x ∈ p_app_cmds pr -> cmd_ok x.2) /\
  (forall s l m, n_inbox pr !! s = Some l -> m ∈ l -> msg_ok m) /\
  (forall u1 u2 e, t_u2e pr !! u1 = Some e -> t_u2e pr !! u2 = Some e -> u1 = u2) /\
  (forall u e, t_u2e pr !! u = Some e -> e < p_next_ent pr /\ (e < 4294967296 -> u = e)) /\
  4294967296 <= p_next_ent pr /\
  (forall e en, p_ents pr !! e = Some en -> en_mark en <> None -> e < 4294967296).
Proof. unfold parents_ok, GI, GS, u2e_ok, u2e_ok_, cmdq_all, app_all, inbox_all, mark_ok, SCRIPT_LIMIT. tauto. Qed.

Definition I2 (pr : peer_state) : Prop := parents_ok pr /\ p_panic pr = None.

Lemma benign_cmd_ok c : benign c -> cmd_ok c.
Proof. destruct c; simpl; auto. Qed.

Lemma cmd_ok_no_panic pr c : u2e_ok pr -> cmd_ok c -> cmd_panics pr c = None.
Proof.
  intros Hu Hc. destruct c; simpl; simpl in Hc; try reflexivity; try contradiction.
  - destruct (t_u2e pr !! c) as [ce|] eqn:Ec; [|reflexivity].
    destruct (t_u2e pr !! p) as [pe|] eqn:Ep; [|reflexivity].
    destruct (_ && _); [|reflexivity]. unfold set_parent_outcome.
    destruct (pe =? ce) eqn:E; [|reflexivity]. apply N.eqb_eq in E. subst pe.
    exfalso. apply Hc. eapply u2e_ok_inj; eassumption.
  - destruct (_ && _); [|reflexivity]. unfold set_parent_outcome.
    destruct (p =? c) eqn:E; [|reflexivity]. apply N.eqb_eq in E. congruence.
Qed.

Lemma I2_core pr pr' : core pr' = core pr -> I2 pr -> I2 pr'.
Proof.
  intros H [H1 H2]. split; [eapply GI_core; eassumption|]. rewrite (core_panic _ _ H). exact H2.
Qed.
Lemma I2_respects : respects_core I2.
Proof. intros pr pr' H _. apply I2_core. exact H. Qed.

Lemma I2_apply_cmd pr c : I2 pr -> cmd_ok c -> p_panic pr = None -> I2 (apply_cmd pr c).
Proof.
  intros [H1 _] Hc Hn. split; [apply GI_apply_cmd; exact H1|].
  rewrite (apply_cmd_panic pr c Hn). apply cmd_ok_no_panic; [apply H1|exact Hc].
Qed.

Lemma I2_flush pr : I2 pr -> I2 (flush pr).
Proof.
  apply (flush_inv I2 cmd_ok).
  - intros a [Ha _]. apply Ha.
  - intros a k [Ha Hp]. split; [apply GI_delete; exact Ha|exact Hp].
  - apply I2_apply_cmd.
Qed.

Lemma I2_sys_body pr s o k last : I2 pr -> I2 (sys_body pr s o k last).
Proof.
  intros [H1 H2]. split.
  - apply sys_body_GI; [exact benign_cmd_ok| | |exact H1].
    + intros from cu pu Hm. exact Hm.
    + intros a cu pu ce pe Hu Hm Hc Hp. simpl in *. intros ->. apply Hm.
      eapply u2e_ok_inj; eassumption.
  - destruct (pe_inv _ _ (sys_body_pe pr s o k last)) as [-> _]. exact H2.
Qed.

Lemma I2_frame pr o : I2 pr -> I2 (frame pr o).
Proof.
  apply frame_inv.
  - exact I2_respects.
  - intros a. apply I2_core. reflexivity.
  - intros a h. apply I2_core. apply send_up_core.
  - intros a Ha _. apply I2_flush. exact Ha.
  - intros a s' o' k last. apply I2_sys_body.
Qed.

Theorem apply_cmd_no_panic pr c :
  p_panic pr = None -> parents_ok pr -> cmd_ok c ->
  p_panic (apply_cmd pr c) = None /\ parents_ok (apply_cmd pr c).
Proof. intros Hn H Hc. destruct (I2_apply_cmd pr c (conj H Hn) Hc Hn) as [H1 H2]. auto. Qed.

Theorem flush_no_panic pr :
  p_panic pr = None -> parents_ok pr -> p_panic (flush pr) = None /\ parents_ok (flush pr).
Proof. intros Hn H. destruct (I2_flush pr (conj H Hn)) as [H1 H2]. auto. Qed.

Theorem run_system_no_panic pr s o :
  p_panic pr = None -> parents_ok pr ->
  p_panic (run_system pr s o) = None /\ parents_ok (run_system pr s o).
Proof.
  intros Hn H.
  assert (H' : I2 (run_system pr s o)).
  { apply run_system_inv; [exact I2_respects| | |exact (conj H Hn)].
    - intros a Ha _. apply I2_flush. exact Ha.
    - apply run_body_inv; [exact I2_respects|]. intros a s' o' k last. apply I2_sys_body. }
  destruct H' as [H1 H2]. auto.
Qed.

(* every state satisfying parents_ok, every order, every oracle, every message kind and receiver
   condition: the frame does not panic, and parents_ok holds again afterwards *)
Theorem frame_no_panic pr o :
  p_panic pr = None -> parents_ok pr -> p_panic (frame pr o) = None.
Proof. intros Hn H. apply (I2_frame pr o (conj H Hn)). Qed.

Theorem frame_parents_ok pr o :
  p_panic pr = None -> parents_ok pr -> parents_ok (frame pr o).
Proof. intros Hn H. apply (I2_frame pr o (conj H Hn)). Qed.

Lemma parents_ok_no_app_insert pr : parents_ok pr -> no_app_insert pr.
Proof.
  intros (H1 & H2 & _). split.
  - intros k cs c Hl Hin. specialize (H1 k cs c Hl Hin). destruct c; simpl in *; auto.
  - intros x Hx. specialize (H2 x Hx). destruct (x.2); simpl in *; auto.
Qed.

(* ================================================================================================ *)
(* Part 3: a peer that ignored a message keeps running                                              *)
(* ================================================================================================ *)

(* frame is a total function; the flag is the only thing that stops it *)
Theorem frame_stops_iff_panicked pr o s : p_panic pr = Some s -> frame pr o = pr.
Proof. apply frame_panicked. Qed.

Theorem frame_runs_unless_panicked pr o :
  p_panic pr = None ->
  frame pr o =
  let pr1 := state_transition (pre_update (pr <| p_out := [] |>) o) in
  let pr2 := foldl (fun pr s => run_system pr s o) pr1 (p_order pr1) in
  last_schedule (match p_panic pr2 with Some _ => pr2 | None => flush pr2 end).
Proof. intros H. unfold frame. rewrite H. reflexivity. Qed.

(* the panic flag is never cleared, and a frame that did not panic is followed by a running one *)
Theorem panic_is_sticky pr o s : p_panic pr = Some s -> p_panic (frame pr o) = Some s.
Proof. intros H. rewrite (frame_panicked pr o s H). exact H. Qed.

(* "ignored" means the state is left exactly as it was: messages about unknown entities *)
Theorem client_ignores_unknown_entity pr k u t v c p :
  t_u2e pr !! u = None ->
  client_received pr k (MComp u t v) = pr /\ client_received pr k (MDelete u) = pr /\
  client_received pr k (MParented u p) = pr /\ client_received pr k (MParented c u) = pr.
Proof.
  intros H. simpl. rewrite H. repeat split; try reflexivity. destruct (t_u2e pr !! c); reflexivity.
Qed.
Theorem server_ignores_unknown_entity pr k from u t v :
  t_u2e pr !! u = None -> server_received pr k from (MComp u t v) = pr.
Proof. intros H. simpl. rewrite H. reflexivity. Qed.

(* ... and deferred applications whose target vanished in the meantime (despawned between frames,
   or earlier in the same frame by an application system) or whose type is not registered *)
Theorem apply_comp_ignored_dead pr from e u t v :
  p_ents pr !! e = None -> apply_cmd pr (CApplyComp from e u t v) = pr.
Proof.
  intros H. simpl. unfold apply_component_change. rewrite H.
  destruct (negb (memN (wire_type t v) (p_registry pr))); [destruct from; reflexivity|].
  destruct v; (destruct (negb (memN _ (p_registry pr))); destruct from; reflexivity).
Qed.
Theorem apply_comp_ignored_unregistered pr from e u t v :
  memN (wire_type t v) (p_registry pr) = false -> apply_cmd pr (CApplyComp from e u t v) = pr.
Proof.
  intros H. simpl. unfold apply_component_change. rewrite H. simpl. destruct from; reflexivity.
Qed.
Theorem set_parent_ignored_dead pr c p cu pu :
  alive pr p = false \/ alive pr c = false -> apply_cmd pr (CSetParentCli c p cu pu) = pr.
Proof. intros [H|H]; simpl; rewrite H; [|rewrite orb_true_r]; reflexivity. Qed.
Theorem set_parent_srv_ignored pr from cu pu :
  (t_u2e pr !! cu = None \/ t_u2e pr !! pu = None \/
   exists c p, t_u2e pr !! cu = Some c /\ t_u2e pr !! pu = Some p /\ (alive pr p = false \/ alive pr c = false)) ->
  apply_cmd pr (CSetParentSrv from cu pu) = pr.
Proof.
  intros [H|[H|(c & p & Hc & Hp & [H|H])]]; simpl.
  - rewrite H. reflexivity.
  - rewrite H. destruct (t_u2e pr !! cu); reflexivity.
  - rewrite Hc, Hp, H. reflexivity.
  - rewrite Hc, Hp, H, orb_true_r. reflexivity.
Qed.
Theorem despawn_twice_ignored pr e :
  p_ents pr !! e = None ->
  p_ents (apply_cmd pr (CDespawn e)) = p_ents pr /\ p_panic (apply_cmd pr (CDespawn e)) = p_panic pr.
Proof. intros H. simpl. rewrite delete_notin by exact H. split; reflexivity. Qed.

(* ================================================================================================ *)
(* Part 2: global theorems                                                                          *)
(* ================================================================================================ *)

(* ---------- what a conforming application does --------------------------------------------------- *)

(* commands of application systems: despawns only (CAppInsert is the application's own panic) *)
Definition app_cmd_ok (c : cmd) : bool :=
  match c with CAppDespawnUuid _ | CAppDespawn _ => true | _ => false end.

(* used: the script entity ids handed out so far, on any peer; marked: those that already carry
   (or carried) SyncMark.  The model takes the entity's own id as its fresh uuid, which is faithful
   to Uuid::new_v4 only if ids are globally fresh and every entity is marked at most once. *)
Definition op_conforming (pr : peer_state) (used marked : list ent) (op : app_op) : bool :=
  match op with
  | OSpawn e _ _ => (e <? 4294967296) && negb (memN e used)
  | OMark e => (e <? 4294967296) && negb (memN e marked)
  | OSetParent c p => alive pr c && alive pr p && negb (c =? p)
  | OAppCmd _ c => app_cmd_ok c
  | _ => true
  end.
Definition used_after (used : list ent) (s : step) : list ent :=
  match s with StApp _ (OSpawn e _ _) => e :: used | _ => used end.
Definition marked_after (marked : list ent) (s : step) : list ent :=
  match s with
  | StApp _ (OSpawn e true _) | StApp _ (OMark e) => e :: marked
  | _ => marked
  end.
Definition step_conforming (g : global) (used marked : list ent) (s : step) : bool :=
  match s with
  | StApp p op => match g !! p with Some pr => op_conforming pr used marked op | None => true end
  | _ => true
  end.
Fixpoint conforming_from (g : global) (used marked : list ent) (tr : list step) : bool :=
  match tr with
  | [] => true
  | s :: tr' => step_conforming g used marked s &&
                conforming_from (gstep g s) (used_after used s) (marked_after marked s) tr'
  end.
(* restricts application operations only: frames, orders, oracles, interleavings, registrations,
   set-ups, joins, reorderings are arbitrary *)
Definition conforming (n : nat) (tr : list step) : Prop :=
  conforming_from (init_global n) [] [] tr = true.

(* ---------- global plumbing ------------------------------------------------------------------------ *)

Lemma init_global_lookup n p pr : init_global n !! p = Some pr -> pr = init_peer p [] [] [].
Proof.
  unfold init_global.
  refine (foldl_inv (fun g => forall p pr, g !! p = Some pr -> pr = init_peer p [] [] []) _ _ _ _ _ p pr).
  - intros p' pr' H. exfalso. exact (lookup_empty_Some (M := gmap peer) p' pr' H).
  - intros g i _ Hg p' pr' H. cbv beta zeta in H. unfold global in *.
    destruct (decide (p' = N.of_nat i)) as [->|Hne].
    + rewrite lookup_insert in H. injection H as <-. reflexivity.
    + rewrite lookup_insert_ne in H by congruence. apply Hg. exact H.
Qed.

Definition all_peers (I : peer_state -> Prop) (g : global) : Prop :=
  forall p pr, g !! p = Some pr -> I pr.

Lemma all_peers_insert (I : peer_state -> Prop) g p pr :
  all_peers I g -> I pr -> all_peers I (<[p := pr]> g).
Proof.
  intros Hg Hpr q pq H. unfold global in *. destruct (decide (q = p)) as [->|Hne].
  - rewrite lookup_insert in H. injection H as <-. exact Hpr.
  - rewrite lookup_insert_ne in H by congruence. eapply Hg. exact H.
Qed.

Definition inbox_push (pd : peer_state) (src : peer) (m : msg) : peer_state :=
  pd <| n_inbox := <[src := default [] (n_inbox pd !! src) ++ [m]]> (n_inbox pd) |>.

Lemma deliver_out_inv (I : peer_state -> Prop) (M : msg -> Prop) g src out :
  (forall pd m, I pd -> M m -> I (inbox_push pd src m)) ->
  (forall d m, (d, m) ∈ out -> M m) ->
  all_peers I g -> all_peers I (deliver_out g src out).
Proof.
  intros Hpush Hout Hg. unfold deliver_out. apply (foldl_inv (all_peers I)); [exact Hg|].
  intros a [d m] Hin Ha. cbv beta iota.
  destruct (a !! d) as [pd|] eqn:E; [|exact Ha].
  apply all_peers_insert; [exact Ha|]. apply Hpush; [eapply Ha; exact E|eapply Hout; exact Hin].
Qed.

Lemma inbox_all_push (M : msg -> Prop) pd src m :
  inbox_all M pd -> M m -> inbox_all M (inbox_push pd src m).
Proof.
  intros H Hm s l m' Hl Hin. unfold inbox_push in Hl. simpl in Hl.
  destruct (decide (s = src)) as [->|Hne].
  - rewrite lookup_insert in Hl. injection Hl as <-. apply elem_of_app in Hin as [Hin|Hin].
    + destruct (n_inbox pd !! src) as [l0|] eqn:E; simpl in Hin; [|inversion Hin].
      eapply H; [exact E|exact Hin].
    + apply elem_of_list_singleton in Hin as ->. exact Hm.
  - rewrite lookup_insert_ne in Hl by congruence. eapply H; [exact Hl|exact Hin].
Qed.

Lemma elem_of_take_sub {A} (x : A) n l : x ∈ take n l -> x ∈ l.
Proof.
  revert n. induction l as [|y l IH]; intros [|n] H; simpl in H; try (inversion H; fail).
  apply elem_of_cons in H as [->|H]; [left|right; eapply IH; exact H].
Qed.
Lemma elem_of_drop_sub {A} (x : A) n l : x ∈ drop n l -> x ∈ l.
Proof.
  revert n. induction l as [|y l IH]; intros [|n] H; simpl in H; try exact H.
  right. eapply IH. exact H.
Qed.
Lemma reorder_sub l i j m : m ∈ reorder l i j -> m ∈ l.
Proof.
  unfold reorder. destruct (l !! i) as [m0|] eqn:E; [|auto].
  destruct (_ && _); [|auto]. intros H.
  apply elem_of_app in H as [H|H]; [eapply elem_of_take_sub; exact H|].
  apply elem_of_cons in H as [->|H]; [eapply elem_of_list_lookup_2; exact E|].
  apply elem_of_app in H as [H|H].
  - eapply elem_of_drop_sub. eapply elem_of_take_sub. exact H.
  - eapply elem_of_drop_sub. exact H.
Qed.

Lemma inbox_all_reorder (M : msg -> Prop) pd src l i j :
  n_inbox pd !! src = Some l -> inbox_all M pd ->
  inbox_all M (pd <| n_inbox := <[src := reorder l i j]> (n_inbox pd) |>).
Proof.
  intros Hl H s l' m Hl' Hin. simpl in Hl'. destruct (decide (s = src)) as [->|Hne].
  - rewrite lookup_insert in Hl'. injection Hl' as <-. apply reorder_sub in Hin.
    eapply H; [exact Hl|exact Hin].
  - rewrite lookup_insert_ne in Hl' by congruence. eapply H; [exact Hl'|exact Hin].
Qed.

(* GI is indifferent to what happens to the inboxes as long as the messages stay admissible *)
Lemma GI_inbox b (P : cmd -> Prop) (M : msg -> Prop) pd (ib : gmap peer (list msg)) :
  GI b P M pd -> inbox_all M (pd <| n_inbox := ib |>) -> GI b P M (pd <| n_inbox := ib |>).
Proof. intros (H1 & H2 & _ & H4) H3. repeat split; [exact H1|exact H2|exact H3|exact H4]. Qed.

(* a step that only touches entities, the panic flag and fields outside `rest` *)
Lemma GI_rest b (P : cmd -> Prop) (M : msg -> Prop) pr pr' :
  rest pr' = rest pr -> (b = true -> ents_all mark_ok pr') -> GI b P M pr -> GI b P M pr'.
Proof.
  intros H Hm (H1 & H2 & H3 & H4). apply rest_inv in H as (Ha & Hu & Hi & Hn & Hq).
  repeat split.
  - eapply cmdq_all_ext; [exact Hq|exact H1].
  - eapply app_all_ext; [exact Ha|exact H2].
  - eapply inbox_all_ext; [exact Hi|exact H3].
  - unfold GS in H4 |- *. destruct b; [|exact I].
    unfold u2e_ok. rewrite Hu, Hn. eapply u2e_ok_ents; [|exact H4]. apply Hm. reflexivity.
Qed.

Lemma mark_ok_blind : hier_blind mark_ok.
Proof. intros e en p cs H. split; exact H. Qed.

Lemma parents_ok_marks pr : parents_ok pr -> ents_all mark_ok pr.
Proof. intros (_ & _ & _ & (_ & _ & _ & H)). exact H. Qed.

Lemma ents_all_insert (Q : ent -> entity -> Prop) pr e en :
  Q e en -> ents_all Q pr -> ents_all Q (pr <| p_ents := <[e := en]> (p_ents pr) |>).
Proof.
  intros Hen H x en' Hl. simpl in Hl. destruct (decide (x = e)) as [->|Hne].
  - rewrite lookup_insert in Hl. injection Hl as <-. exact Hen.
  - rewrite lookup_insert_ne in Hl by congruence. apply H. exact Hl.
Qed.
Lemma ents_all_delete (Q : ent -> entity -> Prop) pr e :
  ents_all Q pr -> ents_all Q (pr <| p_ents := delete e (p_ents pr) |>).
Proof. intros H x en Hl. simpl in Hl. apply lookup_delete_Some in Hl as [_ Hl]. apply H. exact Hl. Qed.

Lemma app_cmd_ok_cmd_ok c : app_cmd_ok c = true -> cmd_ok c.
Proof. destruct c; simpl; intros H; try discriminate; exact I. Qed.

Lemma app_all_snoc (P : cmd -> Prop) pr n c :
  P c -> app_all P pr -> app_all P (pr <| p_app_cmds := p_app_cmds pr ++ [(n, c)] |>).
Proof.
  intros Hc H x Hx. simpl in Hx. apply elem_of_app in Hx as [Hx|Hx]; [apply H; exact Hx|].
  apply elem_of_list_singleton in Hx as ->. exact Hc.
Qed.

(* a conforming application operation keeps parents_ok and does not panic *)
Lemma I2_app_step pr used marked op :
  I2 pr -> op_conforming pr used marked op = true -> I2 (app_step pr op).
Proof.
  intros [H Hn] Hop. pose proof (parents_ok_marks pr H) as Hm.
  destruct op; simpl in Hop |- *.
  - apply andb_true_iff in Hop as [He _]. apply N.ltb_lt in He.
    split; [|exact Hn]. apply (GI_rest _ _ _ pr); [reflexivity| |exact H].
    intros _. apply ents_all_insert; [|exact Hm]. intros _. exact He.
  - split; [|exact Hn]. apply (GI_rest _ _ _ pr); [reflexivity| |exact H]. intros _. apply ents_all_delete. exact Hm.
  - apply andb_true_iff in Hop as [Hop _]. apply N.ltb_lt in Hop.
    split; [|rewrite upd_ent_panic; exact Hn].
    apply (GI_rest _ _ _ pr); [apply upd_ent_rest| |exact H]. intros _.
    apply upd_ent_ents_all; [|exact Hm]. intros en _ _. exact Hop.
  - split; [|rewrite upd_ent_panic; exact Hn].
    apply (GI_rest _ _ _ pr); [apply upd_ent_rest| |exact H]. intros _.
    apply upd_ent_ents_all; [|exact Hm]. intros en Hen. unfold mark_ok, put_comp in *.
    destruct (en_comps en !! t); exact Hen.
  - split; [|rewrite upd_ent_panic; exact Hn].
    apply (GI_rest _ _ _ pr); [apply upd_ent_rest| |exact H]. intros _.
    apply upd_ent_ents_all; [|exact Hm]. intros en Hen. exact Hen.
  - apply andb_true_iff in Hop as [Hop Hcp]. apply andb_true_iff in Hop as [Hc Hp].
    rewrite Hc. split.
    + apply (GI_rest _ _ _ pr); [apply add_child_rest| |exact H]. intros _.
      apply add_child_ents_all; [exact mark_ok_blind|exact Hm].
    + rewrite (add_child_panic pr p c Hn). unfold add_child_outcome. rewrite Hp. simpl.
      rewrite N.eqb_sym. apply negb_true_iff in Hcp. rewrite Hcp. reflexivity.
  - apply (I2_core pr); [apply insert_asset_core|split; assumption].
  - apply (I2_core pr); [|split; [exact H|exact Hn]]. reflexivity.
  - split; [|exact Hn]. destruct H as (H1 & H2 & H3 & H4).
    split; [exact H1|split; [|split; [exact H3|exact H4]]].
    apply app_all_snoc; [apply app_cmd_ok_cmd_ok; exact Hop|exact H2].
  - apply (I2_core pr); [|split; [exact H|exact Hn]]. destruct host; reflexivity.
  - apply (I2_core pr); [|split; [exact H|exact Hn]]. reflexivity.
  - apply (I2_core pr); [|split; [exact H|exact Hn]]. reflexivity.
  - apply (I2_core pr); [|split; [exact H|exact Hn]]. reflexivity.
  - apply (I2_core pr); [|split; [exact H|exact Hn]]. reflexivity.
  - apply (I2_core pr); [|split; [exact H|exact Hn]]. reflexivity.
Qed.

Lemma I2_init p : I2 (init_peer p [] [] []).
Proof.
  split; [|reflexivity]. apply parents_ok_unfold. simpl.
  split; [intros k cs c Hl; rewrite lookup_empty in Hl; discriminate|].
  split; [intros x Hx; inversion Hx|].
  split; [intros s l m Hl; rewrite lookup_empty in Hl; discriminate|].
  split; [intros u1 u2 e Hl; rewrite lookup_empty in Hl; discriminate|].
  split; [intros u e Hl; rewrite lookup_empty in Hl; discriminate|].
  split; [lia|].
  intros e en Hl. rewrite lookup_empty in Hl. discriminate.
Qed.

(* ---------- theorem A: peers panic only if somebody emits a link of an entity to itself ------------ *)

(* along the run, no frame puts a message MParented u u into its outbox *)
Fixpoint links_ok_from (g : global) (tr : list step) : Prop :=
  match tr with
  | [] => True
  | s :: tr' =>
      match s with
      | StFrame p o => match g !! p with Some pr => out_all msg_ok (frame pr o) | None => True end
      | _ => True
      end /\ links_ok_from (gstep g s) tr'
  end.
Definition no_self_link_sent (n : nat) (tr : list step) : Prop := links_ok_from (init_global n) tr.

Lemma I2_inbox_push pd src m : I2 pd -> msg_ok m -> I2 (inbox_push pd src m).
Proof.
  intros [H Hn] Hm. split; [|exact Hn]. apply GI_inbox; [exact H|].
  apply inbox_all_push; [apply H|exact Hm].
Qed.

Lemma gstep_I2 g used marked s :
  all_peers I2 g -> step_conforming g used marked s = true ->
  match s with
  | StFrame p o => match g !! p with Some pr => out_all msg_ok (frame pr o) | None => True end
  | _ => True
  end ->
  all_peers I2 (gstep g s).
Proof.
  intros Hg Hc Hl. destruct s as [p op|p o|dst src i j]; simpl in *.
  - destruct (g !! p) as [pr|] eqn:E; [|exact Hg].
    apply all_peers_insert; [exact Hg|]. eapply I2_app_step; [eapply Hg; exact E|exact Hc].
  - destruct (g !! p) as [pr|] eqn:E; [|exact Hg].
    apply (deliver_out_inv I2 msg_ok).
    + intros pd m. apply I2_inbox_push.
    + exact Hl.
    + apply all_peers_insert; [exact Hg|]. apply I2_frame. eapply Hg. exact E.
  - destruct (g !! dst) as [pd|] eqn:E; [|exact Hg].
    destruct (n_inbox pd !! src) as [l|] eqn:El; [|exact Hg].
    apply all_peers_insert; [exact Hg|].
    destruct (Hg dst pd E) as [H Hn]. split; [|exact Hn].
    apply GI_inbox; [exact H|]. apply inbox_all_reorder; [exact El|apply H].
Qed.

Lemma grun_I2 tr : forall g used marked,
  all_peers I2 g -> conforming_from g used marked tr = true -> links_ok_from g tr ->
  all_peers I2 (grun g tr).
Proof.
  induction tr as [|s tr IH]; intros g used marked Hg Hc Hl; simpl; [exact Hg|].
  simpl in Hc. apply andb_true_iff in Hc as [Hc1 Hc2]. destruct Hl as [Hl1 Hl2].
  apply (IH (gstep g s) (used_after used s) (marked_after marked s)); [|exact Hc2|exact Hl2].
  eapply gstep_I2; eassumption.
Qed.

Lemma init_I2 n : all_peers I2 (init_global n).
Proof. intros p pr H. apply init_global_lookup in H as ->. apply I2_init. Qed.

(* Theorem A. All traces of a conforming application, all frames / orders / oracles / reorderings /
   set-ups: as long as no peer emits MParented u u, no peer ever panics (and parents_ok is an
   invariant of every peer). *)
Theorem C08_no_panic_modulo_self_links n tr :
  conforming n tr -> no_self_link_sent n tr ->
  forall p pr, grun (init_global n) tr !! p = Some pr -> p_panic pr = None /\ parents_ok pr.
Proof.
  intros Hc Hl p pr H.
  destruct (grun_I2 tr (init_global n) [] [] (init_I2 n) Hc Hl p pr H) as [H1 H2]. auto.
Qed.

(* ---------- theorem B: without hierarchy operations, nobody ever panics ------------------------------ *)

Definition no_hierarchy (tr : list step) : Prop :=
  Forall (fun s => match s with StApp _ (OSetParent _ _) => False | _ => True end) tr.

(* invariant of every peer: no queued hierarchy / insert command, no parent link in flight, in the
   outbox or on any entity *)
Definition I3 (pr : peer_state) : Prop :=
  GI false no_hier_cmd not_parented pr /\ ents_all no_parent pr /\ out_all not_parented pr /\
  p_panic pr = None.

Lemma benign_no_hier c : benign c -> no_hier_cmd c.
Proof. destruct c; simpl; auto. destruct m; simpl; auto. Qed.

Lemma no_hier_cmd_no_panic pr c : no_hier_cmd c -> cmd_panics pr c = None.
Proof. destruct c; simpl; intros H; try reflexivity; contradiction. Qed.

Lemma I3_respects : respects_core I3.
Proof.
  intros pr pr' H Ho (H1 & H2 & H3 & H4). split; [eapply GI_core; eassumption|].
  split; [eapply ents_all_ext; [apply (core_ents _ _ H)|exact H2]|].
  split; [eapply out_all_ext; [exact Ho|exact H3]|]. rewrite (core_panic _ _ H). exact H4.
Qed.

Lemma no_parent_put_comp e en now t v : no_parent e en -> no_parent e (put_comp now t v en).
Proof. unfold no_parent, put_comp. destruct (en_comps en !! t); auto. Qed.

Lemma I3_apply_cmd pr c : I3 pr -> no_hier_cmd c -> p_panic pr = None -> I3 (apply_cmd pr c).
Proof.
  intros (H1 & H2 & H3 & _) Hc Hn.
  split; [apply GI_apply_cmd; exact H1|].
  split; [|split; [apply apply_cmd_out_np; assumption|]].
  - apply apply_cmd_ents_all; [| | | |exact H2].
    + intros e u t. reflexivity.
    + intros e en now t v. apply no_parent_put_comp.
    + intros e en u t Hen. exact Hen.
    + intros Hs. destruct c; simpl in Hs, Hc; contradiction.
  - rewrite (apply_cmd_panic pr c Hn). apply no_hier_cmd_no_panic. exact Hc.
Qed.

Lemma I3_flush pr : I3 pr -> I3 (flush pr).
Proof.
  apply (flush_inv I3 no_hier_cmd).
  - intros a [Ha _]. apply Ha.
  - intros a k (Ha & H2 & H3 & H4). split; [apply GI_delete; exact Ha|]. auto.
  - apply I3_apply_cmd.
Qed.

Lemma I3_sys_body pr s o k last : I3 pr -> I3 (sys_body pr s o k last).
Proof.
  intros (H1 & H2 & H3 & H4).
  destruct (pe_inv _ _ (sys_body_pe pr s o k last)) as [Hp He].
  split; [|split; [eapply ents_all_ext; [exact He|exact H2]|split; [|rewrite Hp; exact H4]]].
  - apply sys_body_GI; [exact benign_no_hier| | |exact H1].
    + intros from cu pu Hm. contradiction.
    + intros a cu pu ce pe' _ Hm. contradiction.
  - apply sys_body_out_np; assumption.
Qed.

Lemma I3_frame pr o : I3 pr -> I3 (frame pr o).
Proof.
  apply frame_inv.
  - exact I3_respects.
  - intros a (H1 & H2 & H3 & H4). split; [eapply GI_core; [|exact H1]; reflexivity|].
    split; [exact H2|split; [|exact H4]]. intros d m Hin. simpl in Hin. inversion Hin.
  - intros a h (H1 & H2 & H3 & H4).
    split; [eapply GI_core; [apply send_up_core|exact H1]|].
    split; [eapply ents_all_ext; [apply (core_ents _ _ (send_up_core _ _))|exact H2]|].
    split; [apply send_up_out_all; [exact H3|exact I]|].
    rewrite (core_panic _ _ (send_up_core _ _)). exact H4.
  - intros a Ha _. apply I3_flush. exact Ha.
  - intros a s' o' k last. apply I3_sys_body.
Qed.

Lemma app_cmd_ok_no_hier c : app_cmd_ok c = true -> no_hier_cmd c.
Proof. destruct c; simpl; intros H; try discriminate; exact I. Qed.

Lemma foldl_put_comp_no_parent e now comps en :
  no_parent e en -> no_parent e (foldl (fun en '(t, v) => put_comp now t v en) en comps).
Proof.
  intros H. apply (foldl_inv (no_parent e)); [exact H|].
  intros a [t v] _ Ha. apply no_parent_put_comp. exact Ha.
Qed.

(* GI without the uuid conditions does not look at entities *)
Lemma GI_false_rest (P : cmd -> Prop) (M : msg -> Prop) pr pr' :
  rest pr' = rest pr -> GI false P M pr -> GI false P M pr'.
Proof. intros H. apply GI_rest; [exact H|discriminate]. Qed.

Lemma I3_app_step pr used marked op :
  I3 pr -> op_conforming pr used marked op = true ->
  match op with OSetParent _ _ => False | _ => True end -> I3 (app_step pr op).
Proof.
  intros (H1 & H2 & H3 & Hn) Hop Hnh.
  destruct op; simpl in Hop, Hnh |- *; try contradiction.
  - split; [apply (GI_false_rest _ _ pr); [reflexivity|exact H1]|].
    split; [|split; [exact H3|exact Hn]].
    apply ents_all_insert; [|exact H2]. apply foldl_put_comp_no_parent. reflexivity.
  - split; [apply (GI_false_rest _ _ pr); [reflexivity|exact H1]|].
    split; [apply ents_all_delete; exact H2|split; [exact H3|exact Hn]].
  - split; [apply (GI_false_rest _ _ pr); [apply upd_ent_rest|exact H1]|].
    split; [apply upd_ent_ents_all; [intros en Hen; exact Hen|exact H2]|].
    split; [eapply out_all_ext; [apply upd_ent_out|exact H3]|rewrite upd_ent_panic; exact Hn].
  - split; [apply (GI_false_rest _ _ pr); [apply upd_ent_rest|exact H1]|].
    split; [apply upd_ent_ents_all; [intros en; apply no_parent_put_comp|exact H2]|].
    split; [eapply out_all_ext; [apply upd_ent_out|exact H3]|rewrite upd_ent_panic; exact Hn].
  - split; [apply (GI_false_rest _ _ pr); [apply upd_ent_rest|exact H1]|].
    split; [apply upd_ent_ents_all; [intros en Hen; exact Hen|exact H2]|].
    split; [eapply out_all_ext; [apply upd_ent_out|exact H3]|rewrite upd_ent_panic; exact Hn].
  - apply (I3_respects pr); [apply insert_asset_core|reflexivity|]. repeat split; assumption || apply H1.
  - apply (I3_respects pr); [reflexivity|reflexivity|]. repeat split; assumption || apply H1.
  - split; [|split; [exact H2|split; [exact H3|exact Hn]]].
    destruct H1 as (G1 & G2 & G3 & G4).
    split; [exact G1|split; [|split; [exact G3|exact G4]]].
    apply app_all_snoc; [apply app_cmd_ok_no_hier; exact Hop|exact G2].
  - apply (I3_respects pr); [destruct host; reflexivity|destruct host; reflexivity|].
    repeat split; assumption || apply H1.
  - apply (I3_respects pr); [reflexivity|reflexivity|]. repeat split; assumption || apply H1.
  - apply (I3_respects pr); [reflexivity|reflexivity|]. repeat split; assumption || apply H1.
  - apply (I3_respects pr); [reflexivity|reflexivity|]. repeat split; assumption || apply H1.
  - apply (I3_respects pr); [reflexivity|reflexivity|]. repeat split; assumption || apply H1.
  - apply (I3_respects pr); [reflexivity|reflexivity|]. repeat split; assumption || apply H1.
Qed.

Lemma I3_inbox_push pd src m : I3 pd -> not_parented m -> I3 (inbox_push pd src m).
Proof.
  intros (H1 & H2 & H3 & H4) Hm.
  split; [|split; [exact H2|split; [exact H3|exact H4]]].
  apply GI_inbox; [exact H1|]. apply inbox_all_push; [apply H1|exact Hm].
Qed.

Lemma I3_init p : I3 (init_peer p [] [] []).
Proof.
  split; [|split; [|split; [|reflexivity]]].
  - split; [intros k cs c Hl; simpl in Hl; rewrite lookup_empty in Hl; discriminate|].
    split; [intros x Hx; inversion Hx|].
    split; [intros s l m Hl; simpl in Hl; rewrite lookup_empty in Hl; discriminate|exact I].
  - intros e en Hl. simpl in Hl. rewrite lookup_empty in Hl. discriminate.
  - intros d m Hin. inversion Hin.
Qed.

Lemma gstep_I3 g used marked s :
  all_peers I3 g -> step_conforming g used marked s = true ->
  match s with StApp _ (OSetParent _ _) => False | _ => True end ->
  all_peers I3 (gstep g s).
Proof.
  intros Hg Hc Hnh. destruct s as [p op|p o|dst src i j]; simpl in *.
  - destruct (g !! p) as [pr|] eqn:E; [|exact Hg].
    apply all_peers_insert; [exact Hg|]. eapply I3_app_step; [eapply Hg; exact E|exact Hc|exact Hnh].
  - destruct (g !! p) as [pr|] eqn:E; [|exact Hg].
    pose proof (I3_frame pr o (Hg p pr E)) as Hf.
    apply (deliver_out_inv I3 not_parented).
    + intros pd m. apply I3_inbox_push.
    + apply Hf.
    + apply all_peers_insert; [exact Hg|exact Hf].
  - destruct (g !! dst) as [pd|] eqn:E; [|exact Hg].
    destruct (n_inbox pd !! src) as [l|] eqn:El; [|exact Hg].
    apply all_peers_insert; [exact Hg|].
    destruct (Hg dst pd E) as (H1 & H2 & H3 & H4).
    split; [|split; [exact H2|split; [exact H3|exact H4]]].
    apply GI_inbox; [exact H1|]. apply inbox_all_reorder; [exact El|apply H1].
Qed.

Lemma grun_I3 tr : forall g used marked,
  all_peers I3 g -> conforming_from g used marked tr = true -> no_hierarchy tr ->
  all_peers I3 (grun g tr).
Proof.
  induction tr as [|s tr IH]; intros g used marked Hg Hc Hnh; simpl; [exact Hg|].
  simpl in Hc. apply andb_true_iff in Hc as [Hc1 Hc2].
  inversion Hnh as [|? ? Hs Htr]; subst.
  apply (IH (gstep g s) (used_after used s) (marked_after marked s)); [|exact Hc2|exact Htr].
  eapply gstep_I3; eassumption.
Qed.

(* no OSetParent in the trace: no MParented is ever sent, queued or in flight, no entity ever has a
   Parent, on any peer, at any point of any run *)
Lemma no_hierarchy_no_parented n tr :
  conforming n tr -> no_hierarchy tr ->
  forall p pr, grun (init_global n) tr !! p = Some pr ->
    (forall d m, (d, m) ∈ p_out pr -> not_parented m) /\
    (forall s l m, n_inbox pr !! s = Some l -> m ∈ l -> not_parented m) /\
    (forall e en, p_ents pr !! e = Some en -> en_parent en = None).
Proof.
  intros Hc Hnh p pr H.
  assert (Hi : all_peers I3 (init_global n)).
  { intros q pq Hq. apply init_global_lookup in Hq as ->. apply I3_init. }
  destruct (grun_I3 tr (init_global n) [] [] Hi Hc Hnh p pr H) as ((_ & _ & H3 & _) & H2 & H4 & _).
  split; [exact H4|split; [exact H3|exact H2]].
Qed.

(* Theorem B. C08 for all traces without hierarchy operations: every number of peers, every
   conforming application, all frames, orders, oracles, interleavings, reorderings, registrations,
   set-ups, joins, promotions. *)
Theorem C08_no_panic_no_hierarchy n tr :
  conforming n tr -> no_hierarchy tr ->
  forall p pr, grun (init_global n) tr !! p = Some pr -> p_panic pr = None.
Proof.
  intros Hc Hnh p pr H.
  assert (Hi : all_peers I3 (init_global n)).
  { intros q pq Hq. apply init_global_lookup in Hq as ->. apply I3_init. }
  apply (grun_I3 tr (init_global n) [] [] Hi Hc Hnh p pr H).
Qed.

(* ---------- theorem C: hierarchies between entities of different uuids --------------------------------- *)

(* the uuid an entity id stands for, as the application can see it: a script entity is (or will be)
   announced under its own id, a replica carries the uuid in its SyncEntity *)
Definition ent_uuid (pr : peer_state) (e : ent) : option uuid :=
  if e <? 4294967296 then Some e
  else match p_ents pr !! e with Some en => en_sync en | None => None end.

(* as op_conforming, and the two ends of a new link do not carry the same uuid (always true when
   both are entities the application spawned itself, and whenever the peer holds no duplicate) *)
Definition op_conforming_links (pr : peer_state) (used marked : list ent) (op : app_op) : bool :=
  op_conforming pr used marked op &&
  match op with
  | OSetParent c p =>
      match ent_uuid pr c, ent_uuid pr p with
      | Some a, Some b => negb (a =? b)
      | _, _ => false
      end
  | _ => true
  end.
Definition step_conforming_links (g : global) (used marked : list ent) (s : step) : bool :=
  match s with
  | StApp p op => match g !! p with Some pr => op_conforming_links pr used marked op | None => true end
  | _ => true
  end.
Fixpoint conforming_links_from (g : global) (used marked : list ent) (tr : list step) : bool :=
  match tr with
  | [] => true
  | s :: tr' => step_conforming_links g used marked s &&
                conforming_links_from (gstep g s) (used_after used s) (marked_after marked s) tr'
  end.
Definition conforming_links (n : nat) (tr : list step) : Prop :=
  conforming_links_from (init_global n) [] [] tr = true.

Lemma conforming_links_conforming_from tr : forall g used marked,
  conforming_links_from g used marked tr = true -> conforming_from g used marked tr = true.
Proof.
  induction tr as [|s tr IH]; intros g used marked H; simpl in *; [reflexivity|].
  apply andb_true_iff in H as [H1 H2]. apply andb_true_iff. split; [|apply IH; exact H2].
  destruct s as [p op|p o|dst src i j]; simpl in *; try reflexivity.
  destruct (g !! p) as [pr|]; [|reflexivity]. unfold op_conforming_links in H1.
  apply andb_true_iff in H1 as [H1 _]. exact H1.
Qed.
Lemma conforming_links_conforming n tr : conforming_links n tr -> conforming n tr.
Proof. apply conforming_links_conforming_from. Qed.

(* the invariant; cs is the list of commands a flush is in the middle of applying *)
Definition J5 (pr : peer_state) (cs : list cmd) : Prop :=
  GI true link_cmd_ok msg_ok pr /\ app_all app_only pr /\ Forall link_cmd_ok cs /\
  link_inv pr cs /\ out_all msg_ok pr /\ p_panic pr = None.
Definition I5 (pr : peer_state) : Prop := J5 pr [].

Lemma link_cmd_ok_cmd_ok c : link_cmd_ok c -> cmd_ok c.
Proof. destruct c; simpl; auto. Qed.
Lemma benign_link_cmd_ok c : benign c -> link_cmd_ok c.
Proof. destruct c; simpl; auto. destruct m; simpl; auto. Qed.

Lemma I5_parents_ok pr : I5 pr -> parents_ok pr.
Proof. intros (H & _). eapply GI_weaken; [exact link_cmd_ok_cmd_ok|exact H]. Qed.

Lemma I5_respects : respects_core I5.
Proof.
  intros pr pr' H Ho (H1 & H2 & H3 & H4 & H5 & H6).
  split; [eapply GI_core; eassumption|].
  split; [eapply app_all_ext; [apply (core_app _ _ H)|exact H2]|].
  split; [exact H3|]. split; [eapply link_inv_core; eassumption|].
  split; [eapply out_all_ext; [exact Ho|exact H5]|]. rewrite (core_panic _ _ H). exact H6.
Qed.

Lemma J5_take pr k cs :
  J5 pr [] -> p_cmdq pr !! k = Some cs -> J5 (pr <| p_cmdq := delete k (p_cmdq pr) |>) cs.
Proof.
  intros (H1 & H2 & _ & H4 & H5 & H6) Hk.
  split; [apply GI_delete; exact H1|]. split; [exact H2|].
  split; [apply Forall_forall; intros c Hc; destruct H1 as (Hq & _); eapply Hq; eassumption|].
  split; [apply link_inv_take; assumption|]. split; [exact H5|exact H6].
Qed.

Lemma J5_apply_cmd pr c cs : J5 pr (c :: cs) -> J5 (apply_cmd pr c) cs.
Proof.
  intros (H1 & H2 & H3 & H4 & H5 & H6). inversion H3 as [|? ? Hc Hcs]; subst.
  split; [apply GI_apply_cmd; exact H1|].
  split; [eapply app_all_ext; [apply (proj1 (rest_inv _ _ (apply_cmd_rest pr c)))|exact H2]|].
  split; [exact Hcs|]. split; [apply apply_cmd_link; assumption|].
  split; [eapply apply_cmd_out_links; eassumption|].
  rewrite (apply_cmd_panic pr c H6). apply cmd_ok_no_panic; [apply H1|apply link_cmd_ok_cmd_ok; exact Hc].
Qed.

Lemma I5_flush pr : I5 pr -> I5 (flush pr).
Proof.
  apply (flush_inv2 J5).
  - apply J5_take.
  - apply J5_apply_cmd.
  - intros a cs (_ & _ & _ & _ & _ & H). exact H.
Qed.

Lemma I5_sys_body pr s o k last : I5 pr -> I5 (sys_body pr s o k last).
Proof.
  intros (H1 & H2 & H3 & H4 & H5 & H6).
  destruct (pe_inv _ _ (sys_body_pe pr s o k last)) as [Hp He].
  split; [|split; [|split; [exact H3|split; [|split; [|rewrite Hp; exact H6]]]]].
  - apply sys_body_GI; [exact benign_link_cmd_ok| | |exact H1].
    + intros from cu pu Hm. exact Hm.
    + intros a cu pu ce pe' Hu Hm Hc' Hp' Heq. subst pe'. apply Hm. eapply u2e_ok_inj; eassumption.
  - intros x Hx. apply H2. eapply sys_body_app_sub. exact Hx.
  - apply sys_body_link; [apply H1|apply H1|exact H2|exact H4].
  - apply sys_body_out_links; assumption.
Qed.

Lemma I5_frame pr o : I5 pr -> I5 (frame pr o).
Proof.
  apply frame_inv.
  - exact I5_respects.
  - intros a (H1 & H2 & H3 & H4 & H5 & H6).
    split; [eapply GI_core; [|exact H1]; reflexivity|]. split; [exact H2|]. split; [exact H3|].
    split; [eapply link_inv_core; [|exact H4]; reflexivity|].
    split; [|exact H6]. intros d m Hin. simpl in Hin. inversion Hin.
  - intros a h (H1 & H2 & H3 & H4 & H5 & H6).
    split; [eapply GI_core; [apply send_up_core|exact H1]|].
    split; [eapply app_all_ext; [apply (core_app _ _ (send_up_core _ _))|exact H2]|].
    split; [exact H3|]. split; [eapply link_inv_core; [apply send_up_core|exact H4]|].
    split; [apply send_up_out_all; [exact H5|exact I]|].
    rewrite (core_panic _ _ (send_up_core _ _)). exact H6.
  - intros a Ha _. apply I5_flush. exact Ha.
  - intros a s' o' k last. apply I5_sys_body.
Qed.

Lemma link_inv_spawn pr e en :
  e < SCRIPT_LIMIT -> en_sync en = None -> en_parent en = None ->
  link_inv pr [] -> link_inv (pr <| p_ents := <[e := en]> (p_ents pr) |>) [].
Proof.
  intros Hlt Hs Hp HI.
  apply (link_inv_step pr []); try assumption.
  - simpl. lia.
  - intros x v _ [H|[(en' & Hl & Hs')|H]].
    + left. left. exact H.
    + simpl in Hl. destruct (decide (x = e)) as [->|Hne].
      * rewrite lookup_insert in Hl. injection Hl as <-. congruence.
      * rewrite lookup_insert_ne in Hl by congruence. left. right. left. exists en'. split; assumption.
    + left. right. right. exact H.
  - intros x Hno Ho. exfalso. apply Hno. exact Ho.
  - intros v x H. left. exact H.
  - intros x en' q t Hl Hp'. simpl in Hl. destruct (decide (x = e)) as [->|Hne].
    + rewrite lookup_insert in Hl. injection Hl as <-. congruence.
    + rewrite lookup_insert_ne in Hl by congruence. left. exists en', t. split; assumption.
  - intros x en' Hl. simpl in Hl. destruct (decide (x = e)) as [->|Hne].
    + right. unfold old. simpl. pose proof (li_next _ _ HI). lia.
    + rewrite lookup_insert_ne in Hl by congruence. left. exists en'. exact Hl.
  - intros x v H. left. exists v. exact H.
  - intros x v H. left. exact H.
  - intros x v H. left. exact H.
  - intros x y xu yu H. left. exact H.
Qed.

Lemma spawned_entity_blank now marked comps :
  let en := foldl (fun en '(t, v) => put_comp now t v en)
                  (new_entity <| en_mark := if (marked : bool) then Some now else None |>) comps in
  en_sync en = None /\ en_parent en = None.
Proof.
  cbv zeta. apply (foldl_inv (fun en => en_sync en = None /\ en_parent en = None)); [split; reflexivity|].
  intros a [t v] _ [H1 H2]. destruct (put_comp_sync_parent now t v a) as [-> ->]. split; assumption.
Qed.

(* what the application sees as the uuid of a live entity is what the entity id stands for *)
Lemma ent_uuid_ident pr e a :
  link_inv pr [] -> alive pr e = true -> ent_uuid pr e = Some a -> old pr e /\ ident pr [] e a.
Proof.
  intros HI Hal Hu. unfold alive in Hal. destruct (p_ents pr !! e) as [en|] eqn:E; [|discriminate].
  pose proof (li_live _ _ HI e en E) as Ho. split; [exact Ho|].
  destruct (li_fc _ _ HI e Ho) as [u0 Hu0]. unfold ent_uuid in Hu. rewrite E in Hu.
  destruct (e <? 4294967296) eqn:Elt.
  - injection Hu as <-. apply N.ltb_lt in Elt.
    assert (u0 = e) by (apply Hu0; exact Elt). subst u0. exact Hu0.
  - assert (a = u0) by (apply Hu0; right; left; exists en; split; [exact E|exact Hu]).
    subst a. exact Hu0.
Qed.

Lemma app_cmd_ok_link c : app_cmd_ok c = true -> link_cmd_ok c /\ app_only c.
Proof. destruct c; simpl; intros H; try discriminate; split; exact I. Qed.

(* fields of `rest` unchanged, entities shrunk: the invariant of theorem C is kept *)
Lemma I5_ents pr pr' :
  rest pr' = rest pr -> p_out pr' = p_out pr -> p_panic pr' = None ->
  ents_all mark_ok pr' -> link_inv pr' [] -> I5 pr -> I5 pr'.
Proof.
  intros Hr Ho Hp Hm Hl (H1 & H2 & H3 & _ & H5 & _).
  split; [apply (GI_rest _ _ _ pr); [exact Hr|intros _; exact Hm|exact H1]|].
  split; [eapply app_all_ext; [apply (proj1 (rest_inv _ _ Hr))|exact H2]|].
  split; [exact H3|]. split; [exact Hl|]. split; [eapply out_all_ext; [exact Ho|exact H5]|exact Hp].
Qed.

Lemma link_inv_rest_shrink pr pr' :
  rest pr' = rest pr -> ents_shrink (p_ents pr) (p_ents pr') -> link_inv pr [] -> link_inv pr' [].
Proof.
  intros Hr He HI. pose proof (rest_e2u _ _ Hr) as He2u.
  apply rest_inv in Hr as (_ & Hu & _ & Hn & Hq).
  apply (link_inv_shrink pr []); try assumption.
  - rewrite He2u. auto.
  - rewrite Hu. auto.
  - intros c _. unfold queued. rewrite Hq. auto.
Qed.

Lemma I5_app_step pr used marked op :
  I5 pr -> op_conforming_links pr used marked op = true -> I5 (app_step pr op).
Proof.
  intros HI Hop. unfold op_conforming_links in Hop. apply andb_true_iff in Hop as [Hop Hlk].
  pose proof HI as (H1 & H2 & H3 & H4 & H5 & H6).
  pose proof (parents_ok_marks pr (I5_parents_ok pr HI)) as Hm.
  destruct op; simpl in Hop, Hlk |- *.
  - apply andb_true_iff in Hop as [He _]. apply N.ltb_lt in He.
    destruct (spawned_entity_blank (p_tick pr) marked0 comps) as [Hs Hp].
    apply (I5_ents pr); [reflexivity|reflexivity|exact H6| |apply link_inv_spawn; assumption|exact HI].
    apply ents_all_insert; [|exact Hm]. intros _. exact He.
  - apply (I5_ents pr); [reflexivity|reflexivity|exact H6| | |exact HI].
    + apply ents_all_delete. exact Hm.
    + apply (link_inv_rest_shrink pr); [reflexivity|apply ents_shrink_delete|exact H4].
  - apply andb_true_iff in Hop as [Hop _]. apply N.ltb_lt in Hop.
    apply (I5_ents pr); [apply upd_ent_rest|apply upd_ent_out|rewrite upd_ent_panic; exact H6| | |exact HI].
    + apply upd_ent_ents_all; [|exact Hm]. intros en _ _. exact Hop.
    + apply (link_inv_rest_shrink pr); [apply upd_ent_rest| |exact H4].
      apply ents_shrink_upd. intros en. split; reflexivity.
  - apply (I5_ents pr); [apply upd_ent_rest|apply upd_ent_out|rewrite upd_ent_panic; exact H6| | |exact HI].
    + apply upd_ent_ents_all; [|exact Hm]. intros en Hen. unfold mark_ok, put_comp in *.
      destruct (en_comps en !! t); exact Hen.
    + apply (link_inv_rest_shrink pr); [apply upd_ent_rest| |exact H4].
      apply ents_shrink_upd. intros en. apply put_comp_sync_parent.
  - apply (I5_ents pr); [apply upd_ent_rest|apply upd_ent_out|rewrite upd_ent_panic; exact H6| | |exact HI].
    + apply upd_ent_ents_all; [|exact Hm]. intros en Hen. exact Hen.
    + apply (link_inv_rest_shrink pr); [apply upd_ent_rest| |exact H4].
      apply ents_shrink_upd. intros en. split; reflexivity.
  - apply andb_true_iff in Hop as [Hop Hcp]. apply andb_true_iff in Hop as [Hc Hp].
    rewrite Hc.
    destruct (ent_uuid pr c) as [a|] eqn:Ea; [|discriminate].
    destruct (ent_uuid pr p) as [b|] eqn:Eb; [|discriminate].
    apply negb_true_iff, N.eqb_neq in Hlk.
    destruct (ent_uuid_ident pr c a H4 Hc Ea) as [Hoc Hic].
    destruct (ent_uuid_ident pr p b H4 Hp Eb) as [Hop' Hip].
    pose proof (add_child_rest pr p c) as Hr.
    apply (I5_ents pr); [exact Hr|apply add_child_out| | | |exact HI].
    + rewrite (add_child_panic pr p c H6). unfold add_child_outcome. rewrite Hp. simpl.
      rewrite N.eqb_sym. apply negb_true_iff in Hcp. rewrite Hcp. reflexivity.
    + apply add_child_ents_all; [exact mark_ok_blind|exact Hm].
    + pose proof (rest_e2u _ _ Hr) as He2u. apply rest_inv in Hr as (_ & Hu & _ & Hn & Hq).
      apply (link_inv_parent_step pr [] _ [] c p); try assumption.
      * apply add_child_parent_step.
      * intros x _. unfold queued. rewrite Hq. auto.
      * exists a, b. split; [exact Hlk|split; assumption].
  - apply (I5_respects pr); [apply insert_asset_core|reflexivity|exact HI].
  - apply (I5_respects pr); [reflexivity|reflexivity|exact HI].
  - destruct (app_cmd_ok_link c Hop) as [Hc1 Hc2].
    split; [|split; [apply app_all_snoc; assumption|split; [exact H3|split; [|split; [exact H5|exact H6]]]]].
    + destruct H1 as (G1 & G2 & G3 & G4).
      split; [exact G1|split; [|split; [exact G3|exact G4]]]. apply app_all_snoc; assumption.
    + apply (link_inv_shrink pr []); try exact H4; try reflexivity; auto. apply ents_shrink_refl.
  - apply (I5_respects pr); [destruct host; reflexivity|destruct host; reflexivity|exact HI].
  - apply (I5_respects pr); [reflexivity|reflexivity|exact HI].
  - apply (I5_respects pr); [reflexivity|reflexivity|exact HI].
  - apply (I5_respects pr); [reflexivity|reflexivity|exact HI].
  - apply (I5_respects pr); [reflexivity|reflexivity|exact HI].
  - apply (I5_respects pr); [reflexivity|reflexivity|exact HI].
Qed.

Lemma I5_inbox pd (ib : gmap peer (list msg)) :
  I5 pd -> inbox_all msg_ok (pd <| n_inbox := ib |>) -> I5 (pd <| n_inbox := ib |>).
Proof.
  intros (H1 & H2 & H3 & H4 & H5 & H6) Hib.
  split; [apply GI_inbox; assumption|]. split; [exact H2|]. split; [exact H3|].
  split; [|split; [exact H5|exact H6]].
  apply (link_inv_shrink pd []); try exact H4; try reflexivity; auto. apply ents_shrink_refl.
Qed.

Lemma I5_inbox_push pd src m : I5 pd -> msg_ok m -> I5 (inbox_push pd src m).
Proof.
  intros HI Hm. apply I5_inbox; [exact HI|]. apply inbox_all_push; [apply HI|exact Hm].
Qed.

Lemma link_inv_init p : link_inv (init_peer p [] [] []) [].
Proof.
  assert (Hq : forall c, ~ queued (init_peer p [] [] []) [] c).
  { intros c [H|(k & cs & Hl & _)]; [inversion H|]. simpl in Hl. rewrite lookup_empty in Hl. discriminate. }
  assert (Hf : forall e u, ~ fact (init_peer p [] [] []) [] e u).
  { intros e u [H|[(en & Hl & _)|H]].
    - simpl in H. rewrite lookup_empty in H. discriminate.
    - simpl in Hl. rewrite lookup_empty in Hl. discriminate.
    - exact (Hq _ H). }
  constructor.
  - intros e _. exists e. split; [reflexivity|]. intros u' H. exfalso. exact (Hf _ _ H).
  - intros u e H. simpl in H. rewrite lookup_empty in H. discriminate.
  - intros e en q t H. simpl in H. rewrite lookup_empty in H. discriminate.
  - intros e en H. simpl in H. rewrite lookup_empty in H. discriminate.
  - intros e u H. simpl in H. rewrite lookup_empty in H. discriminate.
  - intros e u H. exfalso. exact (Hq _ H).
  - intros e u H. exfalso. exact (Hq _ H).
  - intros c q cu qu H. exfalso. exact (Hq _ H).
  - simpl. unfold SCRIPT_LIMIT. lia.
Qed.

Lemma I5_init p : I5 (init_peer p [] [] []).
Proof.
  destruct (I2_init p) as [Hp Hn].
  split; [|split; [|split; [constructor|split; [apply link_inv_init|split; [|exact Hn]]]]].
  - destruct Hp as (_ & _ & G3 & G4).
    split; [intros k cs c Hl; simpl in Hl; rewrite lookup_empty in Hl; discriminate|].
    split; [intros x Hx; inversion Hx|]. split; [exact G3|exact G4].
  - intros x Hx. inversion Hx.
  - intros d m Hin. inversion Hin.
Qed.

Lemma gstep_I5 g used marked s :
  all_peers I5 g -> step_conforming_links g used marked s = true -> all_peers I5 (gstep g s).
Proof.
  intros Hg Hc. destruct s as [p op|p o|dst src i j]; simpl in *.
  - destruct (g !! p) as [pr|] eqn:E; [|exact Hg].
    apply all_peers_insert; [exact Hg|]. eapply I5_app_step; [eapply Hg; exact E|exact Hc].
  - destruct (g !! p) as [pr|] eqn:E; [|exact Hg].
    pose proof (I5_frame pr o (Hg p pr E)) as Hf.
    apply (deliver_out_inv I5 msg_ok).
    + intros pd m. apply I5_inbox_push.
    + apply Hf.
    + apply all_peers_insert; [exact Hg|exact Hf].
  - destruct (g !! dst) as [pd|] eqn:E; [|exact Hg].
    destruct (n_inbox pd !! src) as [l|] eqn:El; [|exact Hg].
    apply all_peers_insert; [exact Hg|].
    apply I5_inbox; [eapply Hg; exact E|]. apply inbox_all_reorder; [exact El|]. apply (Hg dst pd E).
Qed.

Lemma grun_I5 tr : forall g used marked,
  all_peers I5 g -> conforming_links_from g used marked tr = true -> all_peers I5 (grun g tr).
Proof.
  induction tr as [|s tr IH]; intros g used marked Hg Hc; simpl; [exact Hg|].
  simpl in Hc. apply andb_true_iff in Hc as [Hc1 Hc2].
  apply (IH (gstep g s) (used_after used s) (marked_after marked s)); [|exact Hc2].
  eapply gstep_I5; eassumption.
Qed.

(* Theorem C.  Every number of peers; every trace of an application that issues no insert command,
   marks each of its own entities at most once, and links only live entities carrying different
   uuids; all frames, executable orders, oracles (truthful or not), interleavings, reorderings,
   registrations, set-ups, joins, role changes, promotions: no peer ever panics, no peer ever emits
   a link of an entity to itself, and parents_ok is an invariant of every peer. *)
Theorem C08_no_panic_distinct_uuid_links n tr :
  conforming_links n tr ->
  forall p pr, grun (init_global n) tr !! p = Some pr ->
    p_panic pr = None /\ parents_ok pr /\ (forall d u, (d, MParented u u) ∉ p_out pr).
Proof.
  intros Hc p pr H.
  assert (Hi : all_peers I5 (init_global n)).
  { intros q pq Hq. apply init_global_lookup in Hq as ->. apply I5_init. }
  pose proof (grun_I5 tr (init_global n) [] [] Hi Hc p pr H) as HI.
  split; [apply HI|]. split; [apply I5_parents_ok; exact HI|].
  intros d u Hin. destruct HI as (_ & _ & _ & _ & Ho & _). apply (Ho d _ Hin). reflexivity.
Qed.

(* in particular: a peer that only ever links entities it spawned itself *)
Definition own_links_only (tr : list step) : Prop :=
  Forall (fun s => match s with
                   | StApp _ (OSetParent c p) => c < 4294967296 /\ p < 4294967296
                   | _ => True
                   end) tr.

Lemma own_links_conforming_from tr : forall g used marked,
  own_links_only tr -> conforming_from g used marked tr = true ->
  conforming_links_from g used marked tr = true.
Proof.
  induction tr as [|s tr IH]; intros g used marked Ho H; simpl in *; [reflexivity|].
  inversion Ho as [|? ? Hs Htr]; subst.
  apply andb_true_iff in H as [H1 H2]. apply andb_true_iff. split; [|apply IH; assumption].
  destruct s as [p op|p o|dst src i j]; simpl in *; try reflexivity.
  destruct (g !! p) as [pr|]; [|reflexivity]. unfold op_conforming_links. rewrite H1. simpl.
  destruct op; try reflexivity. destruct Hs as [Hc Hp].
  unfold ent_uuid. apply N.ltb_lt in Hc, Hp. rewrite Hc, Hp.
  simpl in H1. apply andb_true_iff in H1 as [_ H1]. exact H1.
Qed.

Corollary C08_no_panic_own_hierarchy n tr :
  conforming n tr -> own_links_only tr ->
  forall p pr, grun (init_global n) tr !! p = Some pr -> p_panic pr = None.
Proof.
  intros Hc Ho p pr H.
  apply (C08_no_panic_distinct_uuid_links n tr (own_links_conforming_from tr _ _ _ Ho Hc) p pr H).
Qed.

(* ---------- boolean check of no_self_link_sent (for examples) ---------------------------------------- *)

Definition msg_okb (m : msg) : bool := match m with MParented c p => negb (c =? p) | _ => true end.
Definition out_okb (pr : peer_state) : bool := forallb (fun x : peer * msg => msg_okb x.2) (p_out pr).
Fixpoint links_okb_from (g : global) (tr : list step) : bool :=
  match tr with
  | [] => true
  | s :: tr' =>
      match s with
      | StFrame p o => match g !! p with Some pr => out_okb (frame pr o) | None => true end
      | _ => true
      end && links_okb_from (gstep g s) tr'
  end.

Lemma msg_okb_spec m : msg_okb m = true -> msg_ok m.
Proof.
  destruct m; simpl; try (intros _; exact I). intros H Heq. subst p.
  rewrite N.eqb_refl in H. discriminate.
Qed.
Lemma out_okb_spec pr : out_okb pr = true -> out_all msg_ok pr.
Proof.
  unfold out_okb. intros H d m Hin. rewrite forallb_forall in H.
  apply msg_okb_spec. apply (H (d, m)). apply elem_of_list_In. exact Hin.
Qed.
Lemma links_okb_spec tr : forall g, links_okb_from g tr = true -> links_ok_from g tr.
Proof.
  induction tr as [|s tr IH]; intros g H; simpl; [exact I|].
  simpl in H. apply andb_true_iff in H as [H1 H2]. split; [|apply IH; exact H2].
  destruct s as [p op|p o|dst src i j]; try exact I.
  destruct (g !! p) as [pr|]; [|exact I]. apply out_okb_spec. exact H1.
Qed.

(* ---------- examples: the premises are satisfiable, and necessary ---------------------------------- *)

Definition host_order : list sysid :=
  [SSrvConnected; SSrvRemoved; SSrvCreated; SDetect T_A; SSrvParented; SSrvReact; SApp 7; SSrvPoll; SSync].
Definition cli_order : list sysid :=
  [SCliConnecting; SCliVerify; SCliRemoved; SCliCreated; SDetect T_A; SCliParented; SCliReact; SCliPoll; SSync].
Definition fh (poll : list peer) : frame_oracle := Build_frame_oracle [] [1] None poll 0 [].
Definition fc (n : nat) : frame_oracle := Build_frame_oracle [] [] (Some RConnected) [] n [].
Definition E0 : N := 4294967296.

(* host 0, client 1: two spawns, a parent link, a snapshot; then the client despawns its replica
   of 5 while a component update (of a type only the host registered) and a second parent link
   for it are in flight; an application system of the host despawns 6 through Commands *)
Definition demo : list step :=
  [StApp 0 (OSetup true 0); StApp 1 (OSetup false 0);
   StApp 0 (OSetOrder host_order); StApp 1 (OSetOrder cli_order);
   StApp 0 (OReg T_A); StApp 0 (OSetRegistry [T_A]);
   StFrame 0 (fh []); StFrame 0 (fh []);
   StFrame 1 (fc 0); StFrame 1 (fc 0); StFrame 1 (fc 0);
   StApp 0 (OSpawn 5 true []); StApp 0 (OSpawn 6 true [(T_A, VN 1)]);
   StFrame 0 (fh [1]);
   StApp 0 (OSetParent 5 6);
   StFrame 0 (fh []);
   StFrame 1 (fc 10);
   StApp 1 (ODespawn E0);
   StApp 0 (OWrite 5 T_A (VN 3)); StApp 0 (OSetParent 5 6);
   StApp 0 (OAppCmd 7 (CAppDespawnUuid 6));
   StFrame 0 (fh []);
   StReorder 1 0 1 0;
   StFrame 1 (fc 10);
   StFrame 0 (fh [1; 1; 1]); StFrame 1 (fc 10)].

Example demo_conforming : conforming 2 demo.
Proof. vm_compute. reflexivity. Qed.
Example demo_no_self_link : no_self_link_sent 2 demo.
Proof. apply links_okb_spec. vm_compute. reflexivity. Qed.
(* the client really held the link, and really got messages about the entity it despawned *)
Example demo_link_replicated :
  (fun pr => (fun '(e, en) => (e, en_sync en, fst <$> en_parent en)) <$> entities pr)
    <$> (grun (init_global 2) (take 17 demo) !! 1)
  = Some [(E0 + 1, Some 6, None); (E0, Some 5, Some (E0 + 1))].
Proof. vm_compute. reflexivity. Qed.
Example demo_late_messages :
  (fun pr => inbox_of pr 0) <$> (grun (init_global 2) (take 23 demo) !! 1)
  = Some [MParented 5 6; MComp 5 T_A (VN 3)].
Proof. vm_compute. reflexivity. Qed.
Example demo_no_panic :
  p_panic <$> (grun (init_global 2) demo !! 0) = Some None /\
  p_panic <$> (grun (init_global 2) demo !! 1) = Some None.
Proof. vm_compute. split; reflexivity. Qed.
(* ... as theorem A predicts *)
Example demo_by_theorem p pr : grun (init_global 2) demo !! p = Some pr -> p_panic pr = None.
Proof.
  intros H. apply (C08_no_panic_modulo_self_links 2 demo demo_conforming demo_no_self_link p pr H).
Qed.

(* theorem B is not vacuous either: the same session without the two OSetParent *)
Definition demo_flat : list step :=
  List.filter (fun s => match s with StApp _ (OSetParent _ _) => false | _ => true end) demo.
Example demo_flat_conforming : conforming 2 demo_flat /\ no_hierarchy demo_flat.
Proof. split; [vm_compute; reflexivity|]. vm_compute. repeat constructor. Qed.

(* the self-parent message really panics the model: the inbox clause of parents_ok is necessary.
   A connected client with nothing queued, whose host link carries MSpawn 7; MParented 7 7. *)
Definition self_parent_state : peer_state :=
  init_peer 1 [] [] [SCliPoll; SSync]
    <| n_setup := true |> <| n_cli_transport := Some (0, 1) |> <| s_client := CliConnected |>
    <| n_inbox := {[ 0 := [MSpawn 7; MParented 7 7] ]} |>.

Example self_parent_panics :
  p_panic self_parent_state = None /\ no_app_insert self_parent_state /\
  p_panic (frame self_parent_state (fc 2)) = Some PSetParentSelf.
Proof.
  split; [reflexivity|]. split; [|vm_compute; reflexivity].
  split.
  - intros k cs c Hl. simpl in Hl. rewrite lookup_empty in Hl. discriminate.
  - intros x Hx. simpl in Hx. inversion Hx.
Qed.

(* every other clause of parents_ok holds in that state *)
Example self_parent_state_rest :
  cmdq_all cmd_ok self_parent_state /\ app_all cmd_ok self_parent_state /\ u2e_ok self_parent_state.
Proof.
  split; [intros k cs c Hl; simpl in Hl; rewrite lookup_empty in Hl; discriminate|].
  split; [intros x Hx; simpl in Hx; inversion Hx|].
  unfold u2e_ok, u2e_ok_. simpl.
  split; [intros u1 u2 e Hl; rewrite lookup_empty in Hl; discriminate|].
  split; [intros u e Hl; rewrite lookup_empty in Hl; discriminate|].
  split; [unfold SCRIPT_LIMIT; lia|].
  intros e en Hl. rewrite lookup_empty in Hl. discriminate.
Qed.

(* so is injectivity of uuid_to_entity: two uuids for one live entity, a link between them *)
Definition alias_state : peer_state :=
  init_peer 1 [] [] [SCliPoll; SSync]
    <| n_setup := true |> <| n_cli_transport := Some (0, 1) |> <| s_client := CliConnected |>
    <| p_ents := {[ E0 := new_entity <| en_sync := Some 7 |> ]} |> <| p_next_ent := E0 + 1 |>
    <| t_u2e := {[ 7 := E0; 8 := E0 ]} |>
    <| n_inbox := {[ 0 := [MParented 7 8] ]} |>.
Example alias_panics :
  p_panic alias_state = None /\ inbox_all msg_ok alias_state /\
  p_panic (frame alias_state (fc 1)) = Some PSetParentSelf.
Proof.
  split; [reflexivity|]. split; [|vm_compute; reflexivity].
  intros s l m Hl Hin. simpl in Hl.
  destruct (decide (s = 0)) as [->|Hne].
  - rewrite lookup_singleton in Hl. injection Hl as <-.
    apply elem_of_list_singleton in Hin as ->. simpl. discriminate.
  - rewrite lookup_singleton_ne in Hl by congruence. discriminate.
Qed.

(* and the application's insert command is the application's own panic *)
Definition app_insert_state : peer_state :=
  init_peer 0 [] [] [SApp 1; SSync] <| p_app_cmds := [(1, CAppInsert 3 T_A (VN 0))] |>.
Example app_insert_panics :
  p_panic (frame app_insert_state (fh [])) = Some PInsertDead.
Proof. vm_compute. reflexivity. Qed.

(* ---------- the full statement, and why it needs a condition on the session --------------------------- *)

Definition C08_no_panic_statement : Prop :=
  forall n tr, conforming n tr ->
  forall p pr, grun (init_global n) tr !! p = Some pr -> p_panic pr = None.

(* With *unconstrained* oracles the statement is false in the model: nothing ties fo_clients /
   fo_srv_poll to the set-ups, so three peers can all be set up as hosts and each be told by its
   renet oracle that the other two are its clients.  Peer 0's spawn of 5 then reaches peer 2 twice
   (directly and relayed by peer 1); the host handler of MSpawn has no duplicate check, so peer 2
   holds two live replicas with uuid 5; its application links them (both alive, distinct: a
   conforming operation) and entity_parented_on_server emits MParented 5 5; peer 0 resolves both
   ends to the same entity and add_child panics.  No real renet session produces these oracles. *)
Definition mesh_order : list sysid := [SSrvConnected; SSrvCreated; SSrvParented; SSrvPoll; SSync].
Definition fm (cl poll : list peer) : frame_oracle := Build_frame_oracle [] cl None poll 0 [].
Definition three_hosts : list step :=
  [StApp 0 (OSetup true 0); StApp 1 (OSetup true 0); StApp 2 (OSetup true 0);
   StApp 0 (OSetOrder mesh_order); StApp 1 (OSetOrder mesh_order); StApp 2 (OSetOrder mesh_order);
   StFrame 0 (fm [1; 2] []); StFrame 1 (fm [0; 2] []); StFrame 2 (fm [0; 1] []);
   StFrame 0 (fm [1; 2] []); StFrame 1 (fm [0; 2] []); StFrame 2 (fm [0; 1] []);
   StApp 0 (OSpawn 5 true []);
   StFrame 0 (fm [1; 2] []);
   StFrame 1 (fm [0; 2] [0]);
   StFrame 2 (fm [0; 1] [0; 1]);
   StApp 2 (OSetParent E0 (E0 + 1));
   StFrame 2 (fm [0; 1] []);
   StFrame 0 (fm [1; 2] [2; 2])].

Theorem C08_refuted_with_arbitrary_oracles :
  exists n tr p pr, conforming n tr /\ grun (init_global n) tr !! p = Some pr /\
                    p_panic pr = Some PSetParentSelf.
Proof.
  exists 3%nat, three_hosts, 0.
  destruct (grun (init_global 3) three_hosts !! 0) as [pr|] eqn:E; [|vm_compute in E; discriminate].
  exists pr. split; [vm_compute; reflexivity|]. split; [exact E|].
  assert (H : p_panic <$> (grun (init_global 3) three_hosts !! 0) = Some (Some PSetParentSelf))
    by (vm_compute; reflexivity).
  rewrite E in H. simpl in H. injection H as H. exact H.
Qed.

Corollary C08_no_panic_statement_refuted : ~ C08_no_panic_statement.
Proof.
  intros H. destruct C08_refuted_with_arbitrary_oracles as (n & tr & p & pr & Hc & Hr & Hp).
  rewrite (H n tr Hc p pr Hr) in Hp. discriminate.
Qed.

(* the witness violates exactly the premise of theorem A *)
Example three_hosts_send_self_link : links_okb_from (init_global 3) three_hosts = false.
Proof. vm_compute. reflexivity. Qed.

(* the smallest such witness: one host whose renet oracle lists the host itself as its client *)
Definition self_client : list step :=
  [StApp 0 (OSetup true 0); StApp 0 (OSetOrder mesh_order);
   StFrame 0 (fm [0] []); StFrame 0 (fm [0] []);
   StApp 0 (OSpawn 5 true []);
   StFrame 0 (fm [0] []);      (* MSpawn 5 to itself *)
   StFrame 0 (fm [0] [0]);     (* a replica E0 of its own entity 5, same uuid *)
   StApp 0 (OSetParent 5 E0);
   StFrame 0 (fm [0] []);      (* MParented 5 5 *)
   StFrame 0 (fm [0] [0])].
Example self_client_panics :
  conforming 1 self_client /\
  p_panic <$> (grun (init_global 1) self_client !! 0) = Some (Some PSetParentSelf).
Proof. split; vm_compute; reflexivity. Qed.

(* An executable order Bevy never builds (the client systems are .chain()ed in src/client/mod.rs:
   removed ... poll) used to be a third witness, with truthful oracles.  Client 1 runs
   [poll; entity_removed_from_client; sync]: the replica reserved by poll is not alive yet when
   entity_removed walks uuid_to_entity, so the uuid is forgotten; the second MSpawn 5 (the host
   sends one live and one in the snapshot) then passed the duplicate check and there were two live
   replicas of uuid 5, which a later host could link and announce as MParented 5 5.  Since the
   despawned_locally repair (t_tomb) the forgotten uuid is remembered as despawned locally and
   the stale second MSpawn 5 is ignored: one replica, no duplicate to link. *)
Definition odd_cli_order : list sysid := [SCliConnecting; SCliVerify; SCliPoll; SCliRemoved; SSync].
Definition odd_order : list step :=
  [StApp 0 (OSetup true 0); StApp 1 (OSetup false 0);
   StApp 0 (OSetOrder host_order); StApp 1 (OSetOrder odd_cli_order);
   StFrame 0 (fh []); StFrame 0 (fh []);
   StFrame 1 (fc 0); StFrame 1 (fc 0); StFrame 1 (fc 0);
   StApp 0 (OSpawn 5 true []);
   StFrame 0 (fh [1]);
   StFrame 1 (fc 1); StFrame 1 (fc 1)].
Example odd_order_single_replica :
  conforming 2 odd_order /\
  (fun pr => ((fun '(e, en) => (e, en_sync en)) <$> entities pr, t_tomb pr, map_to_list (t_u2e pr), p_panic pr))
    <$> (grun (init_global 2) odd_order !! 1)
  = Some ([(E0, Some 5)], [5], [], None).
Proof. split; vm_compute; reflexivity. Qed.

(* Why conforming asks for "marked at most once": the model's fresh uuid of an entity is its id,
   so re-inserting SyncMark announces the same uuid twice, the host spawns two replicas under one
   uuid, links them, and the originating client panics.  (The Rust code draws a new Uuid::new_v4 at
   each SyncMark: there the second announcement creates a second, differently named replica.) *)
Definition remark : list step :=
  [StApp 0 (OSetup true 0); StApp 1 (OSetup false 0);
   StApp 0 (OSetOrder host_order); StApp 1 (OSetOrder cli_order);
   StFrame 0 (fh []); StFrame 0 (fh []);
   StFrame 1 (fc 0); StFrame 1 (fc 0); StFrame 1 (fc 0);
   StApp 1 (OSpawn 5 true []);
   StFrame 1 (fc 0);
   StApp 1 (OMark 5);
   StFrame 1 (fc 0);
   StFrame 0 (fh [1; 1; 1]);
   StApp 0 (OSetParent E0 (E0 + 1));
   StFrame 0 (fh []);
   StFrame 1 (fc 10)].
Example remark_panics :
  conforming_from (init_global 2) [] [] remark = false /\
  p_panic <$> (grun (init_global 2) remark !! 1) = Some (Some PSetParentSelf).
Proof. split; vm_compute; reflexivity. Qed.

(* Theorem C draws the line exactly: the session `demo` (a hierarchy between two entities of the
   host, replicated, echoed, re-sent in the snapshot) is covered ... *)
Example demo_conforming_links : conforming_links 2 demo.
Proof. vm_compute. reflexivity. Qed.
Example demo_by_theorem_C p pr : grun (init_global 2) demo !! p = Some pr -> p_panic pr = None.
Proof. intros H. apply (C08_no_panic_distinct_uuid_links 2 demo demo_conforming_links p pr H). Qed.
(* ... and each of the two panicking witnesses has the application link two replicas that carry
   the same uuid: that operation is the only thing conforming_links rejects in them *)
Example witnesses_link_equal_uuids :
  conforming_links_from (init_global 3) [] [] three_hosts = false /\
  conforming_links_from (init_global 1) [] [] self_client = false.
Proof. repeat split; vm_compute; reflexivity. Qed.

(* What remains for the full statement C08_no_panic_statement (false as it stands, see above): the
   operation theorem C excludes - linking two live entities that carry the same uuid - can only be
   performed on a peer that holds two live entities with one uuid.  The witnesses show that
   this needs (i) renet oracles that are not truthful (a host listed as its own client, hosts that
   are each other's clients), or (iii) SyncMark inserted twice on one entity (excluded by
   conforming: a model convention); the former route (ii), an executable order Bevy does not build
   for the plugin (entity_removed_from_client between poll_for_messages and its sync point), no
   longer duplicates a replica since the despawned_locally repair, but no theorem here excludes
   other odd orders.  Under a premise `valid_session` stating (i) and the plugin's order one has to
   prove the uniqueness half of C01 ("no peer ever holds two live entities with the same uuid");
   then conforming implies conforming_links along the run and theorem C gives
   C08_no_panic_statement. *)

(* names asked for by the proof conventions *)
Definition C08_refuted := C08_refuted_with_arbitrary_oracles.
Definition C08_no_panic_partial := C08_no_panic_distinct_uuid_links.

Print Assumptions frame_panic_sites.
Print Assumptions frame_panic_only_self_parent.
Print Assumptions frame_no_panic.
Print Assumptions frame_parents_ok.
Print Assumptions apply_cmd_panic_exact.
Print Assumptions app_step_panic_exact.
Print Assumptions C08_no_panic_modulo_self_links.
Print Assumptions C08_no_panic_no_hierarchy.
Print Assumptions C08_no_panic_distinct_uuid_links.
Print Assumptions C08_no_panic_own_hierarchy.
Print Assumptions no_hierarchy_no_parented.
Print Assumptions C08_refuted.
Print Assumptions C08_no_panic_partial.
Print Assumptions C08_no_panic_statement_refuted.
Print Assumptions frame_stops_iff_panicked.
Print Assumptions frame_runs_unless_panicked.
