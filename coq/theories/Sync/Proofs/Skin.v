(* C16 — translation of SkinnedMesh joints between the entity-id spaces of two peers
   (src/lib_priv.rs: to_skinned_mapper / to_skinned_mesh; model: Sync/Model.v). *)
From stdpp Require Import gmap list.
From Coq Require Import NArith Lia.
From RecordUpdate Require Import RecordSet.
From BS Require Import Sync.Types Sync.Model.
Import RecordSetNotations.
Local Open Scope N_scope.

(* omap over a list whose elements are all mapped is a plain map *)
Lemma omap_all_some {A B} (f : A -> option B) (g : A -> B) (l : list A) :
  Forall (fun x => f x = Some (g x)) l -> omap f l = g <$> l.
Proof.
  induction 1 as [|x l Hx _ IH]; [reflexivity|].
  change (omap f (x :: l)) with (match f x with Some y => y :: omap f l | None => omap f l end).
  rewrite Hx, IH. reflexivity.
Qed.

Lemma omap_length_le {A B} (f : A -> option B) (l : list A) : (length (omap f l) <= length l)%nat.
Proof.
  induction l as [|x l IH]; [reflexivity|].
  change (omap f (x :: l)) with (match f x with Some y => y :: omap f l | None => omap f l end).
  destruct (f x); simpl; lia.
Qed.

(* Sender A maps local joints to uuids with its e2u, receiver B maps uuids to ITS local entities
   with its u2e. If every joint is a synchronised entity on A (e2u_A j = Some (u j)) and every
   such uuid has a replica on B (u2e_B (u j) = Some (rep j)), then the SkinnedMesh arrives with
   the same number of joints, in the same order (repeats included), each joint being B's
   replica of the same uuid, and with equal inverse bind poses — whatever the two local
   entity-id spaces are. *)
Theorem skin_roundtrip (A B : peer_state) (joints : list ent) (poses : list N)
    (u : ent -> uuid) (rep : ent -> ent) :
  Forall (fun j => t_e2u A !! j = Some (u j)) joints ->
  Forall (fun j => t_u2e B !! (u j) = Some (rep j)) joints ->
  to_skinned_mapper A joints poses = VMapper (u <$> joints) poses /\
  to_skinned_mesh B (u <$> joints) poses = VSkin (rep <$> joints) poses.
Proof.
  intros HA HB. unfold to_skinned_mapper, to_skinned_mesh. split.
  - f_equal. apply omap_all_some. exact HA.
  - f_equal. induction joints as [|j js IH]; [reflexivity|].
    inversion HA as [|? ? HA1 HA2]; inversion HB as [|? ? HB1 HB2]; subst.
    change (omap (fun x => t_u2e B !! x) (u <$> (j :: js)))
      with (match t_u2e B !! u j with
            | Some y => y :: omap (fun x => t_u2e B !! x) (u <$> js)
            | None => omap (fun x => t_u2e B !! x) (u <$> js) end).
    rewrite HB1. change (rep <$> j :: js) with (rep j :: (rep <$> js)). f_equal. apply IH; assumption.
Qed.

(* counts: same number of joints, and never more joints than were sent *)
Corollary skin_same_length A B joints poses u rep :
  Forall (fun j => t_e2u A !! j = Some (u j)) joints ->
  Forall (fun j => t_u2e B !! (u j) = Some (rep j)) joints ->
  exists js', to_skinned_mesh B (u <$> joints) poses = VSkin js' poses /\ length js' = length joints.
Proof.
  intros HA HB. destruct (skin_roundtrip A B joints poses u rep HA HB) as [_ H].
  exists (rep <$> joints). split; [exact H|]. apply fmap_length.
Qed.

(* What the code does when a joint is NOT a synchronised entity on the sender, or has no
   replica on the receiver: it is silently dropped (filter_map) — the joint count shrinks.
   The property's hypothesis "whose joints are synchronized entities" is exactly what excludes it. *)
Theorem skin_unknown_joint_dropped A joints poses :
  match to_skinned_mapper A joints poses with
  | VMapper us _ => (length us <= length joints)%nat
  | _ => False
  end.
Proof. unfold to_skinned_mapper. apply omap_length_le. Qed.

Example skin_drop_example :
  let A := init_peer 1 [] [] [] <| t_e2u := {[ 5 := 50 ]} |> in
  to_skinned_mapper A [5; 6; 5] [7] = VMapper [50; 50] [7].
Proof. vm_compute. reflexivity. Qed.

(* delivery: applying a received mapper to an entity installs exactly the translated mesh *)
Theorem skin_apply (pr : peer_state) (e : ent) (en : entity) (u : uuid) (us : list uuid) (ps : list N) :
  memN T_MAPPER (p_registry pr) = true -> memN T_SKIN (p_registry pr) = true ->
  p_ents pr !! e = Some en -> en_sync en = Some u ->
  let '(pr', changed) := apply_component_change pr e T_MAPPER (VMapper us ps) in
  changed = true /\
  exists en', p_ents pr' !! e = Some en' /\
              (c_val <$> (en_comps en' !! T_SKIN)) = Some (to_skinned_mesh pr us ps).
Proof.
  intros Hm Hs He Hu. unfold apply_component_change, wire_type.
  rewrite Hm. cbn [negb]. rewrite Hs. cbn [negb]. rewrite He, Hu.
  assert (Hd : match en_comps en !! T_SKIN with
               | Some c => negb (value_eqb (c_val c) (to_skinned_mesh pr us ps))
               | None => true end = true).
  { destruct (en_comps en !! T_SKIN) as [c|]; [|reflexivity].
    unfold to_skinned_mesh. destruct (c_val c); reflexivity. }
  rewrite Hd. split; [reflexivity|].
  unfold upd_ent. cbn. rewrite He. cbn.
  eexists. rewrite lookup_insert. split; [reflexivity|].
  unfold put_comp. destruct (en_comps en !! T_SKIN); cbn; rewrite lookup_insert; reflexivity.
Qed.

Print Assumptions skin_roundtrip.
Print Assumptions skin_same_length.
Print Assumptions skin_unknown_joint_dropped.
Print Assumptions skin_apply.
