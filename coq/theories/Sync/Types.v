(* Data types of the executable model of bevy_sync and of the engine slice it relies on
   (mini-ECS with change ticks, deferred commands, states, renet links).  Definitions only. *)
From stdpp Require Import gmap list.
From Coq Require Import NArith.
Local Open Scope N_scope.

Definition uuid := N.       (* script handle of the synchronised entity / asset *)
Definition ent := N.        (* local entity id (per peer) *)
Definition tyid := N.       (* component type *)
Definition peer := N.       (* 0 = the peer that starts as host; also the renet client id *)
Definition tick := N.

(* component type ids of the harness family *)
Definition T_A : tyid := 0.            (* struct  { value: i32 }           *)
Definition T_B : tyid := 1.            (* tuple struct                      *)
Definition T_TRANSFORM : tyid := 2.
Definition T_VISIBILITY : tyid := 3.
Definition T_POINTLIGHT : tyid := 4.
Definition T_SPOTLIGHT : tyid := 5.
Definition T_DIRLIGHT : tyid := 6.
Definition T_NAME : tyid := 7.
Definition T_SKIN : tyid := 8.         (* SkinnedMesh *)
Definition T_MAPPER : tyid := 9.       (* SkinnedMeshSyncMapper: wire form of SkinnedMesh *)
(* companions inserted by bundle_fix (never registered for sync) *)
Definition T_GLOBALTRANSFORM : tyid := 100.
Definition T_VIEWVIS : tyid := 101.
Definition T_INHERITEDVIS : tyid := 102.
Definition T_CUBEMAPFRUSTA : tyid := 103.
Definition T_CUBEMAPVISIBLE : tyid := 104.
Definition T_FRUSTUM : tyid := 105.
Definition T_CASCADESFRUSTA : tyid := 106.
Definition T_CASCADESVISIBLE : tyid := 107.
Definition T_CASCADES : tyid := 108.
Definition T_CASCADESHADOWCFG : tyid := 109.

(* A component value. Plain components carry a number (the harness maps it to the field(s) of
   the real type); SkinnedMesh carries local joint entities; its wire form carries uuids. *)
Inductive value :=
| VN (n : N)
| VSkin (joints : list ent) (poses : list N)
| VMapper (joints : list uuid) (poses : list N).

Definition value_eqb (a b : value) : bool :=
  match a, b with
  | VN x, VN y => x =? y
  | VSkin j p, VSkin j' p' => false       (* to_skinned_mesh always allocates a fresh bind-pose handle: never reflect-equal *)
  | VMapper j p, VMapper j' p' => bool_decide (j = j') && bool_decide (p = p')
  | _, _ => false
  end.

Inductive aclass := AMesh | AImage | AAudio.
(* asset kinds; materials travel inline, the other three by URL + HTTP download *)
Inductive akind := KMaterial | KClass (c : aclass).
Definition kind_num (k : akind) : N :=
  match k with KMaterial => 0 | KClass AMesh => 1 | KClass AImage => 2 | KClass AAudio => 3 end.
Definition akey (k : akind) (a : N) : N := 4 * a + kind_num k.

Inductive msg :=
| MSpawn (u : uuid)
| MParented (c p : uuid)
| MDelete (u : uuid)
| MComp (u : uuid) (t : tyid) (v : value)
| MMaterial (a : uuid) (v : N)
| MAsset (k : aclass) (a : uuid) (owner : peer)    (* MeshUpdated / ImageUpdated / AudioUpdated { id, url }: url at owner's endpoint *)
| MPromote
| MNewHost (p : peer)
| MReqInit
| MFinInit.

Record comp := { c_val : value; c_added : tick; c_changed : tick }.

Record entity := {
  en_mark : option tick;              (* SyncMark, with its added tick *)
  en_sync : option uuid;              (* SyncEntity { uuid } *)
  en_sync_added : tick;               (* tick at which SyncEntity was inserted (meaningful when en_sync is Some) *)
  en_comps : gmap tyid comp;
  en_excl : list tyid;                (* SyncExclude<T> markers *)
  en_parent : option (ent * tick);    (* Parent, with its changed tick *)
  en_children : list ent;             (* Children (component present iff non-empty) *)
}.

Definition new_entity : entity :=
  {| en_mark := None; en_sync := None; en_sync_added := 0; en_comps := ∅; en_excl := []; en_parent := None; en_children := [] |}.

Inductive sysid :=
| SFixVisibility | SFixGlobalTransform | SFixCubemapFrusta | SFixCubemapVisible | SFixSpotFrustum
| SFixCascadesFrusta | SFixCascadesVisible | SFixCascades | SFixCascadeShadowCfg
| SSrvConnected | SSrvDisconnected
| SSrvRemoved | SSrvCreated | SSrvParented | SSrvReact | SSrvMat | SSrvImg | SSrvMesh | SSrvAudio | SSrvPromote
| SSrvClientConnected | SSrvPoll
| SCliConnecting | SCliVerify | SCliDisconnected
| SCliRemoved | SCliCreated | SCliParented | SCliReact | SCliMat | SCliImg | SCliMesh | SCliAudio | SCliPoll
| SProcMesh | SProcImage | SProcAudio
| SDetect (t : tyid)
| SSync
| SApp (k : N).

Definition sys_key (s : sysid) : N :=
  match s with
  | SFixVisibility => 1 | SFixGlobalTransform => 2 | SFixCubemapFrusta => 3 | SFixCubemapVisible => 4
  | SFixSpotFrustum => 5 | SFixCascadesFrusta => 6 | SFixCascadesVisible => 7 | SFixCascades => 8
  | SFixCascadeShadowCfg => 9
  | SSrvConnected => 10 | SSrvDisconnected => 11
  | SSrvRemoved => 12 | SSrvCreated => 13 | SSrvParented => 14 | SSrvReact => 15 | SSrvMat => 16
  | SSrvImg => 17 | SSrvMesh => 18 | SSrvAudio => 19 | SSrvPromote => 20
  | SSrvClientConnected => 21 | SSrvPoll => 22
  | SCliConnecting => 23 | SCliVerify => 24 | SCliDisconnected => 25
  | SCliRemoved => 26 | SCliCreated => 27 | SCliParented => 28 | SCliReact => 29 | SCliMat => 30
  | SCliImg => 31 | SCliMesh => 32 | SCliAudio => 33 | SCliPoll => 34
  | SProcMesh => 35 | SProcImage => 36 | SProcAudio => 37
  | SSync => 38
  | SDetect t => 1000 + t
  | SApp k => 2000 + k
  end.

(* deferred commands (Commands / cmd.add closures), applied at the sync node and at the end of Update *)
Inductive cmd :=
| CSpawnSync (e : ent) (u : uuid)                 (* cmd.spawn(SyncEntity{uuid}); e was reserved at call time *)
| CDespawn (e : ent)                              (* EntityCommands::despawn: warns if gone *)
| CInsertSync (e : ent) (u : uuid)                (* entity(e).remove::<SyncMark>().insert(SyncEntity{uuid}) *)
| CApplyComp (from : option peer) (e : ent) (u : uuid) (t : tyid) (v : value)
                                                  (* apply_component_change_from_network; host (from = Some c): relay if changed *)
| CSetParentSrv (from : peer) (c p : uuid)
| CSetParentCli (c p : ent) (cu pu : uuid)
| CApplyMaterial (from : option peer) (a : uuid) (v : N)
| CRelay (from : peer) (m : msg)
| CSendInitialSync (to : peer)
| CRequestInitialSync
| CFixInsert (e : ent) (companions : list tyid)
| CStartServer                                    (* PromoteToHost closure: insert server transport, flag := true *)
| CStartClientTo (h : peer) (set_flag : bool)     (* NewHost: insert a client transport towards h *)
| CRemoveClientTransport
| CRemoveServerTransport
| CAppDespawnUuid (u : uuid)                      (* application system: despawn the entity carrying uuid u, if any *)
| CAppDespawn (e : ent)                           (* application system: commands.entity(e).despawn() *)
| CAppInsert (e : ent) (t : tyid) (v : value).    (* application system: commands.entity(e).insert(T(v)) — panics if gone *)

Inductive sstate := SrvConnected | SrvDisconnected.
Inductive cstate := CliConnected | CliConnecting | CliDisconnected.
Inductive renet_status := RConnecting | RConnected | RDisconnected.

Definition is_srv_connected (s : sstate) : bool := match s with SrvConnected => true | _ => false end.
Definition is_cli_connected (s : cstate) : bool := match s with CliConnected => true | _ => false end.
Definition is_cli_connecting (s : cstate) : bool := match s with CliConnecting => true | _ => false end.
Definition is_cli_disconnected (s : cstate) : bool := match s with CliDisconnected => true | _ => false end.
Definition is_nil {A} (l : list A) : bool := match l with [] => true | _ => false end.
Definition is_some {A} (o : option A) : bool := match o with Some _ => true | None => false end.

(* where execution panicked (the census of partial operations of the code) *)
(* Remaining partial operations. The sites repaired by fix: commits (bin_to_reflect unwrap,
   world.entity / entity_mut on a dead entity, Commands insert on a despawned entity) no longer
   exist in the code and are no longer outcomes of the model. *)
Inductive panic_site :=
| PEntityMutDead                  (* application operation: add_child on a dead parent *)
| PInsertDead                     (* application system: Commands::entity(e).insert(..) after e was despawned (B0003) *)
| PSetParentSelf.                 (* add_child(parent = child): "Cannot add entity as a child of itself" *)

Inductive asset_event := AEAdded | AEModified.
