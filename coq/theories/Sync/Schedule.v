(* The schedule as the frame-level model assumes it: which systems exist, in which schedule, under
   which run conditions, at which position of which chain. `model_schedule` is written by hand (it is
   what Model.run_system was written from); gen/Schedule.v is regenerated from every add_systems(...)
   call of /repo/src on every run, and the two must be EQUAL (schedule_matches_source, by
   reflexivity): a run condition added, dropped or changed in the source, a system added to or removed
   from a plugin, a chain reordered, breaks this file. `run_system_follows_schedule` then shows that
   Model.run_system runs each system exactly when the conditions of this table hold (the stateful
   conditions resource_added / resource_removed are evaluated as the model's closures with their
   bookkeeping; all conditions of a system are evaluated on every frame, as Bevy does). The order
   inside a chain is NOT used by the model: every theorem of the development holds for all executable
   orders (the real order is an oracle input read from Bevy's schedule). OnEnter(ServerState::Connected)
   -> server_promoted_is_ready is modelled inside Model.state_transition. *)
From Coq Require Import String List NArith Bool.
From stdpp Require Import gmap.
From BS Require Import Sync.Types Sync.Model.
From BSGen Require Import Schedule.
Import ListNotations.
Open Scope string_scope.

Definition model_schedule : list (string * string * list string * option nat) := [
  ("server::server_connected", "Update", ["resource_exists::<RenetServer>"; "in_state(ServerState::Disconnected)"; "resource_added::<NetcodeServerTransport>"], None);
  ("server::server_disconnected", "Update", ["resource_exists::<RenetServer>"; "in_state(ServerState::Connected)"; "resource_removed::<NetcodeServerTransport>()"], None);
  ("server::entity_removed_from_server", "Update", ["resource_exists::<RenetServer>"; "resource_exists::<NetcodeServerTransport>"; "in_state(ServerState::Connected)"], Some 0);
  ("server::entity_created_on_server", "Update", ["resource_exists::<RenetServer>"; "resource_exists::<NetcodeServerTransport>"; "in_state(ServerState::Connected)"], Some 1);
  ("server::entity_parented_on_server", "Update", ["resource_exists::<RenetServer>"; "resource_exists::<NetcodeServerTransport>"; "in_state(ServerState::Connected)"], Some 2);
  ("server::react_on_changed_components", "Update", ["resource_exists::<RenetServer>"; "resource_exists::<NetcodeServerTransport>"; "in_state(ServerState::Connected)"], Some 3);
  ("server::react_on_changed_materials", "Update", ["sync_material_enabled"; "resource_exists::<RenetServer>"; "resource_exists::<NetcodeServerTransport>"; "in_state(ServerState::Connected)"], Some 4);
  ("server::react_on_changed_images", "Update", ["sync_material_enabled"; "resource_exists::<RenetServer>"; "resource_exists::<NetcodeServerTransport>"; "in_state(ServerState::Connected)"], Some 5);
  ("server::react_on_changed_meshes", "Update", ["sync_mesh_enabled"; "resource_exists::<RenetServer>"; "resource_exists::<NetcodeServerTransport>"; "in_state(ServerState::Connected)"], Some 6);
  ("server::react_on_changed_audios", "Update", ["sync_audio_enabled"; "resource_exists::<RenetServer>"; "resource_exists::<NetcodeServerTransport>"; "in_state(ServerState::Connected)"], Some 7);
  ("server::promote_to_host_event_reader", "Update", ["resource_exists::<RenetServer>"; "resource_exists::<NetcodeServerTransport>"; "in_state(ServerState::Connected)"], Some 8);
  ("server::client_connected", "Update", ["resource_exists::<RenetServer>"; "resource_exists::<NetcodeServerTransport>"; "in_state(ServerState::Connected)"], Some 0);
  ("server::receiver::poll_for_messages", "Update", ["resource_exists::<RenetServer>"; "resource_exists::<NetcodeServerTransport>"; "in_state(ServerState::Connected)"], Some 1);
  ("server::server_promoted_is_ready", "OnEnter(ServerState::Connected)", ["resource_exists::<NetcodeClientTransport>"], None);
  ("client::set_client_to_connecting", "Update", ["resource_exists::<RenetClient>"; "resource_added::<NetcodeClientTransport>"; "in_state(ClientState::Disconnected)"], None);
  ("client::verify_client_connected", "Update", ["resource_exists::<RenetClient>"; "resource_exists::<NetcodeClientTransport>"; "in_state(ClientState::Connecting)"], None);
  ("client::set_client_to_disconnected", "Update", ["resource_exists::<RenetClient>"; "resource_removed::<NetcodeClientTransport>()"; "not(in_state(ClientState::Disconnected))"], None);
  ("client::entity_removed_from_client", "Update", ["resource_exists::<RenetClient>"; "resource_exists::<NetcodeClientTransport>"; "in_state(ClientState::Connected)"], Some 0);
  ("client::entity_created_on_client", "Update", ["resource_exists::<RenetClient>"; "resource_exists::<NetcodeClientTransport>"; "in_state(ClientState::Connected)"], Some 1);
  ("client::entity_parented_on_client", "Update", ["resource_exists::<RenetClient>"; "resource_exists::<NetcodeClientTransport>"; "in_state(ClientState::Connected)"], Some 2);
  ("client::react_on_changed_components", "Update", ["resource_exists::<RenetClient>"; "resource_exists::<NetcodeClientTransport>"; "in_state(ClientState::Connected)"], Some 3);
  ("client::react_on_changed_materials", "Update", ["sync_material_enabled"; "resource_exists::<RenetClient>"; "resource_exists::<NetcodeClientTransport>"; "in_state(ClientState::Connected)"], Some 4);
  ("client::react_on_changed_images", "Update", ["sync_material_enabled"; "resource_exists::<RenetClient>"; "resource_exists::<NetcodeClientTransport>"; "in_state(ClientState::Connected)"], Some 5);
  ("client::react_on_changed_meshes", "Update", ["sync_mesh_enabled"; "resource_exists::<RenetClient>"; "resource_exists::<NetcodeClientTransport>"; "in_state(ClientState::Connected)"], Some 6);
  ("client::react_on_changed_audios", "Update", ["sync_audio_enabled"; "resource_exists::<RenetClient>"; "resource_exists::<NetcodeClientTransport>"; "in_state(ClientState::Connected)"], Some 7);
  ("client::receiver::poll_for_messages", "Update", ["resource_exists::<RenetClient>"; "resource_exists::<NetcodeClientTransport>"; "in_state(ClientState::Connected)"], Some 8);
  ("lib_priv::sync_skinned_mesh", "Update", [], None);
  ("lib_priv::sync_detect::<T>", "Update", [], None);
  ("assets::process_mesh_assets", "Update", ["resource_exists::<SyncAssetTransfer>"], None);
  ("assets::process_image_assets", "Update", ["resource_exists::<SyncAssetTransfer>"], None);
  ("assets::process_audio_assets", "Update", ["resource_exists::<SyncAssetTransfer>"], None);
  ("bundle_fix::fix_visibility_bundle", "Update", [], None);
  ("bundle_fix::fix_missing_global_transforms", "Update", [], None);
  ("bundle_fix::fix_missing_cubemap_frusta", "Update", [], None);
  ("bundle_fix::fix_missing_cubemap_visible_entities", "Update", [], None);
  ("bundle_fix::fix_missing_cubemap_frustum_spot", "Update", [], None);
  ("bundle_fix::fix_missing_cubemap_frusta_directional", "Update", [], None);
  ("bundle_fix::fix_missing_cubemap_visible_entities_directional", "Update", [], None);
  ("bundle_fix::fix_missing_cascades_directional", "Update", [], None);
  ("bundle_fix::fix_missing_cascades_shadow_config_directional", "Update", [], None)
].

Theorem schedule_matches_source : src_schedule = model_schedule.
Proof. reflexivity. Qed.

(* ---------- the systems of the model and their names in the source --------------------------------- *)

Definition sys_name (s : sysid) : option string :=
  match s with
  | SSrvConnected => Some "server::server_connected"
  | SSrvDisconnected => Some "server::server_disconnected"
  | SSrvRemoved => Some "server::entity_removed_from_server"
  | SSrvCreated => Some "server::entity_created_on_server"
  | SSrvParented => Some "server::entity_parented_on_server"
  | SSrvReact => Some "server::react_on_changed_components"
  | SSrvMat => Some "server::react_on_changed_materials"
  | SSrvImg => Some "server::react_on_changed_images"
  | SSrvMesh => Some "server::react_on_changed_meshes"
  | SSrvAudio => Some "server::react_on_changed_audios"
  | SSrvPromote => Some "server::promote_to_host_event_reader"
  | SSrvClientConnected => Some "server::client_connected"
  | SSrvPoll => Some "server::receiver::poll_for_messages"
  | SCliConnecting => Some "client::set_client_to_connecting"
  | SCliVerify => Some "client::verify_client_connected"
  | SCliDisconnected => Some "client::set_client_to_disconnected"
  | SCliRemoved => Some "client::entity_removed_from_client"
  | SCliCreated => Some "client::entity_created_on_client"
  | SCliParented => Some "client::entity_parented_on_client"
  | SCliReact => Some "client::react_on_changed_components"
  | SCliMat => Some "client::react_on_changed_materials"
  | SCliImg => Some "client::react_on_changed_images"
  | SCliMesh => Some "client::react_on_changed_meshes"
  | SCliAudio => Some "client::react_on_changed_audios"
  | SCliPoll => Some "client::receiver::poll_for_messages"
  | SProcMesh => Some "assets::process_mesh_assets"
  | SProcImage => Some "assets::process_image_assets"
  | SProcAudio => Some "assets::process_audio_assets"
  | SDetect t => Some (if (t =? T_SKIN)%N then "lib_priv::sync_skinned_mesh" else "lib_priv::sync_detect::<T>")
  | SFixVisibility => Some "bundle_fix::fix_visibility_bundle"
  | SFixGlobalTransform => Some "bundle_fix::fix_missing_global_transforms"
  | SFixCubemapFrusta => Some "bundle_fix::fix_missing_cubemap_frusta"
  | SFixCubemapVisible => Some "bundle_fix::fix_missing_cubemap_visible_entities"
  | SFixSpotFrustum => Some "bundle_fix::fix_missing_cubemap_frustum_spot"
  | SFixCascadesFrusta => Some "bundle_fix::fix_missing_cubemap_frusta_directional"
  | SFixCascadesVisible => Some "bundle_fix::fix_missing_cubemap_visible_entities_directional"
  | SFixCascades => Some "bundle_fix::fix_missing_cascades_directional"
  | SFixCascadeShadowCfg => Some "bundle_fix::fix_missing_cascades_shadow_config_directional"
  | SSync | SApp _ => None          (* the sync node of the executor; systems of the application *)
  end.

Definition conds_of_name (name : string) : option (list string) :=
  match find (fun r => String.eqb (fst (fst (fst r))) name) model_schedule with
  | Some r => Some (snd (fst r))
  | None => None
  end.
Definition conds_of (s : sysid) : option (list string) :=
  match sys_name s with Some n => conds_of_name n | None => None end.

(* every system of the Update schedule of the source is a system of the model, and conversely *)
Definition update_names : list string :=
  map (fun r => fst (fst (fst r))) (filter (fun r => String.eqb (snd (fst (fst r))) "Update") model_schedule).
Definition model_sysids : list sysid :=
  [SSrvConnected; SSrvDisconnected; SSrvRemoved; SSrvCreated; SSrvParented; SSrvReact; SSrvMat; SSrvImg; SSrvMesh;
   SSrvAudio; SSrvPromote; SSrvClientConnected; SSrvPoll; SCliConnecting; SCliVerify; SCliDisconnected; SCliRemoved;
   SCliCreated; SCliParented; SCliReact; SCliMat; SCliImg; SCliMesh; SCliAudio; SCliPoll; SProcMesh; SProcImage;
   SProcAudio; SDetect T_SKIN; SDetect 0%N; SFixVisibility; SFixGlobalTransform; SFixCubemapFrusta; SFixCubemapVisible;
   SFixSpotFrustum; SFixCascadesFrusta; SFixCascadesVisible; SFixCascades; SFixCascadeShadowCfg].
Theorem every_source_system_is_modelled :
  forallb (fun n => existsb (fun s => match sys_name s with Some m => String.eqb m n | None => false end) model_sysids)
          update_names = true.
Proof. vm_compute. reflexivity. Qed.
Theorem every_modelled_system_is_in_the_source :
  forall s, match sys_name s with Some n => is_some (conds_of_name n) = true | None => True end.
Proof. intros s. destruct s; try exact I; try (vm_compute; reflexivity). cbn [sys_name]. destruct (_ =? _)%N; vm_compute; reflexivity. Qed.

(* ---------- what a run condition means on a state of the model -------------------------------------- *)

(* [edge] = the value of the stateful condition of this system (resource_added / resource_removed), if any *)
Definition cond_sem (edge : bool) (pr : peer_state) (c : string) : option bool :=
  if String.eqb c "resource_exists::<RenetServer>" then Some (n_setup pr)
  else if String.eqb c "resource_exists::<RenetClient>" then Some (n_setup pr)
  else if String.eqb c "resource_exists::<SyncAssetTransfer>" then Some (n_setup pr)
  else if String.eqb c "resource_exists::<NetcodeServerTransport>" then Some (is_some (n_srv_transport pr))
  else if String.eqb c "resource_exists::<NetcodeClientTransport>" then Some (is_some (n_cli_transport pr))
  else if String.eqb c "in_state(ServerState::Connected)" then Some (is_srv_connected (s_server pr))
  else if String.eqb c "in_state(ServerState::Disconnected)" then Some (negb (is_srv_connected (s_server pr)))
  else if String.eqb c "in_state(ClientState::Connected)" then Some (is_cli_connected (s_client pr))
  else if String.eqb c "in_state(ClientState::Connecting)" then Some (is_cli_connecting (s_client pr))
  else if String.eqb c "in_state(ClientState::Disconnected)" then Some (is_cli_disconnected (s_client pr))
  else if String.eqb c "not(in_state(ClientState::Disconnected))" then Some (negb (is_cli_disconnected (s_client pr)))
  else if String.eqb c "sync_material_enabled" then Some (t_mat pr)
  else if String.eqb c "sync_mesh_enabled" then Some (t_mesh pr)
  else if String.eqb c "sync_audio_enabled" then Some (t_audio pr)
  else if String.eqb c "resource_added::<NetcodeServerTransport>" then Some edge
  else if String.eqb c "resource_removed::<NetcodeServerTransport>()" then Some edge
  else if String.eqb c "resource_added::<NetcodeClientTransport>" then Some edge
  else if String.eqb c "resource_removed::<NetcodeClientTransport>()" then Some edge
  else None.

Fixpoint eval_conds (edge : bool) (pr : peer_state) (cs : list string) : option bool :=
  match cs with
  | [] => Some true
  | c :: cs => match cond_sem edge pr c, eval_conds edge pr cs with
               | Some a, Some b => Some (a && b)
               | _, _ => None
               end
  end.

(* every condition that occurs in the source has a meaning in the model *)
Theorem every_condition_is_understood :
  forall pr, forallb (fun r => is_some (eval_conds false pr (snd (fst r)))) model_schedule = true.
Proof. intros pr. vm_compute. reflexivity. Qed.

(* the stateful condition of a system, as the model evaluates it (with its bookkeeping) *)
Definition edge_of (pr : peer_state) (s : sysid) : peer_state * bool :=
  match s with
  | SSrvConnected => cond_resource_added pr (sys_key s) (n_srv_transport pr)
  | SSrvDisconnected => cond_resource_removed pr (sys_key s) (is_some (n_srv_transport pr))
  | SCliConnecting => cond_resource_added pr (sys_key s) (snd <$> n_cli_transport pr)
  | SCliDisconnected => cond_resource_removed pr (sys_key s) (is_some (n_cli_transport pr))
  | _ => (pr, true)
  end.

(* the bookkeeping of a stateful condition touches nothing the other conditions read *)
Lemma cond_added_fields pr k a :
  n_setup (fst (cond_resource_added pr k a)) = n_setup pr /\
  s_server (fst (cond_resource_added pr k a)) = s_server pr /\
  s_client (fst (cond_resource_added pr k a)) = s_client pr.
Proof. unfold cond_resource_added, begin_run, end_run. cbn. auto. Qed.
Lemma cond_removed_fields pr k b :
  n_setup (fst (cond_resource_removed pr k b)) = n_setup pr /\
  s_server (fst (cond_resource_removed pr k b)) = s_server pr /\
  s_client (fst (cond_resource_removed pr k b)) = s_client pr.
Proof. unfold cond_resource_removed. destruct b; [cbn; auto|]. destruct (default false _); cbn; auto. Qed.

(* THE TIE: Model.run_system runs a system exactly when the run conditions the SOURCE gives it hold *)
Theorem run_system_follows_schedule :
  forall pr s o cs,
    p_panic pr = None -> conds_of s = Some cs ->
    let '(pr', e) := edge_of pr s in
    exists b, eval_conds e pr cs = Some b /\ run_system pr s o = if b then run_body pr' s o else pr'.
Proof.
  intros pr s o cs Hp Hc. unfold run_system. rewrite Hp. unfold conds_of in Hc.
  destruct s; cbn [sys_name] in Hc; try discriminate Hc.
  all: try match type of Hc with context [(?t =? T_SKIN)%N] => destruct (t =? T_SKIN)%N end.
  all: vm_compute in Hc; injection Hc as <-.
  all: cbn [edge_of].
  all: try match goal with |- context [cond_resource_added ?a ?b ?c] =>
             destruct (cond_added_fields a b c) as (F1 & F2 & F3); destruct (cond_resource_added a b c) as [pr' e]; cbn [fst] in F1, F2, F3 end.
  all: try match goal with |- context [cond_resource_removed ?a ?b ?c] =>
             destruct (cond_removed_fields a b c) as (F1 & F2 & F3); destruct (cond_resource_removed a b c) as [pr' e]; cbn [fst] in F1, F2, F3 end.
  all: cbv beta iota delta [eval_conds cond_sem String.eqb Ascii.eqb Bool.eqb].
  all: unfold server_gate, client_gate.
  all: eexists; (split; [reflexivity|]).
  all: repeat rewrite andb_true_r.
  all: try reflexivity.
  all: try (destruct (n_setup pr), (is_some (n_srv_transport pr)), (is_srv_connected (s_server pr)); reflexivity).
  all: try (destruct (n_setup pr), (is_some (n_cli_transport pr)), (is_cli_connected (s_client pr)); reflexivity).
  all: try (destruct (n_setup pr), (is_some (n_cli_transport pr)), (is_cli_connecting (s_client pr)); reflexivity).
  all: try (destruct (n_setup pr), (is_srv_connected (s_server pr)), e; reflexivity).
  all: try (destruct (n_setup pr), (is_cli_disconnected (s_client pr)), e; reflexivity).
  all: try (destruct (n_setup pr), (is_some (n_srv_transport pr)), (is_srv_connected (s_server pr)), (t_mat pr); reflexivity).
  all: try (destruct (n_setup pr), (is_some (n_srv_transport pr)), (is_srv_connected (s_server pr)), (t_mesh pr); reflexivity).
  all: try (destruct (n_setup pr), (is_some (n_srv_transport pr)), (is_srv_connected (s_server pr)), (t_audio pr); reflexivity).
  all: try (destruct (n_setup pr), (is_some (n_cli_transport pr)), (is_cli_connected (s_client pr)), (t_mat pr); reflexivity).
  all: try (destruct (n_setup pr), (is_some (n_cli_transport pr)), (is_cli_connected (s_client pr)), (t_mesh pr); reflexivity).
  all: try (destruct (n_setup pr), (is_some (n_cli_transport pr)), (is_cli_connected (s_client pr)), (t_audio pr); reflexivity).
  all: rewrite ?F1, ?F2, ?F3.
  all: try (destruct (n_setup pr), (is_srv_connected (s_server pr)), e; reflexivity).
  all: try (destruct (n_setup pr), (is_cli_disconnected (s_client pr)), e; reflexivity).
Qed.
Print Assumptions schedule_matches_source.
Print Assumptions run_system_follows_schedule.

