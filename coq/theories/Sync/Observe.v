(* Projections of the model state used by the driver (to print observables in the line
   protocol) and by the property oracles. Definitions only. *)
From stdpp Require Import gmap list.
From Coq Require Import NArith.
From BS Require Import Sync.Types Sync.Model.
Local Open Scope N_scope.

Definition peer_of (g : global) (p : peer) : option peer_state := g !! p.

Definition init_global (n : nat) : global :=
  foldl (fun g i => let p := N.of_nat i in <[p := init_peer p [] [] []]> g) ∅ (seq 0 n).

Definition entities (pr : peer_state) : list (ent * entity) := map_to_list (p_ents pr).
Definition comps_of (en : entity) : list (tyid * value) :=
  (fun '(t, c) => (t, c_val c)) <$> map_to_list (en_comps en).
Definition parent_of (en : entity) : option ent := fst <$> en_parent en.
Definition marked (en : entity) : bool := is_some (en_mark en).
Definition lookup_ent (pr : peer_state) (e : ent) : option entity := p_ents pr !! e.

Definition u2e_list (pr : peer_state) : list (uuid * ent) := map_to_list (t_u2e pr).
Definition e2u_list (pr : peer_state) : list (ent * uuid) := map_to_list (t_e2u pr).
Definition ptok_list (pr : peer_state) : list (uuid * uuid) := map_to_list (t_ptok pr).
Definition inbox_of (pr : peer_state) (from : peer) : list msg := default [] (n_inbox pr !! from).
Definition inbox_all (pr : peer_state) : list (peer * list msg) := map_to_list (n_inbox pr).
Definition pending_cmds (pr : peer_state) : nat := length (concat (snd <$> map_to_list (p_cmdq pr))).

(* the local entity carrying SyncEntity{uuid = u}, if any (first in iteration order) *)
Definition find_by_uuid (pr : peer_state) (u : uuid) : option ent :=
  match filter (fun x => sync_is u x.2) (entities pr) with
  | (e, _) :: _ => Some e
  | [] => None
  end.

Definition count_by_uuid (pr : peer_state) (u : uuid) : nat :=
  length (filter (fun x => sync_is u x.2) (entities pr)).

Definition assets_list (pr : peer_state) : list (N * N * N) :=
  (fun '(key, v) => (key `mod` 4, key `div` 4, v)) <$> map_to_list (a_store pr).
Definition cache_list (pr : peer_state) : list (N * N * N) :=
  (fun '(key, v) => (key `mod` 4, key `div` 4, v)) <$> map_to_list (h_cache pr).
Definition cache_lookup (pr : peer_state) (c : aclass) (a : uuid) : option N := h_cache pr !! akey (KClass c) a.

Definition pending_list (pr : peer_state) : list (aclass * uuid * peer) := d_pending pr.
