(* Extraction of the executable model. ExtrOcamlBasic only: bool, option, unit, list, prod,
   sumbool, sumor map to OCaml natives; N, positive, nat, Z and all model datatypes stay Coq
   datatypes. No Extract Constant / Extract Inductive directive of our own. Only model files
   are required here (never proof files), so the executable model survives a broken proof. *)
From Coq Require Extraction.
From Coq Require Import ExtrOcamlBasic.
From BS Require Import Http.UuidText Http.Route.
Extraction "model.ml" Route.respond1 Route.serve Route.empty_caches Route.lookup Route.cache_of
  Route.path_of Route.url_of Route.run Route.request_starts_download UuidText.parse UuidText.to_string.
