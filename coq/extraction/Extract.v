(* Extraction of the executable model. ExtrOcamlBasic only: bool, option, unit, list, prod,
   sumbool, sumor map to OCaml natives; N, positive, nat, Z and all model datatypes stay Coq
   datatypes. No Extract Constant / Extract Inductive directive of our own. Only model files
   are required here (never proof files), so the executable model survives a broken proof. *)
From Coq Require Extraction.
From Coq Require Import ExtrOcamlBasic.
From BS Require Import Http.UuidText Http.Route Sync.Types Sync.Model Sync.Observe Sync.UniquePremise Abs.Values Abs.ValuesPremise Abs.Entities Abs.Parents Abs.ParentsPremise Abs.Promotion Abs.PromotionRun Abs.Assets Abs.Downloads Codec.Schema Codec.Lz4 Codec.CodecTypes Codec.MeshCodec Codec.ImageCodec Codec.ProtoCodec.
Extraction "model.ml" PromotionRun.promotion_explore Route.respond1 Route.serve Route.empty_caches Route.lookup Route.cache_of
  Route.path_of Route.url_of Route.run Route.request_starts_download UuidText.parse UuidText.to_string
  Model.gstep Model.grun Model.frame Model.app_step Model.build_full_sync Model.independent
  Observe.peer_of Observe.init_global Observe.entities Observe.comps_of Observe.parent_of Observe.marked
  Observe.lookup_ent Observe.u2e_list Observe.e2u_list Observe.ptok_list Observe.inbox_of Observe.inbox_all Observe.pending_cmds
  Observe.find_by_uuid Observe.count_by_uuid Entities.step Entities.init Entities.get_ents Entities.get_link Entities.set_link Entities.quiescentb Values.vstep Values.vinit Values.pcur Values.link Values.vquiescentb Values.ptoken Values.poutq Values.ds_from Values.jr_from Values.vconn ValuesPremise.causally_ordered Parents.writers_drain_separated Parents.pconn ParentsPremise.causally_ordered Parents.pstep Parents.pinit Parents.ppar Parents.plink Parents.pquiescentb Parents.ppexists Assets.astep Assets.ainit Assets.pstore Assets.pserved Assets.ppending Assets.link Assets.aquiescentb Assets.pexists Assets.mstep Assets.minit Assets.mpstore Assets.mquiescentb Assets.mlink Assets.mconn UniquePremise.frame_freshb UniquePremise.uuid_uniqueb Downloads.dstep Downloads.dinit Downloads.phase_of Downloads.dquietb Downloads.flights Downloads.present Promotion.step Promotion.session Promotion.promoted Promotion.explore Promotion.explore_h Promotion.roles Promotion.stableb Promotion.events_of Promotion.handed_overb Observe.assets_list Observe.cache_list Observe.cache_lookup Observe.pending_list Types.T_SKIN
  MeshCodec.mesh_to_bin_fast MeshCodec.bin_to_mesh_fast ImageCodec.image_to_bin_fast ImageCodec.bin_to_image_fast
  ProtoCodec.encode_fast ProtoCodec.decode_fast Schema.enc_reflect_fast Schema.dec_reflect_fast
  Schema.enc_fast Schema.dec_fast Lz4.compress Lz4.decompress.
