(* translator failed: respond: match arms not in the expected shape (0) *)
Definition translator_failed_Routes : False := I.
