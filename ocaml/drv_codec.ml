(* Codec correspondence (C11, C12, C13): replays the cases the Rust harness ran on the real
   mesh_to_bin / bin_to_mesh, image_to_bin / bin_to_image, Message bincode and reflect_to_bin /
   bin_to_reflect (bsh codec-mesh | codec-image | codec-msg | codec-reflect) on the extracted Coq
   model and reports every difference:
     model encoder bytes       = the bytes the real encoder produced
     model decoder of those    = what the real decoder returned (field-wise, bit-wise)
   For reflect cases the wire schema (ty=) and the value (val=) are parsed into Schema.ty / val. *)
open Model
open Drv_common

let n_of_num (s : string) : n =
  if String.length s <= 17 then n_of_int (int_of_string s) else n_of_decimal s

let rec nat_of_int (k : int) : nat = if k <= 0 then O else S (nat_of_int (k - 1))

(* little-endian groups of [w] bytes of a hex string -> numbers *)
let words_of_hex (w : int) (s : string) : n list =
  if s = "-" then []
  else begin
    let nb = String.length s / 2 in
    let byte i = hexval s.[2 * i] * 16 + hexval s.[2 * i + 1] in
    let cnt = nb / w in
    let rec go k acc =
      if k < 0 then acc
      else begin
        let v = ref 0 in
        for j = w - 1 downto 0 do v := !v * 256 + byte (k * w + j) done;
        go (k - 1) (n_of_int !v :: acc)
      end
    in
    go (cnt - 1) []
  end

let rec group (k : int) (l : n list) : n list list =
  (* tail recursive grouping *)
  let rec take i l acc = if i = 0 then (List.rev acc, l) else match l with x :: r -> take (i - 1) r (x :: acc) | [] -> (List.rev acc, []) in
  let rec go l acc = match l with [] -> List.rev acc | _ -> let g, r = take k l [] in go r (g :: acc) in
  go l []

let hexdigits = "0123456789abcdef"
let add_le (b : Buffer.t) (w : int) (x : n) =
  let v = ref (int_of_n x) in
  for _ = 1 to w do
    let byte = !v land 255 in
    Buffer.add_char b hexdigits.[byte lsr 4];
    Buffer.add_char b hexdigits.[byte land 15];
    v := !v lsr 8
  done

let fast_hex (l : n list) : string =
  if l = [] then "-"
  else begin
    let b = Buffer.create 4096 in
    List.iter (fun x -> add_le b 1 x) l;
    Buffer.contents b
  end

(* key=value fields of a line (after the tag and the index) *)
let fields (ws : string list) : (string * string) list =
  List.map
    (fun w ->
      match String.index_opt w '=' with
      | Some i -> (String.sub w 0 i, String.sub w (i + 1) (String.length w - i - 1))
      | None -> (w, ""))
    ws

let field fs k = try List.assoc k fs with Not_found -> failwith ("missing field " ^ k)

(* ---------- meshes --------------------------------------------------------------------------- *)
(* harness numbering of the topologies (fixed in harness/src/codec.rs, independent of /repo) *)
let topo_of_num = function
  | "0" -> PointList | "1" -> LineList | "2" -> LineStrip | "3" -> TriangleList | "4" -> TriangleStrip
  | s -> failwith ("topology " ^ s)
let num_of_topo = function
  | PointList -> "0" | LineList -> "1" | LineStrip -> "2" | TriangleList -> "3" | TriangleStrip -> "4"

(* (key, VertexAttributeValues variant Bevy fixes for the attribute, components, bytes) *)
let attr_keys =
  [ ("pos", "Float32x3", 3, 4); ("nor", "Float32x3", 3, 4); ("uv0", "Float32x2", 2, 4); ("uv1", "Float32x2", 2, 4);
    ("tan", "Float32x4", 4, 4); ("col", "Float32x4", 4, 4); ("jw", "Float32x4", 4, 4); ("ji", "Uint16x4", 4, 2) ]

exception Unsupported of string

let parse_attr fs (key, variant, k, w) : n list list option =
  match field fs key with
  | "~" -> None
  | v ->
      let i = String.index v ':' in
      let var = String.sub v 0 i and hex = String.sub v (i + 1) (String.length v - i - 1) in
      if var <> variant then raise (Unsupported (Printf.sprintf "%s holds %s" key var));
      Some (group k (words_of_hex w hex))

let split_colon v =
  let i = String.index v ':' in
  (String.sub v 0 i, String.sub v (i + 1) (String.length v - i - 1))

let parse_mesh (ws : string list) : mesh =
  let fs = fields ws in
  let a = List.map (parse_attr fs) attr_keys in
  let nth = List.nth a in
  let indices =
    match field fs "idx" with
    | "~" -> INone
    | v -> (match split_colon v with
            | "U16", h -> IU16 (words_of_hex 2 h)
            | "U32", h -> IU32 (words_of_hex 4 h)
            | k, _ -> failwith ("idx " ^ k))
  in
  let morph =
    match field fs "morph" with
    | "~" -> MNone
    | "S" -> MStrong
    | v -> (match split_colon v with
            | "W", h -> MWeakUuid (bytes_of_hex h)
            | "I", d ->
                let bits = Int64.of_string ("0u" ^ d) in
                let gen = Int64.to_int (Int64.shift_right_logical bits 32)
                and idx = Int64.to_int (Int64.logand bits 0xffffffffL) in
                MWeakIndex (n_of_int gen, n_of_int idx)
            | k, _ -> failwith ("morph " ^ k))
  in
  let names =
    match field fs "names" with
    | "~" -> None
    | v ->
        let _, l = split_colon v in
        if l = "" then Some [] else Some (List.map bytes_of_hex (String.split_on_char ',' l))
  in
  { topo = topo_of_num (field fs "topo"); positions = nth 0; normals = nth 1; uvs0 = nth 2; uvs1 = nth 3;
    tangents = nth 4; colors = nth 5; joint_weights = nth 6; joint_indices = nth 7; indices; morph;
    morph_names = names }

(* the harness' text form of a model mesh *)
let mesh_text (m : mesh) : string =
  let b = Buffer.create 4096 in
  Buffer.add_string b ("topo=" ^ num_of_topo m.topo);
  let attrs = [ m.positions; m.normals; m.uvs0; m.uvs1; m.tangents; m.colors; m.joint_weights; m.joint_indices ] in
  List.iter2
    (fun (key, variant, _k, w) a ->
      Buffer.add_string b (" " ^ key ^ "=");
      match a with
      | None -> Buffer.add_char b '~'
      | Some l ->
          Buffer.add_string b (variant ^ ":");
          if l = [] then Buffer.add_char b '-' else List.iter (fun v -> List.iter (add_le b w) v) l)
    attr_keys attrs;
  Buffer.add_string b " idx=";
  (match m.indices with
   | INone -> Buffer.add_char b '~'
   | IU16 l -> Buffer.add_string b "U16:"; if l = [] then Buffer.add_char b '-' else List.iter (add_le b 2) l
   | IU32 l -> Buffer.add_string b "U32:"; if l = [] then Buffer.add_char b '-' else List.iter (add_le b 4) l);
  Buffer.add_string b " morph=";
  (match m.morph with
   | MNone -> Buffer.add_char b '~'
   | MStrong -> Buffer.add_char b 'S'
   | MWeakUuid u -> Buffer.add_string b ("W:" ^ fast_hex u)
   | MWeakIndex (g, i) ->
       let bits = Int64.logor (Int64.shift_left (Int64.of_int (int_of_n g)) 32) (Int64.of_int (int_of_n i)) in
       Buffer.add_string b (Printf.sprintf "I:%Lu" bits));
  Buffer.add_string b " names=";
  (match m.morph_names with
   | None -> Buffer.add_char b '~'
   | Some l -> Buffer.add_string b ("n:" ^ String.concat "," (List.map fast_hex l)));
  Buffer.contents b

let rest_of_line (line : string) (skip : int) : string =
  (* the text after the first [skip] space separated words *)
  let i = ref 0 and k = ref 0 in
  while !k < skip && !i < String.length line do
    (match String.index_from_opt line !i ' ' with Some j -> i := j + 1 | None -> i := String.length line);
    incr k
  done;
  String.sub line !i (String.length line - !i)

let short s = if String.length s > 120 then String.sub s 0 120 ^ "..." else s

let first_difference a b =
  let n = min (String.length a) (String.length b) in
  let i = ref 0 in
  while !i < n && a.[!i] = b.[!i] do incr i done;
  Printf.sprintf "lengths %d/%d, first difference at char %d" (String.length a) (String.length b) !i

let codec_mesh file =
  let cur : (string * mesh option) ref = ref ("", None) in
  (* the model decodes the REAL bytes (kept from the MESHBIN line), not its own *)
  let bin : (string * string) ref = ref ("", "") in
  let bad : (string * string) ref = ref ("", "") in
  List.iter
    (fun line ->
      if String.length line > 5 && String.sub line 0 5 = "MESH " then begin
        match split_ws line with
        | "MESH" :: i :: ws ->
            (try cur := (i, Some (parse_mesh ws))
             with Unsupported why -> cur := (i, None); diff "mesh %s: outside the modelled domain (%s)" i why)
        | _ -> ()
      end
      else if String.length line > 8 && String.sub line 0 8 = "MESHBIN " then begin
        match split_ws line with
        | [ _; i; hex ] ->
            bin := (i, hex);
            (match !cur with
             | j, Some m when j = i ->
                 incr checked;
                 (match mesh_to_bin_fast m with
                  | Some bs ->
                      let mh = fast_hex bs in
                      if mh <> hex then diff "mesh %s: real mesh_to_bin bytes differ from the model's (%s)" i (first_difference hex mh)
                  | None -> diff "mesh %s: the model cannot encode this mesh" i)
             | _ -> ())
        | _ -> ()
      end
      else if String.length line > 8 && String.sub line 0 8 = "MESHDEC " then begin
        match split_ws line with
        | _ :: i :: _ ->
            let real = rest_of_line line 2 in
            (match !bin with
             | j, hex when j = i ->
                 incr checked;
                 (match bin_to_mesh_fast (bytes_of_hex hex) with
                  | Ok m ->
                      let mt = mesh_text m in
                      if mt <> real then diff "mesh %s: real bin_to_mesh differs from the model's (%s): real %s | model %s" i (first_difference real mt) (short real) (short mt)
                  | Panic -> diff "mesh %s: the model panics (decompress) on the real bytes" i
                  | Stuck -> diff "mesh %s: the model decoder is stuck on the real bytes" i)
             | _ -> diff "mesh %s: MESHDEC without MESHBIN" i)
        | _ -> ()
      end
      else if String.length line > 8 && String.sub line 0 8 = "MESHBAD " then begin
        match split_ws line with
        | [ _; i; hex ] -> bad := (i, if hex = "-" then "" else hex)
        | _ -> ()
      end
      else if String.length line > 11 && String.sub line 0 11 = "MESHBADDEC " then begin
        (* a truncated download: the real decoder and the model must do the same with the prefix *)
        match split_ws line with
        | _ :: i :: _ ->
            let real = rest_of_line line 2 in
            (match !bad with
             | j, hex when j = i ->
                 incr checked;
                 (match bin_to_mesh_fast (bytes_of_hex hex) with
                  | Ok m ->
                      let mt = mesh_text m in
                      if real = "PANIC" then diff "mesh %s: the real decoder PANICS on a truncated download (%d bytes), the model returns %s" i (String.length hex / 2) (short mt)
                      else if mt <> real then diff "mesh %s: truncated download: real bin_to_mesh differs from the model's: real %s | model %s" i (short real) (short mt)
                  | Panic -> if real <> "PANIC" then diff "mesh %s: truncated download: the model panics, the real decoder returns %s" i (short real)
                  | Stuck -> diff "mesh %s: the model decoder is stuck on a truncated download" i)
             | _ -> ())
        | _ -> ()
      end)
    (read_lines file)

(* ---------- images ---------------------------------------------------------------------------- *)
let dim_of_num = function "1" -> Dim1 | "2" -> Dim2 | "3" -> Dim3 | s -> failwith ("dimension " ^ s)
let num_of_dim = function Dim1 -> "1" | Dim2 -> "2" | Dim3 -> "3"

(* fmt= is bincode::serialize(&format) = u64 length + name; the model carries the name *)
let name_of_fmt (hex : string) : n list option =
  let b = bytes_of_hex hex in
  let rec split k l acc = if k = 0 then (List.rev acc, l) else match l with x :: r -> split (k - 1) r (x :: acc) | [] -> (List.rev acc, []) in
  let len, name = split 8 b [] in
  let l = List.fold_right (fun x acc -> acc * 256 + int_of_n x) len 0 in
  if List.length len = 8 && l = List.length name then Some name else None

let fmt_of_name (name : n list) : string =
  let b = Buffer.create 64 in
  add_le b 8 (n_of_int (List.length name));
  List.iter (add_le b 1) name;
  Buffer.contents b

let parse_image (ws : string list) : image option =
  let fs = fields ws in
  match name_of_fmt (field fs "fmt") with
  | None -> None
  | Some name ->
      Some { width = n_of_num (field fs "w"); height = n_of_num (field fs "h"); depth_or_layers = n_of_num (field fs "d");
             dim = dim_of_num (field fs "dim"); format = name; data = bytes_of_hex (field fs "data") }

let image_text (i : image) : string =
  Printf.sprintf "w=%s h=%s d=%s dim=%s fmt=%s data=%s" (decimal_of_n i.width) (decimal_of_n i.height)
    (decimal_of_n i.depth_or_layers) (num_of_dim i.dim) (fmt_of_name i.format) (fast_hex i.data)

let codec_image file =
  let cur : (string * image option) ref = ref ("", None) in
  let bin : (string * string) ref = ref ("", "") in
  let ibad : (string * string) ref = ref ("", "") in
  List.iter
    (fun line ->
      match split_ws line with
      | "IMG" :: i :: ws ->
          (match parse_image ws with
           | Some im -> cur := (i, Some im)
           | None -> cur := (i, None); diff "image %s: the format does not serialize as a string" i)
      | [ "IMGBIN"; i; hex ] ->
          bin := (i, hex);
          (match !cur with
           | j, Some im when j = i ->
               incr checked;
               (match image_to_bin_fast im, hex with
                | Some bs, "NONE" -> diff "image %s: real image_to_bin returned None, the model %d bytes" i (List.length bs)
                | Some bs, _ ->
                    let mh = fast_hex bs in
                    if mh <> hex then diff "image %s: real image_to_bin bytes differ from the model's (%s)" i (first_difference hex mh)
                | None, _ -> diff "image %s: the model cannot encode this image" i)
           | _ -> ())
      | "IMGDEC" :: i :: _ ->
          let real = rest_of_line line 2 in
          (match !bin with
           | j, hex when j = i && hex <> "NONE" ->
               incr checked;
               (match bin_to_image_fast (bytes_of_hex hex) with
                | Ok (Some im) ->
                    let mt = image_text im in
                    if mt <> real then diff "image %s: real bin_to_image differs from the model's (%s): real %s | model %s" i (first_difference real mt) (short real) (short mt)
                | Ok None -> if real <> "NONE" then diff "image %s: the model decoder returns None, the real one %s" i (short real)
                | Panic -> diff "image %s: the model panics (decompress) on the real bytes" i
                | Stuck -> diff "image %s: the model decoder is stuck on the real bytes" i)
           | _ -> ())
      | [ "IMGBAD"; i; hex ] -> ibad := (i, if hex = "-" then "" else hex)
      | "IMGBADDEC" :: i :: _ ->
          let real = rest_of_line line 2 in
          (match !ibad with
           | j, hex when j = i ->
               incr checked;
               (match bin_to_image_fast (bytes_of_hex hex) with
                | Ok (Some im) ->
                    let mt = image_text im in
                    if mt <> real then diff "image %s: truncated download: real bin_to_image gives %s, the model %s" i (short real) (short mt)
                | Ok None -> if real <> "NONE" then diff "image %s: truncated download: the model decoder returns None, the real one %s" i (short real)
                | Panic -> if real <> "PANIC" then diff "image %s: truncated download: the model panics, the real decoder returns %s" i (short real)
                | Stuck -> diff "image %s: the model decoder is stuck on a truncated download" i)
           | _ -> ())
      | _ -> ())
    (read_lines file)

(* ---------- messages ---------------------------------------------------------------------------- *)
let parse_msg (ws : string list) : wmsg =
  let h = bytes_of_hex in
  match ws with
  | [ "spawn"; id ] -> W_EntitySpawn (h id)
  | [ "parented"; a; b ] -> W_EntityParented (h a, h b)
  | [ "delete"; id ] -> W_EntityDelete (h id)
  | [ "comp"; id; name; data ] -> W_ComponentUpdated (h id, h name, h data)
  | [ "mat"; id; data ] -> W_StandardMaterialUpdated (h id, h data)
  | [ "mesh"; id; url ] -> W_MeshUpdated (h id, h url)
  | [ "image"; id; url ] -> W_ImageUpdated (h id, h url)
  | [ "audio"; id; url ] -> W_AudioUpdated (h id, h url)
  | [ "promote" ] -> W_PromoteToHost
  | [ "newhost"; "4"; o; p; w; t ] -> W_NewHost (IpV4 (h o), n_of_num p, n_of_num w, n_of_num t)
  | [ "newhost"; "6"; o; p; w; t ] -> W_NewHost (IpV6 (h o), n_of_num p, n_of_num w, n_of_num t)
  | [ "reqinit" ] -> W_RequestInitialSync
  | [ "fininit" ] -> W_FinishedInitialSync
  | _ -> failwith ("message " ^ String.concat " " ws)

let msg_text (m : wmsg) : string =
  let h = fast_hex in
  match m with
  | W_EntitySpawn id -> "spawn " ^ h id
  | W_EntityParented (a, b) -> Printf.sprintf "parented %s %s" (h a) (h b)
  | W_EntityDelete id -> "delete " ^ h id
  | W_ComponentUpdated (id, n, d) -> Printf.sprintf "comp %s %s %s" (h id) (h n) (h d)
  | W_StandardMaterialUpdated (id, d) -> Printf.sprintf "mat %s %s" (h id) (h d)
  | W_MeshUpdated (id, u) -> Printf.sprintf "mesh %s %s" (h id) (h u)
  | W_ImageUpdated (id, u) -> Printf.sprintf "image %s %s" (h id) (h u)
  | W_AudioUpdated (id, u) -> Printf.sprintf "audio %s %s" (h id) (h u)
  | W_PromoteToHost -> "promote"
  | W_NewHost (IpV4 o, p, w, t) -> Printf.sprintf "newhost 4 %s %s %s %s" (h o) (decimal_of_n p) (decimal_of_n w) (decimal_of_n t)
  | W_NewHost (IpV6 o, p, w, t) -> Printf.sprintf "newhost 6 %s %s %s %s" (h o) (decimal_of_n p) (decimal_of_n w) (decimal_of_n t)
  | W_RequestInitialSync -> "reqinit"
  | W_FinishedInitialSync -> "fininit"

let codec_msg file =
  let cur : (string * wmsg option) ref = ref ("", None) in
  let bin : (string * string) ref = ref ("", "") in
  List.iter
    (fun line ->
      match split_ws line with
      | "MSG" :: i :: ws -> cur := (i, Some (parse_msg ws))
      | [ "MSGBIN"; i; hex ] ->
          bin := (i, hex);
          (match !cur with
           | j, Some m when j = i ->
               incr checked;
               (match encode_fast m with
                | Some bs ->
                    let mh = fast_hex bs in
                    if mh <> hex then diff "msg %s: real bincode bytes %s, model %s" i (short hex) (short mh)
                | None -> diff "msg %s: the model cannot encode this message" i)
           | _ -> ())
      | "MSGDEC" :: i :: _ ->
          let real = rest_of_line line 2 in
          (match !bin with
           | j, hex when j = i ->
               incr checked;
               (match decode_fast (bytes_of_hex hex) with
                | Some m ->
                    let mt = msg_text m in
                    if mt <> real then diff "msg %s: real decode %s, model %s" i (short real) (short mt)
                | None -> if real <> "NONE" then diff "msg %s: the model decoder fails, the real one returns %s" i (short real))
           | _ -> ())
      | _ -> ())
    (read_lines file)

(* ---------- reflect: schema and value syntax ------------------------------------------------------ *)
(* ty  ::= U | B | C | Y | X | I<bytes> | O(ty) | S(ty) | A<n>(ty) | T(ty,..) | E(ty|..)
   val ::= u | b0 | b1 | c<scalar> | i<decimal> | y<hex> | o~ | o(val) | s(val,..) | a(val,..)
         | t(val,..) | e<index>(val)
   X (an opaque type without ReflectSerialize, the serializer errors on it) is the empty enum:
   no value inhabits it. *)
let parse_ty (s : string) : ty =
  let pos = ref 0 in
  let peek () = if !pos < String.length s then s.[!pos] else '\000' in
  let eat c = if peek () = c then incr pos else failwith (Printf.sprintf "ty: expected %c at %d in %s" c !pos (short s)) in
  let number () =
    let st = !pos in
    while (match peek () with '0' .. '9' -> true | _ -> false) do incr pos done;
    int_of_string (String.sub s st (!pos - st))
  in
  let rec ty () : ty =
    let c = peek () in
    incr pos;
    match c with
    | 'U' -> TUnit
    | 'B' -> TBool
    | 'C' -> TChar
    | 'Y' -> TBytes
    | 'X' -> TEnum []
    | 'I' -> TInt (nat_of_int (number ()))
    | 'O' -> eat '('; let t = ty () in eat ')'; TOpt t
    | 'S' -> eat '('; let t = ty () in eat ')'; TSeq t
    | 'A' -> let k = number () in eat '('; let t = ty () in eat ')'; TArr (nat_of_int k, t)
    | 'T' -> eat '('; let l = list ',' in TTuple l
    | 'E' -> eat '('; let l = list '|' in TEnum l
    | _ -> failwith (Printf.sprintf "ty: unexpected %c at %d in %s" c !pos (short s))
  and list sep : ty list =
    if peek () = ')' then (incr pos; [])
    else begin
      let acc = ref [ ty () ] in
      while peek () = sep do incr pos; acc := ty () :: !acc done;
      eat ')';
      List.rev !acc
    end
  in
  let t = ty () in
  if !pos <> String.length s then failwith ("ty: trailing text in " ^ short s);
  t

let parse_val (s : string) : val0 =
  let pos = ref 0 in
  let peek () = if !pos < String.length s then s.[!pos] else '\000' in
  let eat c = if peek () = c then incr pos else failwith (Printf.sprintf "val: expected %c at %d" c !pos) in
  let token ok =
    let st = !pos in
    while !pos < String.length s && ok s.[!pos] do incr pos done;
    String.sub s st (!pos - st)
  in
  let digits () = token (function '0' .. '9' -> true | _ -> false) in
  let rec value () : val0 =
    let c = peek () in
    incr pos;
    match c with
    | 'u' -> VUnit
    | 'b' -> let d = digits () in VBool (d = "1")
    | 'c' -> VChar (n_of_num (digits ()))
    | 'i' -> VInt (n_of_num (digits ()))
    | 'y' -> VBytes (bytes_of_hex (token (function '0' .. '9' | 'a' .. 'f' | '-' -> true | _ -> false)))
    | 'o' -> if peek () = '~' then (incr pos; VOpt None) else (eat '('; let v = value () in eat ')'; VOpt (Some v))
    | 's' -> eat '('; VSeq (list ())
    | 'a' -> eat '('; VArr (list ())
    | 't' -> eat '('; VTuple (list ())
    | 'e' -> let k = digits () in eat '('; let v = value () in eat ')'; VEnum (n_of_num k, v)
    | _ -> failwith (Printf.sprintf "val: unexpected %c at %d in %s" c !pos (short s))
  and list () : val0 list =
    if peek () = ')' then (incr pos; [])
    else begin
      let acc = ref [ value () ] in
      while peek () = ',' do incr pos; acc := value () :: !acc done;
      eat ')';
      List.rev !acc
    end
  in
  let v = value () in
  if !pos <> String.length s then failwith ("val: trailing text in " ^ short s);
  v

let codec_reflect file =
  let cur : (string * (n list * ty * val0) option) ref = ref ("", None) in
  let dec : (string * val0 option) ref = ref ("", None) in
  List.iter
    (fun line ->
      match split_ws line with
      | "REFL" :: i :: ws ->
          let fs = fields ws in
          cur := (i, Some (bytes_of_hex (field fs "path"), parse_ty (field fs "ty"), parse_val (field fs "val")))
      | [ "REFLBIN"; i; hex ] ->
          (match !cur with
           | j, Some (path, t, v) when j = i ->
               incr checked;
               (match enc_reflect_fast path t v with
                | Some bs ->
                    let mh = fast_hex bs in
                    if mh <> hex then diff "reflect %s: real reflect_to_bin bytes differ from the model's (%s)" i (first_difference hex mh)
                | None -> diff "reflect %s: the value does not inhabit the schema the registry gives (model cannot encode)" i);
               incr checked;
               let lookup p = if p = path then Some t else None in
               (match dec_reflect_fast lookup (bytes_of_hex hex) with
                | Some ((p, v'), rest) ->
                    if p <> path then diff "reflect %s: the model decodes another type path" i;
                    if rest <> [] then diff "reflect %s: %d bytes left after the model decoded the value" i (List.length rest);
                    if v' <> v then diff "reflect %s: the model decodes the real bytes to a different value" i;
                    dec := (i, Some v')
                | None -> dec := (i, None); diff "reflect %s: the model decoder rejects the real bytes" i)
           | _ -> ())
      | "REFLCHK" :: i :: ws ->
          let fs = fields ws in
          (match !dec with
           | j, Some v' when j = i ->
               incr checked;
               let real = parse_val (field fs "dec") in
               if real <> v' then diff "reflect %s: real bin_to_reflect value differs from the model's" i
           | _ -> ())
      | _ -> ())
    (read_lines file)
