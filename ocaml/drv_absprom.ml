(* Tie of the event-level promotion model (Abs/Promotion.v) to the real code. The model's events
   are finer than frames (state systems, renet notifications, single deliveries), so the tie is a
   REACHABILITY check: after the host (peer 0) of a fully connected session of n clients promotes
   client k, the extracted `explore` computes every state the model can reach; after EVERY real
   frame the observable projection of the real session — per peer: server transport present,
   ServerState, clients_id() (when hosting), client transport present, ClientState, RenetClient
   connected (when a client transport exists), host_promotion_in_progress — must be the projection
   of one of them, and the final observation must be the projection of a STABLE model state.
   A second promotion (2-peer chain: the new host promotes the old one back) is explored from every
   stable state of the first hand-over that matches the observation at that moment.
   Traces outside the premises (promotion by a non-host, peers not all connected, more than 3 clients,
   transports removed by the application, late joins after the promotion) print ABSSKIP. *)
open Model
open Drv_common

type obs = { srvt : bool; srv : string; clients : int list; clit : bool; cli : string; link : bool; promo : bool }

let absprom file =
  let lines = Array.of_list (read_lines file) in
  let nl = Array.length lines in
  let rec nat_of_int x = if x <= 0 then O else S (nat_of_int (x - 1)) in
  let npeers = ref 0 in
  let setup : (int, bool) Hashtbl.t = Hashtbl.create 8 in
  let obs : (int, obs) Hashtbl.t = Hashtbl.create 8 in
  let reach : (pstate0 list) option ref = ref None in
  let promotions = ref 0 in
  let skip = ref None in
  let frames_checked = ref 0 in
  let lagged = ref 0 in
  let kv rest = List.map (fun x -> match String.index_opt x '=' with
      | Some k -> (String.sub x 0 k, String.sub x (k + 1) (String.length x - k - 1)) | None -> (x, "")) rest in
  let ints s = if s = "-" || s = "" then [] else List.sort compare (List.map int_of_string (String.split_on_char ',' s)) in
  (* projection of a model state, peers in increasing order *)
  let proj_model (s : pstate0) : (int * obs) list =
    List.sort compare (List.map (fun (p, r) ->
        let (((((((hosting, srv_state), cl), client_of), cli_state), link_up), _sticky), flag) = r in
        (int_of_n p,
         { srvt = hosting; srv = (match srv_state with SDisconnected -> "D" | SConnected -> "C");
           clients = (if hosting then List.sort compare (List.map int_of_n cl) else []);
           clit = (match client_of with Some _ -> true | None -> false);
           cli = (match cli_state with CDisconnected -> "D" | CConnecting -> "G" | CConnected -> "C");
           link = (match client_of with Some _ -> link_up | None -> false); promo = flag })) (roles s)) in
  let proj_real () : (int * obs) list =
    List.sort compare (Hashtbl.fold (fun p o acc -> (p, { o with clients = (if o.srvt then o.clients else []); link = o.clit && o.link }) :: acc) obs []) in
  let show (l : (int * obs) list) =
    String.concat " | " (List.map (fun (p, o) -> Printf.sprintf "%d: srvt=%b server=%s clients=[%s] clit=%b client=%s link=%b promo=%b" p o.srvt o.srv
                                      (String.concat "," (List.map string_of_int o.clients)) o.clit o.cli o.link o.promo) l) in
  let fuel = nat_of_int 200000 in
  let explore_from starts = match promotion_explore fuel starts with Some r -> r | None -> failwith "explore: out of fuel" in
  let last_line = ref 0 in
  let check lineno =
    match !reach with
    | None -> ()
    | Some r ->
        incr checked; incr frames_checked; last_line := lineno;
        (* clients_id() is recorded as the frame's Update saw it and a RenetClient learns of its link
           only in its own next frame: both lag behind the model's atomic events, so the per-frame
           comparison leaves them out (they are compared in the final, idle state) *)
        let coarse l = List.map (fun (p, o) -> (p, { o with clients = []; link = false })) l in
        (* ServerState / ClientState are published one frame after the system that requested them ran
           (NextState), while the model changes them atomically with the request: a frame whose states
           lag is accepted if transports and flags alone match (counted as lagged) *)
        let coarser l = List.map (fun (p, o) -> (p, { o with clients = []; link = false; srv = ""; cli = "" })) l in
        let real = coarse (proj_real ()) in
        if List.exists (fun s -> coarse (proj_model s) = real) r then ()
        else if List.exists (fun s -> coarser (proj_model s) = coarser real) r then incr lagged
        else
          diff "line %d: after this frame the session shows { %s } which is the projection of no state the promotion model can reach" lineno (show real) in
  let i = ref 0 in
  (try
    while !i < nl do
      let w = split_ws lines.(!i) in
      (match w with
       | "PEERS" :: k :: _ -> npeers := int_of_string k
       | "OP" :: p :: "setup" :: _ ->
           let pi = int_of_string p in
           if !reach <> None || Hashtbl.mem setup pi then (skip := Some "a peer is set up after a promotion or twice"; raise Exit);
           Hashtbl.replace setup pi true
       | "OP" :: _ :: ("removetransports" | "reconnect") :: _ -> skip := Some "transports changed by the application"; raise Exit
       | [ "OP"; p; "promote"; k ] ->
           let pi = int_of_string p and ki = int_of_string k in
           incr promotions;
           let n = Hashtbl.length setup - 1 in
           if n < 1 || n > 3 then (skip := Some "promotion in a session of more than 3 clients (not explored)"; raise Exit);
           if !promotions = 1 then begin
             if pi <> 0 then (skip := Some "first promotion not issued by the initial host"; raise Exit);
             (* premise: every peer connected: the real observation before the request is the projection of `session n` *)
             let s0 = session (nat_of_int n) in
             if proj_model s0 <> proj_real () then (skip := Some "the session is not fully connected when the promotion is requested"; raise Exit);
             reach := Some (explore_from [ promoted (nat_of_int n) (n_of_int ki) ])
           end else begin
             match !reach with
             | None -> ()
             | Some r ->
                 let real = proj_real () in
                 let starts = List.filter (fun s -> stableb s && proj_model s = real) r in
                 if starts = [] then (skip := Some "second promotion requested before the first hand-over was stable"; raise Exit);
                 let nexts = List.filter_map (fun s -> step2 s (EPromote (n_of_int pi, n_of_int ki))) starts in
                 if nexts = [] then (skip := Some "second promotion not enabled in the model (requested by a peer that is not the host)"; raise Exit);
                 reach := Some (explore_from nexts)
           end
       | [ "FRAME"; p ] ->
           let pi = int_of_string p in
           let block = ref [] in
           incr i;
           while !i < nl && lines.(!i) <> "END" do block := lines.(!i) :: !block; incr i done;
           let block = List.rev !block in
           let net = ref None and st = ref None and trk = ref None in
           List.iter (fun l -> match split_ws l with
               | "NET" :: _ :: rest -> net := Some (kv rest)
               | "ST" :: _ :: rest -> st := Some (kv rest)
               | "TRK" :: _ :: rest -> trk := Some (kv rest)
               | _ -> ()) block;
           (match !net, !st with
            | Some n, Some s ->
                let g k l = try List.assoc k l with Not_found -> "" in
                Hashtbl.replace obs pi
                  { srvt = g "srvt" n = "1"; srv = g "server" s; clients = ints (g "clients" n); clit = g "clit" n = "1";
                    cli = g "client" s; link = g "status" n = "connected";
                    promo = (match !trk with Some t -> g "promo" t = "1" | None -> false) };
                check (!i + 1)
            | _ -> ())
       | _ -> ());
      incr i
    done
  with Exit -> ());
  (match !skip, !reach with
   | Some why, _ -> Printf.printf "ABSSKIP %s\n" why
   | None, Some r ->
       (* the run ends after a long idle stretch: the final observation must be a stable model state *)
       incr checked;
       let real = proj_real () in
       (* nothing but a renet time-out (15 s of wall-clock silence, never reached in a run) may be pending *)
       let settled s = List.for_all (fun e -> match e with ETimeout _ -> true | _ -> step2 s e = None) (events_of s) in
       if not (List.exists (fun s -> settled s && proj_model s = real) r) then
         diff "line %d: the final session { %s } is the projection of no settled state (nothing pending but a time-out) of the promotion model" !last_line (show real)
   | None, None -> Printf.printf "ABSSKIP no promotion in this trace\n");
  Printf.printf "ABSFRAMES %d LAGGED %d STATES %d\n" !frames_checked !lagged (match !reach with Some r -> List.length r | None -> 0)
