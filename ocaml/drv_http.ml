open Model
open Drv_common

(* ---------- http ----------------------------------------------------------------------- *)
let class_of = function "mesh" -> CMesh | "image" -> CImage | "audio" -> CAudio | _ -> failwith "class"

let http file =
  let cs = ref empty_caches in
  let th = ref N0 in
  let lineno = ref 0 in
  List.iter
    (fun line ->
      incr lineno;
      match split_ws line with
      | "EP" :: _v6 :: t :: _ -> th := n_of_decimal t
      | [ "PUB"; k; id; body; url ] ->
          let k = class_of k and id = nibbles_of_hex id in
          cs := serve !cs k id (bytes_of_hex body);
          (* the advertised URL ends with the model's path *)
          let path = hex_of_bytes (path_of k id) in
          let urlhex = hex_of_bytes (List.init (String.length url) (fun i -> bytes_small.(Char.code url.[i]))) in
          incr checked;
          let lp = String.length path and lu = String.length urlhex in
          if lu < lp || String.sub urlhex (lu - lp) lp <> path then diff "line %d: advertised url %s does not end with model path" !lineno url
      | [ "CACHED"; k; id; body ] ->
          incr checked;
          let got = lookup (cache_of !cs (class_of k)) (nibbles_of_hex id) in
          let m = match got with Some b -> hex_of_bytes b | None -> "none" in
          if m <> body then diff "line %d: cache holds %s, model %s" !lineno body m
      | "GET" :: _meth :: h10 :: target :: "->" :: rest ->
          incr checked;
          let r = respond1 !cs (fun _ -> false) !th (h10 = "1") (bytes_of_hex target) in
          let model =
            match r with
            | R200 (body, Some l) -> Printf.sprintf "200 len:%s %s" (decimal_of_n l) (hex_of_bytes body)
            | R200 (body, None) -> Printf.sprintf "200 chunked %s" (hex_of_bytes body)
            | R404 -> "404"
            | R449 -> "449"
            | R500dropped -> "500"
          in
          let real =
            match rest with
            | [ "200"; cl; body ] -> Printf.sprintf "200 %s %s" cl body
            | st :: _ -> st
            | [] -> "noanswer"
          in
          if model <> real then diff "line %d: %s : real %s, model %s" !lineno line real model
      | _ -> ())
    (read_lines file)


