open Model
open Drv_common

(* ---------- proto: replay of a real scenario trace on the model ----------------------------- *)
let rec nat_of_int (x : int) : nat = if x <= 0 then O else S (nat_of_int (x - 1))
let rec int_of_nat (x : nat) : int = match x with O -> 0 | S y -> 1 + int_of_nat y
let nd s = n_of_decimal s
let ds x = decimal_of_n x

let sysid_of_string (s : string) : sysid option =
  match s with
  | "FixVisibility" -> Some SFixVisibility | "FixGlobalTransform" -> Some SFixGlobalTransform
  | "FixCubemapFrusta" -> Some SFixCubemapFrusta | "FixCubemapVisible" -> Some SFixCubemapVisible
  | "FixSpotFrustum" -> Some SFixSpotFrustum | "FixCascadesFrusta" -> Some SFixCascadesFrusta
  | "FixCascadesVisible" -> Some SFixCascadesVisible | "FixCascades" -> Some SFixCascades
  | "FixCascadeShadowCfg" -> Some SFixCascadeShadowCfg
  | "SrvConnected" -> Some SSrvConnected | "SrvDisconnected" -> Some SSrvDisconnected
  | "SrvRemoved" -> Some SSrvRemoved | "SrvCreated" -> Some SSrvCreated | "SrvParented" -> Some SSrvParented
  | "SrvReact" -> Some SSrvReact | "SrvMat" -> Some SSrvMat | "SrvImg" -> Some SSrvImg | "SrvMesh" -> Some SSrvMesh
  | "SrvAudio" -> Some SSrvAudio | "SrvPromote" -> Some SSrvPromote
  | "SrvClientConnected" -> Some SSrvClientConnected | "SrvPoll" -> Some SSrvPoll
  | "CliConnecting" -> Some SCliConnecting | "CliVerify" -> Some SCliVerify | "CliDisconnected" -> Some SCliDisconnected
  | "CliRemoved" -> Some SCliRemoved | "CliCreated" -> Some SCliCreated | "CliParented" -> Some SCliParented
  | "CliReact" -> Some SCliReact | "CliMat" -> Some SCliMat | "CliImg" -> Some SCliImg | "CliMesh" -> Some SCliMesh
  | "CliAudio" -> Some SCliAudio | "CliPoll" -> Some SCliPoll
  | "ProcMesh" -> Some SProcMesh | "ProcImage" -> Some SProcImage | "ProcAudio" -> Some SProcAudio
  | "Sync" -> Some SSync
  | _ ->
      if String.length s > 7 && String.sub s 0 7 = "Detect:" then Some (SDetect (nd (String.sub s 7 (String.length s - 7))))
      else if String.length s > 4 && String.sub s 0 4 = "App:" then Some (SApp (nd (String.sub s 4 (String.length s - 4))))
      else None

let script_limit = nd "4294967296"
let n_lt a b = (N.ltb a b)

let split_on c s = if s = "-" || s = "" then [] else String.split_on_char c s

(* value syntax: decimal | skin[h1;h2][p1;p2] | mapper[u1;u2][p1] *)
let parse_value (s : string) : value =
  let inner s pre =
    (* pre[..][..] *)
    let l = String.length pre in
    let body = String.sub s l (String.length s - l) in
    let close1 = String.index body ']' in
    let a = String.sub body 1 (close1 - 1) in
    let rest = String.sub body (close1 + 1) (String.length body - close1 - 1) in
    let b = String.sub rest 1 (String.length rest - 2) in
    (List.filter (fun x -> x <> "") (String.split_on_char ';' a), List.filter (fun x -> x <> "") (String.split_on_char ';' b))
  in
  if String.length s > 5 && String.sub s 0 5 = "skin[" then
    let a, b = inner s "skin" in
    VSkin (List.map (fun x -> nd (String.sub x 1 (String.length x - 1))) a, List.map nd b)
  else if String.length s > 7 && String.sub s 0 7 = "mapper[" then
    let a, b = inner s "mapper" in
    VMapper (List.map nd a, List.map nd b)
  else VN (nd s)

let kv (w : string) : string * string =
  match String.index_opt w '=' with
  | Some i -> (String.sub w 0 i, String.sub w (i + 1) (String.length w - i - 1))
  | None -> (w, "")

let proto file =
  let lines = Array.of_list (read_lines file) in
  let nlines = Array.length lines in
  let g = ref (init_global O) in
  let prev_clients : (int, int list) Hashtbl.t = Hashtbl.create 8 in
  let prev_status : (int, string) Hashtbl.t = Hashtbl.create 8 in
  let frames = ref 0 in
  let ever_pending : (int * aclass * n * n, bool) Hashtbl.t = Hashtbl.create 16 in
  let fresh_yes = ref 0 and fresh_no = ref 0 and dup_states = ref 0 in
  let served_hist : (n * aclass * n, n list) Hashtbl.t = Hashtbl.create 16 in
  let get p = match peer_of !g (n_of_int p) with Some pr -> pr | None -> failwith "no such peer" in
  let ident pr (e : n) : string =
    if n_lt e script_limit then "h" ^ ds e
    else match lookup_ent pr e with
      | Some en -> (match en.en_sync with Some u -> "r" ^ ds u | None -> "anon")
      | None -> "dead" in
  let resolve pr p (h : n) : n option =
    (* script entity of this peer, else the replica carrying the uuid *)
    match lookup_ent pr h with
    | Some _ -> Some h
    | None -> find_by_uuid pr h in
  let owners : (string, int) Hashtbl.t = Hashtbl.create 16 in
  let msg_string pr (m : msg) : string =
    let value_string v =
      match v with
      | VN x -> ds x
      | VSkin (j, ps) -> Printf.sprintf "skin[%s][%s]" (String.concat ";" (List.map (ident pr) j)) (String.concat ";" (List.map ds ps))
      | VMapper (j, ps) -> Printf.sprintf "mapper[%s][%s]" (String.concat ";" (List.map ds j)) (String.concat ";" (List.map ds ps)) in
    match m with
    | MSpawn u -> "spawn " ^ ds u
    | MParented (c, p) -> Printf.sprintf "parented %s %s" (ds c) (ds p)
    | MDelete u -> "delete " ^ ds u
    | MComp (u, t, v) -> Printf.sprintf "comp %s %s %s" (ds u) (ds t) (value_string v)
    | MMaterial (a, v) -> Printf.sprintf "mat %s %s" (ds a) (ds v)
    | MAsset (k, a, o) -> Printf.sprintf "asset %s %s %s" (match k with AMesh -> "mesh" | AImage -> "image" | AAudio -> "audio") (ds a) (ds o)
    | MPromote -> "promote"
    | MNewHost _ -> "newhost"
    | MReqInit -> "reqinit"
    | MFinInit -> "fininit" in
  let canon_real (ws : string list) : string =
    (* drop the url of asset messages and the port of newhost: not compared *)
    match ws with
    | "asset" :: k :: a :: o :: _ -> Printf.sprintf "asset %s %s %s" k a o
    | "newhost" :: _ -> "newhost"
    | _ -> String.concat " " ws in
  (* uuids the harness could not name (entity gone before it was observed): bound to the model's
     handle the first time a message with the same shape is at the matching position *)
  let alias : (string, string) Hashtbl.t = Hashtbl.create 8 in
  let is_unknown w = String.length w = 9 && w.[0] = 'u' in
  let subst_alias (m : string) : string =
    String.concat " " (List.map (fun w -> if is_unknown w then (try Hashtbl.find alias w with Not_found -> w) else w) (String.split_on_char ' ' m)) in
  let try_bind (real : string) (model : string) : bool =
    let rw = String.split_on_char ' ' real and mw = String.split_on_char ' ' model in
    if List.length rw <> List.length mw then false
    else begin
      let ok = List.for_all2 (fun r m -> r = m || (is_unknown r && not (Hashtbl.mem alias r))) rw mw in
      if ok then List.iter2 (fun r m -> if r <> m then Hashtbl.replace alias r m) rw mw;
      ok
    end in
  let i = ref 0 in
  let where () = Printf.sprintf "line %d" (!i + 1) in
  while !i < nlines do
    let w = split_ws lines.(!i) in
    (match w with
     | "PEERS" :: n :: _ -> g := init_global (nat_of_int (int_of_string n))
     | "OP" :: p :: rest ->
         let pi = int_of_string p in
         let pn = n_of_int pi in
         let pr = get pi in
         let app op = g := gstep !g (StApp (pn, op)) in
         (match rest with
          | [ "setup" ] -> app (OSetup (pi = 0, N0))
          | [ "reconnect" ] -> app (OSetup (false, N0))
          | [ "reg"; t ] -> app (OReg (nd t))
          | [ "switches"; a; b; c ] -> app (OSwitches (a = "1", b = "1", c = "1"))
          | "spawn" :: h :: marked :: comps ->
              Hashtbl.replace owners h pi;
              let cs = List.map (fun tv -> let t, v = (match String.index_opt tv ':' with Some k -> (String.sub tv 0 k, String.sub tv (k + 1) (String.length tv - k - 1)) | None -> failwith "tv") in (nd t, parse_value v)) comps in
              app (OSpawn (nd h, marked = "1", cs))
          | [ "mark"; h ] -> (match resolve pr pi (nd h) with Some e -> app (OMark e) | None -> ())
          | [ "despawn"; h ] -> (match resolve pr pi (nd h) with Some e -> app (ODespawn e) | None -> ())
          | [ "write"; h; t; v ] -> (match resolve pr pi (nd h) with Some e -> app (OWrite (e, nd t, parse_value v)) | None -> ())
          | [ "excl"; h; t; on ] -> (match resolve pr pi (nd h) with Some e -> app (OExclude (e, nd t, on = "1")) | None -> ())
          | [ "parent"; c; par ] ->
              (match resolve pr pi (nd c), resolve pr pi (nd par) with
               | Some ce, Some pe -> if ce <> pe then app (OSetParent (ce, pe))
               | _ -> ())
          | [ "removetransports" ] -> app ORemoveTransports
          | [ "addasset"; k; a; v ] ->
              let kind = (match k with "0" -> KMaterial | "1" -> KClass AMesh | "2" -> KClass AImage | _ -> KClass AAudio) in
              app (OAddAsset (kind, nd a, nd v))
          | "addasset_index" :: _ -> ()
          | [ "promote"; c ] -> app (OPromote (nd c))
          | [ "appcmd"; n; "despawn"; h ] -> (match resolve pr pi (nd h) with Some e -> app (OAppCmd (nd n, CAppDespawn e)) | None -> ())
          | [ "appcmd"; n; "insert"; h; t; v ] -> (match resolve pr pi (nd h) with Some e -> app (OAppCmd (nd n, CAppInsert (e, nd t, parse_value v))) | None -> ())
          | [ "skin"; h; joints; poses ] ->
              (match resolve pr pi (nd h) with
               | Some e ->
                   let js = List.filter_map (fun j -> resolve pr pi (nd j)) (split_on ',' joints) in
                   app (OWrite (e, t_SKIN, VSkin (js, List.map nd (split_on ',' poses))))
               | None -> ())
          | _ -> diff "%s: unknown op %s" (where ()) lines.(!i))
     | [ "FRAME"; p ] ->
         incr frames;
         let pi = int_of_string p in
         let pn = n_of_int pi in
         (* collect the block *)
         let block = ref [] in
         incr i;
         while !i < nlines && lines.(!i) <> "END" do block := lines.(!i) :: !block; incr i done;
         let block = List.rev !block in
         let find pre = List.filter (fun l -> let ws = split_ws l in ws <> [] && List.hd ws = pre) block in
         List.iter (fun l -> match split_ws l with
             | _ :: _ :: names ->
                 let ids = List.filter_map (fun s -> match sysid_of_string s with Some x -> Some x | None -> diff "unknown system %s" s; None) names in
                 (* schedule audit: a change detector exists only for a type this peer registered
                    with sync_component (hypothesis order_ok of the C04 theorems) *)
                 List.iter (fun sid -> match sid with
                     | SDetect t -> incr checked;
                         if not (List.mem t (get pi).p_sync_types) then diff "schedule audit: peer %d runs a change detector for type %s it never registered" pi (ds t)
                     | _ -> ()) ids;
                 g := gstep !g (StApp (pn, OSetOrder ids))
             | _ -> ()) (find "ORD");
         List.iter (fun l -> match split_ws l with
             | [ _; _; ts ] -> g := gstep !g (StApp (pn, OSetRegistry (List.map nd (split_on ',' ts))))
             | [ _; _ ] -> g := gstep !g (StApp (pn, OSetRegistry []))
             | _ -> ()) (find "REGISTRY");
         (* connection oracle *)
         let clients, status =
           match find "NET" with
           | l :: _ ->
               let ws = List.map kv (split_ws l) in
               let c = List.map int_of_string (split_on ',' (List.assoc "clients" ws)) in
               (c, List.assoc "status" ws)
           | [] -> ([], "none") in
         let self_kicked = List.filter_map (fun l -> match split_ws l with
             | _ :: _ :: from :: "newhost" :: _ -> (try Some (int_of_string from) with _ -> None)
             | _ -> None) (find "RCV") in
         (* clients_id() as the frame's Update first saw it: what is left afterwards plus the client
            this peer disconnected itself while handling its NewHost message *)
         let clients_pre = clients in
         let evs =
           match find "NET" with
           | l :: _ ->
               let ws = List.map kv (split_ws l) in
               List.filter_map (fun e ->
                   if e = "" then None
                   else
                     let c = String.sub e 1 (String.length e - 1) in
                     (try Some (e.[0] = '+', n_of_int (int_of_string c)) with _ -> None))
                 (split_on ',' (try List.assoc "events" ws with Not_found -> "-"))
           | [] -> [] in
         let st = match status with "connected" -> Some RConnected | "connecting" -> Some RConnecting | "disconnected" -> Some RDisconnected | _ -> None in
         let st = if pi = 0 && (try Hashtbl.find prev_status pi with Not_found -> "") = status then None else st in
         Hashtbl.replace prev_status pi status;
         (* received messages: align the model's links with the real arrival order *)
         let rcvs = List.map (fun l -> match split_ws l with _ :: _ :: from :: m -> (from, canon_real m) | _ -> ("?", "")) (find "RCV") in
         let pr = get pi in
         let host_of_client = match pr.n_cli_transport with Some (h, _) -> int_of_n h | None -> 0 in
         let consumed : (int, int) Hashtbl.t = Hashtbl.create 4 in
         let froms = ref [] in
         List.iter (fun (from, m) ->
             let src = if from = "h" then host_of_client else (try int_of_string from with _ -> -1) in
             let k = try Hashtbl.find consumed src with Not_found -> 0 in
             let pr = get pi in
             let inbox = inbox_of pr (n_of_int src) in
             let strs = List.map (msg_string pr) inbox in
             let m = subst_alias m in
             let rec find_from idx l = match l with [] -> -1 | x :: r -> if idx >= k && x = m then idx else find_from (idx + 1) r in
             let pos = find_from 0 strs in
             let pos, m =
               if pos >= 0 then (pos, m)
               else begin
                 (* an unnamed uuid: bind it to the first not yet consumed model message of the same shape *)
                 let rec bind idx l = match l with
                   | [] -> -1
                   | x :: r -> if idx >= k && try_bind m x then idx else bind (idx + 1) r in
                 let p = bind 0 strs in
                 (p, subst_alias m)
               end in
             incr checked;
             if pos < 0 then
               diff "%s frame of peer %d: real received from %s `%s`, model link holds [%s]" (where ()) pi from m (String.concat " | " strs)
             else begin
               if pos <> k then begin
                 g := gstep !g (StReorder (pn, n_of_int src, nat_of_int pos, nat_of_int k));
                 let strs' = List.map (msg_string (get pi)) (inbox_of (get pi) (n_of_int src)) in
                 if List.nth strs' k <> m then
                   diff "%s frame of peer %d: real received `%s` from %s before messages it depends on; model link [%s]" (where ()) pi m from (String.concat " | " strs)
               end;
               Hashtbl.replace consumed src (k + 1);
               froms := src :: !froms
             end) rcvs;
         let froms = List.rev !froms in
         let dls = List.filter_map (fun l -> match split_ws l with
             | [ _; _; k; a; v ] -> (try Some (((match k with "1" -> AMesh | "2" -> AImage | _ -> AAudio), nd a), nd v) with _ -> None)
             | _ -> None) (find "DL") in
         let dls = List.map (fun ((k, a), v) -> ((k, a), v)) dls in
         (* downloads requested and not yet applied, after this frame (real): kind:asset:under-way *)
         let real_pending = List.concat_map (fun l -> match split_ws l with
             | [ _; _; "-" ] -> []
             | [ _; _; items ] -> List.filter_map (fun it -> match String.split_on_char ':' it with
                   | [ k; a; _ ] -> (try Some ((match k with "1" -> AMesh | "2" -> AImage | _ -> AAudio), nd a) with _ -> None)
                   | _ -> None) (String.split_on_char ',' items)
             | _ -> []) (find "PEND") in
         (* the registry of pending downloads logs its steps (REG lines, read in the same moment as PEND):
            the model forgets the requests of an id in the frame in which the real registry removed its
            entry (thread over, step 2, or applied, step 4, with the removed flag) - unless the id was
            requested again afterwards in the same frame (it is listed in PEND again) *)
         let removed = List.filter_map (fun l -> match split_ws l with
             | [ _; _; ("2" | "4"); k; a; _; "1" ] -> (try Some ((match k with "1" -> AMesh | "2" -> AImage | _ -> AAudio), nd a) with _ -> None)
             | _ -> None) (find "REG") in
         let forgotten ka = List.mem ka removed && not (List.mem ka real_pending) in
         let dls_flagged = List.map (fun ((k, a), v) -> (((k, a), Some v), forgotten (k, a))) dls
                           @ List.filter_map (fun ka -> if forgotten ka && not (List.exists (fun (ka', _) -> ka' = ka) dls) then Some ((ka, None), true) else None)
                               (List.sort_uniq compare removed) in
         (* request() runs inside the receiver: an announcement handled in THIS frame may already have
            its download applied by a process_*_assets system that runs later in the same frame *)
         List.iter (fun l -> match split_ws l with
             | [ _; _; _; "asset"; cls; a; o ] ->
                 (try
                    let k = (match cls with "mesh" -> AMesh | "image" -> AImage | _ -> AAudio) in
                    Hashtbl.replace ever_pending (pi, k, nd a, n_of_int (int_of_string o)) true
                  with _ -> ())
             | _ -> ()) (find "RCV");
         (* what a finished download delivered must be what the model says the advertised owner serves *)
         List.iter (fun ((k, a), v) ->
             (* downloads are asynchronous: the bytes were fetched at some moment between the request and
                now, so any content the advertised owner has served for the id since then is acceptable;
                two announcements of one id start two downloads *)
             let pend = pending_list (get pi) in
             List.iter (fun ((k', a'), o) -> Hashtbl.replace ever_pending (pi, k', a', o) true) pend;
             let owners = Hashtbl.fold (fun (p', k', a', o) _ acc -> if p' = pi && k' = k && a' = a then o :: acc else acc) ever_pending [] in
             incr checked;
             (match owners with
              | [] -> diff "%s frame of peer %d: a download of asset %s was applied that the model never started" (where ()) pi (ds a)
              | _ ->
                  let served o = try Hashtbl.find served_hist (o, k, a) with Not_found -> [] in
                  if not (List.exists (fun o -> List.mem v (served o)) owners) then
                    diff "%s frame of peer %d: downloaded asset %s has content %s, the model's owner(s) served %s" (where ()) pi (ds a) (ds v)
                      (String.concat "/" (List.map (fun o -> String.concat "," (List.map ds (served o))) owners)))) dls;
         let o = { fo_downloads = dls_flagged; fo_conn_events = evs; fo_clients = List.map n_of_int clients_pre; fo_status = st;
                   fo_srv_poll = (if pi = 0 || true then List.map n_of_int froms else []);
                   fo_cli_poll = nat_of_int (List.length froms) } in
         (* the premise of C01_at_most_one_entity_per_uuid (every arriving EntitySpawn is fresh), evaluated on the
            state before the frame: reported, never an alarm (the premise has known slack) *)
         (try (if frame_freshb (get pi) o then incr fresh_yes else incr fresh_no) with _ -> ());
         g := gstep !g (StFrame (pn, o));
         (try (if not (uuid_uniqueb (get pi)) then incr dup_states) with _ -> ());
         let pr = get pi in
         List.iter (fun ((kn, a), v) ->
             let k = if kn = n_of_int 1 then Some AMesh else if kn = n_of_int 2 then Some AImage else if kn = n_of_int 3 then Some AAudio else None in
             match k with
             | Some k -> let old = try Hashtbl.find served_hist (pn, k, a) with Not_found -> [] in
                 if not (List.mem v old) then Hashtbl.replace served_hist (pn, k, a) (v :: old)
             | None -> ()) (cache_list pr);
         List.iter (fun ((k', a'), o) -> Hashtbl.replace ever_pending (pi, k', a', o) true) (pending_list pr);
         (* the downloads requested and not yet applied are the same ids in the model and in the real registry *)
         if find "PEND" <> [] then begin
           let model_pending = List.sort_uniq compare (List.map (fun ((k', a'), _) -> (k', a')) (pending_list pr)) in
           let real_p = List.sort_uniq compare real_pending in
           incr checked;
           if model_pending <> real_p then
             diff "%s frame of peer %d: downloads requested and not yet applied: real [%s], model [%s]" (where ()) pi
               (String.concat "," (List.map (fun (_, a) -> ds a) real_p)) (String.concat "," (List.map (fun (_, a) -> ds a) model_pending))
         end;
         (* panic *)
         let real_panic = find "PANIC" in
         (match real_panic, pr.p_panic with
          | [], None -> ()
          | l :: _, Some _ -> incr checked
          | [], Some s -> diff "%s frame of peer %d: model panics, real code does not" (where ()) pi
          | l :: _, None -> diff "%s frame of peer %d: real code panics (%s), model does not" (where ()) pi l);
         if real_panic = [] && pr.p_panic = None then begin
           (* states *)
           let sst = (match pr.s_server with SrvConnected -> "C" | SrvDisconnected -> "D") in
           let cst = (match pr.s_client with CliConnected -> "C" | CliConnecting -> "G" | CliDisconnected -> "D") in
           let mst = Printf.sprintf "ST %d server=%s client=%s fin=%s" pi sst cst (ds pr.p_finished_events) in
           (match find "ST" with l :: _ -> incr checked; if l <> mst then diff "%s: real `%s` model `%s`" (where ()) l mst | [] -> ());
           (* tracker *)
           let u2e = List.sort compare (List.map (fun (u, _) -> ds u) (u2e_list pr)) in
           let ctok = List.sort compare (List.map (fun ((u, t), _) -> ds u ^ ":" ^ ds t) pr.t_ctok) in
           let dash l = if l = [] then "-" else String.concat "," l in
           let mtrk = Printf.sprintf "TRK %d u2e=%s e2u=%d queue=%d ctok=%s htok=%d ptok=%d promo=%d" pi (dash u2e)
               (List.length (e2u_list pr)) (List.length pr.t_queue) (dash ctok) (List.length pr.t_htok) (List.length (ptok_list pr)) (if pr.t_promo then 1 else 0) in
           (match List.map subst_alias (find "TRK") with l :: _ -> incr checked; if l <> mtrk then diff "%s: real `%s` model `%s`" (where ()) l mtrk | [] -> ());
           (* world *)
           let value_string v =
             match v with
             | VN x -> ds x
             | VSkin (j, ps) -> Printf.sprintf "skin[%s][%s]" (String.concat ";" (List.map (ident pr) j)) (String.concat ";" (List.map ds ps))
             | VMapper (j, ps) -> "mapper" in
           let elines = List.map (fun (e, en) ->
               let comps = List.sort compare (List.map (fun (t, v) -> (int_of_n t, value_string v)) (comps_of en)) in
               Printf.sprintf "E %d %s mark=%d sync=%s parent=%s children=%s excl=%s comps=%s" pi (ident pr e)
                 (if marked en then 1 else 0)
                 (match en.en_sync with Some u -> ds u | None -> "-")
                 (match parent_of en with Some q -> ident pr q | None -> "-")
                 (dash (List.sort compare (List.map (ident pr) en.en_children)))
                 (dash (List.map string_of_int (List.sort compare (List.map int_of_n en.en_excl))))
                 (dash (List.map (fun (t, v) -> Printf.sprintf "%d:%s" t v) comps))) (entities pr) in
           let alines = List.map (fun ((k, a), v) -> Printf.sprintf "AST %d %s %s %s" pi (ds k) (ds a) (ds v)) (assets_list pr) in
           let ma = List.sort compare alines and ra = List.sort compare (find "AST") in
           incr checked;
           if ma <> ra then begin
             let only a b = List.filter (fun x -> not (List.mem x b)) a in
             diff "%s frame of peer %d: assets differ; real only: [%s]; model only: [%s]" (where ()) pi
               (String.concat " || " (only ra ma)) (String.concat " || " (only ma ra))
           end;
           let me = List.sort compare elines and re = List.sort compare (find "E") in
           incr checked;
           if me <> re then begin
             let only a b = List.filter (fun x -> not (List.mem x b)) a in
             diff "%s frame of peer %d: world differs; real only: [%s]; model only: [%s]" (where ()) pi
               (String.concat " || " (only re me)) (String.concat " || " (only me re))
           end
         end
     | _ -> ());
    incr i
  done;
  (* at the end every model link must be empty iff the run ended quiescent (checked by caller through LEFT lines) *)
  let left = ref 0 in
  for p = 0 to 15 do
    match peer_of !g (n_of_int p) with
    | Some pr -> List.iter (fun (src, l) -> left := !left + List.length l;
                              if l <> [] then Printf.printf "LEFTOVER %s->%d: %s\n" (ds src) p (String.concat " | " (List.map (msg_string pr) l))) (inbox_all pr)
    | None -> ()
  done;
  Printf.printf "PREMISE spawns_fresh holds=%d fails=%d duplicate_states=%d\n" !fresh_yes !fresh_no !dup_states;
  Printf.printf "FRAMES %d LEFT %d\n" !frames !left

