(* Tie of the event-level entity model (Abs/Entities.v) to the real code: the atomic events of
   the entity slice are extracted from a real trace — a client appearing in the host's client
   table (EvConnect), a peer's tracker picking up a marked entity (EvSpawn, when the entity first
   shows a SyncEntity on its owner), a tracker noticing a local despawn (EvDespawn, when a uuid
   leaves the peer's uuid map without a delete message having been handled), one EvDeliver per
   received spawn / delete / reqinit / fininit — and replayed with the extracted `step`; every
   event must be enabled, every delivery must find the received message at the head of the
   model's link, and after every real frame the model's multiset of uuids of that peer must equal
   the observed one. *)
open Model
open Drv_common

let absent file =
  let lines = Array.of_list (read_lines file) in
  let st = ref init in
  let events = ref 0 in
  let nd s = n_of_decimal s and ds x = decimal_of_n x in
  let known_clients = ref [] in
  let announced : (string, bool) Hashtbl.t = Hashtbl.create 16 in   (* uuids already EvSpawn'ed *)
  let prev_u2e : (int, string list) Hashtbl.t = Hashtbl.create 8 in
  let pending_desp : (int * string, bool) Hashtbl.t = Hashtbl.create 8 in
  let step lineno ev what =
    incr events;
    match step1 !st ev with
    | Some s' -> st := s'
    | None -> diff "line %d: abstract event %s is not enabled in the entity model" lineno what in
  let kvs rest = List.map (fun x -> match String.index_opt x '=' with Some k -> (String.sub x 0 k, String.sub x (k + 1) (String.length x - k - 1)) | None -> (x, "")) rest in
  let is_num s = s <> "" && String.for_all (fun c -> c >= '0' && c <= '9') s in
  let i = ref 0 in
  let nl = Array.length lines in
  let skip = ref false in
  while !i < nl && not !skip do
    let w = split_ws lines.(!i) in
    (match w with
     | "OP" :: _ :: "promote" :: _ | "OP" :: _ :: "removetransports" :: _ | "OP" :: _ :: "appcmd" :: _ | "OP" :: _ :: "reconnect" :: _ -> skip := true   (* role changes / in-frame application commands: outside this replay *)
     | [ "OP"; p; "despawn"; h ] ->
         (* a despawn of an entity the peer does not hold is a no-op of the harness *)
         let pi = int_of_string p in
         if List.mem h (try Hashtbl.find prev_u2e pi with Not_found -> []) then Hashtbl.replace pending_desp (pi, h) true
     | [ "FRAME"; p ] ->
         let pi = int_of_string p in
         let pn = n_of_int pi in
         let block = ref [] in
         incr i;
         while !i < nl && lines.(!i) <> "END" do block := lines.(!i) :: !block; incr i done;
         let block = List.rev !block in
         let find pre = List.filter (fun l -> match split_ws l with x :: _ -> x = pre | [] -> false) block in
         if find "PANIC" <> [] then skip := true else begin
         (* host: new entries of its client table *)
         if pi = 0 then begin
           match find "NET" with
           | l :: _ ->
               let cl = (try List.assoc "clients" (kvs (split_ws l)) with Not_found -> "-") in
               let cs = if cl = "-" then [] else List.map int_of_string (String.split_on_char ',' cl) in
               List.iter (fun c -> if not (List.mem c !known_clients) then begin
                   known_clients := c :: !known_clients;
                   step (!i + 1) (EvConnect (n_of_int c)) (Printf.sprintf "connect %d" c) end) cs
           | [] -> ()
         end;
         (* what the frame received *)
         let rcvs = List.filter_map (fun l -> match split_ws l with
             | "RCV" :: _ :: from :: kind :: rest when List.mem kind [ "spawn"; "delete"; "reqinit"; "fininit" ] ->
                 Some ((if from = "h" then 0 else (try int_of_string from with _ -> -1)), kind, (match rest with u :: _ -> u | [] -> ""))
             | _ -> None) block in
         let deleted_by_msg = List.filter_map (fun (_, k, u) -> if k = "delete" then Some u else None) rcvs in
         let u2e_now = match find "TRK" with
           | l :: _ -> let v = (try List.assoc "u2e" (kvs (split_ws l)) with Not_found -> "-") in if v = "-" then [] else String.split_on_char ',' v
           | [] -> [] in
         (* local despawns noticed by the tracker in this frame *)
         let before = try Hashtbl.find prev_u2e pi with Not_found -> [] in
         List.iter (fun u ->
             let spawned_again = List.exists (fun (_, k, x) -> k = "spawn" && x = u) rcvs in
             if is_num u && not (List.mem u deleted_by_msg)
                && (not (List.mem u u2e_now) || (Hashtbl.mem pending_desp (pi, u) && spawned_again)) then begin
               Hashtbl.remove pending_desp (pi, u);
               step (!i + 1) (EvDespawn (pn, nd u)) (Printf.sprintf "despawn %s on %d" u pi) end) before;
         (* locally created entities picked up by the tracker in this frame: uuids in the map now that
            were neither there before nor received by a spawn message, announced once *)
         let spawned_by_msg = List.filter_map (fun (_, k, u) -> if k = "spawn" then Some u else None) rcvs in
         List.iter (fun u ->
             if is_num u && not (List.mem u before) && not (List.mem u spawned_by_msg) && not (Hashtbl.mem announced u) then begin
               Hashtbl.replace announced u true;
               step (!i + 1) (EvSpawn (pn, nd u)) (Printf.sprintf "spawn %s on %d" u pi) end) u2e_now;
         List.iter (fun (src, kind, u) ->
             incr checked;
             let real = kind ^ " " ^ u in
             (* sender iteration order (queries, hash sets, archetypes) is unspecified: bring the received
                message to the head of the model's link if everything before it concerns other uuids *)
             let str_of = function ESpawn x -> "spawn " ^ ds x | EDelete x -> "delete " ^ ds x | EReqInit -> "reqinit " | EFinInit -> "fininit " in
             let uuid_of = function ESpawn x | EDelete x -> Some x | _ -> None in
             (* a delete relayed in the same poll in which the host handled a RequestInitialSync: the real
                snapshot (built at the end of the frame) no longer contains the entity, the event model's
                atomic answer still does: deliver the model's extra `spawn u` right before its `delete u` *)
             (if kind = "delete" && is_num u then
                let q0 = get_link !st (n_of_int src) pn in
                let target = nd u in
                let rec idx k = function [] -> -1 | m :: r -> if m = EDelete target then k else idx (k + 1) r in
                let kd = idx 0 q0 in
                if kd > 0 then begin
                  let pre = List.filteri (fun j _ -> j < kd) q0 in
                  if List.mem (ESpawn target) pre && List.for_all (fun x -> x = EFinInit || x = ESpawn target || (match uuid_of x with Some y -> y <> target | None -> false)) pre then begin
                    let others = List.filter (fun x -> x <> ESpawn target) pre in
                    let post = List.filteri (fun j _ -> j >= kd) q0 in
                    st := set_link !st (n_of_int src) pn (ESpawn target :: post @ []);
                    (* keep the other messages behind: they are independent of u *)
                    st := set_link !st (n_of_int src) pn (ESpawn target :: (List.hd post) :: others @ List.tl post);
                    step (!i + 1) (EvDeliver (n_of_int src, pn)) (Printf.sprintf "deliver %d->%d (spawn %s, superseded by its delete)" src pi u)
                  end
                end);
             let q = get_link !st (n_of_int src) pn in
             (match q with
              | m0 :: _ when str_of m0 <> real && is_num u ->
                  let rec split acc = function
                    | [] -> None
                    | m :: rest -> if str_of m = real then Some (List.rev acc, m, rest) else split (m :: acc) rest in
                  (match split [] q with
                   (* EFinInit has no effect on the entity slice: a live relay handled in the same poll as a
                      RequestInitialSync leaves the host before the snapshot, which is built at the end of
                      the frame (deferred closure), while the event model answers the request atomically *)
                   | Some (pre, m, post) when List.for_all (fun x -> match uuid_of x with Some y -> Some y <> uuid_of m | None -> x = EFinInit) pre ->
                       st := set_link !st (n_of_int src) pn (m :: pre @ post)
                   | _ -> ())
              | _ -> ());
             let head = match get_link !st (n_of_int src) pn with
               | ESpawn x :: _ -> "spawn " ^ ds x | EDelete x :: _ -> "delete " ^ ds x
               | EReqInit :: _ -> "reqinit " | EFinInit :: _ -> "fininit " | [] -> "(empty)" in
             (* the harness names uuids it could not observe u<hex>: accept any uuid of the right kind there *)
             let matches = head = real || (not (is_num u) && u <> "" && String.length head > String.length kind && String.sub head 0 (String.length kind) = kind) in
             if not matches then diff "line %d: peer %d received `%s` from %d, the entity model's link has `%s` at its head (link: %s)" (!i + 1) pi real src head
                 (String.concat " | " (List.map str_of (get_link !st (n_of_int src) pn)));
             step (!i + 1) (EvDeliver (n_of_int src, pn)) (Printf.sprintf "deliver %d->%d (%s)" src pi real)) rcvs;
         Hashtbl.replace prev_u2e pi (List.filter (fun u -> not (List.mem u deleted_by_msg) || List.mem u u2e_now) u2e_now);
         (* observed multiset of uuids *)
         let observed = List.sort compare (List.filter_map (fun l -> match split_ws l with
             | "E" :: _ :: _ :: rest -> (match (try List.assoc "sync" (kvs rest) with Not_found -> "-") with "-" -> None | u -> Some u)
             | _ -> None) block) in
         let model = List.sort compare (List.map ds (get_ents !st pn)) in
         if find "ST" <> [] then begin
           incr checked;
           let obs_named = List.filter is_num observed in
           if List.length observed = List.length obs_named && obs_named <> model then
             diff "line %d: after this frame peer %d holds uuids [%s], the entity model says [%s]" (!i + 1) pi (String.concat "," observed) (String.concat "," model)
         end
         end
     | _ -> ());
    incr i
  done;
  Printf.printf "ABSEVENTS %d\n" !events
