(* Tie of the event-level value model (Abs/Values.v) to the real code: the atomic events of ONE
   component key are extracted from a real trace (application writes, one detector run + send per
   real frame of a peer that is set up, one delivery per received update of the key, a join when
   the host handles RequestInitialSync) and replayed with the extracted `vstep`; after every real
   frame the model's value of the key on that peer must equal the observed one, every delivery
   must find the received value at the head of the model's link, and every event must be enabled. *)
open Model
open Drv_common

let absval file handle tyid =
  let lines = Array.of_list (read_lines file) in
  let n = ref 0 in
  let st = ref None in
  let joined : (int, bool) Hashtbl.t = Hashtbl.create 8 in
  let setup : (int, bool) Hashtbl.t = Hashtbl.create 8 in
  let events = ref 0 in
  let init = ref None and evs = ref [] and lastw = ref None in
  let nd s = n_of_decimal s and ds x = decimal_of_n x in
  let ds_ = ds in
  let rec nat_of_int x = if x <= 0 then O else S (nat_of_int (x - 1)) in
  let state () = match !st with Some s -> s | None -> failwith "no state" in
  let step lineno ev what =
    incr events;
    evs := ev :: !evs;
    (match ev with VWrite (_, v) -> lastw := Some v | _ -> ());
    match vstep (state ()) ev with
    | Some s' -> st := Some s'
    | None -> diff "line %d: abstract event %s is not enabled in the value model" lineno what in
  let i = ref 0 in
  let nl = Array.length lines in
  while !i < nl do
    let w = split_ws lines.(!i) in
    (match w with
     | "PEERS" :: k :: _ ->
         n := int_of_string k;
         (* host + clients 1..n-1, all in the session from the start of the abstract run; late joiners
            are handled by VJoin only for peers beyond the initial ones: scenarios used here connect
            every peer before the first write *)
         st := Some (vinit (nat_of_int (!n - 1)));
         init := !st
     | "OP" :: p :: "setup" :: _ -> Hashtbl.replace setup (int_of_string p) true
     | [ "OP"; p; "write"; h; t; v ] when h = handle && t = tyid ->
         step (!i + 1) (VWrite (n_of_int (int_of_string p), nd v)) (Printf.sprintf "write %s by %s" v p)
     | "OP" :: p :: "spawn" :: h :: _ :: comps when h = handle ->
         List.iter (fun tv -> match String.split_on_char ':' tv with
             | [ t; v ] when t = tyid -> step (!i + 1) (VWrite (n_of_int (int_of_string p), nd v)) ("initial value " ^ v)
             | _ -> ()) comps
     | [ "FRAME"; p ] ->
         let pi = int_of_string p in
         let pn = n_of_int pi in
         let block = ref [] in
         incr i;
         while !i < nl && lines.(!i) <> "END" do block := lines.(!i) :: !block; incr i done;
         let block = List.rev !block in
         let connected = List.exists (fun l -> match split_ws l with
             | "ST" :: _ :: rest -> List.mem "server=C" rest || List.mem "client=C" rest
             | _ -> false) block in
         if Hashtbl.mem setup pi && connected then begin
           step (!i + 1) (VDetect pn) (Printf.sprintf "detect on %d" pi);
           step (!i + 1) (VSend pn) (Printf.sprintf "send on %d" pi)
         end;
         List.iter (fun l -> match split_ws l with
             | [ "RCV"; _; from; "comp"; h; t; v ] when h = handle && t = tyid ->
                 let src = if from = "h" then 0 else int_of_string from in
                 let head = match link (state ()) (n_of_int src) pn with x :: _ -> ds x | [] -> "(empty)" in
                 incr checked;
                 if head <> v then diff "line %d: peer %d received value %s for the key, the value model's link %d->%d has %s at its head" (!i + 1) pi v src pi head;
                 step (!i + 1) (VDeliver (n_of_int src, pn)) (Printf.sprintf "deliver %d->%d" src pi)
             | _ -> ()) block;
         (* observed value of the key on this peer *)
         let observed = List.fold_left (fun acc l -> match split_ws l with
             | "E" :: _ :: _ :: rest ->
                 let kvs = List.map (fun x -> match String.index_opt x '=' with Some k -> (String.sub x 0 k, String.sub x (k + 1) (String.length x - k - 1)) | None -> (x, "")) rest in
                 if (try List.assoc "sync" kvs = handle with Not_found -> false) then begin
                   let comps = try List.assoc "comps" kvs with Not_found -> "-" in
                   let found = List.fold_left (fun a tv -> match String.split_on_char ':' tv with
                       | [ t; v ] when t = tyid -> Some v | _ -> a) None (if comps = "-" then [] else String.split_on_char ',' comps) in
                   (match found with Some v -> Some v | None -> acc)
                 end else acc
             | _ -> acc) None block in
         let modelv = match pcur (state ()) pn with Some v -> Some (ds v) | None -> None in
         if List.exists (fun l -> match split_ws l with "E" :: _ -> true | "ST" :: _ -> true | _ -> false) block then begin
           incr checked;
           if observed <> modelv then
             diff "line %d: after this frame peer %d shows %s for the key, the value model says %s" (!i + 1) pi
               (match observed with Some v -> v | None -> "nothing") (match modelv with Some v -> v | None -> "nothing")
         end
     | [ "QUIESCENT" ] ->
         incr checked;
         if not (vquiescentb (state ())) then diff "line %d: the real run is quiescent, the value model is not" (!i + 1);
         (* the premises of the convergence theorems, evaluated on the event sequence of this real run *)
         (match !init with
          | Some s0 when !events > 0 ->
              let tr = List.rev !evs in
              let co = causally_ordered s0 tr in
              let ds = ds_from None s0 tr && jr_from [] s0 tr in
              Printf.printf "ABSPREMISE causal=%d drainsep=%d writes=%d\n" (if co then 1 else 0) (if ds then 1 else 0)
                (List.length (List.filter (fun e -> match e with VWrite _ -> true | _ -> false) tr));
              if ds && not co then diff "line %d: a drain-separated history is not causally ordered (C02_drain_separated_is_causal fails on it)" (!i + 1);
              if co && vquiescentb (state ()) then
                List.iter (fun p ->
                    incr checked;
                    if pcur (state ()) p <> !lastw then
                      diff "line %d: causally ordered history, quiescent, yet peer %s does not hold the last write in the value model (C02_causal_converge fails on it)" (!i + 1) (ds_ p)) (n_of_int 0 :: vconn (state ()))
          | _ -> ())
     | _ -> ());
    incr i
  done;
  ignore joined;
  Printf.printf "ABSEVENTS %d\n" !events
