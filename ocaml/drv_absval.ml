(* Tie of the event-level value model (Abs/Values.v) to the real code: the atomic events of ONE
   component key (entity handle, type) are extracted from a real trace and replayed with the
   extracted `vstep`. The session starts with the host alone (`vinit 0`); every happening of a real
   frame is placed at its position in the executable order of that frame (read from the schedule):
     OP p write h t v (between frames)              -> VWrite p v, at the line
     OP p appcmd k insert h t v                     -> VWrite p v at the flush that follows application
                                                       system k in p's next frame (the sync node if the
                                                       system runs before it, else the end of Update)
     one run of sync_detect::<T> per frame          -> VDetect p at the position of Detect:t
     one run of react_on_changed_components         -> VSend p at the position of SrvReact / CliReact
     RCV p from comp h t v                          -> VDeliver from p at the flush that follows the
                                                       receiver (the apply is a deferred command); the
                                                       received value must be the head of the model's link
     the host handles RequestInitialSync of c       -> VJoin c at the flush that follows the receiver
   What the host sends to a client that is transport-connected but whose RequestInitialSync it has
   not handled yet (the join window; in the model such a client is not in the session) is counted
   and skipped when that client receives it (it precedes the snapshot on the ordered link).
   After every real frame of a peer that has finished its join the model's value of the key on that
   peer must equal the observed one; at every real quiescent point the model must be quiescent and,
   when the executable premise of a convergence theorem holds of the event sequence, its conclusion
   must hold of the model. Histories outside the abstraction print ABSSKIP and are not compared: a
   write by a peer that has not joined, a joiner that knew the entity before its snapshot, despawn
   of the entity, promotion / re-connection. *)
open Model
open Drv_common

let absval file handle tyid =
  let lines = Array.of_list (read_lines file) in
  let nl = Array.length lines in
  let s0 = vinit O in
  let st = ref s0 in
  let events = ref 0 in
  let evs = ref [] and lastw = ref None in
  let skip = ref None in
  let setup : (int, bool) Hashtbl.t = Hashtbl.create 8 in
  let order : (int, string list) Hashtbl.t = Hashtbl.create 8 in
  let pending : (int, (int * string) list) Hashtbl.t = Hashtbl.create 8 in   (* application writes waiting for the next frame *)
  let pre : (int, int) Hashtbl.t = Hashtbl.create 8 in                        (* join-window messages on their way to a client *)
  let settled : (int, bool) Hashtbl.t = Hashtbl.create 8 in                   (* the client has received FinishedInitialSync *)
  let nd s = n_of_decimal s and ds x = decimal_of_n x in
  let get t p = try Hashtbl.find t p with Not_found -> 0 in
  let bail why = skip := Some why; raise Exit in
  let exists p = p = 0 || List.exists (fun q -> int_of_n q = p) (vconn !st) in
  let step lineno ev what =
    incr events;
    evs := ev :: !evs;
    (match ev with VWrite (_, v) -> lastw := Some v | _ -> ());
    match vstep !st ev with
    | Some s' -> st := s'
    | None -> diff "line %d: abstract event %s is not enabled in the value model" lineno what in
  let index l x = let rec go i = function [] -> -1 | y :: r -> if y = x then i else go (i + 1) r in go 0 l in
  let i = ref 0 in
  (try
    while !i < nl do
      let w = split_ws lines.(!i) in
      (match w with
       | "OP" :: p :: "setup" :: _ ->
           let pi = int_of_string p in
           if Hashtbl.mem setup pi then bail "a peer is set up twice (re-connection)";
           Hashtbl.replace setup pi true
       | "OP" :: _ :: ("promote" | "removetransports" | "reconnect") :: _ -> bail "promotion / transport removal / re-connection"
       | [ "OP"; _; "despawn"; h ] when h = handle -> bail "the entity of the key is despawned"
       | "OP" :: _ :: "appcmd" :: _ :: "despawn" :: h :: _ when h = handle -> bail "the entity of the key is despawned"
       | [ "OP"; _; "excl"; h; t; _ ] when h = handle && t = tyid -> bail "the key is excluded from synchronisation"
       | [ "OP"; p; "write"; h; t; v ] when h = handle && t = tyid ->
           let pi = int_of_string p in
           if not (exists pi) then bail "write by a peer that has not joined";
           step (!i + 1) (VWrite (n_of_int pi, nd v)) (Printf.sprintf "write %s by %s" v p)
       | [ "OP"; p; "appcmd"; k; "insert"; h; t; v ] when h = handle && t = tyid ->
           let pi = int_of_string p in
           if not (exists pi) then bail "write by a peer that has not joined";
           Hashtbl.replace pending pi ((try Hashtbl.find pending pi with Not_found -> []) @ [ (int_of_string k, v) ])
       | "OP" :: p :: "spawn" :: h :: _ :: comps when h = handle ->
           let pi = int_of_string p in
           List.iter (fun tv -> match String.split_on_char ':' tv with
               | [ t; v ] when t = tyid ->
                   if not (exists pi) then bail "write by a peer that has not joined";
                   step (!i + 1) (VWrite (n_of_int pi, nd v)) ("initial value " ^ v)
               | _ -> ()) comps
       | [ "QUIESCENT" ] ->
           incr checked;
           if not (vquiescentb !st) then diff "line %d: the real run is quiescent, the value model is not" (!i + 1);
           (* the premises of the convergence theorems, evaluated on the event sequence of this real run *)
           if !lastw <> None then begin
             let tr = List.rev !evs in
             let co = causally_ordered s0 tr in
             let dsep = ds_from None s0 tr && jr_from [] s0 tr in
             Printf.printf "ABSPREMISE causal=%d drainsep=%d writes=%d\n" (if co then 1 else 0) (if dsep then 1 else 0)
               (List.length (List.filter (fun e -> match e with VWrite _ -> true | _ -> false) tr));
             if dsep && not co then diff "line %d: a drain-separated history is not causally ordered (C02_drain_separated_is_causal fails on it)" (!i + 1);
             if co && vquiescentb !st then
               List.iter (fun p ->
                   incr checked;
                   if pcur !st p <> !lastw then
                     diff "line %d: causally ordered history, quiescent, yet peer %s does not hold the last write in the value model (C02_causal_converge fails on it)" (!i + 1) (ds p)) (n_of_int 0 :: vconn !st)
           end
       | [ "FRAME"; p ] ->
           let pi = int_of_string p in
           let pn = n_of_int pi in
           let block = ref [] in
           incr i;
           while !i < nl && lines.(!i) <> "END" do block := lines.(!i) :: !block; incr i done;
           let block = List.rev !block in
           List.iter (fun l -> match split_ws l with
               | "ORD" :: q :: o when int_of_string q = pi -> Hashtbl.replace order pi o
               | _ -> ()) block;
           let ord = try Hashtbl.find order pi with Not_found -> [] in
           let pos n = let k = index ord n in if k < 0 then 1000 else k in
           let connected = List.exists (fun l -> match split_ws l with
               | "ST" :: _ :: rest -> List.mem "server=C" rest || List.mem "client=C" rest
               | _ -> false) block in
           let srv = (pi = 0) in
           let sync = pos "Sync" in
           let poll = pos (if srv then "SrvPoll" else "CliPoll") in
           let flush_of sp = if sp < sync then sync else 2000 in
           (* clients the host's transport knows in this frame *)
           let net_clients = List.fold_left (fun acc l -> match split_ws l with
               | "NET" :: _ :: rest ->
                   List.fold_left (fun a x -> if String.length x > 8 && String.sub x 0 8 = "clients=" && x <> "clients=-"
                                              then List.map int_of_string (String.split_on_char ',' (String.sub x 8 (String.length x - 8))) else a) acc rest
               | _ -> acc) [] block in
           let window () = List.filter (fun c -> not (exists c)) net_clients in
           let acts = ref [] in
           let seq = ref 0 in
           let add position sys a = incr seq; acts := ((position, sys, !seq), a) :: !acts in
           if Hashtbl.mem setup pi && connected && exists pi then begin
             let d = pos ("Detect:" ^ tyid) in
             if d < 1000 then add d d `Detect;
             let r = pos (if srv then "SrvReact" else "CliReact") in
             if r < 1000 then add r r `Send
           end;
           (* application writes issued before this frame: applied at the flush after their system *)
           List.iter (fun (k, v) ->
               let sp = pos (Printf.sprintf "App:%d" k) in
               add (flush_of sp) sp (`Write v)) (try Hashtbl.find pending pi with Not_found -> []);
           Hashtbl.replace pending pi [];
           List.iter (fun l -> match split_ws l with
               | [ "RCV"; _; from; "comp"; h; t; v ] when h = handle && t = tyid ->
                   add (flush_of poll) poll (`Deliver ((if from = "h" then 0 else int_of_string from), v))
               | [ "RCV"; _; from; "reqinit" ] when srv -> add (flush_of poll) poll (`Join (int_of_string from))
               | [ "RCV"; _; _; "fininit" ] -> add (flush_of poll) poll `Fin
               | _ -> ()) block;
           let acts = List.sort compare !acts in
           List.iter (fun (_, a) -> match a with
               | `Detect -> step (!i + 1) (VDetect pn) (Printf.sprintf "detect on %d" pi)
               | `Send ->
                   if srv then begin
                     let k = List.length (poutq !st pn) in
                     List.iter (fun c -> Hashtbl.replace pre c (get pre c + k)) (window ())
                   end;
                   step (!i + 1) (VSend pn) (Printf.sprintf "send on %d" pi)
               | `Write v -> step (!i + 1) (VWrite (pn, nd v)) (Printf.sprintf "application write %s on %d" v pi)
               | `Fin -> Hashtbl.replace settled pi true
               | `Join c ->
                   (* send_initial_sync flushes the host's queue to every transport-connected client, the
                      joiner included (to the joiner it precedes the snapshot), then sends the snapshot *)
                   let k = List.length (poutq !st (n_of_int 0)) in
                   List.iter (fun c' -> Hashtbl.replace pre c' (get pre c' + k)) (window ());
                   step (!i + 1) (VJoin (n_of_int c)) (Printf.sprintf "join of %d" c)
               | `Deliver (src, v) ->
                   if get pre pi > 0 && src = 0 then Hashtbl.replace pre pi (get pre pi - 1)      (* sent before this client's snapshot *)
                   else if not (exists pi) then ()                                              (* not in the session: dropped by the real receiver too *)
                   else begin
                     let before = pcur !st pn in
                     let head = match link !st (n_of_int src) pn with x :: _ -> ds x | [] -> "(empty)" in
                     incr checked;
                     if head <> v then diff "line %d: peer %d received value %s for the key, the value model's link %d->%d has %s at its head" (!i + 1) pi v src pi head;
                     step (!i + 1) (VDeliver (n_of_int src, pn)) (Printf.sprintf "deliver %d->%d" src pi);
                     (* the host relays an applied update to the other clients: also to those in the join window *)
                     if srv && pcur !st pn <> before then
                       List.iter (fun c -> if c <> src then Hashtbl.replace pre c (get pre c + 1)) (window ())
                   end) acts;
           (* observed value of the key on this peer *)
           let observed = List.fold_left (fun acc l -> match split_ws l with
               | "E" :: _ :: _ :: rest ->
                   let kvs = List.map (fun x -> match String.index_opt x '=' with Some k -> (String.sub x 0 k, String.sub x (k + 1) (String.length x - k - 1)) | None -> (x, "")) rest in
                   if (try List.assoc "sync" kvs = handle with Not_found -> false) then begin
                     let comps = try List.assoc "comps" kvs with Not_found -> "-" in
                     let found = List.fold_left (fun a tv -> match String.split_on_char ':' tv with
                         | [ t; v ] when t = tyid -> Some v | _ -> a) None (if comps = "-" then [] else String.split_on_char ',' comps) in
                     (match found with Some v -> Some v | None -> acc)
                   end else acc
               | _ -> acc) None block in
           let has_state = List.exists (fun l -> match split_ws l with "E" :: _ -> true | "ST" :: _ -> true | _ -> false) block in
           if has_state && not srv && not (Hashtbl.mem settled pi) && observed <> None && (not (exists pi) || pcur !st pn = None) then
             bail "a joiner knew the entity before its snapshot (live spawn in the join window)";
           if has_state && exists pi && (srv || Hashtbl.mem settled pi) then begin
             let modelv = match pcur !st pn with Some v -> Some (ds v) | None -> None in
             incr checked;
             if observed <> modelv then
               diff "line %d: after this frame peer %d shows %s for the key, the value model says %s" (!i + 1) pi
                 (match observed with Some v -> v | None -> "nothing") (match modelv with Some v -> v | None -> "nothing")
           end
       | _ -> ());
      incr i
    done
  with Exit -> ());
  (match !skip with Some why -> Printf.printf "ABSSKIP %s\n" why | None -> ());
  Printf.printf "ABSEVENTS %d\n" !events
