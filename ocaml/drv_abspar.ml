(* Tie of the event-level parent-link model (Abs/Parents.v) to the real code: the atomic events of
   ONE synchronized child are extracted from a real trace and replayed with the extracted `pstep`:
     OP p parent <child> <par>          -> PSet p par
     the host handles RequestInitialSync -> PJoin c (in the order of the host's RCV lines)
     RCV p from parented <child> <par>  -> PDeliver from p (the received parent must be the head of
                                           the model's link from -> p)
     one run of entity_parented_on_{server,client} per real frame of a connected peer -> PAnnounce p,
       placed AFTER the frame's deliveries iff the frame's executable order runs the announcing
       system after the flush that applies the receiver's commands (receiver < sync node < announcer),
       BEFORE them otherwise (the link applied in this frame is seen by the next run).
   After every real frame the child's parent in the model must equal the observed one; at every
   real quiescent point the model must be quiescent; every event must be enabled.
   Histories outside the abstraction's premises (the child or a candidate parent not yet known on
   every peer when the operation is issued, despawns, promotion, re-connection) are reported as
   ABSSKIP, not compared. *)
open Model
open Drv_common

let abspar file child =
  let lines = Array.of_list (read_lines file) in
  let nl = Array.length lines in
  let st = ref (pinit O) in
  let events = ref 0 in
  let evs = ref [] and lastset = ref None in
  let skip = ref None in
  let fresh : (string, bool) Hashtbl.t = Hashtbl.create 16 in     (* spawned since the last quiescent point *)
  let setup : (int, bool) Hashtbl.t = Hashtbl.create 8 in
  let after : (int, bool) Hashtbl.t = Hashtbl.create 8 in         (* announcer runs after the receiver's flush *)
  let touched = ref false in
  let marked : (string, bool) Hashtbl.t = Hashtbl.create 16 in    (* handles spawned with SyncMark or marked later *)
  let known : (int, string list) Hashtbl.t = Hashtbl.create 8 in  (* synchronized handles on a peer after its last frame *)
  let nd s = n_of_decimal s and ds x = decimal_of_n x in
  let step lineno ev what =
    incr events;
    evs := ev :: !evs;
    (match ev with PSet (_, u) -> lastset := Some u | _ -> ());
    match pstep !st ev with
    | Some s' -> st := s'
    | None -> diff "line %d: abstract event %s is not enabled in the parent model" lineno what in
  let exists p = ppexists !st (n_of_int p) in
  let index l x = let rec go i = function [] -> -1 | y :: r -> if y = x then i else go (i + 1) r in go 0 l in
  let i = ref 0 in
  (try
    while !i < nl do
      let w = split_ws lines.(!i) in
      (match w with
       | "OP" :: p :: "setup" :: _ ->
           let pi = int_of_string p in
           if Hashtbl.mem setup pi then (skip := Some "a peer is set up twice (re-connection)"; raise Exit);
           Hashtbl.replace setup pi true
       | "OP" :: _ :: ("promote" | "removetransports" | "reconnect") :: _ ->
           skip := Some "promotion / transport removal / re-connection"; raise Exit
       | "OP" :: p :: "spawn" :: h :: m :: _ ->
           Hashtbl.replace fresh h true;
           if m <> "0" then begin
             Hashtbl.replace marked h true;
             let pi = int_of_string p in
             Hashtbl.replace known pi (h :: (try Hashtbl.find known pi with Not_found -> []))
           end
       | "OP" :: p :: "mark" :: h :: _ ->
           Hashtbl.replace fresh h true; Hashtbl.replace marked h true;
           let pi = int_of_string p in
           Hashtbl.replace known pi (h :: (try Hashtbl.find known pi with Not_found -> []))
       | "OP" :: _ :: "despawn" :: _ | "OP" :: _ :: "appcmd" :: _ ->
           if !touched then (skip := Some "despawn in a history of the child"; raise Exit) else ()
       | [ "OP"; p; "parent"; c; par ] when c = child ->
           if not (Hashtbl.mem marked c) then (skip := Some "the child is not synchronized"; raise Exit);
           if not (Hashtbl.mem marked par) then (skip := Some "the parent is not synchronized"; raise Exit);
           if Hashtbl.mem fresh c || Hashtbl.mem fresh par then
             (skip := Some "the child or the parent is not yet known on every peer"; raise Exit);
           let pi = int_of_string p in
           if not (exists pi) then (skip := Some "operation by a peer that has not joined yet"; raise Exit);
           touched := true;
           step (!i + 1) (PSet (n_of_int pi, nd par)) (Printf.sprintf "set parent %s by %d" par pi)
       | [ "QUIESCENT" ] ->
           Hashtbl.reset fresh;
           incr checked;
           if not (pquiescentb !st) then diff "line %d: the real run is quiescent, the parent model is not" (!i + 1);
           (* the premises of the convergence theorems, evaluated on the event sequence of this real run *)
           if !touched then begin
             let tr = List.rev !evs in
             let co = causally_ordered0 (pinit O) tr and wds = writers_drain_separated (pinit O) tr in
             Printf.printf "ABSPREMISE causal=%d drainsep=%d writes=%d\n" (if co then 1 else 0) (if wds then 1 else 0)
               (List.length (List.filter (fun e -> match e with PSet _ -> true | _ -> false) tr));
             if wds && not co then diff "line %d: a drain-separated history is not causally ordered (C05_drain_separated_is_causal fails on it)" (!i + 1);
             if co && pquiescentb !st then
               List.iter (fun p ->
                   incr checked;
                   if ppar !st p <> !lastset then
                     diff "line %d: causally ordered history, quiescent, yet peer %s does not have the last parent in the parent model (C05_causal_converge fails on it)" (!i + 1) (ds p)) (n_of_int 0 :: pconn !st)
           end
       | "ORD" :: p :: order ->
           let pi = int_of_string p in
           let poll = if pi = 0 then "SrvPoll" else "CliPoll" and ann = if pi = 0 then "SrvParented" else "CliParented" in
           let a = index order poll and b = index order "Sync" and c = index order ann in
           Hashtbl.replace after pi (a >= 0 && b >= 0 && c >= 0 && a < b && b < c)
       | [ "FRAME"; p ] ->
           let pi = int_of_string p in
           let pn = n_of_int pi in
           let block = ref [] in
           incr i;
           while !i < nl && lines.(!i) <> "END" do block := lines.(!i) :: !block; incr i done;
           let block = List.rev !block in
           List.iter (fun l -> match split_ws l with
               | "ORD" :: q :: order when int_of_string q = pi ->
                   let poll = if pi = 0 then "SrvPoll" else "CliPoll" and ann = if pi = 0 then "SrvParented" else "CliParented" in
                   let a = index order poll and b = index order "Sync" and c = index order ann in
                   Hashtbl.replace after pi (a >= 0 && b >= 0 && c >= 0 && a < b && b < c)
               | _ -> ()) block;
           let connected = List.exists (fun l -> match split_ws l with
               | "ST" :: _ :: rest -> List.mem "server=C" rest || List.mem "client=C" rest
               | _ -> false) block in
           let announces = Hashtbl.mem setup pi && connected && exists pi in
           let late = try Hashtbl.find after pi with Not_found -> false in
           if announces && not late then step (!i + 1) (PAnnounce pn) (Printf.sprintf "announce on %d" pi);
           let here = ref (try Hashtbl.find known pi with Not_found -> []) in
           List.iter (fun l -> match split_ws l with
               | [ "RCV"; _; _; "spawn"; h ] -> here := h :: !here
               | [ "RCV"; _; _; "parented"; c; par ] when c = child && not (List.mem c !here && List.mem par !here) ->
                   (* the real receiver returns early (entity unknown): nothing applied, nothing relayed;
                      this only happens to a client between its transport connection and its snapshot *)
                   if exists pi && !touched && pi = 0 then diff "line %d: the host dropped a link of the child (entity unknown)" (!i + 1)
               | [ "RCV"; _; from; "reqinit" ] when pi = 0 ->
                   let c = int_of_string from in
                   step (!i + 1) (PJoin (n_of_int c)) (Printf.sprintf "join of %d" c)
               | [ "RCV"; _; from; "parented"; c; par ] when c = child ->
                   let src = if from = "h" then 0 else int_of_string from in
                   let head = match plink !st (n_of_int src) pn with x :: _ -> ds x | [] -> "(empty)" in
                   incr checked;
                   if head <> par then diff "line %d: peer %d received parent %s for the child, the parent model's link %d->%d has %s at its head" (!i + 1) pi par src pi head;
                   step (!i + 1) (PDeliver (n_of_int src, pn)) (Printf.sprintf "deliver %d->%d" src pi)
               | _ -> ()) block;
           if announces && late && exists pi then step (!i + 1) (PAnnounce pn) (Printf.sprintf "announce on %d" pi);
           (* observed parent of the child on this peer *)
           let seen = ref false in
           let ks = List.fold_left (fun acc l -> match split_ws l with
               | "E" :: _ :: _ :: rest ->
                   List.fold_left (fun a x -> if String.length x > 5 && String.sub x 0 5 = "sync=" && x <> "sync=-" then String.sub x 5 (String.length x - 5) :: a else a) acc rest
               | _ -> acc) [] block in
           if List.exists (fun l -> match split_ws l with "ST" :: _ -> true | _ -> false) block then Hashtbl.replace known pi ks;
           let observed = List.fold_left (fun acc l -> match split_ws l with
               | "E" :: _ :: _ :: rest ->
                   let kvs = List.map (fun x -> match String.index_opt x '=' with Some k -> (String.sub x 0 k, String.sub x (k + 1) (String.length x - k - 1)) | None -> (x, "")) rest in
                   if (try List.assoc "sync" kvs = child with Not_found -> false) then begin
                     seen := true;
                     let pv = try List.assoc "parent" kvs with Not_found -> "-" in
                     if pv = "-" then None else Some (String.sub pv 1 (String.length pv - 1))
                   end else acc
               | _ -> acc) None block in
           if !seen && exists pi then begin
             incr checked;
             let modelv = match ppar !st pn with Some v -> Some (ds v) | None -> None in
             if observed <> modelv then
               diff "line %d: after this frame peer %d shows parent %s for the child, the parent model says %s" (!i + 1) pi
                 (match observed with Some v -> v | None -> "none") (match modelv with Some v -> v | None -> "none")
           end
       | _ -> ());
      incr i
    done
  with Exit -> ());
  (match !skip with Some why -> Printf.printf "ABSSKIP %s\n" why | None -> ());
  Printf.printf "ABSEVENTS %d\n" !events
