(* Tie of the model of the registry of pending downloads (Abs/Downloads.v) to the real code: the
   instrumented registry logs every step it takes, in the order in which the steps took their lock
   (REG lines: request, arrival kept / dropped, thread over, bytes taken, applied). The log of every
   (peer, class, asset) is replayed with the extracted `dstep true`; what the model answers must be
   what the real registry did:
     REG p 0 k a n _   request()                -> DPublish; DRequest     the number given must be n
     REG p 1 k a n d   download n has arrived   -> DFetch n; DArrive n    dropped-as-outdated must be d
     REG p 2 k a n r   thread n is over         -> [DFail n;] DFinish n   entry removed must be r
     REG p 3 k a _ _   process_* took the bytes -> DTake                  must be enabled
     REG p 4 k a _ r   download_applied         -> DApplied               entry removed must be r
   (the publisher's side is not compared here: every request is preceded by the publication it
   answers; the moment the response was built is not observable: DFetch is placed right before the
   arrival, which the registry's decisions do not depend on.)  After every frame of p the real
   registry (PEND line, read in the same moment as the log) must list exactly the assets the model
   holds an entry for, with as many downloads under way as the model has flights. *)
open Model
open Drv_common

let absdl file =
  let lines = read_lines file in
  let st : (int * string * string, dstate) Hashtbl.t = Hashtbl.create 16 in
  let get k = try Hashtbl.find st k with Not_found -> dinit in
  let rec nat_of_int i = if i <= 0 then O else S (nat_of_int (i - 1)) in
  let rec int_of_nat = function O -> 0 | S k -> 1 + int_of_nat k in
  let steps = ref 0 in
  let lineno = ref 0 in
  let step key ev what =
    incr steps;
    match dstep true (get key) ev with
    | Some (s', o) -> Hashtbl.replace st key s'; Some o
    | None -> diff "line %d: registry model: event %s is not enabled" !lineno what; None in
  List.iter (fun l ->
      incr lineno;
      match split_ws l with
      | [ "REG"; p; stp; k; a; n; flag ] ->
          let key = (int_of_string p, k, a) in
          let n = int_of_string n and flag = (flag = "1") in
          incr checked;
          (match stp with
           | "0" ->
               ignore (step key DPublish "publish");
               (match step key DRequest "request" with
                | Some (ONumber m) -> if int_of_nat m <> n then diff "line %d: request of asset %s on peer %s: the real registry numbered it %d, the model %d" !lineno a p n (int_of_nat m)
                | _ -> ())
           | "1" ->
               (match phase_of (nat_of_int n) (flights (get key)) with
                | Some Asked -> ignore (step key (DFetch (nat_of_int n)) "fetch")
                | _ -> ());
               (match step key (DArrive (nat_of_int n)) "arrive" with
                | Some (OArrived d) -> if d <> flag then diff "line %d: download %d of asset %s on peer %s: real %s, model %s" !lineno n a p (if flag then "dropped" else "kept") (if d then "dropped" else "kept")
                | _ -> ())
           | "2" ->
               (match phase_of (nat_of_int n) (flights (get key)) with
                | Some Landed -> ()
                | _ -> ignore (step key (DFail (nat_of_int n)) "fail"));
               (match step key (DFinish (nat_of_int n)) "finish" with
                | Some (ORemoved r) -> if r <> flag then diff "line %d: end of download %d of asset %s on peer %s: real entry removed=%b, model %b" !lineno n a p flag r
                | _ -> ())
           | "3" -> ignore (step key DTake "take")
           | "4" ->
               (match step key DApplied "applied" with
                | Some (ORemoved r) -> if r <> flag then diff "line %d: asset %s applied on peer %s: real entry removed=%b, model %b" !lineno a p flag r
                | _ -> ())
           | _ -> diff "line %d: unknown registry step %s" !lineno stp)
      | [ "PEND"; p; items ] ->
          let pi = int_of_string p in
          let real = if items = "-" then [] else List.filter_map (fun it -> match String.split_on_char ':' it with
              | [ k; a; n ] -> Some ((k, a), int_of_string n) | _ -> None) (String.split_on_char ',' items) in
          let model = Hashtbl.fold (fun (q, k, a) s acc -> if q = pi && present s then ((k, a), List.length (flights s)) :: acc else acc) st [] in
          incr checked;
          if List.sort compare real <> List.sort compare model then
            diff "line %d: registry of peer %d: real [%s], model [%s]" !lineno pi
              (String.concat "," (List.map (fun ((k, a), n) -> Printf.sprintf "%s:%s:%d" k a n) (List.sort compare real)))
              (String.concat "," (List.map (fun ((k, a), n) -> Printf.sprintf "%s:%s:%d" k a n) (List.sort compare model)))
      | _ -> ()) lines;
  Printf.printf "ABSDL steps=%d keys=%d\n" !steps (Hashtbl.length st)
