(* Tie of the event-level asset model (Abs/Assets.v) to the real code: the atomic events of ONE
   uuid asset are extracted from a real trace and replayed with the extracted `astep` (URL classes:
   kind 1 mesh, 2 image, 3 audio) or `mstep` (kind 0, materials):
     OP p addasset <kind> <id> v                       -> APublish p v / MPublish p v
     the host handles RequestInitialSync of c          -> AJoin c None / MJoin c   (when the queued snapshot
                                                          command is applied: at the sync node if the
                                                          receiver runs before it, else at the end of Update)
     RCV p from asset <cls> <id> <owner>               -> ADeliver from p          (request() runs in the receiver)
     RCV p from mat <id> v                             -> MDeliver from p          (applied with the receiver's commands)
     DL p <kind> <id> v  (a download applied)          -> ADownload p              (at the process_*_assets position)
     one run of react_on_changed_* per real frame      -> AReact1 p once per asset event that was readable
                                                          (inserted before the previous Last of p), at the
                                                          react system's position in the executable order
   After every real frame of p the content of the id on p must equal the model's store, every
   received announcement / inline content must be the head of the model's link, every event must be
   enabled, and at every real quiescent point the model must be quiescent.
   Histories outside the abstraction's premises print ABSSKIP and are not compared: a class switched
   off on some peer, publications by a peer that has not joined, announcements reaching a client
   between its transport connection and its snapshot, a download whose content is not the owner's
   current cache entry (re-served since the request, or two transfers completing out of order),
   promotion / re-connection. *)
open Model
open Drv_common

let absast file kind id =
  let lines = Array.of_list (read_lines file) in
  let nl = Array.length lines in
  let material = (kind = "0") in
  let cls = (match kind with "1" -> "mesh" | "2" -> "image" | "3" -> "audio" | _ -> "mat") in
  let sa = ref (ainit O) and sm = ref (minit O) in
  let events = ref 0 in
  let skip = ref None in
  let setup : (int, bool) Hashtbl.t = Hashtbl.create 8 in
  let fresh : (int, int) Hashtbl.t = Hashtbl.create 8 in      (* asset events inserted since the last Last of p *)
  let ready : (int, int) Hashtbl.t = Hashtbl.create 8 in      (* asset events the react system of p can read *)
  let order : (int, string list) Hashtbl.t = Hashtbl.create 8 in
  let get t p = try Hashtbl.find t p with Not_found -> 0 in
  let nd s = n_of_decimal s and ds x = decimal_of_n x in
  let rec nat_int = function O -> 0 | S k -> 1 + nat_int k in
  let exists p = if material then (p = 0 || List.exists (fun q -> int_of_n q = p) (mconn !sm)) else pexists0 !sa (n_of_int p) in
  let stepa lineno ev what =
    incr events;
    match astep !sa ev with Some s' -> sa := s' | None -> diff "line %d: abstract event %s is not enabled in the asset model" lineno what in
  let stepm lineno ev what =
    incr events;
    match mstep !sm ev with Some s' -> sm := s' | None -> diff "line %d: abstract event %s is not enabled in the material model" lineno what in
  let store p = if material then mpstore !sm (n_of_int p) else pstore !sa (n_of_int p) in
  let quiescent () = if material then mquiescentb !sm else aquiescentb !sa in
  let bail why = skip := Some why; raise Exit in
  let index l x = let rec go i = function [] -> -1 | y :: r -> if y = x then i else go (i + 1) r in go 0 l in
  let i = ref 0 in
  (try
    while !i < nl do
      let w = split_ws lines.(!i) in
      (match w with
       | "OP" :: p :: "setup" :: _ ->
           let pi = int_of_string p in
           if Hashtbl.mem setup pi then bail "a peer is set up twice (re-connection)";
           Hashtbl.replace setup pi true
       | "OP" :: _ :: ("promote" | "removetransports" | "reconnect") :: _ -> bail "promotion / transport removal / re-connection"
       | [ "OP"; _; "switches"; m; me; a ] ->
           let off = (match kind with "0" | "2" -> m = "0" | "1" -> me = "0" | _ -> a = "0") in
           if off then bail "the class is switched off on some peer"
       | [ "OP"; p; "addasset"; k; a; v ] when k = kind && a = id ->
           let pi = int_of_string p in
           if not (exists pi) then bail "publication by a peer that has not joined";
           if material then stepm (!i + 1) (MPublish (n_of_int pi, nd v)) (Printf.sprintf "publish %s by %d" v pi)
           else stepa (!i + 1) (APublish (n_of_int pi, nd v)) (Printf.sprintf "publish %s by %d" v pi);
           Hashtbl.replace fresh pi (get fresh pi + 1)
       | [ "QUIESCENT" ] ->
           incr checked;
           if not (quiescent ()) then diff "line %d: the real run is quiescent, the asset model is not" (!i + 1)
       | [ "FRAME"; p ] ->
           let pi = int_of_string p in
           let pn = n_of_int pi in
           let block = ref [] in
           incr i;
           while !i < nl && lines.(!i) <> "END" do block := lines.(!i) :: !block; incr i done;
           let block = List.rev !block in
           List.iter (fun l -> match split_ws l with
               | "ORD" :: q :: o when int_of_string q = pi -> Hashtbl.replace order pi o
               | _ -> ()) block;
           let ord = try Hashtbl.find order pi with Not_found -> [] in
           let connected = List.exists (fun l -> match split_ws l with
               | "ST" :: _ :: rest -> List.mem "server=C" rest || List.mem "client=C" rest
               | _ -> false) block in
           let srv = (pi = 0) in
           let pre = if srv then "Srv" else "Cli" in
           let react_name = pre ^ (match kind with "0" -> "Mat" | "1" -> "Mesh" | "2" -> "Img" | _ -> "Audio") in
           let proc_name = (match kind with "1" -> "ProcMesh" | "2" -> "ProcImage" | "3" -> "ProcAudio" | _ -> "-") in
           let poll_name = pre ^ "Poll" in
           let pos n = let k = index ord n in if k < 0 then 1000 else k in
           let sync = pos "Sync" and poll = pos poll_name in
           let flush_pos = if poll < sync then sync else 2000 in
           (* the frame's happenings, each with its position in the executable order *)
           let acts = ref [] in
           let add position seq a = acts := ((position, seq), a) :: !acts in
           let seq = ref 0 in
           if connected && exists pi then add (pos react_name) 0 `React;
           List.iter (fun l -> match split_ws l with
               | [ "DL"; _; k; a; v ] when k = kind && a = id -> incr seq; add (pos proc_name) !seq (`Download v)
               | [ "RCV"; _; from; "reqinit" ] when pi = 0 -> incr seq; add flush_pos !seq (`Join (int_of_string from))
               | [ "RCV"; _; from; "asset"; c; a; o ] when (not material) && c = cls && a = id ->
                   incr seq; add poll !seq (`Announce ((if from = "h" then 0 else int_of_string from), o))
               | [ "RCV"; _; from; "mat"; a; v ] when material && a = id ->
                   incr seq; add flush_pos !seq (`Inline ((if from = "h" then 0 else int_of_string from), v))
               | _ -> ()) block;
           let acts = List.sort compare !acts in
           (* the host sends to every transport-connected client, also to one whose snapshot has not been
              built yet: such a frame is outside the atomic-join abstraction *)
           if pi = 0 then begin
             let clients = List.fold_left (fun acc l -> match split_ws l with
                 | "NET" :: _ :: rest ->
                     List.fold_left (fun a x -> if String.length x > 8 && String.sub x 0 8 = "clients=" && x <> "clients=-"
                                                then List.map int_of_string (String.split_on_char ',' (String.sub x 8 (String.length x - 8))) else a) acc rest
                 | _ -> acc) [] block in
             let unjoined = List.exists (fun c -> not (exists c)) clients in
             let sends = List.exists (fun (_, a) -> match a with `Announce _ | `Inline _ -> true | `React -> get ready 0 > 0 | _ -> false) acts in
             if unjoined && sends then bail "the host sent to a client between its transport connection and its snapshot (join window)"
           end;
           List.iter (fun (_, a) -> match a with
               | `React ->
                   let k = get ready pi in
                   Hashtbl.replace ready pi 0;
                   for _ = 1 to k do
                     if material then stepm (!i + 1) (MReact1 pn) (Printf.sprintf "react on %d" pi)
                     else stepa (!i + 1) (AReact1 pn) (Printf.sprintf "react on %d" pi)
                   done
               | `Download v ->
                   if not (exists pi) then bail "a download on a peer that has not joined";
                   (match ppending !sa pn with
                    | [] -> diff "line %d: peer %d applied a download of the asset, the asset model has none pending" (!i + 1) pi
                    | o :: _ ->
                        (match pserved !sa o with
                         | Some c when ds c = v -> ()
                         | _ -> bail "a download delivered something else than the owner's current cache entry (re-served since the request, or out-of-order completion)");
                        stepa (!i + 1) (ADownload pn) (Printf.sprintf "download on %d" pi);
                        Hashtbl.replace fresh pi (get fresh pi + 1))
               | `Join c ->
                   if material then stepm (!i + 1) (MJoin (n_of_int c)) (Printf.sprintf "join of %d" c)
                   else stepa (!i + 1) (AJoin (n_of_int c, None)) (Printf.sprintf "join of %d" c)
               | `Announce (src, o) ->
                   if not (exists pi) then bail "an announcement reached a client before its snapshot (join window)";
                   let head = match link0 !sa (n_of_int src) pn with x :: _ -> ds x | [] -> "(empty)" in
                   incr checked;
                   if head <> o then diff "line %d: peer %d was told to fetch the asset from %s, the asset model's link %d->%d has %s at its head" (!i + 1) pi o src pi head;
                   stepa (!i + 1) (ADeliver (n_of_int src, pn)) (Printf.sprintf "deliver %d->%d" src pi)
               | `Inline (src, v) ->
                   if not (exists pi) then bail "a material update reached a client before its snapshot (join window)";
                   let head = match mlink !sm (n_of_int src) pn with x :: _ -> ds x | [] -> "(empty)" in
                   incr checked;
                   if head <> v then diff "line %d: peer %d received material content %s, the material model's link %d->%d has %s at its head" (!i + 1) pi v src pi head;
                   stepm (!i + 1) (MDeliver (n_of_int src, pn)) (Printf.sprintf "deliver %d->%d" src pi);
                   Hashtbl.replace fresh pi (get fresh pi + 1)) acts;
           (* Last: events inserted in this frame (or between frames) become readable *)
           Hashtbl.replace ready pi (get ready pi + get fresh pi);
           Hashtbl.replace fresh pi 0;
           (* two downloads of one id that complete before one process_*_assets run land in ONE map entry and
              are applied as one: the model (one ADownload per request) cannot express that *)
           if (not material) && exists pi then begin
             let idle = List.exists (fun l -> match split_ws l with
                 | [ "XFER"; _; "active=0"; "queued=0"; "toapply=0" ] -> true | _ -> false) block in
             if idle && ppending !sa pn <> [] then bail "two completed downloads of the id were applied as one (coalesced in the to-apply map)"
           end;
           (* observed content of the id on this peer *)
           if exists pi && List.exists (fun l -> match split_ws l with "ST" :: _ -> true | _ -> false) block then begin
             let observed = List.fold_left (fun acc l -> match split_ws l with
                 | [ "AST"; _; k; a; v ] when k = kind && a = id -> Some v
                 | _ -> acc) None block in
             let modelv = match store pi with Some v -> Some (ds v) | None -> None in
             incr checked;
             if observed <> modelv then
               diff "line %d: after this frame peer %d holds %s under the id, the asset model says %s" (!i + 1) pi
                 (match observed with Some v -> v | None -> "nothing") (match modelv with Some v -> v | None -> "nothing")
           end
       | _ -> ());
      incr i
    done
  with Exit -> ());
  ignore nat_int;
  (match !skip with Some why -> Printf.printf "ABSSKIP %s\n" why | None -> ());
  Printf.printf "ABSEVENTS %d\n" !events
