(* Driver of the extracted Coq model: dispatch. One module per line protocol:
   drv_http (C14), drv_proto (protocol scenarios), drv_codec (C11-C13). *)
open Drv_common

let () =
  (match Array.to_list Sys.argv with
   | [ _; "http"; file ] -> Drv_http.http file
   | [ _; "proto"; file ] -> Drv_proto.proto file
   | [ _; "absval"; file; handle; tyid ] -> Drv_absval.absval file handle tyid
   | [ _; "absent"; file ] -> Drv_absent.absent file
   | [ _; "abspar"; file; child ] -> Drv_abspar.abspar file child
   | [ _; "absprom"; file ] -> Drv_absprom.absprom file
   | [ _; "absast"; file; kind; id ] -> Drv_absast.absast file kind id
   | [ _; "absdl"; file ] -> Drv_absdl.absdl file
   | [ _; "codec-mesh"; file ] -> Drv_codec.codec_mesh file
   | [ _; "codec-image"; file ] -> Drv_codec.codec_image file
   | [ _; "codec-msg"; file ] -> Drv_codec.codec_msg file
   | [ _; "codec-reflect"; file ] -> Drv_codec.codec_reflect file
   | _ -> prerr_endline "usage: driver http <trace>"; exit 2);
  Printf.printf "CHECKED %d DIFFS %d\n" !checked !diffs;
  exit (if !diffs = 0 then 0 else 1)
