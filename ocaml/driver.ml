(* Driver of the extracted Coq model: replays the histories / inputs the Rust harness ran on
   the real code and reports every difference. One subcommand per line protocol. *)
open Model

(* ---------- conversions -------------------------------------------------------------- *)
let rec pos_of_int (x : int) : positive =
  if x = 1 then XH else if x land 1 = 0 then XO (pos_of_int (x lsr 1)) else XI (pos_of_int (x lsr 1))
let n_of_int (x : int) : n = if x = 0 then N0 else Npos (pos_of_int x)
let rec int_of_pos (p : positive) : int =
  match p with XH -> 1 | XO q -> 2 * int_of_pos q | XI q -> 2 * int_of_pos q + 1
let int_of_n (x : n) : int = match x with N0 -> 0 | Npos p -> int_of_pos p

(* decimal strings of arbitrary size <-> N (u64/u128 values exceed OCaml's int) *)
let n_of_decimal (s : string) : n =
  (* repeated halving of the decimal string *)
  let digits = Array.init (String.length s) (fun i -> Char.code s.[i] - 48) in
  let len = Array.length digits in
  let is_zero () = Array.for_all (fun d -> d = 0) digits in
  let bits = ref [] in
  while not (is_zero ()) do
    let carry = ref 0 in
    for i = 0 to len - 1 do
      let cur = !carry * 10 + digits.(i) in
      digits.(i) <- cur / 2;
      carry := cur mod 2
    done;
    bits := !carry :: !bits   (* most significant last pushed => list is msb first *)
  done;
  (* !bits is msb-first *)
  match !bits with
  | [] -> N0
  | _ :: rest ->
      let p = List.fold_left (fun acc b -> if b = 1 then XI acc else XO acc) XH rest in
      Npos p

let decimal_of_n (x : n) : string =
  match x with
  | N0 -> "0"
  | Npos p ->
      (* collect bits msb-first *)
      let rec bits p acc = match p with XH -> 1 :: acc | XO q -> bits q (0 :: acc) | XI q -> bits q (1 :: acc) in
      let bs = bits p [] in
      (* decimal digits little-endian in a growing buffer *)
      let digs = ref [| 0 |] in
      List.iter
        (fun b ->
          let carry = ref b in
          let d = !digs in
          for i = 0 to Array.length d - 1 do
            let v = d.(i) * 2 + !carry in
            d.(i) <- v mod 10;
            carry := v / 10
          done;
          if !carry > 0 then digs := Array.append d [| !carry |])
        bs;
      let d = !digs in
      String.init (Array.length d) (fun i -> Char.chr (48 + d.(Array.length d - 1 - i)))

let hexval c =
  match c with
  | '0' .. '9' -> Char.code c - 48
  | 'a' .. 'f' -> Char.code c - 87
  | 'A' .. 'F' -> Char.code c - 55
  | _ -> failwith "hex"

let bytes_small = Array.init 256 n_of_int

(* "-" is the empty byte string *)
let bytes_of_hex (s : string) : n list =
  if s = "-" then []
  else begin
    let len = String.length s / 2 in
    let rec go i acc = if i < 0 then acc else go (i - 1) (bytes_small.(hexval s.[2 * i] * 16 + hexval s.[2 * i + 1]) :: acc) in
    go (len - 1) []
  end

let nibbles_of_hex (s : string) : n list =
  List.init (String.length s) (fun i -> bytes_small.(hexval s.[i]))

let hex_of_bytes (l : n list) : string =
  if l = [] then "-"
  else begin
    let b = Buffer.create 64 in
    List.iter (fun x -> Buffer.add_string b (Printf.sprintf "%02x" (int_of_n x))) l;
    Buffer.contents b
  end

let split_ws s = List.filter (fun x -> x <> "") (String.split_on_char ' ' s)

let read_lines file =
  let ic = open_in file in
  let rec go acc = match input_line ic with l -> go (l :: acc) | exception End_of_file -> close_in ic; List.rev acc in
  go []

let diffs = ref 0
let checked = ref 0
let diff fmt = Printf.ksprintf (fun s -> incr diffs; print_endline ("DIFF " ^ s)) fmt

(* ---------- http ----------------------------------------------------------------------- *)
let class_of = function "mesh" -> CMesh | "image" -> CImage | "audio" -> CAudio | _ -> failwith "class"

let http file =
  let cs = ref empty_caches in
  let th = ref N0 in
  let lineno = ref 0 in
  List.iter
    (fun line ->
      incr lineno;
      match split_ws line with
      | "EP" :: _v6 :: t :: _ -> th := n_of_decimal t
      | [ "PUB"; k; id; body; url ] ->
          let k = class_of k and id = nibbles_of_hex id in
          cs := serve !cs k id (bytes_of_hex body);
          (* the advertised URL ends with the model's path *)
          let path = hex_of_bytes (path_of k id) in
          let urlhex = hex_of_bytes (List.init (String.length url) (fun i -> bytes_small.(Char.code url.[i]))) in
          incr checked;
          let lp = String.length path and lu = String.length urlhex in
          if lu < lp || String.sub urlhex (lu - lp) lp <> path then diff "line %d: advertised url %s does not end with model path" !lineno url
      | [ "CACHED"; k; id; body ] ->
          incr checked;
          let got = lookup (cache_of !cs (class_of k)) (nibbles_of_hex id) in
          let m = match got with Some b -> hex_of_bytes b | None -> "none" in
          if m <> body then diff "line %d: cache holds %s, model %s" !lineno body m
      | "GET" :: _meth :: h10 :: target :: "->" :: rest ->
          incr checked;
          let r = respond1 !cs (fun _ -> false) !th (h10 = "1") (bytes_of_hex target) in
          let model =
            match r with
            | R200 (body, Some l) -> Printf.sprintf "200 len:%s %s" (decimal_of_n l) (hex_of_bytes body)
            | R200 (body, None) -> Printf.sprintf "200 chunked %s" (hex_of_bytes body)
            | R404 -> "404"
            | R449 -> "449"
            | R500dropped -> "500"
          in
          let real =
            match rest with
            | [ "200"; cl; body ] -> Printf.sprintf "200 %s %s" cl body
            | st :: _ -> st
            | [] -> "noanswer"
          in
          if model <> real then diff "line %d: %s : real %s, model %s" !lineno line real model
      | _ -> ())
    (read_lines file)

let () =
  (match Array.to_list Sys.argv with
   | [ _; "http"; file ] -> http file
   | _ -> prerr_endline "usage: driver http <trace>"; exit 2);
  Printf.printf "CHECKED %d DIFFS %d\n" !checked !diffs;
  exit (if !diffs = 0 then 0 else 1)
