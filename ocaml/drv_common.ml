(* Driver of the extracted Coq model: replays the histories / inputs the Rust harness ran on
   the real code and reports every difference. One subcommand per line protocol. *)
open Model

(* ---------- conversions -------------------------------------------------------------- *)
let rec pos_of_int (x : int) : positive =
  if x = 1 then XH else if x land 1 = 0 then XO (pos_of_int (x lsr 1)) else XI (pos_of_int (x lsr 1))
let n_of_int (x : int) : n = if x = 0 then N0 else Npos (pos_of_int x)
let rec int_of_pos (p : positive) : int =
  match p with XH -> 1 | XO q -> 2 * int_of_pos q | XI q -> 2 * int_of_pos q + 1
let int_of_n (x : n) : int = match x with N0 -> 0 | Npos p -> int_of_pos p

(* decimal strings of arbitrary size <-> N (u64/u128 values exceed OCaml's int) *)
let n_of_decimal (s : string) : n =
  (* repeated halving of the decimal string *)
  let digits = Array.init (String.length s) (fun i -> Char.code s.[i] - 48) in
  let len = Array.length digits in
  let is_zero () = Array.for_all (fun d -> d = 0) digits in
  let bits = ref [] in
  while not (is_zero ()) do
    let carry = ref 0 in
    for i = 0 to len - 1 do
      let cur = !carry * 10 + digits.(i) in
      digits.(i) <- cur / 2;
      carry := cur mod 2
    done;
    bits := !carry :: !bits   (* most significant last pushed => list is msb first *)
  done;
  (* !bits is msb-first *)
  match !bits with
  | [] -> N0
  | _ :: rest ->
      let p = List.fold_left (fun acc b -> if b = 1 then XI acc else XO acc) XH rest in
      Npos p

let decimal_of_n (x : n) : string =
  match x with
  | N0 -> "0"
  | Npos p ->
      (* collect bits msb-first *)
      let rec bits p acc = match p with XH -> 1 :: acc | XO q -> bits q (0 :: acc) | XI q -> bits q (1 :: acc) in
      let bs = bits p [] in
      (* decimal digits little-endian in a growing buffer *)
      let digs = ref [| 0 |] in
      List.iter
        (fun b ->
          let carry = ref b in
          let d = !digs in
          for i = 0 to Array.length d - 1 do
            let v = d.(i) * 2 + !carry in
            d.(i) <- v mod 10;
            carry := v / 10
          done;
          if !carry > 0 then digs := Array.append d [| !carry |])
        bs;
      let d = !digs in
      String.init (Array.length d) (fun i -> Char.chr (48 + d.(Array.length d - 1 - i)))

let hexval c =
  match c with
  | '0' .. '9' -> Char.code c - 48
  | 'a' .. 'f' -> Char.code c - 87
  | 'A' .. 'F' -> Char.code c - 55
  | _ -> failwith "hex"

let bytes_small = Array.init 256 n_of_int

(* "-" is the empty byte string *)
let bytes_of_hex (s : string) : n list =
  if s = "-" then []
  else begin
    let len = String.length s / 2 in
    let rec go i acc = if i < 0 then acc else go (i - 1) (bytes_small.(hexval s.[2 * i] * 16 + hexval s.[2 * i + 1]) :: acc) in
    go (len - 1) []
  end

let nibbles_of_hex (s : string) : n list =
  List.init (String.length s) (fun i -> bytes_small.(hexval s.[i]))

let hex_of_bytes (l : n list) : string =
  if l = [] then "-"
  else begin
    let b = Buffer.create 64 in
    List.iter (fun x -> Buffer.add_string b (Printf.sprintf "%02x" (int_of_n x))) l;
    Buffer.contents b
  end

let split_ws s = List.filter (fun x -> x <> "") (String.split_on_char ' ' s)

let read_lines file =
  let ic = open_in file in
  let rec go acc = match input_line ic with l -> go (l :: acc) | exception End_of_file -> close_in ic; List.rev acc in
  go []

let diffs = ref 0
let checked = ref 0
let diff fmt = Printf.ksprintf (fun s -> incr diffs; print_endline ("DIFF " ^ s)) fmt

