import sys, subprocess, json, time
sys.path.insert(0,'/verif/tools/lib')
from bvlib import core
from bvlib.props import protoprops
patch=sys.argv[1]; props=sys.argv[2].split(',')
def sh(c): return subprocess.run(c,shell=True,capture_output=True,text=True)
assert sh('git -C /repo status --porcelain src').stdout.strip()=='', 'repo dirty'
r=sh('git -C /repo apply '+patch); assert r.returncode==0, r.stderr
try:
    ok,msg=core.build_harness(); print('harness build',ok, '' if ok else msg[-500:])
    known={f['signature'] for f in core.known_findings() if f.get('status')=='open'}
    if ok:
      for p in props:
        for seed in (1,2):
            t=time.time(); res=protoprops.RUNNERS[p](dict(tier='quick',seed=seed))
            unk=[f for f in res['failures'] if f['signature'] not in known]
            print(p,'seed',seed,'%.0fs'%(time.time()-t),'diffs',len(res['diffs']),'unknown failures',len(unk), [ (f['signature'],f['what'][:80]) for f in unk][:2])
            for d in res['diffs'][:1]: print('    DIFF',d[:250])
finally:
    sh('git -C /repo checkout -- src'); core.build_harness()
