#!/bin/bash
# usage: trymut2.sh <patch> <prop> [<prop>...]  — applies the patch to /repo, runs tools/bv check for each property (seeds 1,2), reverts
patch=$1; shift
cd /repo && git diff --quiet || { echo "repo dirty"; exit 1; }
# the evidence files describe the UNCHANGED tree: keep them out of the way of the mutated runs
rm -rf /tmp/evidence.keep && cp -r /verif/evidence /tmp/evidence.keep
git apply $patch || exit 1
cd /verif
for p in "$@"; do for seed in 1 2; do
  VERIF_SEED=$seed tools/bv check $p --tier quick 2>&1 | grep -E "VIOLATION|no longer checks|failing input|^\[bv\]" | cut -c1-330
done; done
cd /repo && git checkout -q -- . 
# leave a harness built against the clean tree behind (protorun does not rebuild on its own)
cd /verif/harness && cargo build --offline >/dev/null 2>&1
rm -rf /verif/evidence && cp -r /tmp/evidence.keep /verif/evidence && rm -rf /tmp/evidence.keep
