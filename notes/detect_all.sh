#!/bin/bash
# re-runs every seeded change against the check of its property (quick tier, seeds 1 and 2) and writes one line each
out=/verif/notes/detection_final.txt
: > $out
cd /repo && git diff --quiet || { echo "repo dirty"; exit 1; }
rm -rf /tmp/evidence.keep && cp -r /verif/evidence /tmp/evidence.keep
for d in /verif/seeded/*/; do
  id=$(basename $d); prop=${id%_*}
  cd /repo && git apply $d/patch.diff || { echo "$id NOAPPLY" >> $out; continue; }
  cd /verif
  res=""
  for seed in 1 2; do
    o=$(VERIF_SEED=$seed tools/bv check $prop --tier quick 2>&1)
    if echo "$o" | grep -q "failing input"; then res="$res concrete"; elif echo "$o" | grep -q "no-failing-input-found"; then res="$res broken-obligation"; elif echo "$o" | grep -q "VIOLATION"; then res="$res violation"; else res="$res MISSED"; fi
  done
  echo "$id$res" >> $out
  cd /repo && git checkout -q -- .
done
cd /verif/harness && cargo build --offline >/dev/null 2>&1
rm -rf /verif/evidence && cp -r /tmp/evidence.keep /verif/evidence && rm -rf /tmp/evidence.keep
echo DONE >> $out
