import sys, time
sys.path.insert(0,'/verif/tools/lib')
from bvlib import core
from bvlib.props import protoprops
props=sys.argv[1].split(','); seeds=[int(x) for x in sys.argv[2].split(',')]
tier=sys.argv[3] if len(sys.argv)>3 else 'quick'
known={f['signature'] for f in core.known_findings() if f.get('status')=='open'}
for p in props:
    for seed in seeds:
        t=time.time(); res=protoprops.RUNNERS[p](dict(tier=tier,seed=seed))
        unk=[f for f in res['failures'] if f['signature'] not in known]
        kn=sorted({f['signature'] for f in res['failures'] if f['signature'] in known})
        print(p,'seed',seed,'%.0fs'%(time.time()-t),'diffs',len(res['diffs']),'unknown',len(unk),[(f['signature'],f['what'][:100]) for f in unk][:3],'known',kn, flush=True)
        for d in res['diffs'][:2]: print('    DIFF',d[:300])
