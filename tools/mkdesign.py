#!/usr/bin/env python3
"""Assembles /verif/DESIGN.md from notes/design_*.md and the seeded-change metadata."""
import json, os, glob
V = os.path.dirname(os.path.dirname(os.path.abspath(__file__)))
def rd(n): return open(os.path.join(V, 'notes', n)).read()
rows = []
for d in sorted(glob.glob(os.path.join(V, 'seeded', '*'))):
    m = json.load(open(os.path.join(d, 'meta.json')))
    rows.append('| %s | %s | %s |' % (os.path.basename(d), (m.get('summary') or '')[:260].replace('|', '/').replace('\n', ' '),
                                     (m.get('detected_by') or '').replace('|', '/').replace('\n', ' ')))
s11 = '''--------------------------------------------------------------------------------------------
## 11. Seeded changes: which checks catch which

Fresh sub-agents were given ONLY the text of one property and a scratch worktree of `/repo` and
asked for a realistic change that breaks the property, compiles, and passes the existing tests,
with a demonstration (a test that passes without the change and fails with it). Each one was
confirmed by me in a scratch worktree (demo passes without / fails with the change, the pinned
suite passes with it) and is kept under `seeded/<id>/` (`patch.diff`, `demo.rs`, `meta.json` with
the confirmation log). None is ever committed to `/repo`; to run the checks against one:
`git -C /repo apply seeded/<id>/patch.diff; tools/bv check Cxx; git -C /repo checkout -- .`.
After later `fix:` commits touched the same lines, a number of patches no longer applied and were re-based (same change, same
demo, confirmed again; `meta.json: ported`). "concrete" = the check prints a VIOLATION with a
failing history as replay; "correspondence" = the check prints VIOLATION … no-failing-input-found
naming the correspondence difference. Where a change was first missed, the generator /
oracle was strengthened (noted in the row) — never the other way round.

| id | change (summary) | detected by |
|----|------------------|-------------|
''' + '\n'.join(rows) + '''

Self-tests of the machinery itself (negative controls, run by hand during construction, not
registered): perturbing one observable in a trace, dropping one message, or swapping two
dependent messages is reported by the driver; `Admitted` / `Axiom` planted in a proof file, a
weakened statement (hash mismatch with `statements.lock`), or a generated table edited by hand
(overwritten on the next run) are reported by the audit.


'''
out = rd('design_head.md') + rd('design_sec2.md') + rd('design_sec2b.md') + rd('design_mid.md') + rd('design_sec5.md') + rd('design_tail.md') + rd('design_s9.md') + rd('design_s10.md') + s11 + rd('design_s12.md')
open(os.path.join(V, 'DESIGN.md'), 'w').write(out)
print('DESIGN.md: %d lines' % out.count('\n'))
