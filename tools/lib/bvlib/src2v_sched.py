"""Translator for the schedule: every `add_systems(...)` call of the crate (outside the cfg-guarded
instrumentation) is parsed into (module::system, schedule label, run conditions, position in its
`.chain()` or none) and emitted as the Coq table gen/Schedule.v. The hand-written table the frame-level
model's gating was written from (coq/theories/Sync/Schedule.v) must be equal to it (`reflexivity`), and
`run_system` is proved to run exactly under those conditions. Fails closed on any shape it does not
know (an unknown modifier, an unparsable argument list)."""
import os, re
from . import core
from .src2v import TranslateError, strip_rust_comments, read

FILES = [('server', 'src/server/mod.rs'), ('client', 'src/client/mod.rs'), ('lib_priv', 'src/lib_priv.rs'),
         ('assets', 'src/networking/assets/mod.rs'), ('bundle_fix', 'src/bundle_fix.rs')]
OTHER = ['src/lib.rs', 'src/full_sync/mod.rs', 'src/server/track.rs', 'src/server/receiver.rs', 'src/server/initial_sync.rs',
         'src/client/track.rs', 'src/client/receiver.rs', 'src/networking/mod.rs', 'src/binreflect.rs', 'src/proto.rs', 'src/logging.rs']


def balanced(text, i, open_c='(', close_c=')'):
    """index just after the bracket that closes the one at text[i]"""
    assert text[i] == open_c
    depth = 0
    while i < len(text):
        c = text[i]
        if c == '"':
            i += 1
            while text[i] != '"':
                i += 2 if text[i] == '\\' else 1
        elif c == open_c:
            depth += 1
        elif c == close_c:
            depth -= 1
            if depth == 0:
                return i + 1
        i += 1
    raise TranslateError('unbalanced brackets')


def split_top(s):
    out, depth, cur = [], 0, ''
    for c in s:
        if c in '([{<':
            depth += 1
        elif c in ')]}>':
            depth -= 1
        if c == ',' and depth == 0:
            out.append(cur)
            cur = ''
        else:
            cur += c
    if cur.strip():
        out.append(cur)
    return [x.strip() for x in out]


def norm(s):
    return re.sub(r'\s+', '', s)


def modifiers(expr):
    """split `head.m1(args).m2(args)...` into (head, [(m, args)])"""
    expr = expr.strip()
    if expr.startswith('('):
        j = balanced(expr, 0)
        head, rest = expr[:j], expr[j:]
    else:
        m = re.match(r'[A-Za-z_][A-Za-z0-9_]*(::[A-Za-z_][A-Za-z0-9_]*)*(::<[^>]*>)?', expr)
        if not m:
            raise TranslateError('system expression not understood: %s' % expr[:80])
        head, rest = m.group(0), expr[m.end():]
    mods = []
    rest = rest.strip()
    while rest:
        m = re.match(r'\.\s*([a-z_]+)\s*\(', rest)
        if not m:
            raise TranslateError('modifier not understood: %s' % rest[:80])
        j = balanced(rest, m.end() - 1)
        mods.append((m.group(1), norm(rest[m.end():j - 1])))
        rest = rest[j:].strip()
    return head, mods


def parse_call(mod, args):
    parts = split_top(args)
    if len(parts) != 2:
        raise TranslateError('%s: add_systems with %d arguments' % (mod, len(parts)))
    label = norm(parts[0])
    head, mods = modifiers(parts[1])
    group_conds, chained = [], False
    for m, a in mods:
        if m == 'run_if':
            group_conds.append(a)
        elif m == 'chain' and a == '':
            chained = True
        else:
            raise TranslateError('%s: unknown modifier .%s(%s)' % (mod, m, a))
    rows = []
    if head.startswith('('):
        items = split_top(head[1:-1])
        for k, it in enumerate(items):
            h, ms = modifiers(it)
            if h.startswith('('):
                raise TranslateError('%s: nested system tuple' % mod)
            own = []
            for m, a in ms:
                if m != 'run_if':
                    raise TranslateError('%s: unknown modifier .%s on %s' % (mod, m, h))
                own.append(a)
            rows.append((mod + '::' + norm(h), label, own + group_conds, k if chained else None))
    else:
        if chained:
            raise TranslateError('%s: chain on a single system' % mod)
        rows.append((mod + '::' + norm(head), label, group_conds, None))
    return rows


def gen_schedule():
    rows = []
    for mod, rel in FILES:
        text = strip_rust_comments(read(rel))
        # the unit tests of a file are not part of the crate's behaviour
        cut = text.find('#[cfg(test)]')
        if cut >= 0:
            text = text[:cut]
        for m in re.finditer(r'\badd_systems\s*\(', text):
            j = balanced(text, m.end() - 1)
            rows += parse_call(mod, text[m.end():j - 1])
    # no other file of the crate registers systems
    for rel in OTHER:
        t = strip_rust_comments(read(rel))
        if re.search(r'\badd_systems\s*\(', t):
            raise TranslateError('%s registers systems: not covered by the schedule table' % rel)
    known = {rel for _, rel in FILES} | set(OTHER) | {'src/verif.rs', 'src/networking/assets/image_serde.rs', 'src/networking/assets/mesh_serde.rs'}
    for root, _, files in os.walk(os.path.join(core.REPO, 'src')):
        for f in files:
            rel = os.path.relpath(os.path.join(root, f), core.REPO)
            if f.endswith('.rs') and rel not in known:
                if re.search(r'\badd_systems\s*\(', strip_rust_comments(open(os.path.join(root, f)).read())):
                    raise TranslateError('%s registers systems: not covered by the schedule table' % rel)

    def s(x):
        return '"%s"' % x.replace('"', '""')
    out = ['(* GENERATED by tools/lib/bvlib/src2v_sched.py from every add_systems(...) call of /repo/src — do not edit.',
           '   (module::system, schedule label, run conditions: the system\'s own first, then its group\'s,',
           '    position in its .chain() or None) *)',
           'From Coq Require Import String List.', 'Import ListNotations.', 'Open Scope string_scope.', '',
           'Definition src_schedule : list (string * string * list string * option nat) := [']
    lines = []
    for name, label, conds, k in rows:
        lines.append('  (%s, %s, [%s], %s)' % (s(name), s(label), '; '.join(s(c) for c in conds), 'None' if k is None else 'Some %d' % k))
    out.append(';\n'.join(lines))
    out.append('].')
    out.append('')
    return '\n'.join(out)


GENERATORS = {'Schedule': gen_schedule}
