"""Shared machinery: paths, subprocess helpers, Coq build + audit, extraction/driver build,
harness build, evidence, known findings, verdict."""
import hashlib, json, os, re, shutil, subprocess, sys, time

VERIF = os.path.abspath(os.path.join(os.path.dirname(__file__), '..', '..', '..'))
REPO = os.environ.get('BV_REPO', '/repo')
COQ = os.path.join(VERIF, 'coq')
BUILD = os.path.join(VERIF, 'build')
HARNESS = os.path.join(VERIF, 'harness')
BSH = os.path.join(HARNESS, 'target', 'debug', 'bsh')
DRIVER = os.path.join(BUILD, 'driver')
EVIDENCE = os.path.join(VERIF, 'evidence')
REPLAYS = os.path.join(VERIF, 'build', 'replays')
NCPU = os.cpu_count() or 8

ENV = dict(os.environ, CARGO_NET_OFFLINE='true')


def log(*a):
    print('[bv]', *a, file=sys.stderr, flush=True)


def run(cmd, cwd=None, timeout=1800, env=None, stdin=None):
    """Run, return (rc, stdout+stderr)."""
    try:
        p = subprocess.run(cmd, cwd=cwd, env=env or ENV, stdout=subprocess.PIPE, stderr=subprocess.STDOUT,
                           timeout=timeout, input=stdin, shell=isinstance(cmd, str))
        return p.returncode, p.stdout.decode('utf-8', 'replace')
    except subprocess.TimeoutExpired as e:
        out = (e.stdout or b'').decode('utf-8', 'replace')
        return 124, out + '\n[timeout after %ss]' % timeout


def sha(path):
    h = hashlib.sha256()
    with open(path, 'rb') as f:
        h.update(f.read())
    return h.hexdigest()


def repo_src_hash():
    h = hashlib.sha256()
    for root, _, files in sorted(os.walk(os.path.join(REPO, 'src'))):
        for fn in sorted(files):
            p = os.path.join(root, fn)
            h.update(p.encode())
            h.update(open(p, 'rb').read())
    h.update(open(os.path.join(REPO, 'Cargo.toml'), 'rb').read())
    return h.hexdigest()[:16]


def write_if_changed(path, text):
    os.makedirs(os.path.dirname(path), exist_ok=True)
    if os.path.exists(path) and open(path).read() == text:
        return False
    with open(path, 'w') as f:
        f.write(text)
    return True


# ---------------------------------------------------------------------------------------
# Coq
# ---------------------------------------------------------------------------------------

def coq_project_files():
    out = []
    for l in open(os.path.join(COQ, '_CoqProject')):
        l = l.strip()
        if l.endswith('.v'):
            out.append(l)
    return out


def coq_makefile():
    mk = os.path.join(COQ, 'Makefile')
    proj = os.path.join(COQ, '_CoqProject')
    if not os.path.exists(mk) or os.path.getmtime(mk) < os.path.getmtime(proj):
        rc, out = run(['coq_makefile', '-f', '_CoqProject', '-o', 'Makefile'], cwd=COQ, timeout=120)
        if rc != 0:
            raise RuntimeError('coq_makefile failed: ' + out)


def coq_make(targets, timeout=3000):
    """make the given .vo targets (relative to coq/). Returns (ok, output, failing_file)."""
    coq_makefile()
    rc, out = run(['make', '-j%d' % NCPU] + list(targets), cwd=COQ, timeout=timeout)
    failing = None
    if rc != 0:
        m = re.findall(r'File "\./([^"]+)", line (\d+)', out)
        if m:
            failing = '%s:%s' % m[-1]
        else:
            m = re.findall(r"\*\*\* \[[^\]]*?:\d+: ([^\]]+)\]", out)
            failing = m[-1] if m else 'unknown'
    return rc == 0, out, failing


FORBIDDEN = re.compile(r'\b(Admitted|admit|Axiom|Axioms|Parameter|Parameters|Conjecture|Conjectures|Hypothesis|Hypotheses|Variable|Variables|Context)\b|Unset\s+Guard|bypass_check|type-in-type|impredicative-set|Admit\s+Obligations|Unset\s+Universe\s+Checking|Unset\s+Positivity')
SECTION_OK = {'Hypothesis', 'Hypotheses', 'Variable', 'Variables', 'Context'}


def strip_comments(text):
    out, depth, i = [], 0, 0
    while i < len(text):
        if text.startswith('(*', i):
            depth += 1
            i += 2
        elif text.startswith('*)', i) and depth > 0:
            depth -= 1
            i += 2
        else:
            if depth == 0:
                out.append(text[i])
            elif text[i] == '\n':
                out.append('\n')
            i += 1
    return ''.join(out)


def audit_sources():
    """Scan every .v file of the development for forbidden constructs. Section variables /
    hypotheses are allowed only inside a Section (checked by nesting count)."""
    problems = []
    nfiles = 0
    for root, _, files in os.walk(COQ):
        for fn in files:
            if not fn.endswith('.v'):
                continue
            nfiles += 1
            p = os.path.join(root, fn)
            text = strip_comments(open(p).read())
            depth = 0
            for ln, line in enumerate(text.split('\n'), 1):
                if re.match(r'\s*Section\b', line):
                    depth += 1
                if re.match(r'\s*End\b', line) and depth > 0:
                    depth -= 1
                for m in FORBIDDEN.finditer(line):
                    w = m.group(0)
                    if w in SECTION_OK and depth > 0:
                        continue
                    if w in ('Context',) and depth > 0:
                        continue
                    problems.append('%s:%d: %s' % (os.path.relpath(p, VERIF), ln, w))
    return nfiles, problems


ALLOWED_AXIOMS = set()   # names of standard-library axioms a theorem may depend on (none needed so far)


def parse_assumptions(out):
    """Parse the Print Assumptions blocks of a coqc output: returns list of (closed:bool, axioms)."""
    res = []
    blocks = re.split(r'(?=Closed under the global context|Axioms:)', out)
    for b in blocks:
        if b.startswith('Closed under the global context'):
            res.append((True, []))
        elif b.startswith('Axioms:'):
            names = re.findall(r'^([A-Za-z_][\w\.\']*)\s*:', b[len('Axioms:'):], re.M)
            res.append((False, names))
    return res


def count_obligations(vfiles):
    """Number of closed Theorem/Lemma/Corollary/Example/Fact (ending in Qed/Defined) in files."""
    n = 0
    for f in vfiles:
        p = os.path.join(COQ, f)
        if not os.path.exists(p):
            continue
        text = strip_comments(open(p).read())
        n += len(re.findall(r'^\s*(?:Local\s+|Global\s+)?(?:Theorem|Lemma|Corollary|Example|Fact|Proposition|Remark)\b', text, re.M))
    return n


def coq_cone(prop_file):
    """Transitive dependencies (project .v files) of a property file, via coqdep."""
    rc, out = run(['coqdep', '-Q', 'theories', 'BS', '-Q', 'gen', 'BSGen'] + coq_project_files(), cwd=COQ, timeout=120)
    deps = {}
    for line in out.split('\n'):
        if ':' not in line:
            continue
        lhs, rhs = line.split(':', 1)
        tgt = [t for t in lhs.split() if t.endswith('.vo')]
        if not tgt:
            continue
        v = tgt[0][:-1]
        ds = [d[:-1] for d in rhs.split() if d.endswith('.vo')]
        deps[v] = ds
    seen, todo = set(), [prop_file]
    while todo:
        f = todo.pop()
        if f in seen:
            continue
        seen.add(f)
        todo.extend(deps.get(f, []))
    return sorted(seen)


def check_statements_lock(prop_file, out_problems):
    """Each property file ends with `Check name : statement.` lines; their normalised text is
    pinned in coq/statements.lock so a theorem cannot be weakened quietly."""
    lock_path = os.path.join(COQ, 'statements.lock')
    lock = json.load(open(lock_path)) if os.path.exists(lock_path) else {}
    text = strip_comments(open(os.path.join(COQ, prop_file)).read())
    stmts = re.findall(r'^\s*(?:Theorem|Definition|Corollary)\s+(\w+)(.*?)(?:\.\s*\n\s*Proof\.|:=)', text, re.S | re.M)
    cur = {}
    for name, body in stmts:
        cur[name] = hashlib.sha256(' '.join(body.split()).encode()).hexdigest()[:16]
    key = os.path.basename(prop_file)
    if key not in lock:
        out_problems.append('no pinned statements for %s (run tools/bv lock)' % key)
        return cur
    for name, h in lock[key].items():
        if cur.get(name) != h:
            out_problems.append('statement of %s in %s differs from the pinned one' % (name, key))
    return cur


def write_statements_lock():
    lock = {}
    for f in coq_project_files():
        if '/Properties/' in f:
            probs = []
            text = strip_comments(open(os.path.join(COQ, f)).read())
            stmts = re.findall(r'^\s*(?:Theorem|Definition|Corollary)\s+(\w+)(.*?)(?:\.\s*\n\s*Proof\.|:=)', text, re.S | re.M)
            lock[os.path.basename(f)] = {n: hashlib.sha256(' '.join(b.split()).encode()).hexdigest()[:16] for n, b in stmts}
    with open(os.path.join(COQ, 'statements.lock'), 'w') as fh:
        json.dump(lock, fh, indent=1, sort_keys=True)
    return lock


def build_property(prop_file, timeout=3000):
    """Compile the property file (always fresh, to capture Print Assumptions) and its cone.
    Returns dict(ok, failing, assumptions, output, cone, obligations)."""
    vo = prop_file + 'o'
    for ext in ('o', 'ok', 'os'):
        try:
            os.remove(os.path.join(COQ, prop_file + ext))
        except FileNotFoundError:
            pass
    ok, out, failing = coq_make([vo], timeout=timeout)
    cone = coq_cone(prop_file)
    res = dict(ok=ok, failing=failing, output=out[-4000:], cone=cone,
               obligations=count_obligations(cone), assumptions=parse_assumptions(out))
    return res


# ---------------------------------------------------------------------------------------
# extraction + driver, harness
# ---------------------------------------------------------------------------------------

def vo_fresh(vfile):
    """the .vo of a .v file of the development exists and is newer than its source"""
    v = os.path.join(COQ, vfile)
    vo = v + 'o'
    try:
        return os.path.getmtime(vo) >= os.path.getmtime(v)
    except OSError:
        return False


def build_model_driver():
    """Extract the model (only model files are required by Extract.v) and build the driver."""
    os.makedirs(BUILD, exist_ok=True)
    # model .vo files needed by Extract.v
    text = open(os.path.join(COQ, 'extraction', 'Extract.v')).read()
    mods = re.findall(r'From BS Require Import ([^.]+(?:\.[A-Za-z0-9_]+)*(?:\s+[A-Za-z0-9_.]+)*)\.', text)
    targets = []
    for grp in mods:
        for m in grp.split():
            targets.append('theories/' + m.replace('.', '/') + '.vo')
    ok, out, failing = coq_make(targets)
    if not ok:
        return False, 'model does not compile: %s\n%s' % (failing, out[-2000:])
    rc, out = run(['coqc', '-Q', os.path.join(COQ, 'theories'), 'BS', '-Q', os.path.join(COQ, 'gen'), 'BSGen',
                   os.path.join(COQ, 'extraction', 'Extract.v')], cwd=BUILD, timeout=600)
    if rc != 0:
        return False, 'extraction failed:\n' + out[-2000:]
    for f in ('Extract.vo', 'Extract.glob', 'Extract.vok', 'Extract.vos', '.Extract.aux'):
        for d in (BUILD, os.path.join(COQ, 'extraction')):
            try:
                os.remove(os.path.join(d, f))
            except FileNotFoundError:
                pass
    stamp = os.path.join(BUILD, 'driver.stamp')
    srcdir = os.path.join(VERIF, 'ocaml')
    mods = ['drv_common.ml'] + sorted(f for f in os.listdir(srcdir) if f.startswith('drv_') and f.endswith('.ml') and f != 'drv_common.ml') + ['driver.ml']
    h = sha(os.path.join(BUILD, 'model.ml')) + ''.join(sha(os.path.join(srcdir, m)) for m in mods)
    if os.path.exists(stamp) and open(stamp).read() == h and os.path.exists(DRIVER):
        return True, 'driver up to date'
    for m in mods:
        shutil.copy(os.path.join(srcdir, m), os.path.join(BUILD, m))
    rc, out = run(['ocamlfind', 'ocamlopt', '-O3', '-w', '-a', '-package', 'str', '-linkpkg',
                   'model.mli', 'model.ml'] + mods + ['-o', 'driver.new'], cwd=BUILD, timeout=900)
    if rc != 0:
        return False, 'driver build failed:\n' + out[-3000:]
    os.replace(os.path.join(BUILD, 'driver.new'), DRIVER)
    open(stamp, 'w').write(h)
    return True, 'driver rebuilt'


def build_harness():
    """cargo build of the harness against the current /repo tree (feature verif_hooks)."""
    lock = os.path.join(HARNESS, 'Cargo.lock')
    if not os.path.exists(lock):
        shutil.copy(os.path.join(REPO, 'Cargo.lock'), lock)
    rc, out = run(['cargo', 'build', '--offline'], cwd=HARNESS, timeout=3000)
    if rc != 0:
        return False, out[-4000:]
    return True, out[-300:]


# ---------------------------------------------------------------------------------------
# known findings, evidence, verdict
# ---------------------------------------------------------------------------------------

def known_findings():
    p = os.path.join(VERIF, 'known_findings.json')
    if not os.path.exists(p):
        return []
    return json.load(open(p)).get('findings', [])


def write_replay(prop, name, payload):
    os.makedirs(REPLAYS, exist_ok=True)
    p = os.path.join(REPLAYS, '%s_%s.json' % (prop, name))
    with open(p, 'w') as f:
        json.dump(payload, f, indent=1)
    return p


def write_evidence(prop, tier, seed, coverage, assumptions, wall, violations):
    os.makedirs(EVIDENCE, exist_ok=True)
    ev = dict(property_id=prop, tier=tier, seed=seed, level='proof', coverage=coverage,
              assumptions=assumptions, wall_s=round(wall, 2), violations=violations)
    with open(os.path.join(EVIDENCE, prop + '.json'), 'w') as f:
        json.dump(ev, f, indent=1)
    return ev


TRUSTED_BASE_COMMON = [
    'Coq 8.16.1 kernel; vm_compute (no native_compute)',
    'Print Assumptions of every property theorem: Closed under the global context (parsed on every run)',
    'extraction with ExtrOcamlBasic only (bool, option, unit, list, prod, sumbool, sumor -> OCaml natives; andb/orb inlined); no Extract Constant/Inductive of our own; OCaml 4.13 + ocaml/driver.ml, ocaml/drv_*.ml (one per line protocol / abstract model)',
    'correspondence check: Rust harness (harness/), line protocol, driver comparison',
    'tools/lib/bvlib/src2v.py, src2v_codec.py, src2v_sched.py: regex translator from /repo/src to coq/gen/*.v (layouts, router literals, the schedule table of every add_systems call; fails closed)',
]
