"""Property oracles evaluated on REAL traces (no model involved): the properties themselves,
as executable checks over what the harness observed. Used to find concrete failing histories
on the real code and to classify them (known finding vs new violation)."""
import re


class Frame:
    __slots__ = ('peer', 'lines', 'rcv', 'panic', 'st', 'trk', 'ents', 'net', 'idx', 'ord', 'assets')

    def __init__(self, peer, idx):
        self.peer, self.idx = peer, idx
        self.lines, self.rcv, self.panic, self.st, self.trk, self.ents, self.net, self.ord, self.assets = [], [], None, {}, {}, {}, {}, None, {}


def kvs(words):
    d = {}
    for w in words:
        if '=' in w:
            k, v = w.split('=', 1)
            d[k] = v
    return d


def parse(trace):
    """-> dict(npeers, events=[('op', peer, words) | ('frame', Frame) | ('quiescent',) | ('notquiescent',)])"""
    events, cur, n, idx = [], None, 0, 0
    for line in trace.split('\n'):
        w = line.split()
        if not w:
            continue
        if cur is not None:
            if w[0] == 'END':
                events.append(('frame', cur))
                cur = None
                continue
            cur.lines.append(line)
            if w[0] == 'RCV':
                cur.rcv.append((w[2], w[3:]))
            elif w[0] == 'PANIC':
                cur.panic = ' '.join(w[2:])
            elif w[0] == 'ST':
                cur.st = kvs(w[2:])
            elif w[0] == 'TRK':
                cur.trk = kvs(w[2:])
            elif w[0] == 'NET':
                cur.net = kvs(w[2:])
            elif w[0] == 'ORD':
                cur.ord = w[2:]
            elif w[0] == 'AST':
                cur.assets[(int(w[2]), w[3])] = w[4]
            elif w[0] == 'E':
                d = kvs(w[3:])
                d['ident'] = w[2]
                comps = {}
                if d.get('comps', '-') != '-':
                    for tv in d['comps'].split(','):
                        t, v = tv.split(':', 1)
                        comps[int(t)] = v
                d['compmap'] = comps
                k = w[2]
                while k in cur.ents:          # several entities may print the same ident (duplicates of one uuid)
                    k += '#'
                cur.ents[k] = d
            continue
        if w[0] == 'PEERS':
            n = int(w[1])
        elif w[0] == 'OP':
            events.append(('op', int(w[1]), w[2:]))
        elif w[0] == 'FRAME':
            cur = Frame(int(w[1]), idx)
            idx += 1
        elif w[0] == 'MARK':
            events.append(('mark', w[1:]))
        elif w[0] == 'QUIESCENT':
            events.append(('quiescent',))
        elif w[0] == 'NOTQUIESCENT':
            events.append(('notquiescent',))
    return dict(npeers=n, events=events)


def final_worlds(tr):
    """last observed frame of every peer"""
    last = {}
    for ev in tr['events']:
        if ev[0] == 'frame':
            last[ev[1].peer] = ev[1]
    return last


def connected_peers(last):
    """peers whose session is established at the end: host with ServerState::Connected, clients
    with ClientState::Connected"""
    out = []
    for p, f in sorted(last.items()):
        if f.panic:
            continue
        if f.st.get('server') == 'C' or f.st.get('client') == 'C':
            out.append(p)
    return out


def ended_quiescent(tr):
    evs = [e[0] for e in tr['events'] if e[0] in ('quiescent', 'notquiescent')]
    return bool(evs) and evs[-1] == 'quiescent'


def panics(tr, origin):
    out = []
    for ev in tr['events']:
        if ev[0] == 'frame' and ev[1].panic:
            msg = ev[1].panic
            if 'No registration found' in msg:
                sig = 'panic-unregistered-type'
            elif 'B0003' in msg or 'Could not insert a bundle' in msg:
                sig = 'panic-insert-on-despawned'
            elif 'does not exist' in msg or 'Entity' in msg:
                sig = 'panic-dead-entity'
            else:
                sig = 'panic-other'
            out.append(dict(signature=sig, what='peer %d panicked: %s' % (ev[1].peer, msg[:140]), origin=origin))
    return out


def sync_entities(frame):
    """uuid handle -> list of entity dicts carrying it"""
    m = {}
    for d in frame.ents.values():
        if d.get('sync', '-') != '-':
            m.setdefault(d['sync'], []).append(d)
    return m


def c01_entities(tr, origin, despawned_expected=None):
    """At quiescence every connected peer holds exactly one live entity per surviving uuid, the
    same set everywhere; a uuid never changes on an entity."""
    out = []
    # uuid stability: an ident never shows two different sync values over time
    seen = {}
    for ev in tr['events']:
        if ev[0] != 'frame':
            continue
        f = ev[1]
        for ident, d in f.ents.items():
            s = d.get('sync', '-')
            if s == '-' or not ident.startswith('h'):
                continue
            key = (f.peer, ident)
            if key in seen and seen[key] != s:
                out.append(dict(signature='uuid-changed', what='entity %s on peer %d changed uuid %s -> %s' % (ident, f.peer, seen[key], s), origin=origin))
            seen[key] = s
    if not ended_quiescent(tr):
        return out
    last = final_worlds(tr)
    conn = connected_peers(last)
    sets = {}
    for p in conn:
        se = sync_entities(last[p])
        for u, l in se.items():
            if len(l) != 1:
                out.append(dict(signature='duplicate-entity', what='peer %d holds %d live entities for uuid %s' % (p, len(l), u), origin=origin))
        sets[p] = set(se)
    if conn:
        ref = sets[conn[0]]
        for p in conn[1:]:
            if sets[p] != ref:
                out.append(dict(signature='entity-sets-differ', origin=origin,
                                what='at quiescence peer %d holds uuids %s, peer %d holds %s' % (conn[0], sorted(ref), p, sorted(sets[p]))))
    return out


def _values_at(last, origin, types, where):
    out = []
    conn = connected_peers(last)
    vals = {}
    for p in conn:
        for u, l in sync_entities(last[p]).items():
            d = l[0]
            excl = set() if d.get('excl', '-') == '-' else {int(x) for x in d['excl'].split(',')}
            for t, v in d['compmap'].items():
                if t < 100 and (types is None or t in types):
                    vals.setdefault((u, t), {})[p] = (v, t in excl)
    for (u, t), pv in sorted(vals.items()):
        if any(ex for (_, ex) in pv.values()):
            continue
        present = {p: v for p, (v, _) in pv.items()}
        missing = [p for p in conn if p not in present and any(u in sync_entities(last[p]) for _ in [0])]
        if len(set(present.values())) > 1:
            out.append(dict(signature='values-differ', origin=origin, key=(u, t),
                            what='%s component %d of uuid %s: %s' % (where, t, u, ', '.join('peer %d=%s' % (p, v) for p, v in sorted(present.items())))))
        elif missing:
            out.append(dict(signature='value-missing', origin=origin, key=(u, t),
                            what='%s component %d of uuid %s present on peers %s but absent on %s' % (where, t, u, sorted(present), missing)))
    return out


def c02_values(tr, origin, types=None):
    """At quiescence all connected peers hold equal values for every (uuid, sync type) present
    anywhere, provided the type is registered on all of them (caller restricts `types`)."""
    if not ended_quiescent(tr):
        return []
    return _values_at(final_worlds(tr), origin, types, 'at quiescence')


def c02_values_every_quiescent(tr, origin, types=None):
    """The same at EVERY quiescent point of the run (histories whose premises hold throughout:
    C02_every_quiescent_state), not only at its end; the first disagreement is reported."""
    last, k = {}, 0
    for ev in tr['events']:
        if ev[0] == 'frame':
            last[ev[1].peer] = ev[1]
        elif ev[0] == 'quiescent':
            k += 1
            out = _values_at(dict(last), origin, types, 'at quiescent point %d' % k)
            if out:
                return out
    return []


def c05_parents(tr, origin):
    out = []
    if not ended_quiescent(tr):
        return out
    last = final_worlds(tr)
    conn = connected_peers(last)

    def uuid_of(frame, ident):
        d = frame.ents.get(ident)
        return d.get('sync', '-') if d else '-'
    links = {}
    for p in conn:
        f = last[p]
        m = {}
        for u, l in sync_entities(f).items():
            d = l[0]
            par = d.get('parent', '-')
            pu = uuid_of(f, par) if par != '-' else '-'
            m[u] = pu
            # listed exactly once among that parent's children
            if par != '-' and par in f.ents:
                ch = f.ents[par].get('children', '-')
                chl = [] if ch == '-' else ch.split(',')
                if chl.count(d['ident']) != 1:
                    out.append(dict(signature='child-not-listed-once', origin=origin,
                                    what='peer %d: %s is listed %d times among the children of %s' % (p, d['ident'], chl.count(d['ident']), par)))
        links[p] = m
    if conn:
        ref = links[conn[0]]
        for p in conn[1:]:
            for u in set(ref) & set(links[p]):
                if ref[u] != links[p][u]:
                    out.append(dict(signature='parents-differ', origin=origin,
                                    what='at quiescence uuid %s has parent %s on peer %d and %s on peer %d' % (u, ref[u], conn[0], links[p][u], p)))
    return out


def c09_traffic(tr, origin, max_rounds_after_last_op=None):
    out = []
    evs = [e[0] for e in tr['events'] if e[0] in ('quiescent', 'notquiescent')]
    if 'notquiescent' in evs:
        out.append(dict(signature='not-quiescent', origin=origin, what='message flow did not stop within the drain bound'))
    return out


def c10_subsequence(tr, origin, key, writer):
    """key = (uuid handle, type); displayed values on every peer other than the writer, frame
    after frame, must be a subsequence of the written sequence, ending (at quiescence) with the
    last written value."""
    out = []
    u, t = key
    written = []
    for ev in tr['events']:
        if ev[0] == 'op' and ev[1] == writer:
            w = ev[2]
            if w[0] == 'write' and w[1] == u and int(w[2]) == t:
                written.append(w[3])
            # a write by an application system in the middle of the writer's next frame (the generators
            # issue at most one per frame and key, so the order written is the order of the script)
            if w[0] == 'appcmd' and w[2] == 'insert' and w[3] == u and int(w[4]) == t:
                written.append(w[5])
            if w[0] == 'spawn' and w[1] == u:
                for tv in w[3:]:
                    tt, vv = tv.split(':')
                    if int(tt) == t:
                        written.append(vv)
    shown = {}
    for ev in tr['events']:
        if ev[0] != 'frame':
            continue
        f = ev[1]
        if f.peer == writer:
            continue
        for d in f.ents.values():
            if d.get('sync') == u and t in d['compmap']:
                seq = shown.setdefault(f.peer, [])
                v = d['compmap'][t]
                if not seq or seq[-1] != v:
                    seq.append(v)
    for p, seq in shown.items():
        # subsequence test
        i = 0
        for v in seq:
            while i < len(written) and written[i] != v:
                i += 1
            if i == len(written):
                never = v not in written
                out.append(dict(signature='invented-value' if never else 'older-value-reappeared', origin=origin,
                                what='peer %d displayed %s for component %d of %s; written sequence %s' % (p, seq, t, u, written)))
                break
            # stay at i (same value may be shown again only consecutively, which we compressed)
            i += 1
        if ended_quiescent(tr) and written and seq and seq[-1] != written[-1]:
            out.append(dict(signature='last-write-not-shown', origin=origin,
                            what='peer %d ends with %s for component %d of %s, last written %s' % (p, seq[-1], t, u, written[-1])))
    return out


def c15_snapshot_applied(tr, origin):
    """By the end of the frame in which a client observes InitialSyncFinished its synchronized entities,
    component values and parent links equal the host's — checked for joins during which no peer
    changes anything (so "the host's snapshot" is the host's current world)."""
    out = []
    host = None
    prev_fin = {}
    quiet_since = {}          # client -> True while nothing was changed since its setup
    host_fresh = False        # the host has run a frame since the last operation
    for ev in tr['events']:
        if ev[0] == 'op':
            p, w = ev[1], ev[2]
            if w[0] not in ('setup', 'reg', 'switches'):
                host_fresh = False
            if w[0] == 'setup':
                quiet_since[p] = True
            elif w[0] in ('spawn', 'despawn', 'write', 'parent', 'mark', 'excl', 'skin', 'appcmd', 'addasset', 'removetransports', 'promote', 'reconnect'):
                for q in quiet_since:
                    quiet_since[q] = False
        elif ev[0] == 'frame':
            f = ev[1]
            if f.panic or not f.st:
                continue
            if f.peer == 0:
                host = f
                host_fresh = True
                continue
            fin = int(f.st.get('fin', '0'))
            if fin > prev_fin.get(f.peer, 0) and quiet_since.get(f.peer) and host is not None and host_fresh and f.st.get('client') == 'C':
                def world(fr):
                    wv = {}
                    for u, l in sync_entities(fr).items():
                        d = l[0]
                        wv[u] = tuple(sorted((t, v) for t, v in d['compmap'].items() if t < 100))
                    return wv
                hw, cw = world(host), world(f)
                if hw != cw:
                    missing = sorted(set(hw) - set(cw))
                    out.append(dict(signature='finished-before-snapshot-applied', origin=origin,
                                    what='peer %d observed InitialSyncFinished in a frame at whose end it holds %d of the host\'s %d synchronized entities%s' % (
                                        f.peer, len(set(hw) & set(cw)), len(hw), (' (missing uuids %s)' % missing[:6]) if missing else ' (component values differ)')))
                    return out
            prev_fin[f.peer] = fin
    return out


def c17_present_untouched(tr, origin):
    """a GlobalTransform the application put on an entity itself (written with `write h 100 v`) keeps
    its value in every later frame of that peer: the companion fix leaves present companions alone"""
    out = []
    own = {}            # (peer, handle) -> value
    for ev in tr['events']:
        if ev[0] == 'op' and ev[2][0] == 'write' and ev[2][2] == '100':
            own[(ev[1], ev[2][1])] = ev[2][3]
        elif ev[0] == 'frame':
            f = ev[1]
            for ident, d in f.ents.items():
                u = d.get('sync')
                for (p, h), v in own.items():
                    if p == f.peer and u == h and 100 in d['compmap'] and d['compmap'][100] != v:
                        out.append(dict(signature='present-companion-overwritten', origin=origin,
                                        what='peer %d entity of uuid %s: the GlobalTransform the application wrote (%s) reads %s after a later frame' % (p, h, v, d['compmap'][100])))
                        return out
    return out


def no_phantom_components(tr, origin):
    """a synchronized entity carries a replicated component kind only if some operation of the history wrote
    that kind on that entity (spawn list, write, application command, skin): nothing makes one up"""
    written = set()
    for ev in tr['events']:
        if ev[0] == 'op':
            w = ev[2]
            if w[0] == 'spawn':
                for c in w[3:]:
                    if ':' in c:
                        written.add((w[1], int(c.split(':')[0])))
            elif w[0] == 'write':
                written.add((w[1], int(w[2])))
            elif w[0] == 'appcmd' and w[2] == 'insert':
                written.add((w[3], int(w[4])))
            elif w[0] == 'skin':
                written.add((w[1], 8))
        elif ev[0] == 'frame':
            f = ev[1]
            for ident, d in f.ents.items():
                u = d.get('sync')
                if not u or u == '-':
                    continue
                for t in d['compmap']:
                    if t < 100 and (u, t) not in written:
                        return [dict(signature='phantom-component', origin=origin,
                                     what='peer %d entity of uuid %s carries component %d that no operation ever wrote on it' % (f.peer, u, t))]
    return []


def c09_assets_tight(tr, origin):
    """Asset histories with one publisher per id in a session whose peers all joined before the first
    publication (C06_publication_cost): a publication costs at most one message per client (to the host,
    relayed to the others; or from the host to everybody), nothing is announced back. Whole run."""
    n = tr['npeers']
    seen_op = False
    pubs = 0
    for ev in tr['events']:
        if ev[0] == 'op':
            w = ev[2]
            if w[0] == 'setup' and seen_op:
                return []
            if w[0] == 'addasset':
                seen_op = True
                pubs += 1
    got = 0
    started = False           # the snapshots of the initial joins (engine default material) are not counted
    for ev in tr['events']:
        if ev[0] == 'op' and ev[2][0] == 'addasset':
            started = True
        if ev[0] == 'frame' and started:
            got += sum(1 for frm, m in ev[1].rcv if m[0] in ('mat', 'asset'))
    if got > pubs * (n - 1):
        return [dict(signature='asset-update-echoed', origin=origin,
                     what='%d asset / material announcements were received for %d publications in a session of %d clients (at most one per client and publication)' % (got, pubs, n - 1))]
    return []


def c09_tight(tr, origin):
    """Histories of non-conflicting operations in a session whose peers all joined before the first
    operation: a local change costs at most one message per connected client (C05_messages_per_operation,
    the value and entity counterparts: to the host, then relayed to the others; or from the host to
    everybody), nothing is ever sent back. Counted over the whole run."""
    n = tr['npeers']
    seen_op = False
    for ev in tr['events']:
        if ev[0] == 'op':
            w = ev[2]
            if w[0] == 'setup' and seen_op:
                return []                      # a late joiner: snapshots are not counted here
            if w[0] in ('spawn', 'write', 'parent', 'despawn', 'mark', 'skin', 'addasset', 'excl', 'appcmd'):
                seen_op = True
    clients = n - 1
    parents = sum(1 for ev in tr['events'] if ev[0] == 'op' and ev[2][0] == 'parent')
    writes = sum(1 for ev in tr['events'] if ev[0] == 'op' and (ev[2][0] == 'write' or (ev[2][0] == 'appcmd' and ev[2][2] == 'insert') or ev[2][0] == 'skin'))
    writes += sum(len(ev[2]) - 3 for ev in tr['events'] if ev[0] == 'op' and ev[2][0] == 'spawn')
    got_par = got_comp = 0
    for ev in tr['events']:
        if ev[0] == 'frame':
            for frm, m in ev[1].rcv:
                if m[0] == 'parented':
                    got_par += 1
                elif m[0] == 'comp':
                    got_comp += 1
    out = []
    if got_par > parents * clients:
        out.append(dict(signature='parent-link-echoed', origin=origin,
                        what='%d EntityParented messages were received for %d set-parent operations in a session of %d clients (at most one per client and operation)' % (got_par, parents, clients)))
    if got_comp > writes * clients:
        out.append(dict(signature='component-update-echoed', origin=origin,
                        what='%d ComponentUpdated messages were received for %d component writes in a session of %d clients (at most one per client and write)' % (got_comp, writes, clients)))
    return out


COMPANIONS = {2: [100], 3: [101, 102], 4: [103, 104], 5: [105], 6: [106, 107, 108, 109]}


def c17_companions(tr, origin):
    """Whenever a replicated render component has been on a replica for two consecutive observed
    frames of that peer, its companions are there."""
    out = []
    prev = {}
    for ev in tr['events']:
        if ev[0] != 'frame':
            continue
        f = ev[1]
        for ident, d in f.ents.items():
            if d.get('sync', '-') == '-':
                continue
            for t, comps in COMPANIONS.items():
                if t in d['compmap']:
                    had = prev.get((f.peer, ident, t), 0)
                    if had >= 2 and any(c not in d['compmap'] for c in comps):
                        out.append(dict(signature='companions-missing', origin=origin,
                                        what='peer %d entity %s carries component %d for %d frames without companions %s' % (f.peer, ident, t, had, comps)))
                    prev[(f.peer, ident, t)] = had + 1
    return out


def c04_optin(tr, origin, registered, marked_handles, excluded_always):
    """registered: peer -> set of type ids; marked_handles: set of uuid handles ever marked;
    excluded_always: set of (handle, type) excluded before the component existed and never released."""
    out = []
    for ev in tr['events']:
        if ev[0] != 'frame':
            continue
        f = ev[1]
        for frm, m in f.rcv:
            if m[0] in ('spawn', 'delete') and m[1] not in marked_handles:
                out.append(dict(signature='unmarked-entity-sent', origin=origin, what='peer %d received %s' % (f.peer, ' '.join(m))))
            if m[0] == 'comp':
                u, t = m[1], m[2]
                if u not in marked_handles:
                    out.append(dict(signature='unmarked-entity-sent', origin=origin, what='peer %d received %s' % (f.peer, ' '.join(m))))
                if (u, int(t) if t.isdigit() else -1) in excluded_always:
                    out.append(dict(signature='excluded-component-sent', origin=origin, what='peer %d received %s' % (f.peer, ' '.join(m))))
    return out


def canon_skin(v):
    """skin[h2;r3][5] -> joints as uuid handles"""
    return re.sub(r'\b[hr](\d+)', r'\1', v)


def c16_skins(tr, origin):
    out = []
    if not ended_quiescent(tr):
        return out
    last = final_worlds(tr)
    conn = connected_peers(last)
    vals = {}
    for p in conn:
        for u, l in sync_entities(last[p]).items():
            v = l[0]['compmap'].get(8)
            if v is not None:
                vals.setdefault(u, {})[p] = canon_skin(v)
    for u, pv in sorted(vals.items()):
        if len(set(pv.values())) > 1 or len(pv) != len([p for p in conn if u in sync_entities(last[p])]):
            out.append(dict(signature='skin-differs', origin=origin,
                            what='at quiescence SkinnedMesh of uuid %s: %s' % (u, ', '.join('peer %d=%s' % (p, v) for p, v in sorted(pv.items())))))
    return out


def c06_assets(tr, origin, enabled):
    """enabled: peer -> (mat, mesh, audio) switches. At quiescence every uuid asset of an enabled
    class held by a connected peer is held with equal content by every connected peer that
    has the class enabled, provided its publisher had the class enabled."""
    out = []
    if not ended_quiescent(tr):
        return out
    last = final_worlds(tr)
    conn = connected_peers(last)

    def on(p, k):
        m, me, au = enabled.get(p, (0, 0, 0))
        return {0: m, 2: m, 1: me, 3: au}[k]
    published = {}
    for ev in tr['events']:
        if ev[0] == 'op' and ev[2][0] == 'addasset':
            k, a, v = int(ev[2][1]), ev[2][2], ev[2][3]
            if on(ev[1], k):
                published[(k, a)] = v
    for (k, a), v in sorted(published.items()):
        for p in conn:
            if not on(p, k):
                continue
            got = last[p].assets.get((k, a))
            if got != v:
                out.append(dict(signature='asset-missing' if got is None else 'asset-content-differs', origin=origin,
                                what='at quiescence asset kind %d id %s: last published content %s, peer %d holds %s' % (k, a, v, p, got)))
    return out


def c04_assets(tr, origin, enabled):
    """assets whose class is disabled on their owner, and index-id assets, never reach another peer"""
    out = []

    def on(p, k):
        m, me, au = enabled.get(p, (0, 0, 0))
        return {0: m, 2: m, 1: me, 3: au}[k]
    forbidden = {}
    allowed = set()
    for ev in tr['events']:
        if ev[0] == 'op' and ev[2][0] == 'addasset':
            k, a = int(ev[2][1]), ev[2][2]
            if on(ev[1], k):
                allowed.add((k, a))
            else:
                forbidden.setdefault((k, a), set()).add(ev[1])
    for ev in tr['events']:
        if ev[0] != 'frame':
            continue
        f = ev[1]
        for (k, a), v in f.assets.items():
            if (k, a) in forbidden and (k, a) not in allowed and f.peer not in forbidden[(k, a)]:
                out.append(dict(signature='disabled-class-asset-leaked', origin=origin,
                                what='peer %d holds asset kind %d id %s whose class is disabled on its owner' % (f.peer, k, a)))
        for frm, m in f.rcv:
            if m[0] == 'asset' and m[2].startswith('u'):
                out.append(dict(signature='non-script-asset-sent', origin=origin, what='peer %d received %s' % (f.peer, ' '.join(m))))
    return out


def c15_states(tr, origin):
    """published states follow the allowed paths; InitialSyncFinished once per join"""
    out = []
    prev = {}
    for ev in tr['events']:
        if ev[0] != 'frame':
            continue
        f = ev[1]
        if f.panic or not f.st:
            continue
        c = f.st.get('client')
        pc = prev.get(f.peer, {}).get('client', 'D')
        ok = {('D', 'D'), ('D', 'G'), ('G', 'G'), ('G', 'C'), ('C', 'C'), ('C', 'D'), ('G', 'D')}
        if (pc, c) not in ok:
            out.append(dict(signature='client-state-jump', origin=origin, what='peer %d ClientState %s -> %s' % (f.peer, pc, c)))
        if c == 'C' and pc == 'G' and f.net.get('status') not in ('connected',):
            # Connected is published one frame after verify saw the transport connected; the status
            # observed now must still be connected unless the transport was removed in between
            if f.net.get('clit') == '1':
                out.append(dict(signature='connected-before-transport', origin=origin,
                                what='peer %d published ClientState::Connected while RenetClient is %s' % (f.peer, f.net.get('status'))))
        prev[f.peer] = f.st
    return out


def stuck_states(tr, origin):
    """after removetransports and >= 3 further frames, both states must be Disconnected"""
    out = []
    removed_at = {}
    count = {}
    for ev in tr['events']:
        if ev[0] == 'op' and ev[2][0] == 'removetransports':
            removed_at[ev[1]] = True
            count[ev[1]] = 0
        if ev[0] == 'op' and ev[2][0] == 'setup':
            removed_at.pop(ev[1], None)
        if ev[0] == 'frame' and ev[1].peer in removed_at and not ev[1].panic:
            p = ev[1].peer
            count[p] += 1
            if count[p] >= 3:
                if ev[1].st.get('client') != 'D':
                    out.append(dict(signature='client-state-stuck-connecting' if ev[1].st.get('client') == 'G' else 'client-state-stuck',
                                    origin=origin, what='peer %d: %d frames after its transport was removed ClientState is %s' % (p, count[p], ev[1].st.get('client'))))
                if ev[1].st.get('server') != 'D':
                    out.append(dict(signature='server-state-stuck', origin=origin,
                                    what='peer %d: %d frames after its transport was removed ServerState is %s' % (p, count[p], ev[1].st.get('server'))))
    return out
