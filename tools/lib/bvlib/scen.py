"""Scenario generator for the protocol correspondence and the property oracles. Every random
choice derives from one PRNG seeded by the caller."""
import random

FAMILY = [0, 1, 2, 3, 4, 5, 6, 7]
PROFILES = ['entities', 'values', 'parents', 'mixed', 'assets', 'skinned', 'appcmd', 'promotion']          # component type ids (see coq/theories/Sync/Types.v)


class Gen:
    def __init__(self, seed, profile='mixed', npeers=None, types=None):
        self.r = random.Random(seed)
        self.profile = profile
        self.n = npeers or self.r.choice([2, 2, 3, 3, 4])
        self.types = types if types is not None else sorted(self.r.sample(FAMILY, self.r.randint(1, 4)))
        self.lines = []
        self.next_h = 1
        self.owner = {}            # handle -> owner peer
        self.alive = set()         # handles believed alive somewhere
        self.marked = set()
        self.setup_done = set()
        self.val = 1
        self.stats = {}

    def emit(self, s):
        self.lines.append(s)
        k = s.split()[0] + (' ' + s.split()[2] if s.startswith('OP') else '')
        self.stats[k] = self.stats.get(k, 0) + 1

    def wtypes(self):
        return [t for t in self.types if t != 8]

    def fresh_val(self, t=None):
        self.val += 1
        return self.val % 3 if t == 3 else self.val

    def frames(self):
        """some pacing: lockstep rounds, one peer running ahead, pauses"""
        c = self.r.random()
        peers = sorted(self.setup_done)
        if not peers:
            return
        if c < 0.45:
            self.emit('ROUND %d' % self.r.randint(1, 3))
        elif c < 0.8:
            p = self.r.choice(peers)
            self.emit('FRAME %d %d' % (p, self.r.randint(1, 4)))
        elif c < 0.9:
            for p in self.r.sample(peers, len(peers)):
                self.emit('FRAME %d %d' % (p, self.r.randint(1, 2)))
        else:
            pass

    def setup(self, p):
        if p in self.setup_done:
            return
        self.emit('OP %d setup' % p)
        self.setup_done.add(p)

    def op(self):
        r = self.r
        peers = list(range(self.n))
        p = r.choice(peers)
        kinds = {'entities': ['spawn', 'spawn', 'despawn', 'spawnc', 'flash'],
                 'values': ['spawnc', 'write', 'write', 'write', 'writer', 'excl'],
                 'parents': ['spawn', 'spawn', 'parent', 'parent', 'despawn'],
                 'mixed': ['spawn', 'spawnc', 'despawn', 'write', 'write', 'writer', 'parent', 'excl', 'mark', 'flash'],
                 'assets': ['asset', 'asset', 'asset', 'asseti', 'spawn', 'sleep'],
                 'skinned': ['spawn', 'spawn', 'skin', 'skin', 'write', 'despawn'],
                 'appcmd': ['spawnc', 'spawn', 'write', 'writer', 'parent', 'appdespawn', 'appdespawn'],
                 'promotion': ['spawnc', 'write', 'writer', 'despawn']}[self.profile]
        k = r.choice(kinds)
        if k in ('spawn', 'spawnc'):
            h = self.next_h
            self.next_h += 1
            marked = 1 if r.random() < 0.9 else 0
            comps = ''
            if k == 'spawnc' and self.wtypes():
                ts = r.sample(self.wtypes(), r.randint(1, min(2, len(self.wtypes()))))
                comps = ' ' + ' '.join('%d:%d' % (t, self.fresh_val(t)) for t in ts)
            self.emit('OP %d spawn %d %d%s' % (p, h, marked, comps))
            self.owner[h] = p
            self.alive.add(h)
            if marked:
                self.marked.add(h)
        elif k == 'flash' and p in self.setup_done:
            # an entity that lives for one frame of its owner: its spawn and its delete are in flight together
            # (both may reach a lagging peer within one of that peer's frames)
            h = self.next_h
            self.next_h += 1
            self.emit('OP %d spawn %d 1' % (p, h))
            self.emit('FRAME %d 1' % p)
            self.emit('OP %d despawn %d' % (p, h))
            self.emit('FRAME %d 1' % p)
            self.owner[h] = p
        elif k == 'despawn' and self.alive:
            h = r.choice(sorted(self.alive))
            q = self.owner[h] if r.random() < 0.6 else p
            self.emit('OP %d despawn %d' % (q, h))
            if q == self.owner[h] or h in self.marked:
                self.alive.discard(h)
        elif k == 'mark' and self.alive:
            un = [h for h in self.alive if h not in self.marked]
            if un:
                h = r.choice(un)
                self.emit('OP %d mark %d' % (self.owner[h], h))
                self.marked.add(h)
        elif k in ('write', 'writer') and self.alive and self.wtypes():
            h = r.choice(sorted(self.alive))
            q = self.owner[h] if k == 'write' else p
            t = r.choice(self.wtypes())
            if self.profile == 'promotion':
                # the promotion oracle demands equal values at the end: two peers may write one component only
                # with a drain in between (conflicting concurrent writers may end quiescent and disagree, which
                # is outside C02 / C07); a change of writer is therefore preceded by a drain
                lw = getattr(self, 'last_writer', None)
                if lw is None:
                    lw = self.last_writer = {}
                if lw.get((h, t), self.owner[h]) != q:
                    self.emit('DRAIN 60')
                lw[(h, t)] = q
            self.emit('OP %d write %d %d %d' % (q, h, t, self.fresh_val(t)))
        elif k == 'excl' and self.alive and self.types:
            h = r.choice(sorted(self.alive))
            t = r.choice([t for t in self.types if t in (0, 1, 2, 3, 4, 7)] or [0])
            self.emit('OP %d excl %d %d %d' % (self.owner[h], h, t, r.choice([0, 1, 1])))
        elif k == 'asset' and p in self.setup_done:
            # (a peer that is not yet connected would announce the asset only if its event is still in
            #  the engine's event buffers when it connects: wall-clock dependent, kept out)
            kind = r.choice([0, 0, 1, 2, 3])
            a = 100 * (kind + 1) + 10 * p + r.randint(1, 3)   # ids of different kinds never collide (random uuids in practice); one publisher per id (no conflicting overwrites)
            self.emit('OP %d addasset %d %d %d' % (p, kind, a, self.fresh_val()))
        elif k == 'asseti':
            self.emit('OP %d addasset_index %d %d' % (p, r.choice([0, 1, 2, 3]), self.fresh_val()))
        elif k == 'sleep':
            self.emit('SLEEP 30')
        elif k == 'skin' and self.alive:
            h = r.choice(sorted(self.alive))
            js = [r.choice(sorted(self.alive)) for _ in range(r.randint(0, 3))]
            ps = [self.fresh_val() for _ in range(r.randint(0, 2))]
            self.emit('OP %d skin %d %s %s' % (self.owner[h] if r.random() < 0.7 else p, h,
                                               ','.join(map(str, js)) or '-', ','.join(map(str, ps)) or '-'))
        elif k == 'appdespawn' and self.alive:
            h = r.choice(sorted(self.alive))
            self.emit('OP %d appcmd %d despawn %d' % (p, r.randint(0, 2), h))
            self.alive.discard(h)
        elif k == 'parent' and len(self.alive) >= 2:
            links = getattr(self, 'links', None)
            if links is None:
                links = self.links = {}
            if links and r.random() < 0.25:
                # an existing link is asserted again (add_child to the same parent), by any peer
                c = r.choice(sorted(x for x in links if x in self.alive and links[x] in self.alive) or [None])
                if c is not None:
                    self.emit('OP %d parent %d %d' % (r.choice([p, self.owner[c]]), c, links[c]))
                    return
            c, par = r.sample(sorted(self.alive), 2)
            q = self.owner[c] if r.random() < 0.5 else p
            self.emit('OP %d parent %d %d' % (q, c, par))
            links[c] = par

    def generate(self, nops=20, late_join=None, pre_marks=None):
        r = self.r
        self.emit('PEERS %d%s' % (self.n, ' v6' if self.profile == 'assets' and r.random() < 0.3 else ''))
        # registrations: mostly the same on every peer; sometimes one peer lacks one
        if self.profile == 'skinned' and 8 not in self.types:
            self.types = sorted(set(self.types) | {8})
        if self.profile == 'assets':
            for p in range(self.n):
                sw = [1, 1, 1] if r.random() < 0.7 else [r.randint(0, 1) for _ in range(3)]
                self.emit('OP %d switches %d %d %d' % (p, sw[0], sw[1], sw[2]))
        for p in range(self.n):
            ts = list(self.types)
            if self.profile == 'mixed' and p > 0 and r.random() < 0.15 and len(ts) > 1:
                ts.remove(r.choice([t for t in ts if t in (0, 1)] or ts))
            for t in ts:
                self.emit('OP %d reg %d' % (p, t))
        late = set()
        if late_join is None:
            late_join = r.random() < 0.5 and self.profile != 'skinned'
        if late_join and self.n > 2:
            late = {self.n - 1}
        if pre_marks is None:
            pre_marks = r.random() < 0.3
        if pre_marks:
            for _ in range(r.randint(1, 3)):
                self.op()
        self.setup(0)
        for p in range(1, self.n):
            if p not in late:
                self.setup(p)
        self.emit('ROUND %d' % r.randint(5, 8))
        joined = False
        for i in range(nops):
            self.op()
            if r.random() < 0.7:
                self.frames()
            if late and not joined and i >= nops // 2:
                for p in late:
                    self.setup(p)
                joined = True
                if self.profile == 'assets':
                    # asset events of a peer whose handshake is still under way expire with the engine's
                    # event buffers (wall-clock): let the joiner connect before it publishes
                    self.emit('ROUND 8')
                if r.random() < 0.5:
                    self.emit('ROUND %d' % r.randint(1, 6))
        for p in late:
            self.setup(p)
        if self.profile == 'promotion' and self.n >= 2:
            self.emit('DRAIN 60')
            self.emit('OP 0 promote %d' % r.randint(1, self.n - 1))
            marked_alive = sorted(h for h in self.alive if h in self.marked)
            if marked_alive and self.wtypes() and r.random() < 0.6:
                # the old host is still the only authority its clients know: a write one frame into the
                # hand-over (PromoteToHost delivered, NewHost not yet sent) must reach everybody, the
                # promoted peer included, over the old links. (Later writes inside the hand-over window
                # are outside the property: operations are resumed AFTER the hand-over.)
                self.emit('ROUND 1')
                h = r.choice(marked_alive)
                t = r.choice(self.wtypes())
                self.emit('OP 0 write %d %d %d' % (h, t, self.fresh_val(t)))
                if getattr(self, 'last_writer', None) is None:
                    self.last_writer = {}
                self.last_writer[(h, t)] = 0
            self.emit('ROUND %d' % r.randint(10, 16))
            if self.n > 2:
                # the other clients move to the new host without telling the old one: it learns of their
                # departure only through renet's time-out (15 s of its own clock, which advances by at
                # most 250 ms per frame): let that much time pass before anything is demanded
                for _ in range(68):
                    self.emit('SLEEP 260')
                    self.emit('ROUND 1')
            for _ in range(4):
                self.op()
                self.emit('DRAIN 60')      # writes resumed on either side, one at a time
        if self.profile == 'assets':
            self.emit('SLEEP 60')
        self.emit('DRAIN 80')
        return '\n'.join(self.lines) + '\n'


def scenario(seed, profile='mixed', nops=20, **kw):
    g = Gen(seed, profile, **kw)
    return g.generate(nops), g.stats


# ------------------------------------------------------------------------------------------
# property-specific generators: histories that satisfy the premises of a property, so that its
# oracle may demand the conclusion. Each returns (scenario text, meta for the oracle).

def _header(r, n, types, regs=None, v6=False):
    lines = ['PEERS %d%s' % (n, ' v6' if v6 else '')]
    for p in range(n):
        for t in (regs[p] if regs else types):
            lines.append('OP %d reg %d' % (p, t))
    return lines


def _pace(r, lines, peers):
    c = r.random()
    if c < 0.4:
        lines.append('ROUND %d' % r.randint(1, 3))
    elif c < 0.8:
        lines.append('FRAME %d %d' % (r.choice(peers), r.randint(1, 4)))
    elif c < 0.9:
        for p in r.sample(peers, len(peers)):
            lines.append('FRAME %d %d' % (p, r.randint(1, 2)))


def values_clean(seed, nops=16, family=None):
    """C02: writes from arbitrary peers to several keys; two writes to one key by different peers
    are separated by a drain; every type registered on every peer; no exclusion."""
    r = random.Random(seed)
    n = r.choice([2, 3, 3, 4])
    fam = family or [0, 1, 2, 3, 4, 5, 6, 7]
    types = sorted(r.sample(fam, r.randint(1, min(3, len(fam)))))
    lines = _header(r, n, types)
    for p in range(n):
        lines.append('OP %d setup' % p)
    lines.append('ROUND %d' % r.randint(6, 9))
    peers = list(range(n))
    ents, val, last_writer, last_value = [], 10, {}, {}
    for h in range(1, r.randint(2, 4) + 1):
        p = r.choice(peers)
        comps = ''
        if r.random() < 0.5:
            t = r.choice(types)
            val += 1
            v = val % 3 if t == 3 else val
            comps = ' %d:%d' % (t, v)
            last_writer[(h, t)] = p
            last_value[(h, t)] = v
        lines.append('OP %d spawn %d 1%s' % (p, h, comps))
        ents.append(h)
        if comps and r.random() < 0.5:
            # the spawner runs ahead alone, the others receive the spawn and its value in ONE frame (the
            # replica is a freshly tracked entity there), then the spawner writes again at once
            lines.append('FRAME %d %d' % (p, r.randint(3, 5)))
            for q in peers:
                if q != p:
                    lines.append('FRAME %d 1' % q)
            val += 1
            v = val % 3 if t == 3 else val
            lines.append('OP %d write %d %d %d' % (p, h, t, v))
            last_value[(h, t)] = v
            lines.append('ROUND %d' % r.randint(1, 3))
    lines.append('DRAIN 60')
    used = {}

    def write(p, h, t, v=None):
        nonlocal val
        if (h, t) in last_writer and last_writer[(h, t)] != p:
            lines.append('DRAIN 60')
        if v is None:
            val += 1
            c = r.random()
            if t == 3:
                v = val % 3
            elif t == 7 and c < 0.08:
                v = 100000 + val               # a 100 kB Name: large payload
            elif c < 0.3 and used.get((h, t)):
                v = r.choice(used[(h, t)])     # an earlier value comes back (A-B-A)
            else:
                v = val
        lines.append('OP %d write %d %d %d' % (p, h, t, v))
        last_writer[(h, t)] = p
        last_value[(h, t)] = v
        used.setdefault((h, t), []).append(v)
    for _ in range(nops):
        h, t, p = r.choice(ents), r.choice(types), r.choice(peers)
        if r.random() < 0.3:
            # a burst: the writer runs ahead of everybody, then the others catch up, then a reader writes
            for _ in range(r.randint(2, 3)):
                write(p, h, t)
                lines.append('FRAME %d %d' % (p, r.randint(1, 2)))
            if r.random() < 0.7:
                q = r.choice([x for x in peers if x != p])
                write(q, h, t)
        else:
            write(p, h, t)
        if r.random() < 0.75:
            _pace(r, lines, peers)
    causal = []
    if r.random() < 0.5:
        # causal follow-up (no drain in between, yet not a conflict): a peer writes a component right
        # after the frame in which it applied another peer's write of that component (defect S22
        # before its repair). The oracle demands the second value only if the trace shows that the
        # first one had been received by then (see protoprops._c02_oracle).
        lines.append('DRAIN 60')
        h, t = r.choice(ents), r.choice([x for x in types if x != 3] or types)
        q, P = r.sample(peers, 2)
        val += 2
        v1, v2 = (val - 1) % 3 if t == 3 else val - 1, val % 3 if t == 3 else val
        lines.append('OP %d write %d %d %d' % (q, h, t, v1))
        lines.append('FRAME %d 2' % q)
        if q != 0 and P != 0:
            lines.append('FRAME 0 2')
        lines.append('FRAME %d 1' % P)
        lines.append('OP %d write %d %d %d' % (P, h, t, v2))
        last_value[(h, t)] = v2
        causal.append(('%d' % h, t, str(v1), P))
    lines.append('DRAIN 80')
    return '\n'.join(lines) + '\n', dict(last_value={('%d' % h, t): str(v) for (h, t), v in last_value.items()}, types=types, causal=causal)


def values_inframe(seed, nops=18):
    """C02 / C03 with writes made by application systems in the MIDDLE of a frame (Commands::insert at
    the scheduler-chosen position of one of three application systems) mixed with writes between
    frames; writers of one key separated by a drain; a late client joins at a random moment while the
    others keep writing. At most one in-frame write per peer is pending at any time, so the order
    written is the order of the script."""
    r = random.Random(seed)
    n = r.choice([2, 3, 3, 4])
    types = sorted(r.sample([0, 1, 2, 4, 5, 6], r.randint(1, 3)))
    lines = _header(r, n, types)
    late = n - 1 if n > 2 or r.random() < 0.5 else None
    for p in range(n):
        if p != late:
            lines.append('OP %d setup' % p)
    lines.append('ROUND %d' % r.randint(6, 9))
    peers = [p for p in range(n) if p != late]
    everybody = list(peers)
    ents, val, last_writer, last_value = [], 10, {}, {}
    for h in range(1, r.randint(2, 4) + 1):
        p = r.choice(peers)
        t = r.choice(types)
        val += 1
        lines.append('OP %d spawn %d 1 %d:%d' % (p, h, t, val))
        last_writer[(h, t)] = p
        last_value[(h, t)] = val
        ents.append(h)
    lines.append('DRAIN 60')
    when = r.randint(0, nops - 2)
    for i in range(nops):
        if late is not None and i == when:
            lines.append('OP %d setup' % late)
            everybody.append(late)
        h, t, p = r.choice(ents), r.choice(types), r.choice(peers)
        if (h, t) in last_writer and last_writer[(h, t)] != p:
            lines.append('DRAIN 60')
        burst = r.randint(1, 3)
        for _ in range(burst):
            val += 1
            if r.random() < 0.6:
                lines.append('OP %d appcmd %d insert %d %d %d' % (p, r.randint(0, 2), h, t, val))
                # other peers may run in between; the writer's frame applies the write
                for q in r.sample(everybody, r.randint(0, len(everybody))):
                    if q != p:
                        lines.append('FRAME %d 1' % q)
                lines.append('FRAME %d 1' % p)
            else:
                lines.append('OP %d write %d %d %d' % (p, h, t, val))
                if r.random() < 0.6:
                    lines.append('FRAME %d 1' % p)
            last_writer[(h, t)] = p
            last_value[(h, t)] = val
        if r.random() < 0.7:
            _pace(r, lines, everybody)
    if late is not None and when >= nops:
        lines.append('OP %d setup' % late)
    lines.append('DRAIN 80')
    return '\n'.join(lines) + '\n', dict(types=types, last_writer=last_writer, last_value={(str(h), t): str(v) for (h, t), v in last_value.items()}, causal=[])


def single_writer(seed, nops=14):
    """C10: one peer alone writes one key (bursts, pauses); the others write other entities."""
    r = random.Random(seed)
    n = r.choice([2, 3, 3, 4])
    t = r.choice([0, 1, 2, 4, 7, 7])
    # half of the histories: the writer updates a SECOND component of the same entity in the same frames
    t2 = r.choice([x for x in [0, 1, 2, 4] if x != t]) if r.random() < 0.5 else None
    lines = _header(r, n, [t] + ([t2] if t2 is not None else []))
    for p in range(n):
        lines.append('OP %d setup' % p)
    lines.append('ROUND %d' % r.randint(6, 9))
    peers = list(range(n))
    w = r.choice(peers)
    lines.append('OP %d spawn 1 1' % r.choice(peers))
    others = []
    for h in range(2, 2 + r.randint(0, 2)):
        q = r.choice(peers)
        lines.append('OP %d spawn %d 1' % (q, h))
        others.append((h, q))
    lines.append('DRAIN 60')
    val = 100
    for _ in range(nops):
        c = r.random()
        if c < 0.65:
            for j in range(r.choice([1, 1, 2, 3])):
                val += 1
                # a Name may be a 100 kB string (large payload) followed by a short one
                big = (t == 7 and j == 0 and r.random() < 0.35)
                lines.append('OP %d write 1 %d %d' % (w, t, 100000 + val if big else val))
                if t2 is not None:
                    lines.append('OP %d write 1 %d %d' % (w, t2, val))
                if big or r.random() < 0.6:
                    lines.append('FRAME %d %d' % (w, 1 if big else r.randint(1, 2)))
                if big:
                    val += 1
                    lines.append('OP %d write 1 %d %d' % (w, t, val))
                    lines.append('FRAME %d 1' % w)
        elif others:
            h, q = r.choice(others)
            val += 1
            lines.append('OP %d write %d %d %d' % (q, h, t, val))
        _pace(r, lines, peers)
    lines.append('DRAIN 80')
    return '\n'.join(lines) + '\n', dict(key=('1', t), writer=w)


def single_writer_join(seed, frames=36):
    """C10 with joins: one peer alone writes one key in EVERY frame — between frames, or through an
    application system in the middle of the frame (at most one such write per frame, so the order
    written is the order of the script) — while a late client joins; the joiner's displayed values
    must be in the order written too (S21)."""
    r = random.Random(seed)
    n = r.choice([2, 3, 3])
    t = r.choice([0, 1, 2, 4])
    lines = _header(r, n, [t])
    late = n - 1
    for p in range(n):
        if p != late:
            lines.append('OP %d setup' % p)
    lines.append('ROUND %d' % r.randint(5, 8))
    w = r.choice([p for p in range(n) if p != late])
    lines.append('OP %d spawn 1 1 %d:1' % (w, t))
    lines.append('DRAIN 40')
    val = 10
    start = r.randint(0, 6)
    mode = r.choice(['app', 'app', 'op', 'mixed'])
    for i in range(frames):
        if i == start:
            lines.append('OP %d setup' % late)
        val += 1
        if mode == 'app' or (mode == 'mixed' and r.random() < 0.5):
            lines.append('OP %d appcmd %d insert 1 %d %d' % (w, r.randint(0, 2), t, val))
        else:
            lines.append('OP %d write 1 %d %d' % (w, t, val))
        order = list(range(n))
        r.shuffle(order)
        for p in order:
            if p == w or r.random() < 0.85:
                lines.append('FRAME %d 1' % p)
    lines.append('DRAIN 80')
    return '\n'.join(lines) + '\n', dict(key=('1', t), writer=w)


def single_writer_many(seed):
    """C10 under load: the host alone writes one component of 140..200 entities in EVERY frame (a
    simulation step) while a late client joins; every reader — the joiner included — must see the
    values of each entity in the order written. (A backlog that outlives a frame must not reach a
    joiner after its snapshot.)"""
    r = random.Random(seed)
    n = r.choice([2, 3])
    t = r.choice([0, 1])
    lines = _header(r, n, [t])
    late = n - 1
    for p in range(n):
        if p != late:
            lines.append('OP %d setup' % p)
    lines.append('ROUND %d' % r.randint(5, 8))
    k = r.randint(140, 200)
    for h in range(1, k + 1):
        lines.append('OP 0 spawn %d 1 %d:1' % (h, t))
    lines.append('DRAIN 40')
    start = r.randint(1, 4)
    val = 1
    for i in range(r.randint(9, 12)):
        if i == start:
            lines.append('OP %d setup' % late)
        val += 1
        for h in range(1, k + 1):
            lines.append('OP 0 write %d %d %d' % (h, t, val))
        lines.append('ROUND 1')
    lines.append('DRAIN 60')
    keys = sorted({1, k, k // 2, r.randint(1, k), r.randint(k // 2, k)})
    return '\n'.join(lines) + '\n', dict(key=(str(keys[-1]), t), keys=[(str(h), t) for h in keys], writer=0)


def parents_clean(seed, nops=12):
    """C05: set-parent / re-parent operations by arbitrary peers; operations on the same child by
    different peers are separated by a drain; no cycles."""
    r = random.Random(seed)
    n = r.choice([2, 3, 3, 4])
    lines = _header(r, n, [0])
    late = n - 1 if (n > 2 and r.random() < 0.6) else None
    for p in range(n):
        if p != late:
            lines.append('OP %d setup' % p)
    lines.append('ROUND %d' % r.randint(6, 9))
    peers = [p for p in range(n) if p != late]
    k = r.randint(3, 6)
    same_frame = r.random() < 0.3
    for h in range(1, k + 1):
        lines.append('OP %d spawn %d 1' % (r.choice(peers), h))
    # application-private (never marked) entities with their own hierarchy, on some peers
    private = {}
    nh = k
    for p in peers:
        if r.random() < 0.6:
            ids = []
            for _ in range(r.randint(2, 3)):
                nh += 1
                lines.append('OP %d spawn %d 0' % (p, nh))
                ids.append(nh)
            private[p] = ids
    parent = {}
    if not same_frame:
        lines.append('DRAIN 60')

    def ancestors(x):
        out = set()
        while x in parent:
            x = parent[x]
            out.add(x)
        return out
    last = {}
    for _ in range(nops):
        if parent and r.random() < 0.15:
            # an existing link is asserted again by the peer that made it (add_child to the same parent:
            # Changed<Parent> fires, the others receive a link they already have), or, after a drain, by
            # any other peer: one announcement, then silence
            c = r.choice(sorted(parent))
            p = last[c]
            if r.random() < 0.5:
                lines.append('DRAIN 60')
                p = r.choice(peers)
                last[c] = p
            lines.append('OP %d parent %d %d' % (p, c, parent[c]))
            if r.random() < 0.7:
                _pace(r, lines, peers)
            continue
        c = r.randint(1, k)
        cands = [q for q in range(1, k + 1) if q != c and c not in ancestors(q) and q != parent.get(c)]
        if not cands:
            continue
        par = r.choice(cands)
        p = r.choice(peers)
        if c in last and last[c] != p or same_frame:
            lines.append('DRAIN 60')
            same_frame = False
        if p in private and r.random() < 0.5:
            # unsynchronized hierarchy changes in the same frame as the synchronized one
            a, b = private[p][0], private[p][1]
            lines.append('OP %d parent %d %d' % (p, a, b) if r.random() < 0.5 else 'OP %d parent %d %d' % (p, b, a))
            private[p] = [b, a] + private[p][2:]
        lines.append('OP %d parent %d %d' % (p, c, par))
        parent[c] = par
        last[c] = p
        if r.random() < 0.3:
            # a burst: the same peer moves the child again in each of its next frames while the
            # others lag behind (they apply several links of the child within one of their frames)
            for _ in range(r.randint(1, 2)):
                lines.append('FRAME %d 1' % p)
                cands = [q for q in range(1, k + 1) if q != c and c not in ancestors(q) and q != parent.get(c)]
                if not cands:
                    break
                par = r.choice(cands)
                lines.append('OP %d parent %d %d' % (p, c, par))
                parent[c] = par
            lines.append('FRAME %d 1' % p)
            lag = [q for q in peers if q != p]
            r.shuffle(lag)
            for q in lag:
                lines.append('FRAME %d 1' % q)
        if r.random() < 0.7:
            _pace(r, lines, peers)
    causal = []
    if r.random() < 0.5 and len(peers) >= 2:
        # causal follow-up (no drain in between, yet not a conflict): a peer re-parents a child right
        # after the frame in which it applied a link of that child made by another peer. The
        # oracle demands the second parent only if the trace shows that the first link had been
        # received by then (see protoprops._c05_oracle).
        lines.append('DRAIN 60')
        c = r.randint(1, k)
        cands = [q for q in range(1, k + 1) if q != c and c not in ancestors(q) and q != parent.get(c)]
        if len(cands) >= 2:
            p1, p2 = r.sample(cands, 2)
            q, P = r.sample(peers, 2)
            lines.append('OP %d parent %d %d' % (q, c, p1))
            lines.append('FRAME %d 2' % q)
            if q != 0 and P != 0:
                lines.append('FRAME 0 2')
            lines.append('FRAME %d 1' % P)
            lines.append('OP %d parent %d %d' % (P, c, p2))
            parent[c] = p2
            causal.append((str(c), str(p1), P))
    if late is not None:
        lines.append('OP %d setup' % late)
        clients = [q for q in peers if q != 0]
        if clients and r.random() < 0.85:
            # a link made by an established client reaches the host in the very frame in which the host
            # handles the joiner's RequestInitialSync (or one frame around it)
            lines.append('UNTILCONN %d 60' % late)
            for _ in range(r.randint(0, 2)):
                lines.append('FRAME %d 1' % late)
            a = r.choice(clients)
            c = r.randint(1, k)
            cands = [q for q in range(1, k + 1) if q != c and c not in ancestors(q) and q != parent.get(c)]
            if cands:
                if c in last and last[c] != a:
                    pass                      # would need a drain before the join: skip the operation
                else:
                    par = r.choice(cands)
                    lines.append('OP %d parent %d %d' % (a, c, par))
                    parent[c] = par
                    last[c] = a
                    lines.append('FRAME %d 2' % a)
            lines.append('FRAME %d 1' % late)
            lines.append('FRAME 0 1')
    lines.append('DRAIN 80')
    return '\n'.join(lines) + '\n', dict(parent={str(c): str(p) for c, p in parent.items()}, causal=causal)


def optin(seed, nops=16):
    """C04: per-peer registration subsets, per-peer switches, marked and unmarked entities, excluded
    components, uuid and index assets, a late joiner."""
    r = random.Random(seed)
    n = r.choice([2, 3, 3])
    all_types = [0, 1, 2, 7]
    common = sorted(r.sample(all_types, r.randint(1, 3)))
    never = [t for t in all_types if t not in common]
    lines = ['PEERS %d' % n]
    enabled = {}
    for p in range(n):
        for t in common:
            lines.append('OP %d reg %d' % (p, t))
        sw = tuple(r.randint(0, 1) for _ in range(3))
        enabled[p] = sw
        lines.append('OP %d switches %d %d %d' % ((p,) + sw))
    late = n - 1 if n > 2 else None
    for p in range(n):
        if p != late:
            lines.append('OP %d setup' % p)
    lines.append('ROUND %d' % r.randint(6, 9))
    peers = [p for p in range(n) if p != late]
    marked, unmarked, excluded, val = [], [], set(), 10
    carried, excluded_later = set(), []
    h = 0
    for _ in range(nops):
        c = r.random()
        p = r.choice(peers)
        if c < 0.25:
            h += 1
            m = r.random() < 0.6
            ts = r.sample(common + never, r.randint(0, 2))
            comps = ''
            for t in ts:
                val += 1
                comps += ' %d:%d' % (t, val)
            lines.append('OP %d spawn %d %d%s' % (p, h, 1 if m else 0, comps))
            (marked if m else unmarked).append((h, p))
            if m and common and r.random() < 0.4:
                t = r.choice(common)
                if t not in ts:
                    lines.append('OP %d excl %d %d 1' % (p, h, t))
                    excluded.add((str(h), t))
        elif c < 0.5 and (marked or unmarked):
            hh, owner = r.choice(marked + unmarked)
            t = r.choice(common + never)
            val += 1
            lines.append('OP %d write %d %d %d' % (owner, hh, t, val))
            if (hh, owner) in marked and t in common and owner == 0:
                # (exclusion is a per-peer marker: only the HOST's own entities, whose snapshot and live
                #  updates both originate on the peer that carries the marker)
                carried.add((hh, owner, t))
        elif c < 0.6 and carried:
            # exclusion added AFTER the component was synchronized, then private writes
            hh, owner, t = r.choice(sorted(carried))
            if (str(hh), t) not in excluded:
                lines.append('DRAIN 60')
                lines.append('OP %d excl %d %d 1' % (owner, hh, t))
                lines.append('EXCLUDED_FROM_HERE %d %d' % (hh, t))
                excluded_later.append((str(hh), t))
                val += 1
                lines.append('OP %d write %d %d %d' % (owner, hh, t, val))
                if r.random() < 0.6:
                    # the marker is taken off and put back between two frames (a tool re-applying its
                    # configuration): the entity is excluded whenever a system looks at it
                    lines.append('FRAME %d %d' % (owner, r.randint(1, 2)))
                    lines.append('OP %d excl %d %d 0' % (owner, hh, t))
                    lines.append('OP %d excl %d %d 1' % (owner, hh, t))
                    lines.append('FRAME %d 2' % owner)
        elif c < 0.8:
            val += 1
            kk = r.choice([0, 1, 2, 3])
            lines.append('OP %d addasset %d %d %d' % (p, kk, 100 * (kk + 1) + 10 * p + r.randint(1, 3), val))
        elif c < 0.9:
            val += 1
            lines.append('OP %d addasset_index %d %d' % (p, r.choice([0, 1, 2, 3]), val))
        else:
            lines.append('SLEEP 20')
        if r.random() < 0.7:
            _pace(r, lines, peers)
    if late is not None:
        lines.append('OP %d setup' % late)
    lines.append('SLEEP 60')
    lines.append('DRAIN 80')
    return '\n'.join(lines) + '\n', dict(enabled=enabled, unmarked=[str(h) for h, _ in unmarked], never_types=never,
                                         excluded=[(u, t) for (u, t) in excluded], excluded_later=excluded_later, common=common)


def optin_alone(seed):
    """C04: the host works ALONE for a while (no client connected yet): it writes registered components
    and then excludes some of them; a client joins afterwards. Nothing written before or after the
    exclusion may reach the joiner — neither through the snapshot nor through anything left in a queue."""
    r = random.Random(seed)
    common = sorted(r.sample([0, 1, 2, 7], r.randint(1, 3)))
    lines = ['PEERS 2']
    enabled = {}
    for p in range(2):
        for t in common:
            lines.append('OP %d reg %d' % (p, t))
        enabled[p] = (1, 1, 1)
        lines.append('OP %d switches 1 1 1' % p)
    lines.append('OP 0 setup')
    lines.append('ROUND %d' % r.randint(3, 6))
    val, excluded_later = 10, []
    ents = []
    for h in range(1, r.randint(2, 4) + 1):
        t = r.choice(common)
        val += 1
        lines.append('OP 0 spawn %d 1 %d:%d' % (h, t, val))
        ents.append((h, t))
    lines.append('FRAME 0 %d' % r.randint(1, 3))
    for (h, t) in ents:
        if r.random() < 0.7:
            val += 1
            lines.append('OP 0 write %d %d %d' % (h, t, val))
            k = r.randint(0, 2)
            if k:
                lines.append('FRAME 0 %d' % k)
            lines.append('OP 0 excl %d %d 1' % (h, t))
            lines.append('EXCLUDED_FROM_HERE %d %d' % (h, t))
            excluded_later.append((str(h), t))
            if r.random() < 0.5:
                val += 1
                lines.append('OP 0 write %d %d %d' % (h, t, val))
            k = r.randint(0, 2)
            if k:
                lines.append('FRAME 0 %d' % k)
    lines.append('OP 1 setup')
    lines.append('DRAIN 80')
    return '\n'.join(lines) + '\n', dict(enabled=enabled, unmarked=[], never_types=[t for t in [0, 1, 2, 7] if t not in common],
                                         excluded=[], excluded_later=excluded_later, common=common)


def join(seed, nops=14):
    """C03: a client joins at an arbitrary moment while the others keep writing."""
    r = random.Random(seed)
    n = r.choice([2, 3, 3, 4])
    types = sorted(r.sample([0, 1, 2, 3, 7], r.randint(1, 3)))
    lines = _header(r, n, types, v6=(r.random() < 0.25))
    sw = (1, 1, 1) if r.random() < 0.6 else tuple(r.randint(0, 1) for _ in range(3))
    for p in range(n):
        lines.append('OP %d switches %d %d %d' % ((p,) + sw))
    joiner = n - 1
    # with four peers: two joiners, the second one a little after the first (changes in between)
    joiner2 = n - 2 if n >= 4 and r.random() < 0.6 else None
    for p in range(n - 1):
        if p != joiner2:
            lines.append('OP %d setup' % p)
    lines.append('ROUND %d' % r.randint(6, 9))
    peers = [p for p in range(n - 1) if p != joiner2]
    ents, val, parent = [], 10, {}
    published = set()
    when = r.randint(2, nops - 2)
    when2 = when + r.randint(1, 3)
    pattern = r.random()
    if pattern < 0.25 and n >= 3:
        # the host publishes an image / audio, a client already in the session replaces it (the host takes
        # it over), then somebody joins: the joiner must get the replacement
        kk = r.choice([2, 3])
        aid = 100 * (kk + 1) + 1
        lines += ['OP 0 addasset %d %d %d' % (kk, aid, 901), 'SLEEP 40', 'DRAIN 60',
                  'OP 1 addasset %d %d %d' % (kk, aid, 902), 'SLEEP 60', 'DRAIN 60']
        published.add((kk, aid))
    elif pattern < 0.45:
        # the host publishes a material and later publishes the identical content again (everybody receives
        # something equal to what it holds); afterwards a client changes it
        lines += ['OP 0 addasset 0 150 903', 'DRAIN 60', 'OP 0 addasset 0 150 903', 'DRAIN 60']
    shared_material = (0.25 <= pattern < 0.45)
    busy = r.random() < 0.6
    for i in range(nops):
        if i == when:
            if not busy:
                lines.append('DRAIN 60')
            lines.append('OP %d setup' % joiner)
        if joiner2 is not None and i == when2:
            lines.append('OP %d setup' % joiner2)
        p = r.choice(peers if len(peers) == 1 or r.random() < 0.8 else [0])
        c = r.random()
        if c < 0.3 or not ents:
            h = len(ents) + 1
            t = r.choice(types)
            val += 1
            if r.random() < 0.3:
                lines.append('OP %d spawn %d 1' % (p, h))          # a bare synchronized entity (group / parent node)
            else:
                lines.append('OP %d spawn %d 1 %d:%d' % (p, h, t, val % 3 if t == 3 else val))
            ents.append((h, p))
        elif c < 0.7:
            h, owner = r.choice(ents)
            t = r.choice(types)
            val += 1
            lines.append('OP %d write %d %d %d' % (owner, h, t, val % 3 if t == 3 else val))
        elif c < 0.85 and len(ents) >= 2:
            (c1, o1), (c2, _) = r.sample(ents, 2)
            if c1 not in parent and parent.get(c2) != c1:
                lines.append('OP %d parent %d %d' % (o1, c1, c2))
                parent[c1] = c2
        else:
            val += 1
            kk = r.choice([0, 1, 2, 3])
            if kk != 1 and published and r.random() < 0.4:
                # another peer replaces an asset somebody else published (not meshes: known finding S12),
                # after a drain
                aid = r.choice(sorted(a for (k2, a) in published if k2 == kk) or [None])
                if aid is not None:
                    lines.append('SLEEP 40')
                    lines.append('DRAIN 60')
                    lines.append('OP %d addasset %d %d %d' % (p, kk, aid, val))
                    lines.append('SLEEP 40')
                    lines.append('DRAIN 60')
            else:
                aid = 100 * (kk + 1) + 10 * p + r.randint(1, 2)
                lines.append('OP %d addasset %d %d %d' % (p, kk, aid, val))
                published.add((kk, aid))
        if r.random() < 0.8:
            _pace(r, lines, peers + ([joiner] if i >= when else []))
    if joiner2 is not None and when2 >= nops:
        lines.append('OP %d setup' % joiner2)
    if shared_material:
        lines += ['SLEEP 40', 'DRAIN 60', 'OP 1 addasset 0 150 904']
    lines.append('SLEEP 60')
    lines.append('DRAIN 80')
    return '\n'.join(lines) + '\n', dict(joiner=joiner, enabled={p: sw for p in range(n)}, types=types)


def asset_burst(seed):
    """C06: a scene load — one peer publishes 10..16 assets of one class (and a few others) in ONE frame;
    the receivers handle the announcements, then stall while all the downloads complete, then go on:
    many finished downloads of one class are waiting for a single run of process_*_assets."""
    r = random.Random(seed)
    n = r.choice([2, 3, 3])
    lines = _header(r, n, [0], v6=(r.random() < 0.2))
    for p in range(n):
        lines.append('OP %d switches 1 1 1' % p)
        lines.append('OP %d setup' % p)
    lines.append('ROUND %d' % r.randint(6, 9))
    lines.append('DRAIN 40')
    pub = r.choice(range(n))
    kk = r.choice([1, 2, 3])
    val = 500
    k = r.randint(10, 16)
    for j in range(k):
        val += 1
        lines.append('OP %d addasset %d %d %d' % (pub, kk, 1000 * kk + j, val))
    for j in range(r.randint(0, 3)):
        val += 1
        k2 = r.choice([0, 1, 2, 3])
        lines.append('OP %d addasset %d %d %d' % (pub, k2, 5000 + 10 * k2 + j, val))
    lines.append('FRAME %d 2' % pub)
    others = [q for q in range(n) if q != pub]
    # the host first (it relays), every receiver handles the announcements and then stalls
    for q in sorted(others):
        lines.append('FRAME %d 2' % q)
    lines.append('SLEEP %d' % r.choice([300, 500]))
    if pub != 0 and n > 2:
        lines.append('FRAME 0 1')
        for q in others:
            if q != 0:
                lines.append('FRAME %d 2' % q)
        lines.append('SLEEP 300')
    lines.append('ROUND 3')
    if r.random() < 0.5:
        # a second wave: overwrites of some of them by the same publisher
        for j in r.sample(range(k), r.randint(1, min(10, k))):
            val += 1
            lines.append('OP %d addasset %d %d %d' % (pub, kk, 1000 * kk + j, val))
        lines.append('FRAME %d 2' % pub)
        for q in sorted(others):
            lines.append('FRAME %d 2' % q)
        lines.append('SLEEP 400')
    lines.append('SLEEP 100')
    lines.append('DRAIN 80')
    return '\n'.join(lines) + '\n', dict(enabled={p: (1, 1, 1) for p in range(n)})


def asset_overwrite_back(seed):
    """C06 "overwriting the asset under the same uuid propagates the new content in the same way": one
    peer overwrites an asset 2..4 times, a frame of its own each, while the receivers are not scheduled
    (they handle all the announcements in ONE frame); after the drain a RECEIVER overwrites the same
    uuid, then possibly the first publisher again: every overwrite must reach everybody."""
    r = random.Random(seed)
    n = r.choice([2, 3, 3])
    lines = _header(r, n, [0], v6=(r.random() < 0.15))
    for p in range(n):
        lines.append('OP %d switches 1 1 1' % p)
        lines.append('OP %d setup' % p)
    lines.append('ROUND %d' % r.randint(6, 9))
    lines.append('DRAIN 40')
    val = 700
    for rnd in range(r.randint(1, 2)):
        pub = r.choice(range(n))
        kk = r.choice([0, 0, 0, 1, 2, 3])
        aid = 7000 + 10 * rnd + kk
        others = [q for q in range(n) if q != pub]
        for _ in range(r.randint(2, 4)):
            val += 1
            lines.append('OP %d addasset %d %d %d' % (pub, kk, aid, val))
            lines.append('FRAME %d 1' % pub)
        if pub != 0:
            lines.append('FRAME 0 1')          # the host receives (and relays) all of them in one frame
        for q in others:
            if q != 0:
                lines.append('FRAME %d 2' % q)
        lines.append('SLEEP %d' % r.choice([100, 300]))
        lines.append('DRAIN 80')
        for _ in range(r.randint(1, 3)):
            w = r.choice(others) if r.random() < 0.75 else pub
            val += 1
            lines.append('OP %d addasset %d %d %d' % (w, kk, aid, val))
            lines.append('SLEEP 100')
            lines.append('DRAIN 80')
    return '\n'.join(lines) + '\n', dict(enabled={p: (1, 1, 1) for p in range(n)})


def asset_overtake(seed):
    """C06 "every timing of the asynchronous HTTP download relative to frames and to further operations":
    a peer publishes a LARGE audio source (48 MB: the transfer takes many frames) and, while the others
    are still downloading it, overwrites it once or twice with small ones (whose downloads arrive first):
    everybody must end with the last content. The publisher is the host or a client (relayed)."""
    r = random.Random(seed)
    n = r.choice([2, 2, 3])
    lines = _header(r, n, [0], v6=(r.random() < 0.15))
    for p in range(n):
        lines.append('OP %d switches 1 1 1' % p)
        lines.append('OP %d setup' % p)
    lines.append('ROUND %d' % r.randint(6, 9))
    lines.append('DRAIN 40')
    pub = r.choice(range(n))
    aid = 9000 + r.randint(0, 9)
    val = 800

    def relay():
        # the announcement leaves the publisher in its 2nd frame (asset events are read one frame later);
        # a client's announcement passes through the host
        lines.append('FRAME %d 2' % pub)
        if pub != 0:
            lines.append('FRAME 0 1')
        for q in range(n):
            if q != pub:
                lines.append('FRAME %d %d' % (q, r.randint(1, 2)))
    lines.append('OP %d addasset 3 %d %d' % (pub, aid, 5000000 + r.randint(1, 999)))
    relay()
    for _ in range(r.randint(1, 2)):
        val += 1
        lines.append('OP %d addasset 3 %d %d' % (pub, aid, val))
        relay()
    lines.append('SLEEP 300')
    lines.append('DRAIN 80')
    lines.append('SLEEP 300')
    lines.append('DRAIN 60')
    return '\n'.join(lines) + '\n', dict(enabled={p: (1, 1, 1) for p in range(n)})


def rewrite_soon(seed):
    """C17 / C02 with ONE writer per entity: a peer gives an entity Transform / Visibility / a light (together,
    or the light first and the rest 0..6 frames later) and writes the same components AGAIN 0..6 frames after
    that - while the receivers' companion fixes and the echoes they might cause are still under way. Every
    peer must end with the writer's last values (and the companions)."""
    r = random.Random(seed)
    n = r.choice([2, 3, 3])
    types = [2, 3, 4, 5, 6]
    lines = _header(r, n, types)
    for p in range(n):
        lines.append('OP %d setup' % p)
    lines.append('ROUND %d' % r.randint(6, 9))
    lines.append('DRAIN 40')
    val = 30

    def vv(t, v):
        return v % 3 if t == 3 else v       # Visibility has three values

    def frames(k):
        for _ in range(k):
            lines.append('ROUND 1')
    for h in range(1, r.randint(3, 5)):
        w = r.choice(range(n))
        light = r.choice([4, 5, 6])
        rest = r.sample([2, 3], r.randint(1, 2))
        val += 3
        if r.random() < 0.5:
            lines.append('OP %d spawn %d 1 %s' % (w, h, ' '.join('%d:%d' % (t, vv(t, val + i)) for i, t in enumerate([light] + rest))))
        else:
            lines.append('OP %d spawn %d 1 %d:%d' % (w, h, light, val))
            frames(r.randint(0, 6))
            for i, t in enumerate(rest):
                lines.append('OP %d write %d %d %d' % (w, h, t, vv(t, val + 1 + i)))
        for _ in range(r.randint(1, 3)):
            frames(r.randint(0, 6))
            val += 3
            for i, t in enumerate(r.sample([light] + rest, r.randint(1, 1 + len(rest)))):
                lines.append('OP %d write %d %d %d' % (w, h, t, vv(t, val + i)))
        lines.append('DRAIN 60')
    lines.append('DRAIN 40')
    return '\n'.join(lines) + '\n', dict()


def textured_material(seed):
    """C06 / C09: a material whose base colour texture is a uuid image. One peer publishes the material and the
    image (either first, 0..4 frames apart), later overwrites the material and / or the image, 0..6 frames
    after the image has arrived on the others: every peer ends with the last contents, and a publication
    costs one message per client (nothing is announced back)."""
    r = random.Random(seed)
    n = r.choice([2, 3, 3])
    lines = _header(r, n, [0], v6=(r.random() < 0.1))
    for p in range(n):
        lines.append('OP %d switches 1 1 1' % p)
        lines.append('OP %d setup' % p)
    lines.append('ROUND %d' % r.randint(6, 9))
    lines.append('DRAIN 40')
    w = r.choice(range(n))
    img = 7200 + r.randint(0, 9)
    mat = 7100 + r.randint(0, 9)
    k = 0

    def mval():
        nonlocal k
        k += 1
        return 1000000 + 100 * img + k
    ival = 50
    first = r.choice(['mat', 'img'])
    for what in ([first] + [x for x in ['mat', 'img'] if x != first]):
        if what == 'mat':
            lines.append('OP %d addasset 0 %d %d' % (w, mat, mval()))
        else:
            ival += 1
            lines.append('OP %d addasset 2 %d %d' % (w, img, ival))
        lines.append('ROUND %d' % r.randint(0, 4))
    lines.append('SLEEP 100')
    if r.random() < 0.5:
        lines.append('DRAIN 60')
    else:
        lines.append('ROUND %d' % r.randint(3, 8))
    for _ in range(r.randint(1, 3)):
        if r.random() < 0.65:
            lines.append('OP %d addasset 0 %d %d' % (w, mat, mval()))
        else:
            ival += 1
            lines.append('OP %d addasset 2 %d %d' % (w, img, ival))
        lines.append('ROUND %d' % r.randint(0, 6))
    lines.append('SLEEP 100')
    lines.append('DRAIN 80')
    return '\n'.join(lines) + '\n', dict(enabled={p: (1, 1, 1) for p in range(n)})


def join_at_despawn(seed):
    """C01 / C03: a client joins exactly when ANOTHER client despawns a host-owned entity: the joiner's
    RequestInitialSync and the EntityDelete reach the host in ONE of its frames (which of the two the host
    drains first depends on its client table: several joiners, one attempt each). Every peer must end with
    the same entities; the despawned ones are gone everywhere."""
    r = random.Random(seed)
    joiners = r.randint(3, 4)
    n = 2 + joiners
    lines = _header(r, n, [0])
    lines += ['OP 0 setup', 'OP 1 setup', 'ROUND %d' % r.randint(6, 9)]
    lines.append('OP 0 spawn 1 1 0:5')
    lines.append('DRAIN 40')
    h = 10
    for j in range(2, n):
        h += 1
        lines.append('OP 0 spawn %d 1 0:%d' % (h, h))
        lines.append('DRAIN 40')
        lines.append('OP %d setup' % j)
        lines.append('UNTILCONN %d 60' % j)
        desp = r.choice([1] + list(range(2, j)))       # an established client (not the owner) despawns it
        lines.append('OP %d despawn %d' % (desp, h))
        lines.append('FRAME %d 1' % desp)
        if r.random() < 0.5:
            lines.append('FRAME %d 1' % j)
        lines.append('FRAME 0 1')
        lines.append('DRAIN 60')
    lines.append('OP 0 write 1 0 99')
    lines.append('DRAIN 60')
    return '\n'.join(lines) + '\n', dict()


def optin_multi(seed):
    """C04: entities that carry SEVERAL exclusions at once (two or three registered kinds excluded on one
    entity, from the start), an excluded SkinnedMesh whose joint is marked for synchronization only LATER
    (next to a control skin that shares the joint), live traffic and a late joiner: none of the excluded
    components may ever be received or held by another peer."""
    r = random.Random(seed)
    n = r.choice([2, 3, 3])
    types = [0, 1, 2, 7, 8]
    lines = ['PEERS %d' % n]
    enabled = {}
    for p in range(n):
        for t in types:
            lines.append('OP %d reg %d' % (p, t))
        enabled[p] = (1, 1, 1)
        lines.append('OP %d switches 1 1 1' % p)
    late = n - 1 if n > 2 else None
    for p in range(n):
        if p != late:
            lines.append('OP %d setup' % p)
    lines.append('ROUND %d' % r.randint(6, 9))
    excluded, val, h = [], 20, 0
    owner = 0        # exclusion is a per-peer marker: the host's own entities (snapshot and live path)
    for _ in range(r.randint(2, 3)):
        h += 1
        ts = r.sample([0, 1, 2, 7], r.randint(2, 4))
        val += len(ts)
        lines.append('OP %d spawn %d 1 %s' % (owner, h, ' '.join('%d:%d' % (t, val + i) for i, t in enumerate(ts))))
        for t in r.sample(ts, r.randint(2, len(ts))):
            lines.append('OP %d excl %d %d 1' % (owner, h, t))
            excluded.append((str(h), t))
        if r.random() < 0.5:
            lines.append('ROUND %d' % r.randint(1, 2))
    # the skins
    j, s1, s2 = h + 1, h + 2, h + 3
    lines.append('OP %d spawn %d 0 0:%d' % (owner, j, j))
    lines.append('OP %d spawn %d 1 0:%d' % (owner, s1, s1))
    lines.append('OP %d spawn %d 1 0:%d' % (owner, s2, s2))
    lines.append('OP %d skin %d %d 5' % (owner, s1, j))
    lines.append('OP %d excl %d 8 1' % (owner, s1))
    excluded += [(str(s1), 8), (str(s1), 9)]
    lines.append('OP %d skin %d %d 6' % (owner, s2, j))
    lines.append('DRAIN 40')
    lines.append('OP %d mark %d' % (owner, j))
    lines.append('ROUND %d' % r.randint(2, 5))
    # live writes of excluded and other kinds
    for (u, t) in r.sample(excluded, min(3, len(excluded))):
        if t in (0, 1, 2, 7):
            val += 1
            lines.append('OP %d write %s %d %d' % (owner, u, t, val))
    lines.append('DRAIN 40')
    if late is not None:
        lines.append('OP %d setup' % late)
    lines.append('DRAIN 80')
    return '\n'.join(lines) + '\n', dict(enabled=enabled, unmarked=[], never_types=[], excluded=excluded, excluded_later=[], common=types)


def companions_present(seed):
    """C17 "leaves already present companions untouched": a replica carries a GlobalTransform of the
    application's own (written locally on the receiving peer, not synchronized) BEFORE the Transform
    arrives from the network, and further Transform writes follow 0..3 frames apart, from the host and
    from a client (relayed): the application's GlobalTransform must stay what it was."""
    r = random.Random(seed)
    n = r.choice([2, 3, 3])
    lines = _header(r, n, [2])
    for p in range(n):
        lines.append('OP %d setup' % p)
    lines.append('ROUND %d' % r.randint(6, 9))
    peers = list(range(n))
    val = 10
    own = {}
    for h in range(1, r.randint(2, 4) + 1):
        w = r.choice(peers)
        lines.append('OP %d spawn %d 1' % (w, h))
        lines.append('DRAIN 40')
        keep = [q for q in peers if q != w and r.random() < 0.7] or [r.choice([q for q in peers if q != w])]
        for q in keep:
            val += 1
            lines.append('OP %d write %d 100 %d' % (q, h, 500 + val))     # the application's own GlobalTransform
            own[(q, h)] = 500 + val
        lines.append('ROUND 2')
        for _ in range(r.randint(1, 4)):
            val += 1
            lines.append('OP %d write %d 2 %d' % (w, h, val))
            lines.append('ROUND %d' % r.randint(0, 3) if r.random() < 0.8 else 'FRAME %d 1' % w)
        lines.append('DRAIN 40')
    lines.append('DRAIN 60')
    return '\n'.join(lines) + '\n', dict(own={'%d:%d' % k: v for k, v in own.items()})


def promotion_backlog(seed):
    """C07: a second client joins a session with a snapshot of a few MB (renet hands out about 60 kB per
    connection and frame) and the host promotes the first client while that snapshot is still being
    transmitted: NewHost sits behind the backlog on the joiner's ordered channel. The joiner must end as
    a client of the new host with everything the old host held, and a write it makes afterwards must
    reach everybody."""
    r = random.Random(seed)
    lines = _header(r, 3, [0, 7])
    lines += ['OP 0 setup', 'OP 1 setup', 'ROUND 8']
    k = r.randint(12, 24)
    for h in range(1, k + 1):
        lines.append('OP 0 spawn %d 1 0:%d 7:%d' % (h, h, 100000 + h))
        if h % 4 == 0:
            lines.append('ROUND 2')
    lines.append('DRAIN 120')
    lines.append('OP 2 setup')
    lines.append('UNTILCONN 2 60')
    lines.append('ROUND %d' % r.randint(1, 4))
    lines.append('OP 0 promote 1')
    lines.append('ROUND %d' % (k * 2 + 30))
    # the old host learns of the joiner's departure through renet's time-out only (15 s of its own clock)
    for _ in range(68):
        lines.append('SLEEP 260')
        lines.append('ROUND 1')
    lines.append('DRAIN 60')
    lines.append('OP 2 write %d 0 %d' % (r.randint(1, k), 500 + r.randint(0, 99)))
    lines.append('DRAIN 60')
    return '\n'.join(lines) + '\n', dict(entities=k)


def session(seed):
    """C15: start-hosting / connect / disconnect sequences at every handshake phase."""
    r = random.Random(seed)
    n = r.choice([2, 2, 3])
    big = r.random() < 0.35
    lines = _header(r, n, [0, 7] if big else [0])
    lines.append('OP 0 setup')
    if r.random() < 0.25:
        # hosting that ends at once: the transport is removed 1..3 frames after it was inserted (before,
        # at, or right after the frame in which ServerState becomes Connected); the published state must
        # be back to Disconnected within two frames
        lines.append('FRAME 0 %d' % r.randint(1, 3))
        lines.append('OP 0 removetransports')
        lines.append('FRAME 0 6')
        return '\n'.join(lines) + '\n', dict(removed=[0])
    lines.append('FRAME 0 %d' % r.randint(1, 4))
    for h in range(1, r.randint(1, 4)):
        lines.append('OP 0 spawn %d 1 0:%d' % (h, h))
    if big:
        # a snapshot of several hundred kB: it reaches a joiner over several frames, FinishedInitialSync last
        for h in range(10, 10 + r.randint(2, 4)):
            lines.append('OP 0 spawn %d 1 0:%d 7:%d' % (h, h, 100000 + h))
    lines.append('FRAME 0 3')
    removed = []
    for p in range(1, n):
        lines.append('OP %d setup' % p)
        k = r.randint(0, 9)
        for _ in range(k):
            lines.append('FRAME %d' % r.choice([0, p, p]))
        if r.random() < 0.5:
            lines.append('OP %d removetransports' % p)
            removed.append(p)
            lines.append('FRAME %d %d' % (p, r.randint(4, 7)))
            lines.append('FRAME 0 3')
    host_removed = False
    if r.random() < 0.3:
        lines.append('OP 0 removetransports')
        lines.append('FRAME 0 5')
        host_removed = True
    lines.append('ROUND 6')
    if not removed and not host_removed:
        lines.append('DRAIN 40')          # every join completes: each joiner must have seen InitialSyncFinished once
    return '\n'.join(lines) + '\n', dict(removed=removed)


def skinned_clean(seed, nops=10):
    """C16: SkinnedMesh written by the entity's owner only, joints = live synchronized entities
    (any order, repeats, 0..3), local entity ids shifted differently per peer, live delivery in all
    three directions (the snapshot path: skinned_join)."""
    r = random.Random(seed)
    n = r.choice([2, 3, 3])
    lines = _header(r, n, [0, 8])
    for p in range(n):
        lines.append('OP %d setup' % p)
    lines.append('ROUND %d' % r.randint(6, 9))
    peers = list(range(n))
    h = 0
    for p in peers:                       # shift local id spaces differently
        for _ in range(r.randint(0, 3)):
            h += 1
            lines.append('OP %d spawn %d 0' % (p, h))
    ents = []
    for _ in range(r.randint(3, 5)):
        h += 1
        p = r.choice(peers)
        lines.append('OP %d spawn %d 1' % (p, h))
        ents.append((h, p))
    lines.append('DRAIN 60')
    val = 10
    for _ in range(nops):
        e, owner = r.choice(ents)
        js = [r.choice(ents)[0] for _ in range(r.randint(0, 3))]
        ps = []
        for _ in range(r.randint(0, 2)):
            val += 1
            ps.append(val)
        lines.append('OP %d skin %d %s %s' % (owner, e, ','.join(map(str, js)) or '-', ','.join(map(str, ps)) or '-'))
        if r.random() < 0.8:
            _pace(r, lines, peers)
    if r.random() < 0.6 and len(ents) >= 2:
        # one skin shared by two entities of one peer (one glTF skin, several primitives: the same
        # bind-pose asset handle), then ANOTHER peer re-skins one of the two: the sibling must keep
        # its poses on every peer
        lines.append('DRAIN 60')
        owner = r.choice(peers)
        mine = [e for e, o in ents if o == owner]
        if len(mine) >= 2:
            a, b = r.sample(mine, 2)
            val += 2
            shared = '%d,%d' % (val - 1, val)
            js = [r.choice(ents)[0] for _ in range(r.randint(0, 2))]
            lines.append('OP %d skin %d %s %s' % (owner, a, ','.join(map(str, js)) or '-', shared))
            lines.append('OP %d skin %d %s %s' % (owner, b, ','.join(map(str, js)) or '-', shared))
            lines.append('DRAIN 60')
            other = r.choice([q for q in peers if q != owner])
            val += 1
            lines.append('OP %d skin %d %s %d' % (other, a, ','.join(map(str, js)) or '-', val))
    if r.random() < 0.7:
        # A -> B -> A across peers: the owner skins, ANOTHER peer replaces the skin, the owner sets exactly
        # its first skin again (same joints, same poses): everybody must end with A
        lines.append('DRAIN 60')
        e, owner = r.choice(ents)
        other = r.choice([q for q in peers if q != owner])
        ja = [r.choice(ents)[0] for _ in range(r.randint(1, 3))]
        jb = [r.choice(ents)[0] for _ in range(r.randint(0, 3))]
        val += 2
        pa, pb = str(val - 1), str(val)
        lines.append('OP %d skin %d %s %s' % (owner, e, ','.join(map(str, ja)), pa))
        lines.append('DRAIN 60')
        lines.append('OP %d skin %d %s %s' % (other, e, ','.join(map(str, jb)) or '-', pb))
        lines.append('DRAIN 60')
        lines.append('OP %d skin %d %s %s' % (owner, e, ','.join(map(str, ja)), pa))
    lines.append('DRAIN 80')
    return '\n'.join(lines) + '\n', {}


def skinned_join(seed, nops=6):
    """C16 through the joining snapshot: the host owns entities of several archetypes (bare, with a
    small or a 100 kB component, gaining components after they were named as joints, so that a
    joint's archetype may be created after the skinned entity's and the snapshot may span several
    frames); any entity may be a joint of any other, itself skinned or not; a client joins late; the
    host may re-skin during the join."""
    r = random.Random(seed)
    n = r.choice([2, 3])
    lines = _header(r, n, [0, 2, 7, 8])
    late = n - 1
    for p in range(n):
        if p != late:
            lines.append('OP %d setup' % p)
    lines.append('ROUND %d' % r.randint(6, 9))
    h = 0
    val = 10
    ents = []
    big = r.random() < 0.5

    def comps():
        nonlocal val
        out = []
        for t in (0, 2, 7):
            if r.random() < 0.35:
                val += 1
                out.append('%d:%d' % (t, 100000 + val if (t == 7 and big and r.random() < 0.5) else val))
        return out
    for _ in range(r.randint(3, 7)):
        h += 1
        lines.append(('OP 0 spawn %d 1 ' % h + ' '.join(comps())).rstrip())
        ents.append(h)
        if r.random() < 0.3:
            lines.append('FRAME 0 %d' % r.randint(1, 2))
    lines.append('DRAIN 60')
    skinned = r.sample(ents, r.randint(1, min(3, len(ents))))

    used_poses = []

    def skin(e):
        nonlocal val
        js = [r.choice(ents) for _ in range(r.randint(0, 3))]
        if used_poses and r.random() < 0.45:
            # the same bind-pose asset (one glTF skin) under a DIFFERENT joint list
            ps = r.choice(used_poses)
        else:
            ps = []
            for _ in range(r.randint(0, 3)):
                val += 1
                ps.append(val)
            if ps:
                used_poses.append(ps)
        lines.append('OP 0 skin %d %s %s' % (e, ','.join(map(str, js)) or '-', ','.join(map(str, ps)) or '-'))
    for e in skinned:
        skin(e)
        if r.random() < 0.4:
            lines.append('FRAME 0 %d' % r.randint(1, 2))
    for _ in range(r.randint(0, nops)):
        c = r.random()
        if c < 0.5:
            skin(r.choice(skinned))
        else:
            # a joint (or any entity) gains or changes a component: it moves to an archetype that may be new
            val += 1
            t = r.choice([0, 2, 7])
            lines.append('OP 0 write %d %d %d' % (r.choice(ents), t, 100000 + val if (t == 7 and big and r.random() < 0.4) else val))
        if r.random() < 0.5:
            lines.append('ROUND %d' % r.randint(1, 2))
    lines.append('DRAIN 60')
    lines.append('OP %d setup' % late)
    k = r.randint(2, 8)
    lines.append('ROUND %d' % k)
    if r.random() < 0.7:
        skin(r.choice(skinned))          # the host re-skins while the client is joining
        lines.append('ROUND %d' % r.randint(1, 3))
        if r.random() < 0.5:
            skin(r.choice(skinned))
    lines.append('DRAIN 80')
    return '\n'.join(lines) + '\n', {}


def link_vs_app_despawn(seed):
    """C08: a parent link (or a value) for an entity arrives at a peer in the very frame in which that peer's
    application systems despawn one end of the link through Commands - the despawn may be queued BEFORE the
    receiver's deferred closure and applied first. One attempt per entity pair, all three application
    systems (scheduler-chosen positions), receivers: a client (message from the host) and the host (message
    from a client, relayed on)."""
    r = random.Random(seed)
    n = r.choice([2, 3])
    lines = _header(r, n, [0, 2])
    for p in range(n):
        lines.append('OP %d setup' % p)
    lines.append('ROUND %d' % r.randint(6, 9))
    h = 0
    for _ in range(r.randint(12, 15)):
        sender = r.choice(range(n))
        receiver = r.choice([q for q in range(n) if q != sender]) if sender == 0 else 0
        c, p = h + 1, h + 2
        h += 2
        lines.append('OP %d spawn %d 1 0:%d' % (sender, c, c))
        lines.append('OP %d spawn %d 1 0:%d' % (sender, p, p))
        lines.append('DRAIN 40')
        kind = r.choice(['parent', 'parent', 'write'])
        if kind == 'parent':
            lines.append('OP %d parent %d %d' % (sender, c, p))
        else:
            lines.append('OP %d write %d 2 %d' % (sender, c, 100 + c))
        lines.append('FRAME %d %d' % (sender, r.randint(1, 2)))
        victim = r.choice([c, p]) if kind == 'parent' else c
        # ONE application system per attempt (taken in turn): with all three the earliest one would win and
        # the entity would be gone before the message is even handled
        lines.append('OP %d appcmd %d despawn %d' % (receiver, (h // 2) % 6, victim))
        lines.append('FRAME %d 2' % receiver)
        lines.append('DRAIN 40')
    return '\n'.join(lines) + '\n', {}


def crash_cross(seed, rounds=8):
    """C08: every message kind crossed with every receiver condition: while peer A changes an entity
    (despawn / write / re-parent / use as parent / name it as a skinned-mesh joint), peer B gets rid
    of the same entity at the same moment — directly between frames, or through application
    systems that issue `Commands::despawn` at their scheduler-chosen position of the same frame in
    which the message arrives; peers with different registrations; frames in random order."""
    r = random.Random(seed)
    n = r.choice([2, 3, 3])
    regs = []
    for p in range(n):
        ts = [0, 2, 7, 8]
        if r.random() < 0.3:
            ts.remove(r.choice([0, 7]))
        regs.append(ts)
    lines = _header(r, n, None, regs)
    for p in range(n):
        lines.append('OP %d setup' % p)
    lines.append('ROUND %d' % r.randint(6, 9))
    peers = list(range(n))
    h = 0
    alive = []
    val = 10

    def spawn_some(k):
        nonlocal h, val
        for _ in range(k):
            h += 1
            p = r.choice(peers)
            t = r.choice([0, 2, 7])
            val += 1
            lines.append('OP %d spawn %d 1 %d:%d' % (p, h, t, val))
            alive.append(h)
    spawn_some(4)
    lines.append('DRAIN 60')
    for _ in range(rounds):
        if len(alive) < 3:
            spawn_some(3)
            lines.append('DRAIN 60')
        x = r.choice(alive)
        a, b = r.sample(peers, 2)
        others = [e for e in alive if e != x]
        kind = r.choice(['despawn', 'write', 'child', 'parent', 'joint', 'skin_target'])
        val += 1
        if kind == 'despawn':
            lines.append('OP %d despawn %d' % (a, x))
        elif kind == 'write':
            lines.append('OP %d write %d %d %d' % (a, x, r.choice([0, 2, 7]), val))
        elif kind == 'child':
            lines.append('OP %d parent %d %d' % (a, x, r.choice(others)))
        elif kind == 'parent':
            lines.append('OP %d parent %d %d' % (a, r.choice(others), x))
        elif kind == 'joint':
            s = r.choice(others)
            js = [x] + [r.choice(alive) for _ in range(r.randint(0, 2))]
            r.shuffle(js)
            lines.append('OP %d skin %d %s %d' % (a, s, ','.join(map(str, js)), val))
        else:
            lines.append('OP %d skin %d %s %d' % (a, x, ','.join(str(r.choice(others)) for _ in range(r.randint(0, 2))) or '-', val))
        how = r.choice(['direct', 'app', 'app', 'later', 'none'])
        if how == 'later':
            lines.append('FRAME %d' % a)
        if how in ('direct', 'later'):
            lines.append('OP %d despawn %d' % (b, x))
        elif how == 'app':
            # all three application systems (the earliest in the schedule wins: the entity is gone before most
            # of the frame) or ONE of them (every scheduler position gets its turn over the attempts)
            for k in (range(3) if r.random() < 0.5 else [r.randint(0, 2)]):
                lines.append('OP %d appcmd %d despawn %d' % (b, k, x))
        if how != 'none' or kind == 'despawn':
            alive.remove(x)
        order = peers[:]
        r.shuffle(order)
        for p in order:
            lines.append('FRAME %d %d' % (p, r.randint(1, 2)))
        if r.random() < 0.5:
            lines.append('ROUND %d' % r.randint(1, 3))
    lines.append('DRAIN 60')
    return '\n'.join(lines) + '\n', {}
