"""Scenario generator for the protocol correspondence and the property oracles. Every random
choice derives from one PRNG seeded by the caller."""
import random

FAMILY = [0, 1, 2, 3, 4, 5, 6, 7]
PROFILES = ['entities', 'values', 'parents', 'mixed', 'assets', 'skinned', 'appcmd', 'promotion']          # component type ids (see coq/theories/Sync/Types.v)


class Gen:
    def __init__(self, seed, profile='mixed', npeers=None, types=None):
        self.r = random.Random(seed)
        self.profile = profile
        self.n = npeers or self.r.choice([2, 2, 3, 3, 4])
        self.types = types if types is not None else sorted(self.r.sample(FAMILY, self.r.randint(1, 4)))
        self.lines = []
        self.next_h = 1
        self.owner = {}            # handle -> owner peer
        self.alive = set()         # handles believed alive somewhere
        self.marked = set()
        self.setup_done = set()
        self.val = 1
        self.stats = {}

    def emit(self, s):
        self.lines.append(s)
        k = s.split()[0] + (' ' + s.split()[2] if s.startswith('OP') else '')
        self.stats[k] = self.stats.get(k, 0) + 1

    def wtypes(self):
        return [t for t in self.types if t != 8]

    def fresh_val(self, t=None):
        self.val += 1
        return self.val % 3 if t == 3 else self.val

    def frames(self):
        """some pacing: lockstep rounds, one peer running ahead, pauses"""
        c = self.r.random()
        peers = sorted(self.setup_done)
        if not peers:
            return
        if c < 0.45:
            self.emit('ROUND %d' % self.r.randint(1, 3))
        elif c < 0.8:
            p = self.r.choice(peers)
            self.emit('FRAME %d %d' % (p, self.r.randint(1, 4)))
        elif c < 0.9:
            for p in self.r.sample(peers, len(peers)):
                self.emit('FRAME %d %d' % (p, self.r.randint(1, 2)))
        else:
            pass

    def setup(self, p):
        if p in self.setup_done:
            return
        self.emit('OP %d setup' % p)
        self.setup_done.add(p)

    def op(self):
        r = self.r
        peers = list(range(self.n))
        p = r.choice(peers)
        kinds = {'entities': ['spawn', 'spawn', 'despawn', 'spawnc'],
                 'values': ['spawnc', 'write', 'write', 'write', 'writer', 'excl'],
                 'parents': ['spawn', 'spawn', 'parent', 'parent', 'despawn'],
                 'mixed': ['spawn', 'spawnc', 'despawn', 'write', 'write', 'writer', 'parent', 'excl', 'mark'],
                 'assets': ['asset', 'asset', 'asset', 'asseti', 'spawn', 'sleep'],
                 'skinned': ['spawn', 'spawn', 'skin', 'skin', 'write', 'despawn'],
                 'appcmd': ['spawnc', 'spawn', 'write', 'writer', 'parent', 'appdespawn', 'appdespawn'],
                 'promotion': ['spawnc', 'write', 'writer', 'despawn']}[self.profile]
        k = r.choice(kinds)
        if k in ('spawn', 'spawnc'):
            h = self.next_h
            self.next_h += 1
            marked = 1 if r.random() < 0.9 else 0
            comps = ''
            if k == 'spawnc' and self.wtypes():
                ts = r.sample(self.wtypes(), r.randint(1, min(2, len(self.wtypes()))))
                comps = ' ' + ' '.join('%d:%d' % (t, self.fresh_val(t)) for t in ts)
            self.emit('OP %d spawn %d %d%s' % (p, h, marked, comps))
            self.owner[h] = p
            self.alive.add(h)
            if marked:
                self.marked.add(h)
        elif k == 'despawn' and self.alive:
            h = r.choice(sorted(self.alive))
            q = self.owner[h] if r.random() < 0.6 else p
            self.emit('OP %d despawn %d' % (q, h))
            if q == self.owner[h] or h in self.marked:
                self.alive.discard(h)
        elif k == 'mark' and self.alive:
            un = [h for h in self.alive if h not in self.marked]
            if un:
                h = r.choice(un)
                self.emit('OP %d mark %d' % (self.owner[h], h))
                self.marked.add(h)
        elif k in ('write', 'writer') and self.alive and self.wtypes():
            h = r.choice(sorted(self.alive))
            q = self.owner[h] if k == 'write' else p
            t = r.choice(self.wtypes())
            self.emit('OP %d write %d %d %d' % (q, h, t, self.fresh_val(t)))
        elif k == 'excl' and self.alive and self.types:
            h = r.choice(sorted(self.alive))
            t = r.choice([t for t in self.types if t in (0, 1, 2, 3, 4, 7)] or [0])
            self.emit('OP %d excl %d %d %d' % (self.owner[h], h, t, r.choice([0, 1, 1])))
        elif k == 'asset':
            kind = r.choice([0, 0, 1, 2, 3])
            a = r.randint(1, 4)
            self.emit('OP %d addasset %d %d %d' % (p, kind, a, self.fresh_val()))
        elif k == 'asseti':
            self.emit('OP %d addasset_index %d %d' % (p, r.choice([0, 1, 2, 3]), self.fresh_val()))
        elif k == 'sleep':
            self.emit('SLEEP 30')
        elif k == 'skin' and self.alive:
            h = r.choice(sorted(self.alive))
            js = [r.choice(sorted(self.alive)) for _ in range(r.randint(0, 3))]
            ps = [self.fresh_val() for _ in range(r.randint(0, 2))]
            self.emit('OP %d skin %d %s %s' % (self.owner[h] if r.random() < 0.7 else p, h,
                                               ','.join(map(str, js)) or '-', ','.join(map(str, ps)) or '-'))
        elif k == 'appdespawn' and self.alive:
            h = r.choice(sorted(self.alive))
            self.emit('OP %d appcmd %d despawn %d' % (p, r.randint(0, 2), h))
            self.alive.discard(h)
        elif k == 'parent' and len(self.alive) >= 2:
            c, par = r.sample(sorted(self.alive), 2)
            q = self.owner[c] if r.random() < 0.5 else p
            self.emit('OP %d parent %d %d' % (q, c, par))

    def generate(self, nops=20, late_join=None, pre_marks=None):
        r = self.r
        self.emit('PEERS %d' % self.n)
        # registrations: mostly the same on every peer; sometimes one peer lacks one
        if self.profile == 'skinned' and 8 not in self.types:
            self.types = sorted(set(self.types) | {8})
        if self.profile == 'assets':
            for p in range(self.n):
                sw = [1, 1, 1] if r.random() < 0.7 else [r.randint(0, 1) for _ in range(3)]
                self.emit('OP %d switches %d %d %d' % (p, sw[0], sw[1], sw[2]))
        for p in range(self.n):
            ts = list(self.types)
            if self.profile == 'mixed' and p > 0 and r.random() < 0.15 and len(ts) > 1:
                ts.remove(r.choice([t for t in ts if t in (0, 1)] or ts))
            for t in ts:
                self.emit('OP %d reg %d' % (p, t))
        late = set()
        if late_join is None:
            late_join = r.random() < 0.5
        if late_join and self.n > 2:
            late = {self.n - 1}
        if pre_marks is None:
            pre_marks = r.random() < 0.3
        if pre_marks:
            for _ in range(r.randint(1, 3)):
                self.op()
        self.setup(0)
        for p in range(1, self.n):
            if p not in late:
                self.setup(p)
        self.emit('ROUND %d' % r.randint(5, 8))
        joined = False
        for i in range(nops):
            self.op()
            if r.random() < 0.7:
                self.frames()
            if late and not joined and i >= nops // 2:
                for p in late:
                    self.setup(p)
                joined = True
                if r.random() < 0.5:
                    self.emit('ROUND %d' % r.randint(1, 6))
        for p in late:
            self.setup(p)
        if self.profile == 'promotion' and self.n >= 2:
            self.emit('DRAIN 60')
            self.emit('OP 0 promote %d' % r.randint(1, self.n - 1))
            self.emit('ROUND %d' % r.randint(10, 16))
            for _ in range(4):
                self.op()
                self.frames()
        if self.profile == 'assets':
            self.emit('SLEEP 60')
        self.emit('DRAIN 80')
        return '\n'.join(self.lines) + '\n'


def scenario(seed, profile='mixed', nops=20, **kw):
    g = Gen(seed, profile, **kw)
    return g.generate(nops), g.stats
