"""C13 runner: real image_to_bin / bin_to_image vs the extracted ImageCodec model on the same
images (bytes and decoded fields) + the property oracle on the real output alone + freshness of
the format-name table."""
import os
from .. import core, codecrun, src2v_codec


def oracle(text, origin):
    """The property itself on the real output: encoding succeeds, decoding returns an image with
    the same width, height, depth/layers, dimension, format and pixel bytes."""
    failures, n, nontrivial, formats = [], 0, set(), set()
    for idx, c in codecrun.cases(text, ('IMG', 'IMGBIN', 'IMGDEC')):
        n += 1
        if 'IMG' not in c or 'IMGDEC' not in c or 'IMGBIN' not in c:
            failures.append(dict(signature='image-case-incomplete', origin=dict(origin, case=idx),
                                 what='image case %s: the harness did not print IMG, IMGBIN and IMGDEC (panic?)' % idx))
            continue
        a = codecrun.kv(c['IMG'])
        formats.add(a.get('fmt'))
        if a.get('data', '-') != '-':
            nontrivial.add(codecrun.digest(c['IMG']))
        if c['IMGBIN'] == 'NONE':
            failures.append(dict(signature='image-encode-none', origin=dict(origin, case=idx), what='image case %s: image_to_bin returned None' % idx))
            continue
        if c['IMGDEC'] == 'PANIC':
            failures.append(dict(signature='image-decode-panics', origin=dict(origin, case=idx),
                                 what='image case %s (%s): bin_to_image PANICS on what image_to_bin produced' % (idx, codecrun.clip(c['IMG'], 90))))
            continue
        if c['IMGDEC'] == 'NONE':
            failures.append(dict(signature='image-decode-none', origin=dict(origin, case=idx), what='image case %s: bin_to_image returned None' % idx))
            continue
        b = codecrun.kv(c['IMGDEC'])
        for k in ('w', 'h', 'd', 'dim', 'fmt', 'data'):
            if a.get(k) != b.get(k):
                failures.append(dict(signature='image-roundtrip-' + k, origin=dict(origin, case=idx),
                                     what='image case %s: %s is %s before encoding and %s after decoding' % (
                                         idx, k, codecrun.clip(str(a.get(k)), 80), codecrun.clip(str(b.get(k)), 80))))
                break
    # a download cut off at the transfer limit must not make the decoder panic (C08); the differential
    # against the model compares what it returns instead
    import re as _re
    cuts = {m.group(1): (0 if m.group(2) == '-' else len(m.group(2)) // 2) for m in _re.finditer(r'^IMGBAD (\S+) (\S+)$', text, _re.M)}
    for m in _re.finditer(r'^IMGBADDEC (\S+) PANIC$', text, _re.M):
        failures.append(dict(signature='image-truncated-download-panics', origin=dict(origin, case=m.group(1)),
                             what='image case %s: bin_to_image PANICS on a download cut off after %d bytes' % (m.group(1), cuts.get(m.group(1), -1))))
    return failures, n, nontrivial, formats


def plan(tier, seed):
    if tier == 'quick':
        shards = [(30, 16)] * 8 + [(15, 48)] * 3 + [(12, 160)] * 2
    else:
        shards = [(30, 16)] * 80 + [(20, 48)] * 20 + [(10, 256)] * 20
    return [('codec-image', [seed * 100000 + 13000 + i, cnt, ext], 'c13_%d_%d' % (seed, i)) for i, (cnt, ext) in enumerate(shards)]


def format_table_fresh():
    """gen/FormatNames.v must be what the harness built in THIS run prints."""
    rc, out = core.run([core.BSH, 'codec-formats'], timeout=120)
    if rc != 0:
        return ['bsh codec-formats failed: ' + out[-200:]], 0
    try:
        text = src2v_codec.format_names_text(out)
    except Exception as e:
        return ['codec-formats output not understood: %s' % e], 0
    path = os.path.join(core.COQ, 'gen', 'FormatNames.v')
    on_disk = open(path).read() if os.path.exists(path) else ''
    n = sum(1 for l in out.split('\n') if l.startswith('FMT') and l.split()[3] == '1')
    if on_disk != text:
        core.write_if_changed(path, text)
        return ['gen/FormatNames.v was not the table of the current serializer (rewritten; the theorems were checked against the old table)'], n
    return [], n


def run(ctx):
    jobs = plan(ctx['tier'], ctx['seed'])
    results = codecrun.run_shards(jobs, use_driver=ctx.get('driver_ok', True))
    evaluations, diffs, failures, samples, nontrivial, formats, checked = 0, [], [], [], set(), set(), 0
    stale, nfmt = format_table_fresh()
    diffs += stale
    for (cmd, args, tag), r in zip(jobs, results):
        origin = dict(cmd=cmd, seed=args[0], count=args[1], max_extent=args[2], trace=r['path'])
        if r['error']:
            failures.append(dict(signature='image-harness-failed', origin=origin, what=r['error']))
            continue
        diffs += ['%s: %s' % (os.path.basename(r['path']), d) for d in r['diffs']]
        f, n, nt, fm = oracle(r['text'], origin)
        failures += f
        evaluations += n
        nontrivial |= nt
        formats |= fm
        checked += r['checked']
        if len(samples) < 4:
            samples += [codecrun.clip(l, 240) for l in r['text'].split('\n')[:3]]
    return dict(evaluations=evaluations, distinct_nontrivial=len(nontrivial),
                rule='random images from bsh codec-image (1D/2D/3D, extents 0/1/2/3/random up to the shard maximum, every uncompressed TextureFormat, constant / periodic / random / repetitive pixel bytes matching the extent; one extent beyond 16 bit; and, outside the premise of C13 but inside that of C08, images with a mip chain, block-compressed and texel-less formats, which must travel unchanged without a panic) in %d shards; each case = real image_to_bin bytes vs model bytes, real bin_to_image vs model decode of the real bytes, and the oracle IMGDEC = IMG; non-trivial = distinct images with at least one pixel byte' % len(jobs),
                samples=samples, diffs=diffs, failures=failures, traces=len(jobs),
                extra=dict(model_comparisons=checked, formats_exercised=len(formats), uncompressed_formats=nfmt),
                trusted_base=['wgpu-types TextureFormat (de)serializer: the name table gen/FormatNames.v is produced by the real serializer; that the deserializer maps a name back to the same format is checked by this correspondence only',
                              'Image::new debug assertion (data length = volume x pixel size) is not modelled; generated images satisfy it',
                              'lz4-compression 0.7 and bincode 1.3 are modelled (Codec/Lz4.v, Codec/Schema.v), byte-exactness validated by this correspondence'],
                assumptions=['usize is 64 bit; no allocation failure'])


def search(ctx, broken):
    jobs = [('codec-image', [777000 + ctx['seed'] * 1000 + i, 200, 8], 'c13_search_%d' % i) for i in range(24)]
    for (cmd, args, tag), r in zip(jobs, codecrun.run_shards(jobs, use_driver=False)):
        o = dict(cmd=cmd, seed=args[0], count=args[1], max_extent=args[2], trace=r['path'])
        if r['error']:
            return [dict(signature='image-harness-failed', origin=o, what=r['error'])]
        f = oracle(r['text'], o)[0]
        if f:
            return f[:1]
    return []


def replay(data):
    o = (data.get('failure') or {}).get('origin')
    if not o:
        print('replay file names a broken obligation, nothing to execute:', [b.get('what') for b in data.get('broken', [])])
        return 1
    r = codecrun.run_shard(o['cmd'], [o['seed'], o['count'], o['max_extent']], 'c13_replay', use_driver=False)
    if r['error']:
        print('FAIL', r['error'])
        return 1
    f = oracle(r['text'], o)[0]
    for x in f:
        print('FAIL', x['what'])
    return 1 if f else 0
