"""C11 runner: real mesh_to_bin / bin_to_mesh vs the extracted MeshCodec model on the same meshes
(bytes and decoded fields) + the property oracle on the real output alone."""
import os
from .. import core, codecrun

KEYS = ['topo', 'pos', 'nor', 'uv0', 'uv1', 'tan', 'col', 'jw', 'ji', 'idx', 'morph', 'names']


def oracle(text, origin):
    """The property itself on the real output: the decoded mesh (MESHDEC) equals the original
    (MESH) field by field, bit by bit -- except that a strong morph handle (morph=S, outside the
    supported set) is absent after decoding.  Returns (failures, number of cases, nontrivial digests)."""
    failures, n, nontrivial = [], 0, set()
    for idx, c in codecrun.cases(text, ('MESH', 'MESHBIN', 'MESHDEC')):
        n += 1
        if 'MESH' not in c or 'MESHDEC' not in c or 'MESHBIN' not in c:
            failures.append(dict(signature='mesh-case-incomplete', origin=dict(origin, case=idx),
                                 what='mesh case %s: the harness did not print MESH, MESHBIN and MESHDEC (panic?)' % idx))
            continue
        a, b = codecrun.kv(c['MESH']), codecrun.kv(c['MESHDEC'])
        if any(a.get(k, '~') != '~' for k in KEYS[1:]):
            nontrivial.add(codecrun.digest(c['MESH']))
        for k in KEYS:
            want = a.get(k)
            if k == 'morph' and want == 'S':
                want = '~'
            if b.get(k) != want:
                failures.append(dict(signature='mesh-roundtrip-' + k, origin=dict(origin, case=idx),
                                     what='mesh case %s: %s is %s before encoding and %s after decoding' % (
                                         idx, k, codecrun.clip(str(a.get(k)), 80), codecrun.clip(str(b.get(k)), 80))))
                break
    # a download cut off at the transfer limit must not make the decoder panic (C08); the differential
    # against the model compares what it returns instead
    import re as _re
    cuts = {m.group(1): (0 if m.group(2) == '-' else len(m.group(2)) // 2) for m in _re.finditer(r'^MESHBAD (\S+) (\S+)$', text, _re.M)}
    for m in _re.finditer(r'^MESHBADDEC (\S+) PANIC$', text, _re.M):
        failures.append(dict(signature='mesh-truncated-download-panics', origin=dict(origin, case=m.group(1)),
                             what='mesh case %s: bin_to_mesh PANICS on a download cut off after %d bytes' % (m.group(1), cuts.get(m.group(1), -1))))
    return failures, n, nontrivial


def plan(tier, seed):
    """[(count, max_vertices)] per shard; seeds derive from the run seed."""
    if tier == 'quick':
        shards = [(25, 2000)] * 12
    else:
        shards = [(30, 2000)] * 96 + [(20, 8000)] * 6 + [(2, 70000)] * 4
    return [('codec-mesh', [seed * 100000 + 11000 + i, cnt, maxv], 'c11_%d_%d' % (seed, i)) for i, (cnt, maxv) in enumerate(shards)]


def run(ctx):
    jobs = plan(ctx['tier'], ctx['seed'])
    results = codecrun.run_shards(jobs, use_driver=ctx.get('driver_ok', True))
    evaluations, diffs, failures, samples, nontrivial, checked = 0, [], [], [], set(), 0
    for (cmd, args, tag), r in zip(jobs, results):
        origin = dict(cmd=cmd, seed=args[0], count=args[1], max_vertices=args[2], trace=r['path'])
        if r['error']:
            failures.append(dict(signature='mesh-harness-failed', origin=origin, what=r['error']))
            continue
        diffs += ['%s: %s' % (os.path.basename(r['path']), d) for d in r['diffs']]
        f, n, nt = oracle(r['text'], origin)
        failures += f
        evaluations += n
        nontrivial |= nt
        checked += r['checked']
        if len(samples) < 4:
            samples += [codecrun.clip(l, 240) for l in r['text'].split('\n')[:3]]
    return dict(evaluations=evaluations, distinct_nontrivial=len(nontrivial),
                rule='random meshes from bsh codec-mesh (5 topologies, every subset of the 8 attributes, 0..max vertices, special f32 bit patterns, no/u16/u32 indices, no/weak-uuid/weak-index/strong morph handle, names) in %d shards; each case = real mesh_to_bin bytes vs model bytes, real bin_to_mesh vs model decode of the real bytes, and the oracle MESHDEC = MESH; non-trivial = distinct meshes with at least one attribute, index list, handle or name list' % len(jobs),
                samples=samples, diffs=diffs, failures=failures, traces=len(jobs),
                extra=dict(model_comparisons=checked),
                trusted_base=['Bevy facts written by hand in the model: vertex format of the eight Mesh::ATTRIBUTE_* constants, serde layout of AssetId<Image> (validated by this correspondence)',
                              'lz4-compression 0.7 and bincode 1.3 are modelled (Codec/Lz4.v, Codec/Schema.v), byte-exactness validated by this correspondence'],
                assumptions=['usize is 64 bit; no allocation failure'])


def search(ctx, broken):
    """More seeds of the oracle on the real code only (small meshes: fast)."""
    jobs = [('codec-mesh', [777000 + ctx['seed'] * 1000 + i, 200, 64], 'c11_search_%d' % i) for i in range(24)]
    for (cmd, args, tag), r in zip(jobs, codecrun.run_shards(jobs, use_driver=False)):
        if r['error']:
            return [dict(signature='mesh-harness-failed', origin=dict(cmd=cmd, seed=args[0], count=args[1], max_vertices=args[2]), what=r['error'])]
        f, _, _ = oracle(r['text'], dict(cmd=cmd, seed=args[0], count=args[1], max_vertices=args[2], trace=r['path']))
        if f:
            return f[:1]
    return []


def replay(data):
    o = (data.get('failure') or {}).get('origin')
    if not o:
        print('replay file names a broken obligation, nothing to execute:', [b.get('what') for b in data.get('broken', [])])
        return 1
    r = codecrun.run_shard(o['cmd'], [o['seed'], o['count'], o['max_vertices']], 'c11_replay', use_driver=False)
    if r['error']:
        print('FAIL', r['error'])
        return 1
    f, _, _ = oracle(r['text'], o)
    for x in f:
        print('FAIL', x['what'])
    return 1 if f else 0
