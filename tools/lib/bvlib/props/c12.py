"""C12 runner: the real Message bincode and reflect_to_bin / bin_to_reflect vs the extracted
models (ProtoCodec, Schema) on the same values + the property oracles on the real output alone."""
import os, re
from .. import core, codecrun

# ---------------------------------------------------------------------------------------------
# val= / ty= syntax of the harness (see harness/src/codec.rs), for the oracle
# ---------------------------------------------------------------------------------------------

def parse(s, seps):
    """Generic reader of `x(..,..)` terms: returns nested (head, [children]) tuples."""
    pos = 0

    def term():
        nonlocal pos
        st = pos
        while pos < len(s) and s[pos] not in '(),|':
            pos += 1
        head = s[st:pos]
        kids = None
        if pos < len(s) and s[pos] == '(':
            pos += 1
            kids = []
            if s[pos] == ')':
                pos += 1
            else:
                while True:
                    kids.append(term())
                    if s[pos] in seps:
                        pos += 1
                        continue
                    if s[pos] != ')':
                        raise ValueError('expected ) at %d' % pos)
                    pos += 1
                    break
        return (head, kids)

    t = term()
    if pos != len(s):
        raise ValueError('trailing text at %d' % pos)
    return t


def is_handle_ty(t):
    # Handle<A> reflects as enum Strong(Arc<..>) | Weak(AssetId): E(X|E(..))
    return t[0] == 'E' and t[1] and t[1][0] == ('X', None)


def float_leaves(ty, val, rule, out, path=()):
    """Collect (width, bits) of the float leaves of `val` according to `rule(path, width)`;
    integers inside asset handles are never floats."""
    h, kids = ty
    if is_handle_ty(ty):
        return
    if h.startswith('I') and kids is None:
        w = int(h[1:])
        if rule(path, w):
            out.append((w, int(val[0][1:])))
    elif h == 'O':
        if val[0] == 'o':
            float_leaves(kids[0], val[1][0], rule, out, path)
    elif h in ('S',) or h.startswith('A'):
        for v in val[1] or []:
            float_leaves(kids[0], v, rule, out, path)
    elif h == 'T':
        for i, (t, v) in enumerate(zip(kids, val[1] or [])):
            float_leaves(t, v, rule, out, path + (i,))
    elif h == 'E':
        idx = int(val[0][1:])
        float_leaves(kids[idx], val[1][0], rule, out, path)


def is_nan(w, bits):
    if w == 4:
        return (bits & 0x7f800000) == 0x7f800000 and (bits & 0x007fffff) != 0
    if w == 8:
        return (bits >> 52) & 0x7ff == 0x7ff and (bits & ((1 << 52) - 1)) != 0
    return False


# which integer leaves of each family type are floats (harness/src/codec.rs: CompB(u64, f32); CompD { .. speed: f32 at field 3 };
# CompN { .. t: (u8, f64) at field 5 .. f: f32 at field 12 .. }; Transform, PointLight and
# StandardMaterial: every 4-byte leaf outside a handle is an f32, except Relief.max_steps)
FLOAT_RULE = {
    'bsh::codec::CompB': lambda p, w: p == (1,),
    'bsh::codec::CompN': lambda p, w: p == (5, 1) or p == (12,),
    'bsh::codec::CompD': lambda p, w: p == (3,),
    'bevy_transform::components::transform::Transform': lambda p, w: w == 4,
    'bevy_pbr::light::point_light::PointLight': lambda p, w: w == 4,
    'bevy_pbr::pbr_material::StandardMaterial': lambda p, w: w == 4,
}
# family types the harness compares with `==` after FromReflect (the others by Debug text)
EQ_PARTIAL = ('bsh::codec::', 'bevy_transform::', 'bevy_core::', 'bevy_render::view::visibility', 'bevy_asset::handle::Handle<')


def expected_flags(path, ty, val):
    """What the real code produces on the unchanged tree, and why:
    - reenc = 1 and dec = val always (no exception);
    - partial_eq = 1, except (a) a float field holds a NaN (NaN != NaN, IEEE; the bit pattern is
      still preserved: dec = val), (b) the component IS a Handle<..>: bin_to_reflect leaves every
      non-struct value dynamic, and Handle's reflect_partial_eq needs a concrete Handle;
    - from_reflect = 1, except when the harness compares with `==` and a float field is NaN."""
    nan = False
    rule = FLOAT_RULE.get(path)
    if rule:
        leaves = []
        tyt = parse(ty, ',|')
        if path == 'bevy_pbr::pbr_material::StandardMaterial':
            # the one u32 of the material: ParallaxMappingMethod::Relief { max_steps: u32 } = E(U|T(I4))
            relief = [i for i, t in enumerate(tyt[1]) if t == ('E', [('U', None), ('T', [('I4', None)])])]
            rule = lambda p, w: w == 4 and p[0] not in relief
        float_leaves(tyt, parse(val, ','), rule, leaves)
        nan = any(is_nan(w, b) for w, b in leaves)
    top_handle = path.startswith('bevy_asset::handle::Handle<')
    pe = 0 if (nan or top_handle) else 1
    fr = 0 if (nan and path.startswith(EQ_PARTIAL)) else 1
    return pe, fr, 1, nan


def oracle_reflect(text, origin):
    failures, n, nontrivial, kinds = [], 0, set(), set()
    for idx, c in codecrun.cases(text, ('REFL', 'REFLBIN', 'REFLCHK')):
        n += 1
        if 'REFL' not in c or 'REFLBIN' not in c or 'REFLCHK' not in c:
            failures.append(dict(signature='reflect-case-incomplete', origin=dict(origin, case=idx),
                                 what='reflect case %s: the harness did not print REFL, REFLBIN and REFLCHK (panic?)' % idx))
            continue
        a, b = codecrun.kv(c['REFL']), codecrun.kv(c['REFLCHK'])
        path = bytes.fromhex(a['path']).decode()
        kinds.add(path)
        nontrivial.add(codecrun.digest(c['REFL']))
        pe, fr, re_, nan = expected_flags(path, a['ty'], a['val'])
        o = dict(origin, case=idx)
        if b['dec'] != a['val']:
            failures.append(dict(signature='reflect-value-changed', origin=o, what='reflect case %s (%s): decoded value differs from the original: %s -> %s' % (idx, path, codecrun.clip(a['val'], 100), codecrun.clip(b['dec'], 100))))
        elif int(b['reenc']) != re_:
            failures.append(dict(signature='reflect-reencode-differs', origin=o, what='reflect case %s (%s): the decoded value re-encodes to different bytes' % (idx, path)))
        elif int(b['from_reflect']) != fr:
            failures.append(dict(signature='reflect-from-reflect', origin=o, what='reflect case %s (%s): FromReflect of the decoded value %s the original (NaN in a float field: %s)' % (idx, path, 'does not rebuild' if fr else 'unexpectedly equals', nan)))
        elif int(b['partial_eq']) != pe:
            failures.append(dict(signature='reflect-partial-eq', origin=o, what='reflect case %s (%s): reflect_partial_eq is %s, expected %d (NaN in a float field: %s)' % (idx, path, b['partial_eq'], pe, nan)))
    return failures, n, nontrivial, kinds


def oracle_msg(text, origin):
    failures, n, nontrivial, kinds = [], 0, set(), set()
    for idx, c in codecrun.cases(text, ('MSG', 'MSGBIN', 'MSGDEC')):
        n += 1
        if 'MSG' not in c or 'MSGBIN' not in c or 'MSGDEC' not in c:
            failures.append(dict(signature='msg-case-incomplete', origin=dict(origin, case=idx),
                                 what='message case %s: the harness did not print MSG, MSGBIN and MSGDEC (panic?)' % idx))
            continue
        kinds.add(c['MSG'].split(' ')[0])
        nontrivial.add(codecrun.digest(c['MSG']))
        if c['MSGDEC'] != c['MSG']:
            failures.append(dict(signature='msg-roundtrip-' + c['MSG'].split(' ')[0], origin=dict(origin, case=idx),
                                 what='message case %s: %s decodes to %s' % (idx, codecrun.clip(c['MSG'], 120), codecrun.clip(c['MSGDEC'], 120))))
    return failures, n, nontrivial, kinds


def plan(tier, seed):
    k = 1 if tier == 'quick' else 10
    jobs = []
    for i in range(4 * k):
        jobs.append(('codec-msg', [seed * 100000 + 12000 + i, 100], 'c12m_%d_%d' % (seed, i)))
    for i in range(4 * k):
        jobs.append(('codec-reflect', [seed * 100000 + 12500 + i, 100], 'c12r_%d_%d' % (seed, i)))
    return jobs


def run(ctx):
    jobs = plan(ctx['tier'], ctx['seed'])
    results = codecrun.run_shards(jobs, use_driver=ctx.get('driver_ok', True))
    evaluations, diffs, failures, samples, nontrivial, checked = 0, [], [], [], set(), 0
    kinds = dict(msg=set(), reflect=set())
    for (cmd, args, tag), r in zip(jobs, results):
        origin = dict(cmd=cmd, seed=args[0], count=args[1], trace=r['path'])
        if r['error']:
            failures.append(dict(signature='codec-harness-failed', origin=origin, what=r['error']))
            continue
        diffs += ['%s: %s' % (os.path.basename(r['path']), d) for d in r['diffs']]
        if cmd == 'codec-msg':
            f, n, nt, ks = oracle_msg(r['text'], origin)
            kinds['msg'] |= ks
        else:
            f, n, nt, ks = oracle_reflect(r['text'], origin)
            kinds['reflect'] |= ks
        failures += f
        evaluations += n
        nontrivial |= nt
        checked += r['checked']
        if tag.endswith('_0'):
            samples += [codecrun.clip(l, 240) for l in r['text'].split('\n')[:3]]
    return dict(evaluations=evaluations, distinct_nontrivial=len(nontrivial),
                rule='%d shards: messages of all twelve kinds with random payloads (bsh codec-msg) and values of twelve registered component shapes incl. Transform, Name, Visibility, Handle<Mesh>, Handle<StandardMaterial>, PointLight, StandardMaterial, and a family of user structs / tuple structs / enums with options, vectors, arrays, tuples, chars, strings, u128 (bsh codec-reflect; the wire schema of each is read from the real TypeRegistry); each case = real bytes vs model bytes, real decode vs model decode of the real bytes, and the oracle (decoded = original; re-encode = same bytes; FromReflect / reflect_partial_eq flags); non-trivial = distinct values' % len(jobs),
                samples=samples, diffs=diffs, failures=failures, traces=len(jobs),
                extra=dict(model_comparisons=checked, message_kinds=len(kinds['msg']), component_types=len(kinds['reflect'])),
                trusted_base=['hand-written serde schemas of types carrying ReflectSerialize (glam vectors, Uuid, String, Name, bevy_color) in harness/src/codec.rs; all other schemas are read from the real TypeRegistry',
                              'FromReflect reconstruction of an equal concrete value and reflect_partial_eq are CHECKED on generated values (REFLCHK flags), not proved',
                              'serde layouts of Uuid, String, Vec<u8>, IpAddr are written by hand in tools/lib/bvlib/src2v_codec.py (validated by this correspondence)',
                              'UTF-8 validation of strings by the real decoder is not modelled'],
                assumptions=['usize is 64 bit', 'both peers have the same registrations (same schema per type path)'])


def search(ctx, broken):
    jobs = []
    for i in range(12):
        jobs.append(('codec-msg', [777000 + ctx['seed'] * 1000 + i, 300], 'c12m_search_%d' % i))
        jobs.append(('codec-reflect', [778000 + ctx['seed'] * 1000 + i, 300], 'c12r_search_%d' % i))
    for (cmd, args, tag), r in zip(jobs, codecrun.run_shards(jobs, use_driver=False)):
        o = dict(cmd=cmd, seed=args[0], count=args[1], trace=r['path'])
        if r['error']:
            return [dict(signature='codec-harness-failed', origin=o, what=r['error'])]
        f = (oracle_msg if cmd == 'codec-msg' else oracle_reflect)(r['text'], o)[0]
        if f:
            return f[:1]
    return []


def replay(data):
    o = (data.get('failure') or {}).get('origin')
    if not o:
        print('replay file names a broken obligation, nothing to execute:', [b.get('what') for b in data.get('broken', [])])
        return 1
    r = codecrun.run_shard(o['cmd'], [o['seed'], o['count']], 'c12_replay', use_driver=False)
    if r['error']:
        print('FAIL', r['error'])
        return 1
    f = (oracle_msg if o['cmd'] == 'codec-msg' else oracle_reflect)(r['text'], o)[0]
    for x in f:
        print('FAIL', x['what'])
    return 1 if f else 0
