"""C10 runner (see protoprops.py)."""
from . import protoprops, protocommon


def run(ctx):
    return protoprops.RUNNERS['C10'](ctx)


def search(ctx, broken):
    """look for a concrete failing history on the real code with more seeds"""
    c2 = dict(ctx, seed=ctx['seed'] * 31 + 17)
    return protoprops.RUNNERS['C10'](c2)['failures']


def replay(data):
    return protocommon.replay(data)
