"""Shared runner of the protocol properties: corpus + generated scenarios on the real code,
replay on the extracted frame-level model (correspondence), property oracles on the real traces."""
import glob, os, re
from .. import core, scen, protorun, oracles

CORPUS = os.path.join(core.VERIF, 'corpus', 'proto')


def classify(prop, f, tr, trace_text):
    """Refine an oracle failure into a known class where the trace shows the class' fingerprint
    (a decidable predicate on the history, mirroring the `known_*` predicates of the Coq side)."""
    sig = f['signature']
    ops = [(ev[1], ev[2]) for ev in tr['events'] if ev[0] == 'op']
    if sig in ('entity-sets-differ', 'value-missing', 'values-differ', 'parents-differ'):
        setups = {}
        for p, w in ops:
            if w[0] in ('setup', 'reconnect'):
                setups[p] = setups.get(p, 0) + 1
        away, deleted_while_away = set(), False
        for p, w in ops:
            if w[0] == 'removetransports':
                away.add(p)
            if w[0] == 'reconnect':
                away.discard(p)
            if w[0] == 'despawn' and away and p not in away:
                deleted_while_away = True
        if any(v > 1 for v in setups.values()) and deleted_while_away and sig == 'entity-sets-differ':
            return 'S11-reconnect-keeps-deleted'
    if sig in ('asset-content-differs', 'asset-missing'):
        m = re.search(r'asset kind (\d+) id (\d+)', f['what'])
        key = (m.group(1), m.group(2)) if m else None
        pubs = [p for p, w in ops if w[0] == 'addasset' and (w[1], w[2]) == key]
        mp = re.search(r'peer (\d+) holds', f['what'])
        if key is not None:
            # S23: the host relays live asset traffic of a class it has disabled, but leaves the class out
            # of the snapshot it sends to later joiners
            host_sw = None
            for p, w in ops:
                if p == 0 and w[0] == 'switches':
                    host_sw = (w[1], w[2], w[3])
            k = int(key[0])
            idx = {0: 0, 2: 0, 1: 1, 3: 2}[k]
            if host_sw is not None and host_sw[idx] == '0' and pubs and pubs[0] != 0:
                return 'S23-host-disabled-class-not-in-snapshot'
    return sig


def run_scenarios(prop, ctx, jobs, oracle_fns, relevant=None, nontrivial=None):
    res = protorun.run_many(jobs)
    diffs, failures, samples = [], [], []
    frames = 0
    distinct = set()
    stats = {}
    for r in res:
        frames += r['frames']
        ds = r['diffs']
        if relevant is not None:
            ds = [d for d in ds if relevant(d)]
        diffs += ['%s: %s' % (r['name'], d) for d in ds[:3]]
        if 'premise_fresh' in r:
            # premise of C01_at_most_one_entity_per_uuid, evaluated by the driver before every replayed frame
            h, f, dup = r['premise_fresh']
            stats['frames_with_fresh_announcements'] = stats.get('frames_with_fresh_announcements', 0) + h
            stats['frames_outside_the_freshness_premise'] = stats.get('frames_outside_the_freshness_premise', 0) + f
            stats['model_states_with_a_duplicate_uuid'] = stats.get('model_states_with_a_duplicate_uuid', 0) + dup
        if not r['ok']:
            continue
        tr = oracles.parse(r['trace'])
        origin = dict(scenario=r['scenario'], name=r['name'])
        for fn in oracle_fns:
            for f in fn(tr, origin):
                f['signature'] = classify(prop, f, tr, r['trace'])
                f['replay'] = r['scenario']
                failures.append(f)
        if nontrivial is not None:
            for x in nontrivial(tr):
                distinct.add((r['name'],) + tuple(x))
        for l in r['trace'].split('\n'):
            if l.startswith('OP'):
                k = l.split()[2]
                stats[k] = stats.get(k, 0) + 1
        if len(samples) < 3:
            samples.append(dict(scenario=r['name'], ops=[l for l in r['trace'].split('\n') if l.startswith('OP')][:12],
                                frames=r['frames']))
    return dict(results=res, diffs=diffs, failures=failures, frames=frames, distinct=distinct, samples=samples, opstats=stats)


def corpus_jobs(patterns):
    jobs = []
    for pat in patterns:
        for f in sorted(glob.glob(os.path.join(CORPUS, pat))):
            jobs.append(('corpus_' + os.path.basename(f)[:-4].replace('.noreplay', '_noreplay'), open(f).read()))
    return jobs


def generated_jobs(prop, seed, n, profiles, nops=18, **kw):
    jobs = []
    for i in range(n):
        prof = profiles[i % len(profiles)]
        text, _ = scen.scenario(seed * 100003 + i * 7 + sum(map(ord, prop)) % 1000, prof, nops=nops, **kw)
        jobs.append(('%s_%d_%s' % (prop, i, prof), text))
    return jobs


def received_kinds(tr):
    """distinct (peer, message kind, key) received: the non-triviality measure of a scenario"""
    out = set()
    for ev in tr['events']:
        if ev[0] == 'frame':
            for frm, m in ev[1].rcv:
                out.add((ev[1].peer, m[0], m[1] if len(m) > 1 else ''))
    return out


def make_result(prop, ctx, out, rule, extra_tb=None, assumptions=None):
    return dict(evaluations=out['frames'], distinct_nontrivial=len(out['distinct']), rule=rule,
                samples=out['samples'], diffs=out['diffs'], failures=out['failures'], traces=len(out['results']),
                trusted_base=(extra_tb or []) + [
                    'modelled, not verified (tied by the per-frame correspondence): Bevy scheduler / change detection / Commands / hierarchy / Assets events / States, renet reliable ordered channel and connection status',
                    'the executable order of Update, the messages each poll received, connection events and finished downloads are ORACLE inputs read from the real run',
                    'driver may permute adjacent independent in-flight messages of the model (sender iteration order over queries / hash sets is unspecified)'],
                assumptions=assumptions or [],
                extra=dict(scenarios=len(out['results']), operation_distribution=out['opstats']))


def replay(data):
    f = data.get('failure') or {}
    scn = f.get('replay')
    if not scn or not os.path.exists(scn):
        print('replay file names a broken obligation, nothing to execute:', [b.get('what') for b in data.get('broken', [])][:3])
        return 1
    r = protorun.run_one('replay', open(scn).read())
    print(r['trace'][-3000:])
    for d in r['diffs'][:5]:
        print(d)
    return 1
