"""Runners of the protocol properties (one small function per property, shared machinery in
protocommon). Each returns the dict main.check expects."""
from .. import oracles, scen
from . import protocommon as pc


def _premises(out, o, which):
    """count, per real quiescent point, whether the replayed event sequence satisfies the premises of the
    convergence theorems (evaluated by the extracted Coq functions inside the driver)"""
    st = out['opstats'].setdefault(which + '_premises_at_quiescent_points', {'causal': 0, 'drain_separated': 0, 'causal_not_drain_separated': 0, 'neither': 0})
    for l in o.split('\n'):
        if l.startswith('ABSPREMISE'):
            kv = dict(x.split('=') for x in l.split()[1:])
            if kv.get('writes') == '0':
                continue
            co, ds = kv['causal'] == '1', kv['drainsep'] == '1'
            st['causal'] += co
            st['drain_separated'] += ds
            st['causal_not_drain_separated'] += (co and not ds)
            st['neither'] += (not co and not ds)


def _absval(out, keys_of):
    """replay the event-level value model (Abs/Values.v) on every real trace, for the keys given"""
    import subprocess, os
    from .. import core
    n = 0
    if not os.path.exists(core.DRIVER):
        return 0
    for r in out['results']:
        if not r['ok'] or r['name'].startswith('corpus_'):
            continue
        for (h, t) in keys_of(r['name']):
            rc, o = core.run([core.DRIVER, 'absval', r['trace_path'], str(h), str(t)], timeout=120)
            n += 1
            _premises(out, o, 'value_model')
            for l in o.split('\n'):
                if l.startswith('DIFF'):
                    out['diffs'].append('%s [value model, key %s/%s]: %s' % (r['name'], h, t, l[:400]))
            if rc not in (0, 1):
                out['diffs'].append('%s: value-model replay failed: %s' % (r['name'], o[-200:]))
    return n


def _absent(out):
    """replay the event-level entity model (Abs/Entities.v) on every real trace"""
    import os
    from .. import core
    n = 0
    if not os.path.exists(core.DRIVER):
        return 0
    for r in out['results']:
        if not r['ok']:
            continue
        rc, o = core.run([core.DRIVER, 'absent', r['trace_path']], timeout=120)
        n += 1
        for l in o.split('\n'):
            if l.startswith('DIFF'):
                out['diffs'].append('%s [entity model]: %s' % (r['name'], l[:400]))
        if rc not in (0, 1):
            out['diffs'].append('%s: entity-model replay failed: %s' % (r['name'], o[-200:]))
    return n


def _abspar(out):
    """replay the event-level parent-link model (Abs/Parents.v) on every real trace, once per
    child that some `parent` operation of the scenario names"""
    import os, re
    from .. import core
    n = skipped = 0
    if not os.path.exists(core.DRIVER):
        return 0, 0
    for r in out['results']:
        if not r['ok'] or 'noreplay' in r['name']:
            continue
        try:
            text = open(r['trace_path']).read()
        except OSError:
            continue
        children = sorted(set(re.findall(r'^OP \d+ parent (\d+) \d+$', text, re.M)), key=int)
        for c in children:
            rc, o = core.run([core.DRIVER, 'abspar', r['trace_path'], c], timeout=120)
            n += 1
            if 'ABSSKIP' in o:
                skipped += 1
            else:
                _premises(out, o, 'parent_model')
            for l in o.split('\n'):
                if l.startswith('DIFF'):
                    out['diffs'].append('%s [parent model, child %s]: %s' % (r['name'], c, l[:400]))
            if rc not in (0, 1):
                out['diffs'].append('%s: parent-model replay failed: %s' % (r['name'], o[-200:]))
    return n, skipped


def _absprom(out):
    """reachability check of the event-level promotion model (Abs/Promotion.v) on every real trace"""
    import os
    from .. import core
    n = skipped = 0
    if not os.path.exists(core.DRIVER):
        return 0, 0
    for r in out['results']:
        if not r['ok']:
            continue
        rc, o = core.run([core.DRIVER, 'absprom', r['trace_path']], timeout=600)
        n += 1
        if 'ABSSKIP' in o:
            skipped += 1
        for l in o.split('\n'):
            if l.startswith('DIFF'):
                out['diffs'].append('%s [promotion model]: %s' % (r['name'], l[:500]))
        if rc not in (0, 1):
            out['diffs'].append('%s: promotion-model check failed: %s' % (r['name'], o[-200:]))
    return n, skipped


def _absast(out):
    """replay the event-level asset model (Abs/Assets.v) on every real trace, once per (kind, uuid)
    that some `addasset` operation of the scenario names"""
    import os, re
    from .. import core
    n = skipped = 0
    if not os.path.exists(core.DRIVER):
        return 0, 0
    for r in out['results']:
        if not r['ok'] or 'noreplay' in r['name']:
            continue
        try:
            text = open(r['trace_path']).read()
        except OSError:
            continue
        keys = sorted(set(re.findall(r'^OP \d+ addasset (\d) (\d+) \d+$', text, re.M)))
        for (k, a) in keys:
            rc, o = core.run([core.DRIVER, 'absast', r['trace_path'], k, a], timeout=120)
            n += 1
            if 'ABSSKIP' in o:
                skipped += 1
            for l in o.split('\n'):
                if l.startswith('DIFF'):
                    out['diffs'].append('%s [asset model, kind %s id %s]: %s' % (r['name'], k, a, l[:400]))
            if rc not in (0, 1):
                out['diffs'].append('%s: asset-model replay failed: %s' % (r['name'], o[-200:]))
    return n, skipped


def _absdl(out):
    """replay the model of the registry of pending downloads (Abs/Downloads.v) on the registry log (REG
    lines) of every real trace"""
    import os
    from .. import core
    n = steps = 0
    if not os.path.exists(core.DRIVER):
        return 0, 0
    for r in out['results']:
        if not r['ok']:
            continue
        try:
            if '\nREG ' not in open(r['trace_path']).read():
                continue
        except OSError:
            continue
        rc, o = core.run([core.DRIVER, 'absdl', r['trace_path']], timeout=120)
        n += 1
        for l in o.split('\n'):
            if l.startswith('DIFF'):
                out['diffs'].append('%s [registry of pending downloads]: %s' % (r['name'], l[:400]))
            if l.startswith('ABSDL'):
                steps += int(l.split('steps=')[1].split()[0])
        if rc not in (0, 1):
            out['diffs'].append('%s: registry-model replay failed: %s' % (r['name'], o[-200:]))
    return n, steps


def _tier(ctx, quick, thorough):
    return quick if ctx['tier'] == 'quick' else thorough


def _jobs_from(gen, prop, seed, n, **kw):
    jobs, metas = [], {}
    for i in range(n):
        text, meta = gen(seed * 100003 + i * 13 + sum(map(ord, prop)), **kw)
        name = '%s_%d' % (prop, i)
        jobs.append((name, text))
        metas[name] = meta
    return jobs, metas


def _with_meta(metas, fn):
    """oracle adaptor: looks the scenario's meta up by name"""
    def g(tr, origin):
        return fn(tr, origin, metas.get(origin.get('name'), None))
    return g


# ---- C01 -------------------------------------------------------------------------------------
def run_c01(ctx):
    n = _tier(ctx, 24, 300)
    jobs = pc.corpus_jobs(['S18_*.scn', 'S11_*.scn', 'R1_*.scn']) + pc.generated_jobs('C01', ctx['seed'], n, ['entities', 'entities', 'mixed'])
    # a join placed exactly at a despawn by another client (several joiners: the host's drain order varies)
    jd, _ = _jobs_from(scen.join_at_despawn, 'C01d', ctx['seed'], _tier(ctx, 3, 30))
    jobs += jd
    out = pc.run_scenarios('C01', ctx, jobs, [oracles.c01_entities], nontrivial=pc.received_kinds)
    out['opstats']['entity_model_replays'] = _absent(out)
    return pc.make_result('C01', ctx, out, 'frames of generated spawn/despawn histories (1..3 clients, paced frames, marks before connection, late joins) + corpus; non-trivial = distinct (scenario, receiver, entity message kind, uuid) received')


# ---- C02 -------------------------------------------------------------------------------------
def _c02_oracle(tr, origin, meta):
    out = oracles.c02_values(tr, origin, meta['types'] if meta else None)
    if meta and not out:
        # the generated histories satisfy the premises throughout: every quiescent point must agree
        out = oracles.c02_values_every_quiescent(tr, origin, meta['types'])
    if meta and oracles.ended_quiescent(tr):
        last = oracles.final_worlds(tr)
        for p in oracles.connected_peers(last):
            se = oracles.sync_entities(last[p])
            for (u, t), v in meta['last_value'].items():
                if u in se and se[u][0]['compmap'].get(t) != v:
                    out.append(dict(signature='not-last-write', origin=origin,
                                    what='at quiescence peer %d holds %s for component %d of uuid %s, last write was %s' % (p, se[u][0]['compmap'].get(t), t, u, v)))
    for (h, t, v1, P) in (meta or {}).get('causal', []):
        # a causal follow-up whose first value had NOT reached the second writer when it wrote is a
        # genuine conflict: nothing is demanded of that key then
        received = seen = False
        for ev in tr['events']:
            if ev[0] == 'frame' and ev[1].peer == P:
                for frm, m in ev[1].rcv:
                    if m[0] == 'comp' and m[1] == h and m[2] == str(t) and m[3] == v1:
                        received = True
            if ev[0] == 'op' and ev[1] == P and ev[2][0] == 'write' and ev[2][1] == h and ev[2][2] == str(t) and received:
                seen = True
        if not seen:
            out = [f for f in out if not (('component %d of uuid %s' % (t, h)) in f['what'])]
    return out


def run_c02(ctx):
    n = _tier(ctx, 24, 300)
    jobs, metas = _jobs_from(scen.values_clean, 'C02', ctx['seed'], n)
    ji, mi = _jobs_from(scen.values_inframe, 'C02i', ctx['seed'], max(8, n // 3))
    metas.update(mi)
    jobs = pc.corpus_jobs(['S1_*.scn', 'S2_*.scn', 'S15*.scn', 'S22_*.scn']) + jobs + ji
    out = pc.run_scenarios('C02', ctx, jobs, [_with_meta(metas, _c02_oracle)], nontrivial=pc.received_kinds)
    nabs = _absval(out, lambda name: sorted(metas[name]['last_value'].keys()) if name in metas else [])
    out['opstats']['value_model_replays'] = nabs
    return pc.make_result('C02', ctx, out, 'frames of drain-separated multi-writer histories over 1..3 component types incl. Transform/Visibility/lights/Name; non-trivial = distinct (scenario, receiver, kind, uuid) received')


# ---- C03 -------------------------------------------------------------------------------------
def _c03_oracle(tr, origin, meta):
    out = oracles.c01_entities(tr, origin) + oracles.c05_parents(tr, origin)
    if meta:
        out += oracles.c02_values(tr, origin, meta['types']) + oracles.c06_assets(tr, origin, meta['enabled'])
    else:
        # corpus scenarios register every type on every peer; a SkinnedMesh (type 8) names local entity ids:
        # compared through uuids by oracles.c16_skins instead
        out += oracles.c02_values(tr, origin, [t for t in range(100) if t != 8])
        try:
            text = open(origin['scenario']).read()
        except (OSError, KeyError):
            text = ''
        if 'addasset' in text:
            out += oracles.c06_assets(tr, origin, _c06_meta(text))
    return out


def run_c03(ctx):
    n = _tier(ctx, 20, 240)
    jobs, metas = _jobs_from(scen.join, 'C03', ctx['seed'], n)
    # joiners of sessions with skins (the snapshot must carry a joint before the skin that names it, S13)
    gk, _ = _jobs_from(scen.skinned_join, 'C03k', ctx['seed'], _tier(ctx, 4, 40))
    gd, _ = _jobs_from(scen.join_at_despawn, 'C03d', ctx['seed'], _tier(ctx, 2, 20))
    jobs = pc.corpus_jobs(['S18_*.scn', 'S11_*.scn', 'R1_*.scn', 'R2_*.scn', 'S12_*.scn', 'S13_*.scn', 'S25_*.scn', 'S26*.scn', 'S30_*.scn']) + jobs + gk + gd
    out = pc.run_scenarios('C03', ctx, jobs, [_with_meta(metas, _c03_oracle), oracles.c16_skins], nontrivial=pc.received_kinds)
    out['opstats']['entity_model_replays'] = _absent(out)
    out['opstats']['registry_model_replays'], out['opstats']['registry_model_steps'] = _absdl(out)
    return pc.make_result('C03', ctx, out, 'frames of histories in which the last client joins at a random moment (idle or while the others keep writing), 8 switch combinations; non-trivial = distinct (scenario, receiver, kind, key) received',
                          assumptions=['download threads and sockets are outside the model: a finished download is an oracle event'])


# ---- C04 -------------------------------------------------------------------------------------
def _c04_oracle(tr, origin, meta):
    if not meta:
        return []
    out = oracles.c04_assets(tr, origin, meta['enabled'])
    unmarked = set(meta['unmarked'])
    excluded = {(u, t) for u, t in meta['excluded']}
    private_now = set()       # (uuid, type) excluded after having been synchronized: private from the marker on
    joined_after = {}         # peer -> set of (uuid, type) that were already private when it joined
    for ev in tr['events']:
        if ev[0] == 'mark' and ev[1][0] == 'excluded':
            private_now.add((ev[1][1], int(ev[1][2])))
        if ev[0] == 'op' and ev[2][0] == 'setup':
            joined_after[ev[1]] = set(private_now)
        if ev[0] == 'frame':
            f = ev[1]
            for frm, m in f.rcv:
                if m[0] == 'comp' and m[2].isdigit() and (m[1], int(m[2])) in private_now:
                    out.append(dict(signature='excluded-component-sent', origin=origin, what='peer %d received %s after the component was excluded on its owner' % (f.peer, ' '.join(m))))
            for d in f.ents.values():
                if d['ident'].startswith('r'):
                    for t in d['compmap']:
                        if (d.get('sync'), t) in joined_after.get(f.peer, set()):
                            out.append(dict(signature='forbidden-component-replicated', origin=origin,
                                            what='peer %d joined after component %d of %s was excluded and still holds it' % (f.peer, t, d.get('sync'))))
    for ev in tr['events']:
        if ev[0] != 'frame':
            continue
        f = ev[1]
        for frm, m in f.rcv:
            if m[0] in ('spawn', 'delete', 'comp', 'parented') and (m[1] in unmarked or m[1].startswith('u')):
                out.append(dict(signature='unmarked-entity-sent', origin=origin, what='peer %d received %s' % (f.peer, ' '.join(m))))
            if m[0] == 'comp' and m[2].isdigit():
                if int(m[2]) in meta['never_types']:
                    out.append(dict(signature='unregistered-type-sent', origin=origin, what='peer %d received %s' % (f.peer, ' '.join(m))))
                if (m[1], int(m[2])) in excluded:
                    out.append(dict(signature='excluded-component-sent', origin=origin, what='peer %d received %s' % (f.peer, ' '.join(m))))
        for d in f.ents.values():
            if d['ident'].startswith('r') and d.get('sync') in unmarked:
                out.append(dict(signature='unmarked-entity-replicated', origin=origin, what='peer %d holds a replica of never-marked entity %s' % (f.peer, d['sync'])))
            if d['ident'].startswith('r'):
                for t in d['compmap']:
                    if t in meta['never_types'] or (d.get('sync'), t) in excluded:
                        out.append(dict(signature='forbidden-component-replicated', origin=origin,
                                        what='peer %d replica %s carries component %d that is unregistered or excluded on its owner' % (f.peer, d['ident'], t)))
    return out


def run_c04(ctx):
    n = _tier(ctx, 24, 300)
    jobs, metas = _jobs_from(scen.optin, 'C04', ctx['seed'], n)
    j2, m2 = _jobs_from(scen.optin_alone, 'C04a', ctx['seed'], max(6, n // 3))
    jobs, metas = jobs + j2, dict(metas, **m2)
    j3, m3 = _jobs_from(scen.optin_multi, 'C04m', ctx['seed'], max(6, n // 4))
    jobs, metas = jobs + j3, dict(metas, **m3)
    out = pc.run_scenarios('C04', ctx, jobs, [_with_meta(metas, _c04_oracle)], nontrivial=pc.received_kinds)
    return pc.make_result('C04', ctx, out, 'frames of histories with per-peer registration subsets and switches, marked/unmarked entities, excluded components, uuid/index assets, a late joiner; every received message (receive tap) and every replica is checked; non-trivial = distinct (scenario, receiver, kind, key) received')


# ---- C05 -------------------------------------------------------------------------------------
def _c05_oracle(tr, origin, meta):
    """c05_parents, except that for a causal follow-up whose first link had NOT reached the second
    writer when it issued its own operation (a genuine conflict then) nothing is demanded of that child"""
    fs = oracles.c05_parents(tr, origin)
    for (c, p1, P) in (meta or {}).get('causal', []):
        seen = False
        received = False
        for ev in tr['events']:
            if ev[0] == 'frame' and ev[1].peer == P:
                for frm, m in ev[1].rcv:
                    if m[0] == 'parented' and m[1] == c and m[2] == p1:
                        received = True
            if ev[0] == 'op' and ev[1] == P and ev[2][0] == 'parent' and ev[2][1] == c and received:
                seen = True
        if not seen:
            fs = [f for f in fs if not (f['signature'] in ('parents-differ', 'child-not-listed-once') and ('uuid %s ' % c) in f['what'])]
    return fs


def run_c05(ctx):
    n = _tier(ctx, 24, 300)
    jobs, metas = _jobs_from(scen.parents_clean, 'C05', ctx['seed'], n)
    jobs = pc.corpus_jobs(['S19_*.scn', 'S25_*.scn']) + jobs
    out = pc.run_scenarios('C05', ctx, jobs, [_with_meta(metas, _c05_oracle), oracles.c01_entities, oracles.c09_traffic], nontrivial=pc.received_kinds)
    nrep, nskip = _abspar(out)
    out['opstats']['parent_model_replays'] = nrep
    out['opstats']['parent_model_replays_outside_premises'] = nskip
    return pc.make_result('C05', ctx, out, 'frames of non-conflicting set-parent / re-parent histories (chains, fan-out, moves, same-frame mark+parent, late joiner); non-trivial = distinct (scenario, receiver, kind, key) received')


# ---- C06 -------------------------------------------------------------------------------------
def _c06_meta(text):
    en = {}
    for l in text.split('\n'):
        w = l.split()
        if len(w) >= 6 and w[0] == 'OP' and w[2] == 'switches':
            en[int(w[1])] = (int(w[3]), int(w[4]), int(w[5]))
    return en


def run_c06(ctx):
    n = _tier(ctx, 16, 200)
    jj, _ = _jobs_from(scen.join, 'C06j', ctx['seed'], max(6, n // 2))
    jb, _ = _jobs_from(scen.asset_burst, 'C06b', ctx['seed'], max(4, n // 4))
    jo, _ = _jobs_from(scen.asset_overwrite_back, 'C06o', ctx['seed'], max(4, n // 4))
    jv, _ = _jobs_from(scen.asset_overtake, 'C06v', ctx['seed'], _tier(ctx, 3, 24))
    jt, _ = _jobs_from(scen.textured_material, 'C06t', ctx['seed'], _tier(ctx, 4, 40))
    jobs = pc.corpus_jobs(['S7_*.scn', 'S12_*.scn', 'S26*.scn', 'S31_*.scn']) + pc.generated_jobs('C06', ctx['seed'], n, ['assets']) + jj + jb + jo + jv + jt
    metas = {name: _c06_meta(text) for name, text in jobs}

    def orc(tr, origin):
        return oracles.c06_assets(tr, origin, metas.get(origin['name'], {}))
    out = pc.run_scenarios('C06', ctx, jobs, [orc], nontrivial=pc.received_kinds)
    nrep, nskip = _absast(out)
    out['opstats']['asset_model_replays'] = nrep
    out['opstats']['asset_model_replays_outside_premises'] = nskip
    nreg, nsteps = _absdl(out)
    out['opstats']['registry_model_replays'] = nreg
    out['opstats']['registry_model_steps'] = nsteps
    return pc.make_result('C06', ctx, out, 'frames of asset histories (materials inline, meshes/images/audio over the real HTTP endpoint), insertions and overwrites from arbitrary peers, per-peer switches; non-trivial = distinct (scenario, receiver, kind, asset) received',
                          assumptions=['download threads, sockets, ureq are outside the model: a finished download is an oracle event (partial)'])


# ---- C07 -------------------------------------------------------------------------------------
def _c07_oracle(tr, origin):
    out = []
    last = oracles.final_worlds(tr)
    hosts = [p for p, f in last.items() if f.st.get('server') == 'C' and not f.panic]
    promoted = any(ev[0] == 'op' and ev[2][0] == 'promote' for ev in tr['events'])
    if promoted and oracles.ended_quiescent(tr):
        if len(hosts) != 1:
            out.append(dict(signature='not-exactly-one-host', origin=origin, what='after the promotion %d peers publish ServerState::Connected: %s' % (len(hosts), hosts)))
        for p, f in last.items():
            if p not in hosts and f.st.get('client') != 'C':
                out.append(dict(signature='peer-not-client-of-new-host', origin=origin, what='peer %d is neither host nor connected client after the promotion' % p))
            if p not in hosts and f.net.get('status') != 'connected':
                out.append(dict(signature='peer-not-client-of-new-host', origin=origin, what='peer %d: RenetClient is %s after the promotion' % (p, f.net.get('status'))))
        out += oracles.c01_entities(tr, origin) + oracles.c02_values(tr, origin)
    if promoted and any(ev[0] == 'notquiescent' for ev in tr['events']):
        out.append(dict(signature='not-quiescent', origin=origin, what='the session never settles after the promotion (a peer stays in a connecting state / traffic never stops)'))
    return out


def run_c07(ctx):
    n = _tier(ctx, 10, 120)
    jobs = pc.corpus_jobs(['S8_*.scn', 'S9_*.scn', 'S27_*.scn']) + pc.generated_jobs('C07', ctx['seed'], n, ['promotion'], npeers=2)
    jobs += pc.generated_jobs('C07m', ctx['seed'], max(2, n // 5), ['promotion'], npeers=3)
    # a promotion while a late joiner's snapshot is still being transmitted (NewHost behind a backlog)
    gb, _ = _jobs_from(scen.promotion_backlog, 'C07b_noreplay', ctx['seed'], _tier(ctx, 1, 6))
    jobs += gb
    out = pc.run_scenarios('C07', ctx, jobs, [_c07_oracle], nontrivial=pc.received_kinds)
    nrep, nskip = _absprom(out)
    out['opstats']['promotion_model_reachability_checks'] = nrep
    out['opstats']['promotion_model_checks_outside_premises'] = nskip
    return pc.make_result('C07', ctx, out, 'frames of promotion histories (prior content, promotion, writes resumed on both sides); one client and two clients (with the 15 s netcode time-out of the old host stale connections elapsed); non-trivial = distinct (scenario, receiver, kind, key) received',
                          assumptions=['UDP bind conflicts and netcode time-outs are outside the model (partial)'])


# ---- C08 -------------------------------------------------------------------------------------
def run_c08(ctx):
    n = _tier(ctx, 32, 400)
    cj, _ = _jobs_from(scen.crash_cross, 'C08x', ctx['seed'], n)
    lj, _ = _jobs_from(scen.link_vs_app_despawn, 'C08l', ctx['seed'], max(8, n // 4))
    jobs = pc.corpus_jobs(['S3_*.scn', 'S5_*.scn']) + cj + lj + pc.generated_jobs('C08', ctx['seed'], n // 2, ['appcmd', 'mixed', 'skinned'])
    out = pc.run_scenarios('C08', ctx, jobs, [oracles.panics], nontrivial=pc.received_kinds)
    # "... or published assets": what the real decoders do with a download cut off at an arbitrary point
    # (an asset beyond the transfer limit), under catch_unwind, compared with the model's decoders
    import re
    from .. import codecrun
    from . import c11, c13
    k = 4 if ctx.get('tier') == 'quick' else 24
    shards = [('codec-mesh', [ctx['seed'] * 100000 + 8000 + i, 25, 1500], 'c08m_%d_%d' % (ctx['seed'], i)) for i in range(k)] + \
             [('codec-image', [ctx['seed'] * 100000 + 8500 + i, 25, 48], 'c08i_%d_%d' % (ctx['seed'], i)) for i in range(k)]
    cut = 0
    for (cmd, args, tag), r in zip(shards, codecrun.run_shards(shards, use_driver=ctx.get('driver_ok', True))):
        origin = dict(cmd=cmd, seed=args[0], count=args[1], max=args[2], trace=r['path'])
        if r['error']:
            out['failures'].append(dict(signature='codec-harness-failed', origin=origin, what=r['error']))
            continue
        cut += len(re.findall(r'^(?:MESH|IMG)BADDEC ', r['text'], re.M))
        orc = c11.oracle if cmd == 'codec-mesh' else c13.oracle
        out['failures'] += [f for f in orc(r['text'], origin)[0] if 'truncated-download-panics' in f['signature'] or 'decode-panics' in f['signature']]
        out['diffs'] += ['%s: %s' % (tag, d) for d in r['diffs'] if 'truncated download' in d or 'PANIC' in d]
    out['opstats']['truncated_downloads_decoded'] = cut
    out['evaluations'] = out.get('evaluations', 0) + cut
    return pc.make_result('C08', ctx, out, 'frames of histories mixing replication traffic with application despawns (between frames and through application systems placed by the scheduler), peers with different registrations, late joins; every update() is run under catch_unwind; plus the real mesh / image decoders, under catch_unwind, against the model decoders: on downloads cut off at arbitrary points and on published images whose data is not extent x texel size (mip chains, block-compressed and texel-less formats); non-trivial = distinct (scenario, receiver, kind, key) received')


# ---- C09 -------------------------------------------------------------------------------------
def _c09_oracle(tr, origin):
    out = oracles.c09_traffic(tr, origin)
    n = tr['npeers']
    ops = sum(1 for ev in tr['events'] if ev[0] == 'op' and ev[2][0] in ('spawn', 'despawn', 'write', 'parent', 'mark', 'addasset', 'skin', 'excl'))
    comps = sum(len(ev[2]) - 3 for ev in tr['events'] if ev[0] == 'op' and ev[2][0] == 'spawn')
    joins = sum(1 for ev in tr['events'] if ev[0] == 'op' and ev[2][0] == 'setup')
    rcv = sum(len(ev[1].rcv) for ev in tr['events'] if ev[0] == 'frame')
    ents = sum(1 for ev in tr['events'] if ev[0] == 'op' and ev[2][0] == 'spawn')
    bound = 3 * (n + 1) * (n + 1) * (ops + comps + 1) + joins * (4 * (ents + comps + 6))
    if rcv > bound:
        out.append(dict(signature='traffic-above-bound', origin=origin, what='%d messages received for %d operations among %d peers (bound %d)' % (rcv, ops, n, bound)))
    return out


def run_c09(ctx):
    n = _tier(ctx, 32, 400)
    jobs = pc.corpus_jobs(['S19_*.scn', 'S25_*.scn', 'S7_*.scn']) + pc.generated_jobs('C09', ctx['seed'], n, ['values', 'parents', 'mixed', 'assets', 'entities', 'skinned'])
    # non-conflicting histories: exact cost per operation (no echo at all)
    jp, _ = _jobs_from(scen.parents_clean, 'C09p', ctx['seed'], max(8, n // 4))
    jv, _ = _jobs_from(scen.values_clean, 'C09v', ctx['seed'], max(8, n // 4), family=[0, 1, 2, 3, 4, 5, 6])
    jt, _ = _jobs_from(scen.textured_material, 'C09t', ctx['seed'], max(6, n // 6))
    tight = {name for name, _ in jp + jv}
    atight = {name for name, _ in jt}
    jobs = jobs + jp + jv + jt

    def orc(tr, origin):
        return (_c09_oracle(tr, origin) + (oracles.c09_tight(tr, origin) if origin.get('name') in tight else [])
                + (oracles.c09_assets_tight(tr, origin) if origin.get('name') in atight else []))
    out = pc.run_scenarios('C09', ctx, jobs, [orc], nontrivial=pc.received_kinds)
    nrep, nskip = _abspar(out)
    out['opstats']['parent_model_replays'] = nrep
    out['opstats']['parent_model_replays_outside_premises'] = nskip
    out['opstats']['entity_model_replays'] = _absent(out)
    return pc.make_result('C09', ctx, out, 'frames of histories of every kind, each ending with a drain that must reach quiescence (3 silent rounds, empty queues, no pending download) within 80 rounds, and whose total number of received messages must stay below 3(N+1)^2 per operation plus the snapshots; non-trivial = distinct (scenario, receiver, kind, key) received')


# ---- C10 -------------------------------------------------------------------------------------
def _c10_oracle(tr, origin, meta):
    if not meta:
        return []
    out = []
    for key in meta.get('keys', [meta['key']]):
        out += oracles.c10_subsequence(tr, origin, key, meta['writer'])
        if out:
            break
    return out


def run_c10(ctx):
    n = _tier(ctx, 24, 300)
    jobs, metas = _jobs_from(scen.single_writer, 'C10', ctx['seed'], n)
    jj, mj = _jobs_from(scen.single_writer_join, 'C10j', ctx['seed'], max(10, n // 2))
    metas.update(mj)
    jm, mm = _jobs_from(scen.single_writer_many, 'C10m', ctx['seed'], 2 if ctx.get('tier') == 'quick' else 8)
    metas.update(mm)
    jj = jj + jm
    jobs = pc.corpus_jobs(['S1_*.scn', 'S2_*.scn', 'S21_*.scn']) + jobs + jj
    metas['corpus_S21_join_during_inframe_write'] = dict(key=('1', 0), writer=0)
    metas['corpus_S1_second_update_skipped'] = dict(key=('1', 0), writer=0)
    metas['corpus_S2_fix_reinsert_stale'] = dict(key=('1', 2), writer=1)
    # a list-valued component that shrinks (S17): the reader must not keep the tail of the longer list
    jobs = pc.corpus_jobs(['S17_*.scn', 'S17b_*.scn']) + jobs
    out = pc.run_scenarios('C10', ctx, jobs, [_with_meta(metas, _c10_oracle), oracles.c16_skins], nontrivial=pc.received_kinds)
    nabs = _absval(out, lambda name: [metas[name]['key']] if name in metas and not name.startswith('corpus_') else [])
    out['opstats']['value_model_replays'] = nabs
    return pc.make_result('C10', ctx, out, 'frames of single-writer histories (bursts in consecutive frames, pauses, all relative pacings, unrelated traffic); the value displayed by every other peer after EVERY frame is checked to be a subsequence of the written values; non-trivial = distinct (scenario, receiver, kind, key) received')


# ---- C15 -------------------------------------------------------------------------------------
def _c15_oracle(tr, origin):
    out = oracles.c15_states(tr, origin) + oracles.stuck_states(tr, origin)
    if origin.get('name', '').startswith('C15_'):
        # the session family: the host builds its world and runs three frames before anybody joins
        out += oracles.c15_snapshot_applied(tr, origin)
    # InitialSyncFinished: at most once per join on a client, once on the host when it starts hosting
    last = oracles.final_worlds(tr)
    setups = {}
    for ev in tr['events']:
        if ev[0] == 'op' and ev[2][0] == 'setup':
            setups[ev[1]] = setups.get(ev[1], 0) + 1
    for p, f in last.items():
        if f.panic or not f.st:
            continue
        fin = int(f.st.get('fin', '0'))
        if fin > setups.get(p, 0):
            out.append(dict(signature='finished-event-repeated', origin=origin, what='peer %d observed InitialSyncFinished %d times for %d joins' % (p, fin, setups.get(p, 0))))
        if f.st.get('client') == 'C' and fin == 0 and f.net.get('status') == 'connected' and oracles.ended_quiescent(tr):
            out.append(dict(signature='finished-event-missing', origin=origin, what='peer %d is a connected client at quiescence and never observed InitialSyncFinished' % p))
        if f.st.get('client') == 'C' and fin == 0 and f.net.get('status') == 'connected' and any(ev[0] == 'notquiescent' for ev in tr['events']):
            # the drain waits for every pending initial sync: it gave up
            out.append(dict(signature='finished-event-missing', origin=origin, what='peer %d is a connected client, the session was given 40 rounds to settle, and it never observed InitialSyncFinished' % p))
    return out


def run_c15(ctx):
    n = _tier(ctx, 24, 300)
    jobs, metas = _jobs_from(scen.session, 'C15', ctx['seed'], n)
    jobs = pc.corpus_jobs(['S10_*.scn']) + jobs + pc.generated_jobs('C15j', ctx['seed'], max(4, n // 4), ['mixed'])
    out = pc.run_scenarios('C15', ctx, jobs, [_c15_oracle], nontrivial=lambda tr: {(ev[1].peer, ev[1].st.get('server'), ev[1].st.get('client'), ev[1].net.get('status')) for ev in tr['events'] if ev[0] == 'frame' and ev[1].st})
    return pc.make_result('C15', ctx, out, 'frames of start-hosting / connect / disconnect sequences with the transport removed at every handshake phase; published ServerState / ClientState / InitialSyncFinished count observed after every frame; non-trivial = distinct (scenario, peer, server state, client state, renet status)')


# ---- C16 -------------------------------------------------------------------------------------
def run_c16(ctx):
    n = _tier(ctx, 20, 240)
    gj, _ = _jobs_from(scen.skinned_clean, 'C16', ctx['seed'], n)
    gk, _ = _jobs_from(scen.skinned_join, 'C16j', ctx['seed'], max(6, n // 3))
    jobs = pc.corpus_jobs(['S17_*.scn', 'S17b_*.scn', 'S13_*.scn']) + gj + gk
    out = pc.run_scenarios('C16', ctx, jobs, [oracles.c16_skins], nontrivial=pc.received_kinds)
    return pc.make_result('C16', ctx, out, 'frames of histories with SkinnedMesh components (0..3 joints, repeats, joints and meshes written by owners and by other peers, local entity ids differing between peers, late joiners = snapshot path); joints are compared as uuids; non-trivial = distinct (scenario, receiver, kind, key) received')


# ---- C17 -------------------------------------------------------------------------------------
def run_c17(ctx):
    n = _tier(ctx, 24, 300)
    gj, metas = _jobs_from(scen.values_clean, 'C17', ctx['seed'], n, family=[2, 3, 4, 5, 6])
    gp, _ = _jobs_from(scen.companions_present, 'C17p', ctx['seed'], max(6, n // 4))
    gr, _ = _jobs_from(scen.rewrite_soon, 'C17r', ctx['seed'], max(8, n // 3))
    jobs = pc.corpus_jobs(['S2_*.scn', 'S5_*.scn']) + gj + gp + gr + pc.generated_jobs('C17f', ctx['seed'], n // 3, ['values'], types=[2, 3, 4, 5, 6])

    def conv(tr, origin):
        # convergence of the replicated values is demanded only of the drain-separated histories
        return oracles.c02_values(tr, origin) if not origin.get('name', '').startswith('C17f') else []
    out = pc.run_scenarios('C17', ctx, jobs, [oracles.c17_companions, oracles.c17_present_untouched, oracles.no_phantom_components, oracles.panics, conv], nontrivial=pc.received_kinds)
    return pc.make_result('C17', ctx, out, 'frames of histories writing Transform / Visibility / PointLight / SpotLight / DirectionalLight on synchronized entities from owners and other peers (drain-separated writers: values must converge; free-form: companions only), with further writes at every frame offset; companions checked after every frame; non-trivial = distinct (scenario, receiver, kind, key) received')


RUNNERS = {'C01': run_c01, 'C02': run_c02, 'C03': run_c03, 'C04': run_c04, 'C05': run_c05, 'C06': run_c06,
           'C07': run_c07, 'C08': run_c08, 'C09': run_c09, 'C10': run_c10, 'C15': run_c15, 'C16': run_c16, 'C17': run_c17}
