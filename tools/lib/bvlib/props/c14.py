"""C14 runner: real HTTP endpoint vs Route model on the same histories + property oracle."""
import os, re
from .. import core

UUID_RE = re.compile(r'^/(mesh|image|audio)/([0-9a-f]{8}-[0-9a-f]{4}-[0-9a-f]{4}-[0-9a-f]{4}-[0-9a-f]{12})$')


def unhex(s):
    return b'' if s == '-' else bytes.fromhex(s)


def oracle(trace_text, origin):
    """The property itself, evaluated on a real trace without the model: returns failures."""
    failures = []
    published = {}      # (class, uuidhex) -> latest published body hex
    first = {}
    threshold = 0
    nontrivial = set()
    for ln, line in enumerate(trace_text.split('\n'), 1):
        w = line.split()
        if not w:
            continue
        if w[0] == 'FETCH' and len(w) >= 5 and w[3] != 'same':
            # the URL the endpoint advertises is what the other peers fetch (through the crate's own request())
            failures.append(dict(signature='advertised-url-not-fetchable', origin=dict(origin, line=ln),
                                 what='a second endpoint asked to download %s %s from the advertised URL %s obtained: %s' % (w[1], w[2][:8], w[4], w[3])))
        if w[0] == 'EP':
            threshold = int(w[2])
        elif w[0] == 'PUB':
            key = (w[1], w[2])
            first.setdefault(key, w[3])
            published[key] = w[3]
        elif w[0] == 'GET':
            target = unhex(w[3]).decode('latin1')
            ans = w[5:]
            if not ans or ans[0] == 'noanswer':
                failures.append(dict(signature='no-answer', what='request %r got no answer' % target, origin=origin, line=ln))
                continue
            status = int(ans[0])
            m = UUID_RE.match(target)
            if m:
                key = (m.group(1), m.group(2).replace('-', ''))
                if key in published:
                    nontrivial.add((key, status, ans[1] if len(ans) > 1 else ''))
                    body = published[key]
                    if status != 200 or ans[2] != body:
                        sig = 'republication-serves-first-bytes' if (status == 200 and ans[2] == first[key] and first[key] != body) else 'published-not-served'
                        failures.append(dict(signature=sig, origin=origin, line=ln,
                                             what='GET %s after publication: status %d, body %s the published bytes' % (target, status, 'differs from' if status == 200 else 'absent, not')))
                    elif w[2] == '0':
                        n = len(unhex(body))
                        want = ('len:%d' % n) if n < threshold else 'chunked'
                        if ans[1] != want:
                            failures.append(dict(signature='content-length', origin=origin, line=ln,
                                                 what='GET %s: %s, expected %s (threshold %d)' % (target, ans[1], want, threshold)))
                elif status != 404:
                    failures.append(dict(signature='unknown-not-404', origin=origin, line=ln,
                                         what='GET %s (never published in that class): status %d' % (target, status)))
            else:
                if status == 200:
                    # accepted alternative uuid spellings are fine iff the body is something published
                    if ans[2] not in published.values() and ans[2] not in first.values():
                        failures.append(dict(signature='malformed-200', origin=origin, line=ln, what='GET %r answered 200 with unpublished bytes' % target))
                elif status < 400:
                    failures.append(dict(signature='malformed-not-error', origin=origin, line=ln, what='GET %r: status %d' % (target, status)))
    return failures, nontrivial


def one(seed, ops, v6, keep):
    rc, out = core.run([core.BSH, 'http', str(seed), str(ops), '1' if v6 else '0'], timeout=300)
    path = os.path.join(core.BUILD, 'traces', 'c14_%d_%d.trace' % (seed, v6))
    os.makedirs(os.path.dirname(path), exist_ok=True)
    open(path, 'w').write(out)
    if rc != 0 or 'END' not in out:
        return path, out, ['harness run failed (rc %d): %s' % (rc, out[-300:])]
    diffs = []
    if os.path.exists(core.DRIVER):
        rc2, dout = core.run([core.DRIVER, 'http', path], timeout=300)
        diffs = [l for l in dout.split('\n') if l.startswith('DIFF')]
        if rc2 != 0 and not diffs:
            diffs = ['driver failed: ' + dout[-300:]]
    return path, out, diffs


def run(ctx):
    tier, seed = ctx['tier'], ctx['seed']
    nruns, ops = (6, 60) if tier == 'quick' else (80, 150)
    evaluations, diffs, failures, samples = 0, [], [], []
    nontrivial = set()
    traces = 0
    for i in range(nruns):
        s = seed * 1000 + i
        v6 = (i % 3 == 2)
        path, out, d = one(s, ops, v6, False)
        diffs += ['%s: %s' % (os.path.basename(path), x) for x in d]
        f, nt = oracle(out, dict(cmd='http', seed=s, ops=ops, ipv6=v6, trace=path))
        failures += f
        nontrivial |= {(s,) + tuple(map(str, x)) for x in nt}
        n = sum(1 for l in out.split('\n') if l.startswith(('GET', 'PUB')))
        evaluations += n
        traces += 1
        if i < 2:
            samples += [l[:160] for l in out.split('\n') if l.startswith(('PUB', 'GET'))][:3]
    # "no request prevents the endpoint from answering later requests": connections that ask for a 48 MB
    # asset and never read; a later request must be answered within 3 s and a publication must not block
    stalls = [(1, 0), (4, 0), (2, 1)] if tier == 'quick' else [(1, 0), (2, 0), (4, 0), (8, 0), (12, 0), (1, 1), (4, 1), (12, 1)]
    for k, v6 in stalls:
        rc, out = core.run([core.BSH, 'http-stall', str(k), str(v6)], timeout=120)
        evaluations += 1
        m = re.search(r'^STALL readers=(\d+) small_get=(\S+) publish_ms=(\S+)$', out, re.M)
        origin = dict(cmd='http-stall', readers=k, ipv6=v6)
        if rc != 0 or not m:
            failures.append(dict(signature='stall-probe-failed', origin=origin, what='bsh http-stall %d %d failed: %s' % (k, v6, out[-200:])))
        elif m.group(2) != '200:010203':
            failures.append(dict(signature='stalled-reader-blocks-endpoint', origin=origin,
                                 what='%d connection(s) requested a large asset and did not read it: a later GET of a published 3-byte asset got %s' % (k, m.group(2))))
        elif m.group(3) == 'timeout':
            failures.append(dict(signature='stalled-reader-blocks-publication', origin=origin,
                                 what='%d connection(s) requested a large asset and did not read it: serve_audio did not return within 3 s' % k))
        else:
            nontrivial.add(('stall', str(k), str(v6)))
    # known finding S33 (open): the repair of S29 answers requests on RESPONDERS = 16 threads; once at least
    # that many connections have requested a large asset and do not read it (and the socket buffers are full),
    # every responder is stuck in write() and later requests wait for ever - tiny_http offers no write time-out.
    # Identified by: at least 16 never-reading connections; fewer must never block the endpoint (above).
    rc, out = core.run([core.BSH, 'http-stall', '40', '0'], timeout=120)
    evaluations += 1
    m = re.search(r'^STALL readers=(\d+) small_get=(\S+) publish_ms=(\S+)$', out, re.M)
    if rc == 0 and m and m.group(2) != '200:010203':
        failures.append(dict(signature='S33-all-responders-stalled', origin=dict(cmd='http-stall', readers=40, ipv6=0),
                             what='40 connections (more than the 16 responder threads) requested a large asset and did not read it: a later GET of a published 3-byte asset got %s' % m.group(2)))
    if rc == 0 and m and m.group(3) == 'timeout':
        failures.append(dict(signature='stalled-reader-blocks-publication', origin=dict(cmd='http-stall', readers=40, ipv6=0),
                             what='40 connections requested a large asset and did not read it: serve_audio did not return within 3 s'))
    return dict(evaluations=evaluations, distinct_nontrivial=len(nontrivial),
                rule='operations (publish / raw-socket request) over %d endpoint histories (every third on ::1), plus stalled-reader probes (connections that never read a 48 MB answer: later requests and publications must go on); non-trivial = distinct (history, published key, status, length mode) among requests for published assets' % nruns,
                samples=samples, diffs=diffs, failures=failures, traces=traces,
                trusted_base=['modelled, not verified: tiny_http request parsing / transfer encoding, acceptor+responder threads, sockets, lock poisoning (449 branch never exercised)',
                              'Uuid::parse_str / to_string modelled by Http/UuidText.v (validated by this correspondence)'],
                assumptions=['threads, sockets and lock poisoning of the endpoint are outside the model (partial)'])


def search(ctx, broken):
    """Look for a concrete failing history on the real code with more seeds."""
    found = []
    for i in range(40):
        s = 777000 + ctx['seed'] * 100 + i
        # long histories: the endpoint answers from sixteen threads, a defect that takes one of them down per
        # request shows only after that many such requests
        ops = 80 if i % 2 == 0 else 400
        path, out, d = one(s, ops, i % 3 == 2, True)
        f, _ = oracle(out, dict(cmd='http', seed=s, ops=ops, ipv6=(i % 3 == 2), trace=path))
        if f:
            found += f
            break
    return found


def replay(data):
    o = (data.get('failure') or {}).get('origin')
    if not o:
        print('replay file names a broken obligation, nothing to execute:', data.get('broken'))
        return 1
    path, out, d = one(o['seed'], o['ops'], o['ipv6'], True)
    f, _ = oracle(out, o)
    for x in f:
        print('FAIL', x['what'])
    return 1 if f else 0
