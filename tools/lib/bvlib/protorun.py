"""Runs protocol scenarios on the real code (child processes of the harness) and replays the
traces on the extracted model; shared by the protocol properties."""
import os, concurrent.futures
from . import core, scen

TRACES = os.environ.get('VERIF_TRACES') or os.path.join(core.BUILD, 'traces')


def run_one(name, text, keep=True):
    """returns dict(name, trace_path, trace, diffs, frames, left, ok)"""
    os.makedirs(TRACES, exist_ok=True)
    sp = os.path.join(TRACES, name + '.scn')
    tp = os.path.join(TRACES, name + '.trace')
    open(sp, 'w').write(text)
    import time, random
    for attempt in range(5):
        rc, out = core.run([core.BSH, 'proto', sp], timeout=180)
        if rc == 0 and 'DONE' in out:
            break
        time.sleep(0.2 + random.random() * 0.5 * (attempt + 1))
        # a port picked as free may have been taken by a parallel child before it was bound
        # (UdpSocket::bind(...).unwrap() in create_server/create_client): run it again
    open(tp, 'w').write(out)
    res = dict(name=name, scenario=sp, trace_path=tp, trace=out, diffs=[], frames=0, left=0, ok=True)
    if rc != 0 or 'DONE' not in out:
        res['ok'] = False
        res['diffs'].append('harness run failed 5 times (rc %s): %s' % (rc, out[-600:].replace('\n', ' | ')))
        return res
    if os.path.exists(core.DRIVER) and 'noreplay' not in name:
        rc2, dout = core.run([core.DRIVER, 'proto', tp], timeout=120)
        for l in dout.split('\n'):
            if l.startswith('DIFF'):
                res['diffs'].append(l[:700])
            elif l.startswith('FRAMES'):
                w = l.split()
                res['frames'], res['left'] = int(w[1]), int(w[3])
            elif l.startswith('PREMISE spawns_fresh'):
                kv = dict(x.split('=') for x in l.split()[2:])
                res['premise_fresh'] = (int(kv['holds']), int(kv['fails']), int(kv['duplicate_states']))
        # at a quiescent end the model must not hold undelivered messages (promotion hand-overs
        # legitimately strand messages towards peers that left: not counted there)
        tail = [l for l in out.split('\n') if l in ('QUIESCENT', 'NOTQUIESCENT')]
        if tail and tail[-1] == 'QUIESCENT' and res['left'] > 0 and 'promote' not in text and 'removetransports' not in text:
            lo = [l for l in dout.split('\n') if l.startswith('LEFTOVER')]
            res['diffs'].append('DIFF the run ended quiescent but the model still holds %d undelivered messages: %s' % (res['left'], '; '.join(lo)[:400]))
        if rc2 not in (0, 1) or (rc2 == 1 and not res['diffs']):
            res['diffs'].append('driver failed: ' + dout[-300:])
    return res


def run_many(jobs, workers=None):
    """jobs: list of (name, text)"""
    workers = workers or max(2, core.NCPU - 2)
    with concurrent.futures.ThreadPoolExecutor(max_workers=workers) as ex:
        return list(ex.map(lambda j: run_one(*j), jobs))
