"""Shared machinery of the codec runners (C11, C12, C13): shards of `bsh codec-* <seed> <count> ..`
run in parallel, each replayed by the driver of the extracted model (`driver codec-* <file>`),
plus helpers for the oracles (which read the REAL output only, never the model)."""
import concurrent.futures, hashlib, os
from . import core


def run_shard(cmd, args, tag, use_driver=True, keep=True):
    """One harness call + one driver call. Returns dict(path, text, diffs, error)."""
    path = os.path.join(core.BUILD, 'traces', '%s.trace' % tag)
    os.makedirs(os.path.dirname(path), exist_ok=True)
    rc, out = core.run([core.BSH, cmd] + [str(a) for a in args], timeout=1200)
    with open(path, 'w') as f:
        f.write(out)
    res = dict(path=path, text=out, diffs=[], error=None, checked=0)
    if rc != 0:
        res['error'] = 'harness `bsh %s %s` failed (rc %d): %s' % (cmd, ' '.join(map(str, args)), rc, out[-300:])
        return res
    if use_driver and os.path.exists(core.DRIVER):
        # the extracted model recurses over lists in a few places (List.map of stdlib): give it stack
        rc2, dout = core.run('ulimit -s unlimited 2>/dev/null || ulimit -s $(ulimit -H -s); exec %s %s %s' % (core.DRIVER, cmd, path), timeout=3000)
        res['diffs'] = [l for l in dout.split('\n') if l.startswith('DIFF')]
        for l in dout.split('\n'):
            if l.startswith('CHECKED'):
                res['checked'] = int(l.split()[1])
        if rc2 != 0 and not res['diffs']:
            res['diffs'] = ['DIFF driver failed on %s: %s' % (os.path.basename(path), dout[-300:])]
    return res


def run_shards(jobs, use_driver=True):
    """jobs: list of (cmd, args, tag). Parallel over processes; results in job order."""
    with concurrent.futures.ThreadPoolExecutor(max_workers=max(2, core.NCPU - 2)) as ex:
        futs = [ex.submit(run_shard, c, a, t, use_driver) for c, a, t in jobs]
        return [f.result() for f in futs]


def cases(text, tags):
    """Group the lines of a codec trace by case index: yields (index, {tag: rest of line})."""
    cur, idx = {}, None
    for line in text.split('\n'):
        sp = line.split(' ', 2)
        if len(sp) < 2 or sp[0] not in tags:
            continue
        if sp[1] != idx:
            if idx is not None:
                yield idx, cur
            cur, idx = {}, sp[1]
        cur[sp[0]] = sp[2] if len(sp) > 2 else ''
    if idx is not None:
        yield idx, cur


def kv(rest):
    return dict(w.split('=', 1) for w in rest.split() if '=' in w)


def digest(s):
    return hashlib.sha256(s.encode()).hexdigest()[:16]


def clip(s, n=200):
    return s if len(s) <= n else s[:n] + '...(%d chars)' % len(s)
