"""Translator: re-reads /repo/src on every run and regenerates coq/gen/*.v — declarative
fragments of the code as Coq tables. The property theorems are stated over (or checked
against) these tables, so they are re-checked against what the code says now. Everything is
matched with anchored regular expressions and fails closed: if a fragment is not found in the
expected shape the generated file contains `Definition translator_failed : False := I.`-style
garbage that does not compile, and the failure is reported."""
import os, re
from . import core


class TranslateError(Exception):
    pass


def coq_bytes(s):
    return '[' + '; '.join(str(b) for b in s.encode('utf-8')) + ']'


def read(rel):
    return open(os.path.join(core.REPO, rel)).read()


def strip_rust_comments(t):
    """Remove // and /* */ comments, leaving string literals intact."""
    out, i, n = [], 0, len(t)
    while i < n:
        c = t[i]
        if c == '"':
            j = i + 1
            while j < n and t[j] != '"':
                j += 2 if t[j] == '\\' else 1
            out.append(t[i:j + 1])
            i = j + 1
        elif t.startswith('//', i):
            while i < n and t[i] != '\n':
                i += 1
        elif t.startswith('/*', i):
            j = t.find('*/', i + 2)
            i = n if j < 0 else j + 2
        elif c == "'" and i + 2 < n and (t[i + 2] == "'" or (t[i + 1] == '\\' and i + 3 < n and t[i + 3] == "'")):
            k = i + 3 if t[i + 2] == "'" else i + 4
            out.append(t[i:k])
            i = k
        else:
            out.append(c)
            i += 1
    return ''.join(out)


def fn_body(text, name):
    """Source text of `fn name(...) ... { body }` (brace matching)."""
    m = re.search(r'\bfn\s+' + re.escape(name) + r'\b', text)
    if not m:
        raise TranslateError('fn %s not found' % name)
    i = text.index('{', m.end())
    # skip generics/where: find the first '{' after the closing ')' of the parameter list
    depth, j = 0, m.end()
    while j < len(text):
        if text[j] == '(':
            depth += 1
        elif text[j] == ')':
            depth -= 1
            if depth == 0:
                break
        j += 1
    i = text.index('{', j)
    depth, k = 0, i
    while k < len(text):
        if text[k] == '{':
            depth += 1
        elif text[k] == '}':
            depth -= 1
            if depth == 0:
                return text[i:k + 1]
        k += 1
    raise TranslateError('unbalanced braces in fn %s' % name)


# ------------------------------------------------------------------------------------------
def gen_routes():
    """Routes.v: router literals, statuses, URL formats, cache insertion mode, request guard."""
    t = strip_rust_comments(read('src/networking/assets/mod.rs'))
    resp = fn_body(t, 'respond')
    # the if / else-if chain: url.contains("X") ... url.strip_prefix("Y") ... (SyncAssetType::K, id)
    chain = re.findall(r'url\.contains\("([^"]*)"\)\s*\{\s*let\s+Some\(id\)\s*=\s*url\.strip_prefix\("([^"]*)"\)\s*else\s*\{\s*continue;\s*\};\s*\(SyncAssetType::(\w+),\s*id\)', resp)
    if len(chain) != 3 or len(re.findall(r'url\.contains\(', resp)) != 3:
        raise TranslateError('respond: router chain not in the expected shape')
    if not re.search(r'\}\s*else\s*\{\s*continue;\s*\};\s*let\s+Ok\(id\)\s*=\s*Uuid::parse_str\(id\)\s*else\s*\{\s*continue;\s*\};', resp):
        raise TranslateError('respond: fall-through / uuid parse not in the expected shape')
    statuses = re.findall(r'with_status_code\((\d+)\)', resp)
    arms = re.findall(r'SyncAssetType::(\w+)\s*=>\s*\{\s*let\s+Ok\((\w+)\)\s*=\s*(\w+)\.read\(\)\s*else\s*\{.*?with_status_code\((\d+)\).*?\};\s*let\s+Some\((\w+)\)\s*=\s*(\w+)\.get\(&id\)\s*else\s*\{.*?with_status_code\((\d+)\).*?\};(.*?)\.unwrap_or\(\(\)\);\s*\}', resp, re.S)
    if len(arms) != 3:
        raise TranslateError('respond: match arms not in the expected shape (%d)' % len(arms))
    arm_rows = []
    for (k, mapv, cachev, st_poison, itemv, mapv2, st_missing, tail) in arms:
        if mapv != mapv2:
            raise TranslateError('respond: arm %s reads one map and looks up another' % k)
        m = re.search(r'Response::from_data\((\w+)\.clone\(\)\)\s*\.with_header\(Header\s*\{\s*field:\s*"Content-Length"\.parse\(\)\.unwrap\(\),\s*value:\s*AsciiString::from_ascii\((\w+)\.len\(\)\.to_string\(\)\)\s*\.unwrap\(\),\s*\}\)\s*\.with_chunked_threshold\((\w+)\)', tail)
        if not m or m.group(1) != itemv or m.group(2) != itemv:
            raise TranslateError('respond: arm %s does not answer with the looked-up bytes' % k)
        arm_rows.append((k, cachev, int(st_poison), int(st_missing), m.group(3)))
    # signature: fn respond(rx, meshes: MeshCache, images: ImageCache, audios: AudioCache, max_size: usize)
    sig = re.search(r'fn\s+respond\(\s*rx:\s*Arc<Mutex<Receiver<Request>>>,\s*meshes:\s*MeshCache,\s*images:\s*ImageCache,\s*audios:\s*AudioCache,\s*(\w+):\s*usize', t)
    if not sig:
        raise TranslateError('respond: signature changed')
    # which cache each class reads must be the cache serve_<class> writes
    cache_param = {'Mesh': 'meshes', 'Image': 'images', 'Audio': 'audios'}
    # the call site passes clones of self.meshes/images/audios in that order
    call = re.search(r'for\s+_\s+in\s+0\.\.RESPONDERS\s*\{\s*let\s+server_rx\s*=\s*server_rx\.clone\(\);\s*let\s+meshes\s*=\s*result\.meshes\.clone\(\);\s*let\s+images\s*=\s*result\.images\.clone\(\);\s*let\s+audios\s*=\s*result\.audios\.clone\(\);.*?Self::respond\(server_rx,\s*meshes,\s*images,\s*audios,\s*max_transfer\)', t, re.S)
    # every responder takes one request at a time from the shared queue and handles it to the end
    if not re.search(r'loop\s*\{\s*let\s+Ok\(request\)\s*=\s*rx\.lock\(\)\.map_err\(\|_\|\s*\(\)\)\.and_then\(\|rx\|\s*rx\.recv\(\)\.map_err\(\|_\|\s*\(\)\)\)\s*else\s*\{\s*break;\s*\};\s*let\s+url\s*=\s*request\.url\(\);', resp):
        raise TranslateError('respond: the request loop is not in the expected shape')
    nresp = re.search(r'const\s+RESPONDERS:\s*usize\s*=\s*(\d+);', t)
    if not nresp or int(nresp.group(1)) < 2:
        raise TranslateError('new: fewer than two responder threads')
    if not call:
        raise TranslateError('new: responder is not started with (meshes, images, audios, max_transfer)')
    serve_rows = []
    for cls, fnname in (('Mesh', 'serve_mesh'), ('Image', 'serve_image'), ('Audio', 'serve_audio')):
        b = fn_body(t, fnname)
        lock = re.search(r'let\s+mut\s+lock\s*=\s*self\.(\w+)\.write\(\);', b)
        ins = re.search(r'map\.entry\(\*id\)\.(or_insert_with|or_insert|insert_entry)\(', b) or re.search(r'map\.(insert)\(\*id,', b)
        fmt = re.search(r'format!\("\{\}(/[a-z]+/)\{\}",\s*self\.base_url,\s*&id\.to_string\(\)\)', b)
        if not (lock and ins and fmt):
            raise TranslateError('%s: not in the expected shape' % fnname)
        mode = 'first_wins' if ins.group(1).startswith('or_insert') else 'overwrite'
        serve_rows.append((cls, lock.group(1), mode, fmt.group(1)))
    req = fn_body(t, 'request')
    # the guard that matters is whatever may return BEFORE the download is handed to the pool; what the
    # download thread does afterwards (bookkeeping of the downloads under way) is not a guard
    cut = req.find('self.download_pool.execute(')
    if cut < 0:
        raise TranslateError('request: the download is not handed to download_pool.execute')
    req = req[:cut]
    if re.search(r'\breturn\b', req) and not re.search(r'contains_key', req):
        raise TranslateError('request: returns before the download is started for a reason the translator does not know')
    guard = re.search(r'if\s+let\s+Ok\((\w+)\)\s*=\s*self\.(\w+)\.read\(\)\s*\{\s*if\s+\1\.contains_key\(&id\)\s*\{\s*return;', req)
    base = re.search(r'let\s+base_url\s*=\s*if\s+addr\.is_ipv6\(\)\s*\{\s*format!\("([^"]*)",\s*addr,\s*port\)\s*\}\s*else\s*\{\s*format!\("([^"]*)",\s*addr,\s*port\)\s*\};', t)
    if not base:
        raise TranslateError('new: base_url not in the expected shape')
    cls_coq = {'Mesh': 'CMesh', 'Image': 'CImage', 'Audio': 'CAudio'}
    out = ['(* GENERATED by tools/lib/bvlib/src2v.py from /repo/src/networking/assets/mod.rs — do not edit *)',
           'From Coq Require Import List NArith String.', 'From BS Require Import Http.Route.', 'Import ListNotations.', 'Local Open Scope N_scope.', '']
    out.append('(* router chain of `respond`, in source order: (substring tested, prefix stripped, class) *)')
    out.append('Definition src_router : list (list N * list N * class) :=\n  [' + ';\n   '.join('(%s, %s, %s)' % (coq_bytes(c), coq_bytes(s), cls_coq[k]) for c, s, k in chain) + '].')
    out.append('(* per class arm: (class, cache read = cache served 1/0, status when poisoned, status when missing) *)')
    rows = []
    for (k, cachev, stp, stm, thr) in arm_rows:
        same = 1 if cachev == cache_param[k] else 0
        thr_ok = 1 if thr == sig.group(1) else 0
        rows.append('(%s, %d, %d, %d, %d)' % (cls_coq[k], same, stp, stm, thr_ok))
    out.append('Definition src_arms : list (class * N * N * N * N) :=\n  [' + '; '.join(rows) + '].')
    out.append('(* serve_<class>: (class, writes its own cache 1/0, first bytes win 1/0, url segment) *)')
    own = {'Mesh': 'meshes', 'Image': 'images', 'Audio': 'audios'}
    out.append('Definition src_serve : list (class * N * N * list N) :=\n  [' + ';\n   '.join(
        '(%s, %d, %d, %s)' % (cls_coq[c], 1 if lk == own[c] else 0, 1 if mode == 'first_wins' else 0, coq_bytes(seg)) for c, lk, mode, seg in serve_rows) + '].')
    out.append('(* request(): 1 = download skipped iff the *mesh* cache holds the id, 2 = no guard, 0 = other *)')
    g = 0
    if guard:
        g = 1 if guard.group(2) == 'meshes' else 0
    elif 'contains_key' not in req:
        g = 2
    out.append('Definition src_request_guard : N := %d.' % g)
    out.append('Definition src_base_url_formats : list (list N) := [%s; %s].' % (coq_bytes(base.group(1)), coq_bytes(base.group(2))))
    out.append('')
    return '\n'.join(out)


GENERATORS = {'Routes': gen_routes}


def regenerate(names):
    """Regenerate the named gen files. Returns list of (name, error) for failures."""
    failures = []
    for n in names:
        path = os.path.join(core.COQ, 'gen', n + '.v')
        try:
            text = GENERATORS[n]()
        except (TranslateError, OSError, ValueError) as e:
            failures.append((n, str(e)))
            text = '(* translator failed: %s *)\nDefinition translator_failed_%s : False := I.\n' % (str(e).replace('*)', '* )'), n)
        core.write_if_changed(path, text)
    return failures

from . import src2v_codec; GENERATORS.update(src2v_codec.GENERATORS)
from . import src2v_sched; GENERATORS.update(src2v_sched.GENERATORS)
