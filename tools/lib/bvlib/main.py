"""Command line: setup / check / replay / lock."""
import importlib, json, os, sys, time, traceback
from . import core, src2v

PROPS = {
    # id: (property .v file, gen tables it needs, runner module)
    'C14': ('theories/Properties/C14.v', ['Routes'], 'c14'),
    'C11': ('theories/Properties/C11.v', ['MeshLayout'], 'c11'),
    'C12': ('theories/Properties/C12.v', ['ProtoLayout'], 'c12'),
    'C13': ('theories/Properties/C13.v', ['ImageLayout', 'FormatNames'], 'c13'),
    'C01': ('theories/Properties/C01.v', [], 'c01'),
    'C02': ('theories/Properties/C02.v', [], 'c02'),
    'C05': ('theories/Properties/C05.v', [], 'c05'),
    'C03': ('theories/Properties/C03.v', [], 'c03'),
    'C04': ('theories/Properties/C04.v', [], 'c04'),
    'C06': ('theories/Properties/C06.v', [], 'c06'),
    'C07': ('theories/Properties/C07.v', [], 'c07'),
    'C08': ('theories/Properties/C08.v', [], 'c08'),
    'C09': ('theories/Properties/C09.v', [], 'c09'),
    'C10': ('theories/Properties/C10.v', [], 'c10'),
    'C15': ('theories/Properties/C15.v', [], 'c15'),
    'C16': ('theories/Properties/C16.v', [], 'c16'),
    'C17': ('theories/Properties/C17.v', [], 'c17'),
}


def setup():
    """Build everything from files on disk. The whole Coq development is built with `make -k`
    (files that are still being worked on and are not in the cone of a claimed property must not
    stop the build); what has to succeed: the cone of every registered property, the extraction,
    the driver and the harness."""
    t0 = time.time()
    src2v.regenerate(sorted(src2v.GENERATORS))
    core.coq_makefile()
    rc, out = core.run(['make', '-k', '-j%d' % core.NCPU], cwd=core.COQ, timeout=3000)
    core.log('coq build (make -k)', 'ok' if rc == 0 else 'some files failed (checked per property below)')
    ok = True
    for prop, (pfile, gens, _) in sorted(PROPS.items()):
        okp, outp, failing = core.coq_make([pfile + 'o'])
        if not okp:
            ok = False
            core.log('property cone FAILED:', prop, failing)
            print(outp[-1500:])
    ok2, msg = core.build_model_driver()
    core.log('driver:', msg if ok2 else 'FAILED ' + msg)
    ok3, msg = core.build_harness()
    core.log('harness:', 'ok' if ok3 else 'FAILED ' + msg)
    core.log('setup done in %.0fs' % (time.time() - t0))
    return 0 if (ok and ok2 and ok3) else 1


def check(prop, tier, seed):
    t0 = time.time()
    pfile, gens, modname = PROPS[prop]
    mod = importlib.import_module('bvlib.props.' + modname)
    broken = []          # obligations / ties that no longer check (not yet a violation by themselves)
    # 1. source-derived tables
    # all tables are regenerated (the extraction needs every model file, and a table left over from
    # a run on a different tree must not survive); only a failure of this property's own tables is
    # reported as a translator failure, another one shows up as a model that does not build
    for name, err in src2v.regenerate(sorted(src2v.GENERATORS)):
        if name in gens:
            broken.append(dict(kind='translator', what='gen/%s.v: %s' % (name, err)))
    # 2. Coq cone of the property, fresh compile of the property file
    b = core.build_property(pfile)
    if not b['ok']:
        broken.append(dict(kind='proof', what='Coq build fails at %s' % b['failing'], output=b['output'][-1500:]))
    nfiles, audit = core.audit_sources()
    for a in audit:
        broken.append(dict(kind='audit', what=a))
    closed = [a for a in b['assumptions'] if a[0]]
    for c, axs in b['assumptions']:
        bad = [x for x in axs if x not in core.ALLOWED_AXIOMS]
        if bad:
            broken.append(dict(kind='axioms', what='property theorem depends on axioms: ' + ', '.join(bad)))
    lockprobs = []
    core.check_statements_lock(pfile, lockprobs)
    for lp in lockprobs:
        broken.append(dict(kind='statement', what=lp))
    # 3. executable model + harness against the current tree
    okd, msg = core.build_model_driver()
    if not okd:
        broken.append(dict(kind='model', what=msg[-1500:]))
    okh, msg = core.build_harness()
    if not okh:
        broken.append(dict(kind='harness', what='harness does not build against the current /repo tree: ' + msg[-1500:]))
    # 4. correspondence + oracles (property specific)
    ctx = dict(prop=prop, tier=tier, seed=seed, driver_ok=okd, harness_ok=okh, broken=broken, t0=t0)
    res = dict(evaluations=0, distinct_nontrivial=0, rule='', samples=[], diffs=[], failures=[], extra={})
    if okh:
        try:
            res = mod.run(ctx)
        except Exception as e:  # a crash of our own machinery is a broken check, reported as such
            broken.append(dict(kind='machinery', what='runner crashed: %r' % e, output=traceback.format_exc()[-1500:]))
    for d in res.get('diffs', [])[:20]:
        broken.append(dict(kind='correspondence', what=d))
    # 5. verdict
    findings = [f for f in core.known_findings() if f['property'] == prop and f.get('status') == 'open']
    violations, known_hit = [], {}
    for f in res.get('failures', []):
        k = next((kf for kf in findings if kf['signature'] == f.get('signature')), None)
        if k is not None:
            known_hit.setdefault(k['id'], (k, f))
        else:
            violations.append(f)
    if broken and not violations and okh:
        # failing-input search: more seeds of the property oracle on the real code
        try:
            extra = mod.search(ctx, broken)
        except Exception as e:
            extra = []
            broken.append(dict(kind='machinery', what='search crashed: %r' % e))
        for f in extra:
            k = next((kf for kf in findings if kf['signature'] == f.get('signature')), None)
            if k is None:
                violations.append(f)
    lines, rc = [], 0
    for kid, (k, f) in sorted(known_hit.items()):
        lines.append('KNOWN-FINDING: property=%s %s (%s)' % (prop, k['what'], k['id']))
    if violations:
        rc = 1
        f = violations[0]
        path = core.write_replay(prop, 'violation', dict(property=prop, failure=f, broken=broken, seed=seed,
                                                          replay_hint=f.get('replay')))
        where = (f.get('origin') or {}).get('name') or (f.get('origin') or {}).get('cmd') or ''
        lines.append('  failing input [%s]%s: %s' % (f.get('signature'), (' in ' + str(where)) if where else '', str(f.get('what'))[:500].replace('\n', ' ')))
        for bk in broken[:3]:
            lines.append('  also no longer checks [%s]: %s' % (bk.get('kind'), str(bk.get('what'))[:400].replace('\n', ' ')))
        lines.append('VIOLATION property=%s replay=%s' % (prop, path))
    elif broken:
        rc = 1
        path = core.write_replay(prop, 'broken', dict(property=prop, broken=broken, seed=seed,
                                                       note='no concrete failing input found; the listed theorem / correspondence no longer checks'))
        for bk in broken[:6]:
            lines.append('  no longer checks [%s]: %s' % (bk.get('kind'), str(bk.get('what'))[:700].replace('\n', ' ')))
        lines.append('VIOLATION property=%s replay=%s no-failing-input-found' % (prop, path))
    wall = time.time() - t0
    # when the build fails, only the obligations of the cone files that did compile count as discharged
    discharged = b['obligations'] if b['ok'] else core.count_obligations([f for f in b['cone'] if core.vo_fresh(f)])
    cov = dict(obligations=b['obligations'], discharged=discharged,
               checker_cmd='make -C coq %so (coqc 8.16.1, full .vo build) ; Print Assumptions parsed' % pfile,
               trusted_base=core.TRUSTED_BASE_COMMON + res.get('trusted_base', []),
               property_theorems_closed=len(closed),
               coq_files_in_cone=b['cone'], coq_files_audited=nfiles,
               evaluations=res['evaluations'], distinct_nontrivial=res['distinct_nontrivial'],
               rule=res['rule'], samples=res['samples'][:6],
               traces_validated_against_impl=res.get('traces', 0),
               correspondence_differences=len(res.get('diffs', [])),
               broken=[x['what'][:300] for x in broken],
               known_findings_reported=sorted(known_hit), repo_src_hash=core.repo_src_hash())
    if cov['discharged'] < 1:
        del cov['discharged']      # nothing compiled: the generic counts below stand in (schema: generic_fallback)
    cov.update(res.get('extra', {}))
    core.write_evidence(prop, tier, seed, cov, res.get('assumptions', []), wall, len(violations) + (1 if (broken and not violations) else 0))
    for l in lines:
        print(l)
    core.log('%s %s: %s in %.0fs (%d obligations, %d evaluations, %d diffs)' % (
        prop, tier, 'OK' if rc == 0 else 'FAIL', wall, b['obligations'], res['evaluations'], len(res.get('diffs', []))))
    return rc


def main(argv):
    if not argv:
        print(__doc__)
        return 2
    cmd = argv[0]
    if cmd == 'setup':
        return setup()
    if cmd == 'lock':
        print(json.dumps(core.write_statements_lock(), indent=1))
        return 0
    if cmd == 'check':
        prop = argv[1]
        tier = os.environ.get('VERIF_TIER', 'quick')
        if '--tier' in argv:
            tier = argv[argv.index('--tier') + 1]
        seed = int(os.environ.get('VERIF_SEED', '1') or 1)
        return check(prop, tier, seed)
    if cmd == 'replay':
        data = json.load(open(argv[1]))
        mod = importlib.import_module('bvlib.props.' + PROPS[data['property']][2])
        return mod.replay(data)
    print('unknown command', cmd)
    return 2
